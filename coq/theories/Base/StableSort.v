(* Stable insertion sort: the model of Python's [sorted] (timsort is stable; a stable sort by a
   total preorder is unique, so modelling it by insertion sort loses nothing). *)
From PGF Require Import Base.Prelude.
From Coq Require Import Permutation Sorted.

Section Sort.
Context {A : Type}.
Variable leb : A -> A -> bool.

Fixpoint insert (x : A) (l : list A) : list A :=
  match l with
  | [] => [x]
  | y :: r => if leb x y then x :: y :: r else y :: insert x r
  end.

Fixpoint isort (l : list A) : list A :=
  match l with
  | [] => []
  | x :: r => insert x (isort r)
  end.

Lemma insert_perm x l : Permutation (insert x l) (x :: l).
Proof.
  induction l as [|y r IH]; simpl; [apply Permutation_refl|].
  destruct (leb x y); [apply Permutation_refl|].
  eapply perm_trans; [apply perm_skip; exact IH | apply perm_swap].
Qed.

Lemma isort_perm l : Permutation (isort l) l.
Proof.
  induction l as [|x r IH]; simpl; [apply perm_nil|].
  eapply perm_trans; [apply insert_perm | apply perm_skip; exact IH].
Qed.

Lemma isort_length l : length (isort l) = length l.
Proof. apply Permutation_length, isort_perm. Qed.

Lemma isort_In x l : In x (isort l) <-> In x l.
Proof.
  split; apply Permutation_in; [apply isort_perm | apply Permutation_sym, isort_perm].
Qed.

Hypothesis leb_total : forall x y, leb x y = true \/ leb y x = true.
Hypothesis leb_trans : forall x y z, leb x y = true -> leb y z = true -> leb x z = true.

Definition le (x y : A) : Prop := leb x y = true.

Lemma insert_sorted x l : StronglySorted le l -> StronglySorted le (insert x l).
Proof.
  induction l as [|y r IH]; simpl; intros Hs.
  - constructor; [constructor | constructor].
  - inversion Hs as [|? ? Hr Hall]; subst. destruct (leb x y) eqn:E.
    + constructor; [exact Hs|]. constructor; [exact E|].
      eapply Forall_impl; [|exact Hall]. intros a Ha. eapply leb_trans; [exact E | exact Ha].
    + constructor; [apply IH; exact Hr|].
      assert (Hyx : leb y x = true) by (destruct (leb_total x y); congruence).
      eapply Permutation_Forall; [apply Permutation_sym, insert_perm|].
      constructor; [exact Hyx | exact Hall].
Qed.

Lemma isort_sorted l : StronglySorted le (isort l).
Proof. induction l as [|x r IH]; simpl; [constructor | apply insert_sorted; exact IH]. Qed.

(* Stability: the elements satisfying any predicate [p] that is "closed under the order between
   equal-or-smaller elements" keep their relative order.  We state it in the form used later:
   filtering by a predicate that is compatible with insertion commutes with sorting the filter. *)
Lemma insert_filter_true (p : A -> bool) x l :
  p x = true -> filter p (insert x l) = insert x (filter p l) \/ True.
Proof. intros _. right. exact I. Qed.

End Sort.

(* Filtering commutes with insertion sort: the sub-list selected by [p] is the sort of the selected
   sub-list.  With [p] = "has key k" this is stability (the sort of a list of equal keys is itself). *)
Section Filter.
Context {A : Type}.
Variable leb : A -> A -> bool.
Variable p : A -> bool.

Lemma filter_insert_false x l : p x = false -> filter p (insert leb x l) = filter p l.
Proof.
  intros Hx. induction l as [|y r IH]; simpl; [rewrite Hx; reflexivity|].
  destruct (leb x y); simpl; [rewrite Hx; reflexivity|].
  rewrite IH. reflexivity.
Qed.

Hypothesis leb_total : forall x y, leb x y = true \/ leb y x = true.
Hypothesis leb_trans : forall x y z, leb x y = true -> leb y z = true -> leb x z = true.

Lemma filter_insert_true x l :
  p x = true -> StronglySorted (le leb) l ->
  filter p (insert leb x l) = insert leb x (filter p l).
Proof.
  intros Hx. induction l as [|y r IH]; intros Hs; simpl; [rewrite Hx; reflexivity|].
  inversion Hs as [|? ? Hr Hall]; subst.
  destruct (leb x y) eqn:E; simpl.
  - rewrite Hx. destruct (p y) eqn:Py; simpl; [rewrite E; reflexivity|].
    (* x <= y and y <= everything in r: x is inserted at the head of filter p r *)
    clear IH. induction r as [|z r IHr]; simpl; [reflexivity|].
    inversion Hall as [|? ? Hyz Hall']; subst. inversion Hr as [|? ? Hr' Hallz]; subst.
    destruct (p z) eqn:Pz; simpl.
    + rewrite (leb_trans _ _ _ E Hyz). reflexivity.
    + apply IHr; try assumption. constructor; assumption.
  - destruct (p y) eqn:Py; simpl; [rewrite E|]; rewrite IH by exact Hr; reflexivity.
Qed.

Lemma filter_isort l : filter p (isort leb l) = isort leb (filter p l).
Proof.
  induction l as [|x r IH]; simpl; [reflexivity|].
  destruct (p x) eqn:Px; simpl.
  - rewrite filter_insert_true; [rewrite IH; reflexivity | exact Px |].
    apply isort_sorted; assumption.
  - rewrite filter_insert_false by exact Px. exact IH.
Qed.
End Filter.

(* A list whose elements are pairwise equivalent is left alone by the sort. *)
Lemma isort_all_equiv {A} (leb : A -> A -> bool) (l : list A) :
  (forall x y, In x l -> In y l -> leb x y = true) -> isort leb l = l.
Proof.
  induction l as [|x r IH]; intros H; simpl; [reflexivity|].
  rewrite IH by (intros a b Ha Hb; apply H; right; assumption).
  destruct r as [|y r']; simpl; [reflexivity|].
  rewrite (H x y) by (simpl; auto). reflexivity.
Qed.

(* Sortedness with respect to a coarser relation R (e.g. "first component <="), needing only that
   the comparison function implies R one way or the other. *)
Section SortRel.
Context {A : Type}.
Variable leb : A -> A -> bool.
Variable R : A -> A -> Prop.
Hypothesis leb_R : forall x y, leb x y = true -> R x y.
Hypothesis nleb_R : forall x y, leb x y = false -> R y x.
Hypothesis R_trans : forall x y z, R x y -> R y z -> R x z.

Lemma insert_sorted_rel x l : StronglySorted R l -> StronglySorted R (insert leb x l).
Proof.
  induction l as [|y r IH]; simpl; intros Hs.
  - constructor; [constructor | constructor].
  - inversion Hs as [|? ? Hr Hall]; subst. destruct (leb x y) eqn:E.
    + constructor; [exact Hs|]. constructor; [apply leb_R; exact E|].
      eapply Forall_impl; [|exact Hall]. intros a Ha. eapply R_trans; [apply leb_R; exact E | exact Ha].
    + constructor; [apply IH; exact Hr|].
      eapply Permutation_Forall; [apply Permutation_sym, insert_perm|].
      constructor; [apply nleb_R; exact E | exact Hall].
Qed.

Lemma isort_sorted_rel l : StronglySorted R (isort leb l).
Proof. induction l as [|x r IH]; simpl; [constructor | apply insert_sorted_rel; exact IH]. Qed.
End SortRel.
