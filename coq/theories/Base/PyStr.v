(* Python str operations on code-point lists (definitions + the lemmas the properties need). *)
From PGF Require Import Base.Prelude.

Fixpoint startswith (p s : str) : bool :=
  match p, s with
  | [], _ => true
  | a :: p', b :: s' => N.eqb a b && startswith p' s'
  | _ :: _, [] => false
  end.

(* [contains p s]  =  Python  [p in s] *)
Fixpoint contains (p s : str) : bool :=
  startswith p s ||
  match s with
  | [] => false
  | _ :: s' => contains p s'
  end.

(* str.replace(old, new) for non-empty [old]: leftmost, non-overlapping.
   [fuel] is the length of the string, which always suffices. *)
Fixpoint replace_fuel (fuel : nat) (old new s : str) : str :=
  match fuel with
  | O => s
  | S f =>
    match s with
    | [] => []
    | c :: s' =>
      if startswith old s then new ++ replace_fuel f old new (skipn (length old) s)
      else c :: replace_fuel f old new s'
    end
  end.
Definition replace_all (old new s : str) : str :=
  match old with
  | [] => s   (* never used with an empty pattern *)
  | _ => replace_fuel (S (length s)) old new s
  end.

(* str.split(sep) for a one-character separator *)
Fixpoint split_chr (sep : N) (s : str) : list str :=
  match s with
  | [] => [[]]
  | c :: s' =>
    if N.eqb c sep then [] :: split_chr sep s'
    else match split_chr sep s' with
         | [] => [[c]]            (* unreachable *)
         | w :: ws => (c :: w) :: ws
         end
  end.

Fixpoint join (sep : str) (l : list str) : str :=
  match l with
  | [] => []
  | [x] => x
  | x :: r => x ++ sep ++ join sep r
  end.

(* Python's str comparison: lexicographic on code points *)
Fixpoint str_compare (a b : str) : comparison :=
  match a, b with
  | [], [] => Eq
  | [], _ :: _ => Lt
  | _ :: _, [] => Gt
  | x :: a', y :: b' =>
    match N.compare x y with
    | Eq => str_compare a' b'
    | c => c
    end
  end.
Definition str_ltb (a b : str) : bool := match str_compare a b with Lt => true | _ => false end.
Definition str_leb (a b : str) : bool := match str_compare a b with Gt => false | _ => true end.

(* lexicographic comparison of lists of strings (Python list comparison) *)
Fixpoint strs_compare (a b : list str) : comparison :=
  match a, b with
  | [], [] => Eq
  | [], _ :: _ => Lt
  | _ :: _, [] => Gt
  | x :: a', y :: b' =>
    match str_compare x y with
    | Eq => strs_compare a' b'
    | c => c
    end
  end.

(* ---------- lemmas ---------- *)

Lemma startswith_app p s : startswith p (p ++ s) = true.
Proof. induction p as [|a p IH]; simpl; [reflexivity|]. rewrite N.eqb_refl. exact IH. Qed.

Lemma startswith_spec p s : startswith p s = true <-> exists t, s = p ++ t.
Proof.
  revert s. induction p as [|a p IH]; intros s; simpl.
  - split; [intros _; exists s; reflexivity | reflexivity].
  - destruct s as [|b s]; [split; [discriminate | intros [t Ht]; discriminate]|].
    rewrite andb_true_iff, N.eqb_eq, IH. split.
    + intros [-> [t ->]]. exists t. reflexivity.
    + intros [t Ht]. inversion Ht; subst. split; [reflexivity | exists t; reflexivity].
Qed.

Lemma contains_spec p s : contains p s = true <-> exists u v, s = u ++ p ++ v.
Proof.
  induction s as [|c s IH]; simpl.
  - rewrite orb_false_r. rewrite startswith_spec. split.
    + intros [t Ht]. exists [], t. exact Ht.
    + intros [u [v H]]. destruct u; [exists v; exact H | discriminate].
  - rewrite orb_true_iff, startswith_spec, IH. split.
    + intros [[t Ht] | [u [v H]]].
      * exists [], t. exact Ht.
      * exists (c :: u), v. simpl. rewrite H. reflexivity.
    + intros [u [v H]]. destruct u as [|d u].
      * left. exists v. exact H.
      * right. inversion H; subst. exists u, v. reflexivity.
Qed.

Lemma str_compare_refl a : str_compare a a = Eq.
Proof. induction a as [|x a IH]; simpl; [reflexivity|]. rewrite N.compare_refl. exact IH. Qed.

Lemma str_compare_eq a b : str_compare a b = Eq <-> a = b.
Proof.
  revert b. induction a as [|x a IH]; intros [|y b]; simpl; split; intros H;
    try reflexivity; try discriminate.
  - destruct (N.compare x y) eqn:E; try discriminate.
    apply N.compare_eq in E. apply IH in H. congruence.
  - inversion H; subst. rewrite N.compare_refl. apply str_compare_refl.
Qed.

Lemma str_compare_antisym a b : str_compare b a = CompOpp (str_compare a b).
Proof.
  revert b. induction a as [|x a IH]; intros [|y b]; simpl; try reflexivity.
  rewrite (N.compare_antisym x y). destruct (N.compare x y); simpl; auto.
Qed.

Lemma str_compare_trans_lt a b c :
  str_compare a b = Lt -> str_compare b c = Lt -> str_compare a c = Lt.
Proof.
  revert b c. induction a as [|x a IH]; intros [|y b] [|z c]; simpl; try discriminate; auto.
  destruct (N.compare x y) eqn:E1; try discriminate.
  - apply N.compare_eq in E1. subst y.
    destruct (N.compare x z) eqn:E2; try discriminate; auto. apply IH.
  - intros _. destruct (N.compare y z) eqn:E2; try discriminate.
    + apply N.compare_eq in E2. subst z. rewrite E1. reflexivity.
    + intros _. rewrite N.compare_lt_iff in *. assert (H : (x < z)%N) by lia.
      apply N.compare_lt_iff in H. rewrite H. reflexivity.
Qed.

Lemma str_leb_total a b : str_leb a b = true \/ str_leb b a = true.
Proof.
  unfold str_leb. rewrite (str_compare_antisym a b).
  destruct (str_compare a b); simpl; auto.
Qed.

Lemma str_leb_trans a b c : str_leb a b = true -> str_leb b c = true -> str_leb a c = true.
Proof.
  unfold str_leb. intros H1 H2.
  destruct (str_compare a b) eqn:E1; try discriminate.
  - apply str_compare_eq in E1. subst. exact H2.
  - destruct (str_compare b c) eqn:E2; try discriminate.
    + apply str_compare_eq in E2. subst. rewrite E1. reflexivity.
    + rewrite (str_compare_trans_lt _ _ _ E1 E2). reflexivity.
Qed.

Lemma str_leb_antisym a b : str_leb a b = true -> str_leb b a = true -> a = b.
Proof.
  unfold str_leb. rewrite (str_compare_antisym a b).
  destruct (str_compare a b) eqn:E; simpl; try discriminate.
  intros _ _. apply str_compare_eq. exact E.
Qed.
