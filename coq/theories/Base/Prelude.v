(* Base definitions shared by every model file: Python strings as lists of code points,
   Python exceptions as an explicit result type, and a tiny boolean-equality class used
   only by the correspondence check (Harness/*.v), never by theorems. *)
From Coq Require Export String Ascii.
From Coq Require Export List Bool Arith NArith ZArith QArith Lia.
Export ListNotations.

(* ---------- strings ---------- *)
Definition str := list N.

Fixpoint s2l (s : string) : str :=
  match s with
  | EmptyString => []
  | String a r => N_of_ascii a :: s2l r
  end.

(* ---------- results ---------- *)
Inductive exn :=
  | KeyError | IndexError | ValueError | AttributeError | StaleIndex
  | NotImplemented | NoScores | OtherError.

Inductive res (A : Type) :=
  | Ok (a : A)
  | Raise (e : exn).
Arguments Ok {A} a.
Arguments Raise {A} e.

Definition bind {A B} (r : res A) (f : A -> res B) : res B :=
  match r with Ok a => f a | Raise e => Raise e end.

(* ---------- boolean equality, for the correspondence check only ---------- *)
Class Eqb (A : Type) := eqb : A -> A -> bool.

#[export] Instance Eqb_N : Eqb N := N.eqb.
#[export] Instance Eqb_Z : Eqb Z := Z.eqb.
#[export] Instance Eqb_nat : Eqb nat := Nat.eqb.
#[export] Instance Eqb_bool : Eqb bool := Bool.eqb.
#[export] Instance Eqb_Q : Eqb Q := Qeq_bool.
#[export] Instance Eqb_unit : Eqb unit := fun _ _ => true.

Fixpoint list_eqb {A} (e : A -> A -> bool) (l1 l2 : list A) : bool :=
  match l1, l2 with
  | [], [] => true
  | x :: r1, y :: r2 => e x y && list_eqb e r1 r2
  | _, _ => false
  end.
#[export] Instance Eqb_list {A} `{Eqb A} : Eqb (list A) := list_eqb eqb.

#[export] Instance Eqb_option {A} `{Eqb A} : Eqb (option A) :=
  fun a b => match a, b with
             | Some x, Some y => eqb x y
             | None, None => true
             | _, _ => false
             end.

#[export] Instance Eqb_prod {A B} `{Eqb A} `{Eqb B} : Eqb (A * B) :=
  fun a b => eqb (fst a) (fst b) && eqb (snd a) (snd b).

Definition exn_eqb (a b : exn) : bool :=
  match a, b with
  | KeyError, KeyError | IndexError, IndexError | ValueError, ValueError
  | AttributeError, AttributeError | StaleIndex, StaleIndex
  | NotImplemented, NotImplemented | NoScores, NoScores | OtherError, OtherError => true
  | _, _ => false
  end.
#[export] Instance Eqb_exn : Eqb exn := exn_eqb.

#[export] Instance Eqb_res {A} `{Eqb A} : Eqb (res A) :=
  fun a b => match a, b with
             | Ok x, Ok y => eqb x y
             | Raise e1, Raise e2 => exn_eqb e1 e2
             | _, _ => false
             end.

(* indices (as N) of the cases on which a boolean check fails *)
Fixpoint bad_from {A} (chk : A -> bool) (i : N) (l : list A) : list N :=
  match l with
  | [] => []
  | x :: r => if chk x then bad_from chk (N.succ i) r else i :: bad_from chk (N.succ i) r
  end.
Definition bad_indices {A} (chk : A -> bool) (l : list A) : list N := bad_from chk 0%N l.

(* ---------- small list utilities ---------- *)
Definition str_eqb : str -> str -> bool := list_eqb N.eqb.

Lemma list_eqb_spec {A} (e : A -> A -> bool) :
  (forall x y, e x y = true <-> x = y) ->
  forall l1 l2, list_eqb e l1 l2 = true <-> l1 = l2.
Proof.
  intros He. induction l1 as [|x r IH]; intros [|y r2]; simpl; split; intros H;
    try reflexivity; try discriminate.
  - apply andb_prop in H. destruct H as [H1 H2]. apply He in H1. apply IH in H2. congruence.
  - inversion H; subst. apply andb_true_intro. split; [apply He; reflexivity | apply IH; reflexivity].
Qed.

Lemma str_eqb_eq (a b : str) : str_eqb a b = true <-> a = b.
Proof. apply list_eqb_spec. intros x y. apply N.eqb_eq. Qed.

Lemma str_eqb_refl (a : str) : str_eqb a a = true.
Proof. apply str_eqb_eq. reflexivity. Qed.

Lemma str_eqb_neq (a b : str) : str_eqb a b = false <-> a <> b.
Proof.
  split.
  - intros H E. apply str_eqb_eq in E. congruence.
  - intros H. destruct (str_eqb a b) eqn:E; [apply str_eqb_eq in E; contradiction | reflexivity].
Qed.

Definition mem_str (x : str) (l : list str) : bool := existsb (str_eqb x) l.

Lemma mem_str_In x l : mem_str x l = true <-> In x l.
Proof.
  unfold mem_str. rewrite existsb_exists. split.
  - intros [y [Hy He]]. apply str_eqb_eq in He. subst. exact Hy.
  - intros H. exists x. split; [exact H | apply str_eqb_refl].
Qed.

(* QArith opens Q_scope globally; keep numerals in nat unless a file asks otherwise *)
Close Scope Q_scope.
