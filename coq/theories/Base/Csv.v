(* The csv dialect the tool uses (tsv.get_tsv_writer / get_tsv_reader): delimiter TAB, double-quote as quote
   character, doubled quotes, QUOTE_MINIMAL, line terminator CR LF.  Writer and reader on code-point lists. *)
From PGF Require Import Base.Prelude.

Definition TAB := 9%N. Definition CR := 13%N. Definition LF := 10%N. Definition QT := 34%N.

Definition special (c : N) : bool := N.eqb c TAB || N.eqb c QT || N.eqb c CR || N.eqb c LF.
Definition needs_quote (f : str) : bool := existsb special f.

Definition enc_field (f : str) : str :=
  if needs_quote f then QT :: flat_map (fun c => if N.eqb c QT then [QT; QT] else [c]) f ++ [QT] else f.

Fixpoint enc_fields (fs : list str) : str :=
  match fs with
  | [] => []
  | [f] => enc_field f
  | f :: r => enc_field f ++ TAB :: enc_fields r
  end.

(* a row consisting of one empty field is written as two quote characters so that it does not read back as an empty row *)
Definition enc_row (fs : list str) : str :=
  (match fs with [[]] => [QT; QT] | _ => enc_fields fs end) ++ [CR; LF].

Definition csv_write (rows : list (list str)) : str := flat_map enc_row rows.

(* ---- reader ---- *)
Inductive rstate := StartRecord | StartField | InField | InQuoted | QuoteInQuoted | EatLF.

(* accumulators: finished rows (reversed), fields of the current row (reversed), current field (reversed) *)
(* one step on character c in state st; EatLF followed by a non-LF character behaves like StartRecord *)
Definition norm (st : rstate) (c : N) : rstate :=
  match st with EatLF => if N.eqb c LF then EatLF else StartRecord | _ => st end.

Fixpoint csv_go (st : rstate) (rows : list (list str)) (fields : list str) (cur : str) (s : str) : list (list str) :=
  match s with
  | [] =>
    match st with
    | StartRecord | EatLF => rev rows
    | _ => rev (rev (rev cur :: fields) :: rows)
    end
  | c :: r =>
    match norm st c with
    | EatLF => csv_go StartRecord rows [] [] r                              (* the LF of a CR LF pair *)
    | StartRecord =>
      if N.eqb c CR then csv_go EatLF ([] :: rows) [] [] r                  (* a blank line is an empty row *)
      else if N.eqb c LF then csv_go StartRecord ([] :: rows) [] [] r
      else if N.eqb c QT then csv_go InQuoted rows [] [] r
      else if N.eqb c TAB then csv_go StartField rows [[]] [] r
      else csv_go InField rows [] [c] r
    | StartField =>
      if N.eqb c CR then csv_go EatLF (rev ([] :: fields) :: rows) [] [] r
      else if N.eqb c LF then csv_go StartRecord (rev ([] :: fields) :: rows) [] [] r
      else if N.eqb c QT then csv_go InQuoted rows fields [] r
      else if N.eqb c TAB then csv_go StartField rows ([] :: fields) [] r
      else csv_go InField rows fields [c] r
    | InField =>
      if N.eqb c TAB then csv_go StartField rows (rev cur :: fields) [] r
      else if N.eqb c CR then csv_go EatLF (rev (rev cur :: fields) :: rows) [] [] r
      else if N.eqb c LF then csv_go StartRecord (rev (rev cur :: fields) :: rows) [] [] r
      else csv_go InField rows fields (c :: cur) r
    | InQuoted =>
      if N.eqb c QT then csv_go QuoteInQuoted rows fields cur r
      else csv_go InQuoted rows fields (c :: cur) r
    | QuoteInQuoted =>
      if N.eqb c QT then csv_go InQuoted rows fields (QT :: cur) r
      else if N.eqb c TAB then csv_go StartField rows (rev cur :: fields) [] r
      else if N.eqb c CR then csv_go EatLF (rev (rev cur :: fields) :: rows) [] [] r
      else if N.eqb c LF then csv_go StartRecord (rev (rev cur :: fields) :: rows) [] [] r
      else csv_go InField rows fields (c :: cur) r
    end
  end.

Definition csv_read (s : str) : list (list str) := csv_go StartRecord [] [] [] s.
