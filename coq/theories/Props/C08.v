(* C08 — in-silico digestion yields exactly the peptides the cleavage rule defines.
   Statements only.  [spec_digest e k s mn mx mc met] is the declarative rule: all substrings s[a:b] whose length
   lies in [mn, mx], with at least k of their two ends at an admissible terminus (protein terminus, enzymatic
   site, site behind a removable initiator methionine) and spanning at most mc enzymatic sites
   (k = 2 full, 1 semi-specific, 0 non-specific: no terminus or budget condition).
   All three digestion modes are proved for ALL non-empty sequences, enzymes, windows (min_len >= 1), missed-cleavage
   budgets and methionine settings. *)
From PGF Require Import Base.Prelude Base.PyStr Model.Digest Proofs.DigestProofs Proofs.DigestFull Proofs.DigestSemi Gen.Enzymes_gen.

(* a cleavage site is exactly a position after a 'pre' residue not followed by a 'not_post' residue, or before a 'post' residue *)
Theorem C08_site_iff_rule : forall e s b,
  site e s b = true <->
  1 <= b < length s /\ ((In (at_ s (b - 1)) (pre e) /\ ~ In (at_ s b) (not_post e)) \/ In (at_ s b) (post e)).
Proof. exact site_rule. Qed.
Print Assumptions C08_site_iff_rule.

Theorem C08_is_enzymatic_rule : forall e a b,
  is_enzymatic e a b = true <-> (In a (pre e) /\ ~ In b (not_post e)) \/ In b (post e).
Proof. exact is_enzymatic_rule. Qed.
Print Assumptions C08_is_enzymatic_rule.

(* what the declarative rule says *)
Theorem C08_spec_meaning : forall e k s mn mx mc met p,
  In p (spec_digest e k s mn mx mc met) <->
  exists a b, spec_ok e k s mn mx mc met a b = true /\ p = slice s a b.
Proof. exact spec_digest_In. Qed.
Print Assumptions C08_spec_meaning.

(* non-specific digestion, every sequence and window *)
Theorem C08_non_specific_digest_spec : forall e s mn mx mc met p,
  1 <= mn ->
  (In p (non_specific_digest s mn mx) <-> In p (spec_digest e 0 s mn mx mc met)).
Proof. exact non_specific_digest_spec. Qed.
Print Assumptions C08_non_specific_digest_spec.

(* full digestion, every non-empty sequence, every enzyme, window, missed-cleavage budget and methionine setting:
   loop invariant "the open starts are the last mc+1 boundaries" (with the initiator-methionine site: all of them while at
   most mc+2 boundaries were seen) + counting of the enzymatic sites between two boundaries *)
Theorem C08_full_digest_spec : forall e s mn mx mc met p,
  1 <= length s -> 1 <= mn ->
  (In p (full_digest e s mn mx mc met) <-> In p (spec_digest e 2 s mn mx mc met)).
Proof. exact full_digest_spec. Qed.
Print Assumptions C08_full_digest_spec.

(* semi-specific digestion, likewise for all inputs: position-by-position invariant (the open starts are the last mc+1
   registered boundaries; an admissible end admits every start from the first open one on, an inadmissible end exactly the
   open starts), the clamped residue pair at the last position, and the three methionine situations *)
Theorem C08_semi_digest_spec : forall e s mn mx mc met p,
  1 <= length s -> 1 <= mn ->
  (In p (semi_specific_digest e s mn mx mc met) <-> In p (spec_digest e 1 s mn mx mc met)).
Proof. exact semi_digest_spec. Qed.
Print Assumptions C08_semi_digest_spec.

(* the dispatcher: every digestion mode yields exactly the rule's peptide set *)
Theorem C08_get_digested_peptides_spec : forall e d s mn mx mc met p,
  1 <= length s -> 1 <= mn ->
  (In p (get_digested_peptides e d s mn mx mc met) <-> In p (spec_digest e (k_of d) s mn mx mc met)).
Proof.
  intros e d s mn mx mc met p Hn Hmn. destruct d; cbn [get_digested_peptides k_of].
  - apply full_digest_spec; assumption.
  - apply semi_digest_spec; assumption.
  - apply non_specific_digest_spec; assumption.
Qed.
Print Assumptions C08_get_digested_peptides_spec.

(* every supported enzyme (table REGENERATED from digest.py on every run): residues are single upper-case letters,
   names are distinct, and every enzyme except "no_enzyme" cleaves somewhere *)
Definition upper (c : N) : bool := N.leb 65 c && N.leb c 90.
Definition enzyme_wf (ne : str * enzyme) : bool :=
  forallb upper (pre (snd ne)) && forallb upper (not_post (snd ne)) && forallb upper (post (snd ne)) &&
  (str_eqb (fst ne) (s2l "no_enzyme") || negb (Nat.eqb (length (pre (snd ne)) + length (post (snd ne))) 0)).
Fixpoint distinct (l : list str) : bool :=
  match l with [] => true | x :: r => negb (mem_str x r) && distinct r end.

Theorem C08_enzymes_wellformed :
  forallb enzyme_wf enzymes = true /\ distinct (map fst enzymes) = true /\
  mem_str default_enzyme (map fst enzymes) = true /\ 1 <= default_min_len <= default_max_len.
Proof. vm_compute. repeat split; try reflexivity; repeat constructor. Qed.
Print Assumptions C08_enzymes_wellformed.

(* non-vacuity: trypsin on MKAPK... : the D1 and D2 witnesses *)
Example C08_witness :
  let tryp := {| pre := [rK; 82%N]; not_post := [rP]; post := [] |} in
  full_digest tryp (s2l "K") 1 3 0 false = [s2l "K"] /\
  semi_specific_digest {| pre := [resM]; not_post := []; post := [] |} (s2l "MA") 2 2 0 true = [] /\
  same_set (full_digest tryp (s2l "MAKPKAAR") 1 8 1 true)
           (spec_digest tryp 2 (s2l "MAKPKAAR") 1 8 1 true) = true.
Proof. vm_compute. repeat split; reflexivity. Qed.
