(* C04 — rescue regrouping keeps a partition and merges only along shared peptides.
   Statements only.  The minimum-cut search of networkx is the oracle [split]; the theorems hold for EVERY
   oracle satisfying [split_ok] (parts are duplicate-free subsets of the component's protein nodes), which
   the harness checks on each recorded call.  "Only within a connected component" is C04_merges_only_connected.
   PARTIAL: the clause "merged iff inseparable" speaks about the minimum-cut search itself (the oracle) and is
   decided by the correspondence check and the brute-force monitor on the implementation's output;
   [rescue_partition] carries the hypothesis that the initial components consist of leading proteins of
   distinct groups. *)
From PGF Require Import Base.Prelude Base.PyStr Model.Fdr Model.Results Model.ProteinGroups Model.Grouping
  Model.Scoring Model.Competition Model.Rescue Model.Pipeline Proofs.RescueProofs Proofs.RescueConnect Proofs.PipelineOptions.
From Coq Require Import Permutation.

(* the result is again a partition of exactly the first-pass proteins, without empty groups *)
Theorem C04_rescue_partition : forall split, split_ok split ->
  forall l, NoDup (map fst (pmap_of l)) ->
  forall old, NoDup (concat old) ->
  (forall p, In p (prot_order (pmap_of l)) -> In p (concat old)) ->
  (forall c, In c (let m := pmap_of l in let s1 := generate_protein_groups m in
                   let adj := build_adj s1 m (unique_idxs s1 m) in
                   components (S (length (map fst adj))) adj (map fst adj) (map fst adj) []) ->
             NoDup (map (lookup (index (generate_protein_groups (pmap_of l)))) (g_prots c))) ->
  forall s obs oi, merge_with_rescued split l old = Ok (s, obs, oi) ->
  NoDup (concat (groups s)) /\ (forall p, In p (concat (groups s)) <-> In p (concat old)) /\
  (forall g, In g (groups s) -> g <> []).
Proof. exact rescue_partition. Qed.
Print Assumptions C04_rescue_partition.

(* merging only moves proteins between groups: whatever admissible answers the splitter gives *)
Theorem C04_decouple_moves_proteins_only : forall split, split_ok split -> forall fuel work s s',
  (forall c, In c work -> NoDup (map (lookup (index s)) (g_prots c))) ->
  decouple fuel split work s = Ok s' ->
  Permutation (concat (groups s')) (concat (groups s)).
Proof. exact decouple_perm. Qed.
Print Assumptions C04_decouple_moves_proteins_only.

(* a group that is no node of the graph - in particular every group with a peptide of its own - survives unchanged *)
Theorem C04_identified_group_untouched : forall split, split_ok split -> forall fuel work s s' k g,
  nth_error (groups s) k = Some g -> g <> [] ->
  (forall c p, In c work -> In p (g_prots c) -> lookup (index s) p <> Some k) ->
  decouple fuel split work s = Ok s' -> In g (groups s').
Proof. exact decouple_keeps. Qed.
Print Assumptions C04_identified_group_untouched.

Theorem C04_identified_groups_are_no_nodes : forall s m ident p ns,
  In (p, ns) (build_adj s m ident) ->
  exists i g, nth_error (groups s) i = Some g /\ hd_error g = Some p /\ ~ In (Z.of_nat i) ident.
Proof. exact build_adj_skips_identified. Qed.
Print Assumptions C04_identified_groups_are_no_nodes.

(* proteins that kept no peptide stay together with exactly those former group-mates that also kept none *)
Theorem C04_remnants : forall seen old r,
  In r (remnants seen old) <-> exists g, In g old /\ r = remnant seen g /\ r <> [].
Proof. exact remnants_spec. Qed.
Print Assumptions C04_remnants.

Theorem C04_add_unseen_groups : forall s old,
  groups (fst (fst (add_unseen s old))) = groups s ++ remnants (all_proteins s) old /\
  snd (fst (add_unseen s old)) = absorbed (all_proteins s) old.
Proof. exact add_unseen_groups. Qed.
Print Assumptions C04_add_unseen_groups.

(* completely absorbed first-pass groups remain only as placeholders, which are never reported *)
Theorem C04_placeholder_iff_absorbed : forall seen old o,
  In o (absorbed seen old) <->
  exists g, In g old /\ o = map (fun x => obsolete_prefix ++ x) g /\ forall p, In p g -> In p seen.
Proof. exact absorbed_spec. Qed.
Print Assumptions C04_placeholder_iff_absorbed.

Theorem C04_placeholder_is_marked : forall seen old o, In o (absorbed seen old) -> is_obsolete o = true.
Proof. exact absorbed_is_obsolete. Qed.
Print Assumptions C04_placeholder_is_marked.

(* when every group has a peptide of its own the rescue grouping is plain subset grouping of the kept peptides *)
Theorem C04_no_unidentified_same_as_subset : forall split l,
  build_adj (generate_protein_groups (pmap_of l)) (pmap_of l)
            (unique_idxs (generate_protein_groups (pmap_of l)) (pmap_of l)) = [] ->
  exists s, rescued_groups split l = Ok s /\ groups s = subset_grouping (pmap_of l).
Proof. exact no_unidentified_same_as_subset. Qed.
Print Assumptions C04_no_unidentified_same_as_subset.

(* never across unconnected groups: after the rescue regrouping two proteins share a group only if their first-pass groups (slots
   of the first-pass grouping) are the same or are linked by a chain of groups without a peptide of their own whose leading proteins
   share a peptide node of the graph - for EVERY splitter oracle that answers with sub-lists of the component it was given *)
Theorem C04_merges_only_connected : forall l, NoDup (map fst (pmap_of l)) -> forall split s',
  split_ok split -> rescued_groups split l = Ok s' ->
  forall g x y, In g (groups s') -> In x g -> In y g ->
  exists i j, lookup (index (generate_protein_groups (pmap_of l))) x = Some i /\
              lookup (index (generate_protein_groups (pmap_of l))) y = Some j /\ slot_linked l i j.
Proof. exact rescue_merges_only_connected. Qed.
Print Assumptions C04_merges_only_connected.

(* non-vacuity: in the witness below A (slot 0) and B (slot 1) are linked by their shared peptide e1 *)
Example C04_connected_witness :
  let l := [(s2l "e1", ((1#1000)%Q, [s2l "A"; s2l "B"])); (s2l "e2", ((1#1000)%Q, [s2l "B"; s2l "C"]));
            (s2l "e3", ((1#1000)%Q, [s2l "A"; s2l "C"]))] in
  slot_linked l 0 1.
Proof. apply Relation_Operators.rst_step. exists (s2l "A"), (s2l "B"). repeat split; vm_compute; reflexivity. Qed.

(* the rescue cutoff is the PEP equivalent (10^-m) of the LOWEST score m among the first-pass rows accepted at the protein-group
   FDR threshold (q < threshold) - among all rows when none is accepted; rows = (score, q-value) *)
Theorem C04_accepted_rows : forall rows thr r, In r (accepted rows thr) <-> In r rows /\ (snd r < thr)%Q.
Proof. exact accepted_spec. Qed.
Print Assumptions C04_accepted_rows.

Theorem C04_rescue_cutoff_is_worst_accepted : forall pw rows thr c,
  rescue_score_cutoff pw rows thr = Ok c ->
  let pool := match accepted rows thr with [] => rows | _ => accepted rows thr end in
  exists m, c = pw m /\ In m (map fst pool) /\ forall r, In r pool -> (m <= fst r)%Q.
Proof. exact rescue_cutoff_is_worst_accepted. Qed.
Print Assumptions C04_rescue_cutoff_is_worst_accepted.

(* inside the whole inference function the threshold option reaches the result ONLY through that cutoff, computed from the rows of
   the first pass: two thresholds that accept the same worst group give the same result *)
Theorem C04_threshold_acts_through_rescue_cutoff : forall me o st l ka thr thr' pc pis s0 st1 infos1 rows1,
  group_proteins (m_grouping me) l = Ok s0 ->
  one_pass me o {| ps_seen := ps_seen st; ps_counts := if m_razor me then Some l else ps_counts st;
                   ps_pep_cutoff := ps_pep_cutoff st; ps_rescue_cutoff := ps_rescue_cutoff st;
                   ps_obsolete := ps_obsolete st |} s0 l false ka pc (nth 0 pis []) (nth 1 pis []) = (st1, Ok (infos1, rows1)) ->
  rescue_score_cutoff (o_pow10neg o) (map (fun r => (r_score r, r_q r)) rows1) thr =
  rescue_score_cutoff (o_pow10neg o) (map (fun r => (r_score r, r_q r)) rows1) thr' ->
  snd (run me o st l ka thr pc pis) = snd (run me o st l ka thr' pc pis).
Proof. exact threshold_acts_through_rescue_cutoff. Qed.
Print Assumptions C04_threshold_acts_through_rescue_cutoff.

(* the rescue regrouping is handed exactly the peptides whose PEP is STRICTLY below the rescue cutoff (a peptide at the cutoff is out) *)
Theorem C04_rescue_uses_peptides_better_than_cutoff : forall (l : pil) (cut : Q) en,
  In en (filter_by_cutoff l cut) <-> In en l /\ (fst (snd en) < cut)%Q.
Proof. exact filter_by_cutoff_spec. Qed.
Print Assumptions C04_rescue_uses_peptides_better_than_cutoff.

Example C04_rescue_cutoff_witness :
  rescue_score_cutoff (fun x => x) [((5#1), (0#1)); ((3#1), (1#10)); ((2#1), (1#2))]%Q (1#5)%Q = Ok (3#1)%Q /\
  rescue_score_cutoff (fun x => x) [((5#1), (1#1)); ((3#1), (1#1))]%Q (1#100)%Q = Ok (3#1)%Q.
Proof. exact rescue_cutoff_witness. Qed.

(* non-vacuity: A, B, C pairwise linked by shared-only peptides (no admissible cut: splitter answers []) are merged into one
   group; old groups [A];[B];[C] are completely absorbed and become placeholders; D kept nothing and stays *)
Example C04_witness :
  let l := [(s2l "e1", ((1#1000)%Q, [s2l "A"; s2l "B"])); (s2l "e2", ((1#1000)%Q, [s2l "B"; s2l "C"]));
            (s2l "e3", ((1#1000)%Q, [s2l "A"; s2l "C"]))] in
  match merge_with_rescued (fun _ => []) l [[s2l "A"]; [s2l "B"]; [s2l "C"]; [s2l "D"]] with
  | Ok (s, obs, oi) => groups s = [[s2l "A"; s2l "B"; s2l "C"]; [s2l "D"]] /\ length obs = 3 /\ oi = [0; 1; 2]
  | Raise _ => False
  end.
Proof. vm_compute. repeat split; reflexivity. Qed.
