(* C09 — peptide-to-protein map, decoy database and iBAQ peptide numbers are exact.
   Statements only.  [dig] is the digestion function (any: C08 is about which one), [records] the (identifier,
   sequence) pairs read from the FASTA files in database order (target before its decoy in concat mode).
   Reading the text file (line splitting, wrapping) and the csv layer of the map file are tied by correspondence. *)
From PGF Require Import Base.Prelude Base.PyStr Base.StableSort Model.Digest Model.Grouping Model.Fasta
  Proofs.FastaProofs Proofs.MapProofs Proofs.FastaLoop.
From Coq Require Import Permutation.

(* for each peptide exactly the proteins whose digestion yields it, in database order *)
Theorem C09_map_exact : forall dig records pep,
  map_get (build_map dig (fun x => x) records) pep =
  map fst (filter (fun r => mem_str pep (dig (snd r))) records).
Proof. exact map_exact. Qed.
Print Assumptions C09_map_exact.

Theorem C09_map_membership : forall dig records pep p,
  In p (map_get (build_map dig (fun x => x) records) pep) <->
  exists seq, In (p, seq) records /\ In pep (dig seq).
Proof. exact map_exact_In. Qed.
Print Assumptions C09_map_membership.

(* each protein once (distinct identifiers) *)
Theorem C09_map_each_once : forall dig records pep,
  NoDup (map fst records) -> NoDup (map_get (build_map dig (fun x => x) records) pep).
Proof. exact map_each_once. Qed.
Print Assumptions C09_map_each_once.

(* generated decoy proteins: prefixed identifier, reversed sequence with every special residue swapped with its predecessor *)
Theorem C09_decoy_record : forall sp name seq,
  emit DbConcat sp name seq =
  [(name, seq); (decoy_prefix ++ name, match sp with [] => rev seq | _ => swap_special_aas sp (rev seq) end)].
Proof. exact decoy_record. Qed.
Print Assumptions C09_decoy_record.

Theorem C09_swap_permutes : forall sp s, Permutation (swap_special_aas sp s) s.
Proof. exact swap_permutes. Qed.
Print Assumptions C09_swap_permutes.

Theorem C09_swap_special_moves_one_left : forall sp a b r,
  inl b sp = true -> swap_special_aas sp (a :: b :: r) = b :: swap_special_aas sp (a :: r).
Proof. exact swap_two. Qed.
Print Assumptions C09_swap_special_moves_one_left.

(* non-specific searches: the lookup returns (sorted) exactly the proteins whose sequence contains the peptide *)
Theorem C09_nonspecific_lookup : forall recs mn mx pep p,
  NoDup (map fst recs) -> 1 <= mn -> mn <= length pep <= mx ->
  (In p (get_proteins_hashed (build_map (fun s => non_specific_digest s mn mx) hash_key recs) recs pep) <->
   exists seq, In (p, seq) recs /\ contains pep seq = true).
Proof. exact nonspecific_lookup. Qed.
Print Assumptions C09_nonspecific_lookup.

Theorem C09_nonspecific_lookup_sorted : forall recs m pep,
  Sorted.StronglySorted (fun a b => str_leb a b = true) (get_proteins_hashed m recs pep).
Proof. exact nonspecific_lookup_sorted. Qed.
Print Assumptions C09_nonspecific_lookup_sorted.

(* the theoretical peptide number used for iBAQ = the number of distinct peptides the (fully specific, window
   [max 6 min, min 30 max], no missed cleavage, no methionine removal) digestion of that protein yields *)
Theorem C09_ibaq_number : forall dig records p seq,
  NoDup (map fst records) -> In (p, seq) records ->
  num_peptides (build_map dig (fun x => x) records) p = length (dedup [] (dig seq)).
Proof. exact ibaq_number. Qed.
Print Assumptions C09_ibaq_number.

(* several parameter sets / files: the merged map lists, for every peptide, every protein of any of the maps exactly once, in
   first-seen order (maps with distinct keys and no protein twice under a key - what build_map yields for distinct identifiers) *)
Theorem C09_merge_over_parameter_sets : forall ms k, Forall map_wf ms ->
  map_get (merge_maps ms) k = dedup [] (concat (map (fun m => map_get m k) ms)).
Proof. exact merge_maps_get. Qed.
Print Assumptions C09_merge_over_parameter_sets.

Theorem C09_merged_map_membership : forall ms k p, Forall map_wf ms ->
  (In p (map_get (merge_maps ms) k) <-> exists m, In m ms /\ In p (map_get m k)).
Proof. exact merge_maps_membership. Qed.
Print Assumptions C09_merged_map_membership.

Theorem C09_merged_map_each_once : forall ms k, Forall map_wf ms -> NoDup (map_get (merge_maps ms) k).
Proof. exact merge_maps_each_once. Qed.
Print Assumptions C09_merged_map_each_once.

(* the map file: reading what was written gives the map back (distinct peptides, non-empty protein lists, no ';' inside an identifier) *)
Theorem C09_map_file_roundtrip : forall m,
  NoDup (keys m) -> (forall k v, In (k, v) m -> v <> [] /\ forall p, In p v -> ~ In semicolon_chr p) ->
  read_rows (write_rows m) = m.
Proof. exact map_file_roundtrip. Qed.
Print Assumptions C09_map_file_roundtrip.

(* reading a well-formed FASTA text (header lines ">" + header, sequence lines without trailing white space, none of them empty or
   starting with ">") gives back the records in order: identifier = parse_id of the header, sequence = the concatenated sequence
   lines, each record followed / replaced by its decoy according to the database mode *)
Theorem C09_read_fasta_records : forall parse_id db special recs, Forall (rec_wf parse_id) recs ->
  read_fasta parse_id db special (render_fasta recs) = flat_map (rec_out parse_id db special) recs.
Proof. exact read_fasta_records. Qed.
Print Assumptions C09_read_fasta_records.

Theorem C09_read_fasta_target : forall parse_id special recs, Forall (rec_wf parse_id) recs ->
  read_fasta parse_id DbTarget special (render_fasta recs) = map (fun r => (parse_id (f_hdr r), concat (f_chunks r))) recs.
Proof. exact read_fasta_target. Qed.
Print Assumptions C09_read_fasta_target.

(* non-vacuity: two proteins sharing the tryptic peptide AAAAAAK; concat database *)
Example C09_witness :
  let tryp := {| pre := [75%N; 82%N]; not_post := [80%N]; post := [] |} in
  let recs := read_fasta parse_until_first_space DbConcat [75%N; 82%N]
                [s2l ">P1 first"; s2l "AAAAAAKCC"; s2l "CCCCK"; s2l ">P2"; s2l "AAAAAAKDDDDDDR"] in
  let m := build_map (fun s => full_digest tryp s 7 30 0 false) (fun x => x) recs in
  map fst recs = [s2l "P1"; s2l "REV__P1"; s2l "P2"; s2l "REV__P2"] /\
  map_get m (s2l "AAAAAAK") = [s2l "P1"; s2l "P2"] /\ num_peptides m (s2l "P1") = 2 /\ NoDup (map fst recs).
Proof.
  vm_compute. split; [reflexivity|]. split; [reflexivity|]. split; [reflexivity|].
  repeat (constructor; [simpl; intuition discriminate|]). constructor.
Qed.
