(* C17 — PEP cutoff is the first PEP at which the running mean exceeds the FDR level.
   This file contains only statements, each closed by [exact <lemma>] and followed by
   Print Assumptions.  Units: a PEP v means v/D; the level is ln/ld; 1.0 is D. *)
From PGF Require Import Base.Prelude Base.StableSort Model.Cutoff Proofs.CutoffProofs.
From Coq Require Import Permutation.
Open Scope Z_scope.

(* the cutoff is the first value, in increasing order of the finite PEPs, at which the mean of
   the PEPs up to and including it exceeds the level, or 1.0 if that never happens *)
Theorem C17_first_crossing : forall D ln ld l,
  first_crossing_spec D ln ld l (cutoff D ln ld l).
Proof. exact cutoff_meets_spec. Qed.
Print Assumptions C17_first_crossing.

Theorem C17_first_crossing_determines_result : forall D ln ld l c c',
  first_crossing_spec D ln ld l c -> first_crossing_spec D ln ld l c' -> c = c'.
Proof. exact first_crossing_spec_unique. Qed.
Print Assumptions C17_first_crossing_determines_result.

(* all PEPs strictly below the cutoff have a mean of at most the level *)
Theorem C17_below_cutoff_mean_le_level : forall D ln ld l,
  let below := filter (fun p => p <? cutoff D ln ld l) (finite l) in
  below <> [] ->
  zsum below * Zpos ld <= ln * Zpos D * Z.of_nat (length below).
Proof. exact below_cutoff_mean_le_level. Qed.
Print Assumptions C17_below_cutoff_mean_le_level.

(* the cutoff does not decrease when the level is raised (PEPs are at most 1) *)
Theorem C17_monotone_in_level : forall D ln ld ln' ld' l,
  (forall v, In v (finite l) -> v <= Zpos D) ->
  ln * Zpos ld' <= ln' * Zpos ld ->
  cutoff D ln ld l <= cutoff D ln' ld' l.
Proof. exact cutoff_monotone_in_level. Qed.
Print Assumptions C17_monotone_in_level.

(* the order of the list has no influence *)
Theorem C17_order_independent : forall D ln ld l l',
  Permutation l l' -> cutoff D ln ld l = cutoff D ln ld l'.
Proof. exact cutoff_order_independent. Qed.
Print Assumptions C17_order_independent.

(* non-finite entries have no influence, wherever they stand *)
Theorem C17_ignores_nonfinite : forall D ln ld l1 l2,
  cutoff D ln ld (l1 ++ None :: l2) = cutoff D ln ld (l1 ++ l2).
Proof. exact cutoff_ignores_nonfinite. Qed.
Print Assumptions C17_ignores_nonfinite.

(* non-vacuity: a concrete list with a NaN in the middle (the D4 witness: 0.5, nan, 0.001, 0.002 at
   level 0.2, on the grid D = 1000) has a non-empty "below" set and the cutoff is 1.0 *)
Example C17_witness :
  cutoff 1000 1 5 [Some 500; None; Some 1; Some 2] = 1000 /\
  filter (fun p => p <? 1000) (finite [Some 500; None; Some 1; Some 2]) <> [].
Proof. split; [vm_compute; reflexivity | vm_compute; discriminate]. Qed.
