(* C19 — FASTA header fields and annotation columns are extracted exactly.
   Statements only.  Headers are composed as  db|acc|entry desc OS=org OX=.. [GN=gene] PE=d SV=..;
   the well-formedness hypotheses are the UniProt grammar: identifier parts without space or '|', gene without
   space, and the field separators " OS=", " GN=", " PE=" not occurring inside the fields before them. *)
From PGF Require Import Base.Prelude Base.PyStr Model.Grouping Model.Fasta Model.Annotation Proofs.AnnotationProofs.

(* str.split: the first occurrence of a separator that begins with a character occurring nowhere else in it ends the
   first piece (this is what every field parser rests on), and join inverts split *)
Theorem C19_split_field : forall c rest a b, ~ In c rest -> contains (c :: rest) a = false ->
  split_on (c :: rest) (a ++ (c :: rest) ++ b) = a :: split_on (c :: rest) b.
Proof. exact split_field. Qed.
Print Assumptions C19_split_field.

Theorem C19_join_split : forall sep s, sep <> [] -> join sep (split_on sep s) = s.
Proof. exact join_split. Qed.
Print Assumptions C19_join_split.

(* protein identifier, accession, entry name *)
Theorem C19_full_id : forall db acc entry rest,
  (~ In 124%N db /\ ~ In 32%N db) -> (~ In 124%N acc /\ ~ In 32%N acc) -> (~ In 124%N entry /\ ~ In 32%N entry) ->
  id_of IdFull ((db ++ bar ++ acc ++ bar ++ entry) ++ sp ++ rest) = Some (db ++ bar ++ acc ++ bar ++ entry).
Proof. exact full_id_roundtrip. Qed.
Print Assumptions C19_full_id.

Theorem C19_accession : forall db acc entry rest,
  (~ In 124%N db /\ ~ In 32%N db) -> (~ In 124%N acc /\ ~ In 32%N acc) -> (~ In 124%N entry /\ ~ In 32%N entry) ->
  parse_uniprot_id ((db ++ bar ++ acc ++ bar ++ entry) ++ sp ++ rest) = acc.
Proof. exact uniprot_id_roundtrip. Qed.
Print Assumptions C19_accession.

Theorem C19_entry_name : forall db acc entry rest,
  (~ In 124%N db /\ ~ In 32%N db) -> (~ In 124%N acc /\ ~ In 32%N acc) -> (~ In 124%N entry /\ ~ In 32%N entry) ->
  parse_entry_name ((db ++ bar ++ acc ++ bar ++ entry) ++ sp ++ rest) = entry.
Proof. exact entry_name_roundtrip. Qed.
Print Assumptions C19_entry_name.

(* description (may contain spaces, brackets, the words OS/GN/PE - only not the separator " OS=") *)
Theorem C19_description : forall idt desc rest,
  ~ In 32%N idt -> contains s_OS (idt ++ sp ++ desc) = false ->
  parse_protein_name (idt ++ sp ++ desc ++ s_OS ++ rest) = desc.
Proof. exact description_roundtrip. Qed.
Print Assumptions C19_description.

(* gene name, and its absence *)
Theorem C19_gene_name : forall x g y,
  contains s_GN x = false -> ~ In 32%N g -> contains s_GN (g ++ sp ++ y) = false ->
  parse_gene_name (x ++ s_GN ++ g ++ sp ++ y) = Some g.
Proof. exact gene_name_roundtrip. Qed.
Print Assumptions C19_gene_name.

Theorem C19_gene_name_absent : forall h, contains s_GN h = false -> parse_gene_name h = None.
Proof. exact gene_name_absent. Qed.
Print Assumptions C19_gene_name_absent.

(* organism, for headers that carry a gene name *)
Theorem C19_organism : forall x org y,
  contains s_OS x = false -> contains s_GN org = false -> contains s_OS (org ++ s_GN ++ y) = false ->
  parse_organism (x ++ s_OS ++ org ++ s_GN ++ y) = Some org.
Proof. exact organism_roundtrip. Qed.
Print Assumptions C19_organism.

(* existence level *)
Theorem C19_existence : forall x (d : N) y,
  (d <= 9)%N -> contains s_PE x = false -> contains s_PE ([(48 + d)%N] ++ sp ++ y) = false ->
  parse_existence (x ++ s_PE ++ [(48 + d)%N] ++ sp ++ y) = Ok (Some d).
Proof. exact existence_roundtrip. Qed.
Print Assumptions C19_existence.

(* sequence length *)
Theorem C19_length : forall r h seq k a, mk_annot r (h, seq) = Ok (k, a) -> a_length a = length seq.
Proof. exact length_is_sequence_length. Qed.
Print Assumptions C19_length.

(* within one file the first record wins for a repeated identifier *)
Theorem C19_first_record_wins : forall r recs d k,
  single_loop r recs [] = Ok d ->
  ad_get d k = match find (fun rec => match mk_annot r rec with Ok (k', _) => okey_eqb k' k | Raise _ => false end) recs with
               | Some rec => match mk_annot r rec with Ok (_, a) => Some a | Raise _ => None end
               | None => None
               end.
Proof. intros r recs d k H. exact (single_loop_first r recs [] d k H). Qed.
Print Assumptions C19_first_record_wins.

(* the annotation columns list each distinct identifier, gene name and header once, in the order of the row's proteins *)
Theorem C19_columns_follow_row_order : forall d ids,
  annotation_columns d ids =
  (join [59%N] (dedup [] (map a_id (found_annots d ids))),
   join [59%N] (dedup [] (flat_map (fun a => match a_gene a with Some g => [g] | None => [] end) (found_annots d ids))),
   join [59%N] (dedup [] (map a_header (found_annots d ids)))).
Proof. exact columns_follow_row_order. Qed.
Print Assumptions C19_columns_follow_row_order.

(* gene-level reporting uses the gene names as identifiers unless most records lack one (then pseudo-genes) *)
Theorem C19_gene_level_rule : forall files (uu : bool) d,
  multiple (if uu then IdUniprot else IdFull) files [] = Ok d -> d <> (@nil (okey * annot)) ->
  get_protein_annotations files true uu =
  if Nat.ltb (length d) (2 * length (filter (fun kv => has_gene (snd kv)) d))
  then match multiple IdGene files [] with Ok d2 => Ok (d2, false) | Raise e => Raise e end
  else Ok (d, true).
Proof. exact gene_level_rule. Qed.
Print Assumptions C19_gene_level_rule.

(* non-vacuity: a real UniProt header *)
Example C19_witness :
  let h := s2l "sp|P00167|CYB5_HUMAN Cytochrome b5 OS=Homo sapiens OX=9606 GN=CYB5A PE=1 SV=2" in
  parse_uniprot_id h = s2l "P00167" /\ parse_entry_name h = s2l "CYB5_HUMAN" /\ parse_gene_name h = Some (s2l "CYB5A") /\
  parse_protein_name h = s2l "Cytochrome b5" /\ parse_organism h = Some (s2l "Homo sapiens OX=9606") /\
  parse_existence h = Ok (Some 1%N).
Proof. vm_compute. repeat split; reflexivity. Qed.
