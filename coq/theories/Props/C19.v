(* temporary *)
From PGF Require Import Base.Prelude Model.Annotation.
Theorem C19_placeholder : True. Proof. exact I. Qed.
Print Assumptions C19_placeholder.
