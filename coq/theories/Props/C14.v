(* C14 — equal-score ties between target and decoy groups are broken without bias.
   Statements only.  The distributional claim is reduced to what a proof can carry: the order inside
   every tie class is exactly the order the shuffle produced (never the input order or the decoy flag),
   and re-ordering the input is the same as re-labelling the shuffle.  Uniformity of numpy's shuffle
   itself is in the trusted base. *)
From PGF Require Import Base.Prelude Base.StableSort Model.Fdr Model.Results Model.Competition
  Proofs.CompetitionProofs.
From Coq Require Import Permutation.

(* final ranking: within every score class, the order after the second shuffle is kept *)
Theorem C14_tie_order_is_second_shuffle_order : forall c l,
  filter (same_score c) (isort key2_geb l) = filter (same_score c) l.
Proof. exact tie_order_final. Qed.
Print Assumptions C14_tie_order_is_second_shuffle_order.

(* competition order: within every (score, placeholder flag) class, the order after the first shuffle is kept *)
Theorem C14_competition_order_is_first_shuffle_order : forall c o l,
  filter (same_class c o) (isort key1_geb l) = filter (same_class c o) l.
Proof. exact tie_order_competition. Qed.
Print Assumptions C14_competition_order_is_first_shuffle_order.

(* the sort keys look at nothing but the score and the placeholder flag (in particular not at the decoy status) *)
Theorem C14_sort_keys_ignore_decoy_status : forall a b a' b',
  e_score a = e_score a' -> e_obs a = e_obs a' -> e_score b = e_score b' -> e_obs b = e_obs b' ->
  key1_geb a b = key1_geb a' b' /\ key2_geb a b = key2_geb a' b'.
Proof. exact sort_keys_ignore_everything_else. Qed.
Print Assumptions C14_sort_keys_ignore_decoy_status.

(* whatever order the groups arrive in (targets first, decoys first, interleaved): each shuffle outcome for one
   arrival order corresponds to a shuffle outcome for the other with the same result *)
Theorem C14_input_order_irrelevant : forall st es es' pi1,
  Permutation (filter has_infos es') (filter has_infos es) ->
  Permutation pi1 (seq 0 (length (filter has_infos es))) ->
  exists pi1', Permutation pi1' (seq 0 (length (filter has_infos es'))) /\
               forall pi2, do_competition st [] es' pi1' pi2 = do_competition st [] es pi1 pi2.
Proof. exact input_order_irrelevant. Qed.
Print Assumptions C14_input_order_irrelevant.

(* every arrangement of the input is some shuffle of it *)
Theorem C14_every_order_is_a_shuffle : forall (a b : list entry), Permutation a b ->
  exists rho, Permutation rho (seq 0 (length a)) /\ apply_perm rho a = b.
Proof. exact (@perm_exists entry). Qed.
Print Assumptions C14_every_order_is_a_shuffle.

(* non-vacuity: a target and a decoy with equal scores come out in the order the shuffle gave them *)
Example C14_witness :
  let es := mk_entries [[s2l "P1"]; [s2l "REV__P2"]]
                       [[((1#100)%Q, s2l "AAAK", [s2l "P1"])]; [((1#100)%Q, s2l "AAAR", [s2l "REV__P2"])]]
                       [1#1; 1#1]%Q in
  (match do_competition PickedGroup [] es [0;1] [0;1] with Ok o => map e_group o | _ => [] end) = [[s2l "P1"]; [s2l "REV__P2"]] /\
  (match do_competition PickedGroup [] es [0;1] [1;0] with Ok o => map e_group o | _ => [] end) = [[s2l "REV__P2"]; [s2l "P1"]].
Proof. vm_compute. split; reflexivity. Qed.
