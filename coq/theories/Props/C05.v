(* C05 — a peptide supports only the group holding all its proteins; score = best PEP.
   Statements only.  [Inv s] is C20's index invariant (holds in every reachable state). *)
From PGF Require Import Base.Prelude Base.PyStr Base.StableSort Model.Fdr Model.Results Model.ProteinGroups
  Model.Scoring Model.Competition Proofs.ProteinGroupsProofs Proofs.ResultsProofs Proofs.ScoringProofs Proofs.CompetitionProofs Proofs.RazorProofs.

(* shared peptides discarded: a peptide is evidence for group k exactly when it has proteins, all of which
   are indexed to group k; otherwise it is ignored *)
Theorem C05_evidence_iff_all_in_one_group : forall c md5 s suppress l infos peps,
  sc_razor c = false -> sc_shared c = false -> Inv s ->
  collect c md5 s suppress l = Ok (infos, peps) ->
  forall k x, k < length (groups s) ->
    (In x (nth k infos []) <->
     exists e sc ps, In (e, (sc, ps)) l /\ x = (sc, e, ps) /\
                     valid s = true /\ ps <> [] /\ forall p, In p ps -> lookup (index s) p = Some k).
Proof. exact evidence_iff_all_in_one_group. Qed.
Print Assumptions C05_evidence_iff_all_in_one_group.

(* and all the proteins recorded with an evidence entry really belong to that group (discard or razor) *)
Theorem C05_evidence_proteins_in_group : forall c md5 s suppress l infos peps,
  sc_shared c = false -> Inv s ->
  collect c md5 s suppress l = Ok (infos, peps) ->
  forall k sc e ps, k < length (groups s) -> In (sc, e, ps) (nth k infos []) ->
    exists g, nth_error (groups s) k = Some g /\ forall p, In p ps -> In p g.
Proof. exact evidence_proteins_in_group. Qed.
Print Assumptions C05_evidence_proteins_in_group.

(* razor: the peptide is first reduced to one of its own proteins ... *)
Theorem C05_razor_single_protein : forall l md5 ps out,
  retain_most_observed l md5 ps = Ok out -> exists p, out = [p] /\ In p ps.
Proof. exact razor_single_protein. Qed.
Print Assumptions C05_razor_single_protein.

(* ... and that protein is a maximum of the key (observed peptides, lower best PEP, md5, name): no protein of the peptide
   has a larger key, hence none has more observed peptides, and none with as many has a lower best PEP *)
Theorem C05_razor_protein_is_most_observed : forall l md5 ps out,
  retain_most_observed l md5 ps = Ok out ->
  exists p, out = [p] /\ In p ps /\
    (forall q, In q ps -> razor_gtb l md5 q p = false) /\
    (forall q, In q ps -> pcount l q <= pcount l p) /\
    (forall q, In q ps -> pcount l q = pcount l p -> (pbest_min l p <= pbest_min l q)%Q).
Proof. exact razor_is_maximal. Qed.
Print Assumptions C05_razor_protein_is_most_observed.

(* ... so it supports at most one group either way *)
Theorem C05_at_most_one_group : forall c md5 s suppress l infos peps,
  sc_shared c = false -> Inv s -> NoDup (map fst l) ->
  collect c md5 s suppress l = Ok (infos, peps) ->
  forall k k' x x', k < length (groups s) -> k' < length (groups s) ->
    In x (nth k infos []) -> In x' (nth k' infos []) -> pi_peptide x = pi_peptide x' -> k = k'.
Proof. exact at_most_one_group. Qed.
Print Assumptions C05_at_most_one_group.

(* a group's best-PEP score is f(smallest PEP among its evidence), f = -log10(. + eps) any antitone function *)
Theorem C05_best_pep_score : forall f, (forall x y, (x <= y)%Q -> (f y <= f x)%Q) ->
  forall infos, infos <> [] ->
  exists i, In i infos /\ (forall j, In j infos -> (pi_pep i <= pi_pep j)%Q) /\
            (best_pep_score f infos == f (pi_pep i))%Q.
Proof. exact best_pep_at_min_pep. Qed.
Print Assumptions C05_best_pep_score.

(* additional evidence never lowers a best-PEP score (any f) *)
Theorem C05_best_pep_monotone : forall f infos infos',
  infos <> [] -> incl infos infos' -> (best_pep_score f infos <= best_pep_score f infos')%Q.
Proof. exact best_pep_monotone. Qed.
Print Assumptions C05_best_pep_monotone.

(* multiplied-PEP variant: the summands are one per distinct peptide, each that peptide's lowest PEP *)
Theorem C05_mult_pep_structure : forall infos,
  let fo := first_occ (isort pinfo_leb infos) [] in
  mult_pep_terms infos = map pi_pep fo /\
  NoDup (map pi_peptide fo) /\
  (forall i, In i fo -> In i infos) /\
  (forall j, In j infos -> exists i, In i fo /\ pi_peptide i = pi_peptide j /\ (pi_pep i <= pi_pep j)%Q).
Proof. exact mult_pep_structure. Qed.
Print Assumptions C05_mult_pep_structure.

(* a group without evidence gets the sentinel score and is not ranked (it never enters the competition order) *)
Theorem C05_no_evidence_sentinel : forall f, best_pep_score f [] = minus100.
Proof. exact best_pep_no_evidence. Qed.
Print Assumptions C05_no_evidence_sentinel.

Theorem C05_no_evidence_not_ranked : forall st seen es pi1 e,
  In e (ranked st seen es pi1) -> e_infos e <> [].
Proof. exact ranked_has_infos. Qed.
Print Assumptions C05_no_evidence_not_ranked.

(* non-vacuity: P1 and P2 in different groups; peptide AAAK -> [P1] is evidence for group 0, the shared
   peptide LLLK -> [P1; P2] is ignored *)
Example C05_witness :
  let s := create_index (of_list [[s2l "P1"]; [s2l "P2"]]) in
  collect {| sc_razor := false; sc_shared := false; sc_counts := None |} (fun _ => []) s false
          [(s2l "AAAK", ((1#100)%Q, [s2l "P1"])); (s2l "LLLK", ((1#100)%Q, [s2l "P1"; s2l "P2"]))]
  = Ok ([[((1#100)%Q, s2l "AAAK", [s2l "P1"])]; []], [(1#100)%Q]).
Proof. vm_compute. reflexivity. Qed.
