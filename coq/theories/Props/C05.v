(* temporary *)
From PGF Require Import Base.Prelude Model.Scoring.
Theorem C05_placeholder : True. Proof. exact I. Qed.
Print Assumptions C05_placeholder.
