(* C12 — quantification columns equal a direct recomputation from the precursors.  Statements only.
   [lookup (index s) p = Some g] is "protein p belongs to reported group g" (C20's index theorems). *)
From PGF Require Import Base.Prelude Base.PyStr Base.StableSort Model.Fdr Model.ProteinGroups Model.Grouping Model.Scoring Model.Quant
  Proofs.QuantProofs.
From Coq Require Import Permutation Sorted.

(* an evidence row is attached to group g exactly when it has proteins and all of them belong to g;
   rows spanning several groups, or naming a protein of no group, are attached nowhere *)
Theorem C12_row_attached_iff : forall groups rows g r,
  let s := create_index (of_list groups) in
  In r (attached s rows g) <->
  In r rows /\ p_proteins r <> [] /\ forall p, In p (p_proteins r) -> lookup (index s) p = Some g.
Proof. exact attached_iff_groups. Qed.
Print Assumptions C12_row_attached_iff.

Theorem C12_row_attached_to_one_group : forall s rows g g' r,
  In r (attached s rows g) -> In r (attached s rows g') -> g = g'.
Proof. exact attached_unique. Qed.
Print Assumptions C12_row_attached_to_one_group.

(* with multiplicity: over all groups no evidence row is counted twice *)
Theorem C12_no_row_counted_twice : forall groups rows,
  let s := create_index (of_list groups) in
  list_sum (map (fun g => length (attached s rows g)) (seq 0 (length groups))) <= length rows.
Proof. exact no_row_twice_groups. Qed.
Print Assumptions C12_no_row_counted_twice.

(* a precursor row is used only if some row of the same peptide and charge in that group passes the cutoff;
   match-between-runs rows (no PEP) ride along, and only they *)
Theorem C12_precursor_retained_iff : forall cut l r,
  In r (retain cut l) <->
  In r l /\ exists r', In r' l /\ passes cut r' = true /\ p_peptide r' = p_peptide r /\ p_charge r' = p_charge r.
Proof. exact retain_iff. Qed.
Print Assumptions C12_precursor_retained_iff.

Theorem C12_counted_row : forall cut r, counts cut r = true <-> p_pep r = None \/ passes cut r = true.
Proof. exact counts_cases. Qed.
Print Assumptions C12_counted_row.

(* every column of a group's row is the direct recomputation from the retained precursors *)
Theorem C12_columns_are_recomputation : forall ibaq cut exps ns ids l0 r,
  quant_row ibaq cut exps ns ids l0 = Ok r ->
  let l := retain cut l0 in
  q_ids r = ids /\
  q_unique r = unique_peptides cut exps l /\
  q_idtype r = map (fun e => let le := filter (in_exp e) l in
                     if existsb (passes cut) le then MSMS else if existsb is_mbr le then MATCHING else []) exps /\
  q_ints r = intensities cut exps ns l /\
  q_total r = qsum (map (fun e => exp_intensity cut e l) exps) /\
  q_evidence r = evidence_ids cut l /\
  (forall k p, nth_error ids k = Some p -> exists n, tab_nat ibaq p = Some n /\ nth_error (q_ntheo r) k = Some n) /\
  length (q_ntheo r) = length ids /\
  let lead := inject_Z (Z.of_nat (Nat.max 1 (hd 0 (q_ntheo r)))) in
  q_ibaq_total r = (q_total r / lead)%Q /\ q_ibaq r = map (fun x => (x / lead)%Q) (q_ints r).
Proof. exact quant_row_spec. Qed.
Print Assumptions C12_columns_are_recomputation.

(* label-free: one summed intensity per experiment *)
Theorem C12_intensity_per_experiment : forall cut exps l,
  intensities cut exps 0 l = map (fun e => exp_intensity cut e l) exps.
Proof. exact intensities_label_free. Qed.
Print Assumptions C12_intensity_per_experiment.

(* the total intensity is the sum over experiments (SILAC channel sums are not added in) *)
Theorem C12_total_is_sum_over_experiments : forall cut exps ns l,
  total_intensity ns (intensities cut exps ns l) = qsum (map (fun e => exp_intensity cut e l) exps).
Proof. exact total_is_sum_over_experiments. Qed.
Print Assumptions C12_total_is_sum_over_experiments.

(* unique peptide counts count distinct (modified) peptide strings *)
Theorem C12_unique_count_is_distinct : forall l : list str,
  NoDup (dedup [] l) /\ forall x, In x (dedup [] l) <-> In x l.
Proof. exact unique_count_spec. Qed.
Print Assumptions C12_unique_count_is_distinct.

(* evidence ids: exactly the ids of the counted rows, ascending *)
Theorem C12_evidence_ids : forall cut l,
  Permutation (evidence_ids cut l) (map p_id (filter (counts cut) l)) /\ StronglySorted Z.le (evidence_ids cut l).
Proof. exact evidence_ids_spec. Qed.
Print Assumptions C12_evidence_ids.

(* the table: one row per group that received precursors, in the reported order, each computed by quant_row *)
Theorem C12_table_rows : forall ibaq cutoff_of ns groups rows exps out,
  quantify ibaq cutoff_of ns groups rows = Ok (exps, out) ->
  let s := create_index (of_list groups) in
  let cut := cutoff_of (cutoff_peps s rows) in
  exps = experiments rows /\
  Forall2 (fun ig r => quant_row ibaq cut exps ns (snd ig) (attached s rows (fst ig)) = Ok r)
          (filter (fun ig => nonempty (attached s rows (fst ig))) (combine (seq 0 (length groups)) groups)) out.
Proof. exact quantify_rows. Qed.
Print Assumptions C12_table_rows.

(* TMT reporter columns (columns/tmt.py): experiment i, reporter column k holds the sum of that column over the rows of the group
   that count (identified at the cutoff, or match-between-runs riding along) in that experiment; rows are the retained ones *)
Theorem C12_tmt_cell : forall cut exps width l i k, i < length exps -> k < width ->
  nth (i * width + k) (tmt_intensities cut exps width l) (0#1)%Q =
  qsum (map (fun r => nth k (p_tmt r) (0#1)%Q) (filter (fun r => counts cut r && in_exp (nth i exps []) r) l)).
Proof. exact tmt_cell_spec. Qed.
Print Assumptions C12_tmt_cell.

Theorem C12_tmt_width : forall cut exps width l, length (tmt_intensities cut exps width l) = length exps * width.
Proof. exact tmt_length. Qed.
Print Assumptions C12_tmt_width.

(* with an experimental design the per-experiment columns follow the design's order of experiments (not the sorted names): value k of
   every per-experiment block belongs to the k-th experiment of the design *)
Theorem C12_table_rows_with_design : forall ibaq cutoff_of ns groups rows dexps exps out,
  quantify_design ibaq cutoff_of ns groups rows dexps = Ok (exps, out) ->
  let s := create_index (of_list groups) in
  let cut := cutoff_of (cutoff_peps s rows) in
  exps = dexps /\
  Forall2 (fun ig r => quant_row ibaq cut dexps ns (snd ig) (attached s rows (fst ig)) = Ok r)
          (filter (fun ig => nonempty (attached s rows (fst ig))) (combine (seq 0 (length groups)) groups)) out.
Proof. exact quantify_design_rows. Qed.
Print Assumptions C12_table_rows_with_design.
