(* C16 — skip-if-present pipeline outputs are published atomically.
   Statements only.  The model is the protocol's effect on the two paths (final, final.tmp); [crash_states s0 chunks k s]
   holds of every on-disk state s the file system can be in when the process is killed after its first k
   operations (an unclosed temporary file may hold any prefix of what was written to it).  PARTIAL: that POSIX rename is
   atomic and that the real steps perform exactly these operations are runtime facts, checked by system-call traces and
   kill runs in the correspondence. *)
From PGF Require Import Base.Prelude Model.AtomicFs Proofs.AtomicFsProofs.

(* at every crash point the final path holds its initial content or the complete output *)
Theorem C16_atomic_publish : forall s0 chunks k s,
  crash_states s0 chunks k s -> f_out s = f_out s0 \/ f_out s = Some (concat chunks).
Proof. exact atomic_publish. Qed.
Print Assumptions C16_atomic_publish.

(* in particular never a partially written file under the final name *)
Theorem C16_never_partial : forall s0 chunks k s c,
  f_out s0 = None -> crash_states s0 chunks k s -> f_out s = Some c -> c = concat chunks.
Proof. exact never_partial. Qed.
Print Assumptions C16_never_partial.

(* re-running after a crash at any point completes and yields the bytes of an uninterrupted run *)
Theorem C16_rerun_completes : forall s0 chunks k s,
  f_out s0 = None -> crash_states s0 chunks k s ->
  f_out (run_fs (prog s chunks) s) = Some (concat chunks) /\
  f_out (run_fs (prog s chunks) s) = f_out (run_fs (prog s0 chunks) s0).
Proof. exact rerun_completes. Qed.
Print Assumptions C16_rerun_completes.

(* ... and any number of further re-runs change nothing *)
Theorem C16_reruns_idempotent : forall s chunks, f_out s = Some (concat chunks) ->
  forall n, f_out (reruns chunks n s) = Some (concat chunks).
Proof. exact reruns_idempotent. Qed.
Print Assumptions C16_reruns_idempotent.

(* an existing final output is never modified *)
Theorem C16_existing_untouched : forall s0 chunks c k s,
  f_out s0 = Some c -> crash_states s0 chunks k s -> f_out s = Some c.
Proof. exact existing_untouched. Qed.
Print Assumptions C16_existing_untouched.

(* non-vacuity: a crash after two of three row writes leaves no final file and a truncated temporary file *)
Example C16_witness :
  let s0 := {| f_out := None; f_tmp := None |} in
  crash_states s0 [[1%N]; [2%N]; [3%N]] 3 {| f_out := None; f_tmp := Some [1%N] |} /\
  f_out (run_fs (prog s0 [[1%N]; [2%N]; [3%N]]) s0) = Some [1%N; 2%N; 3%N].
Proof.
  split; [|vm_compute; reflexivity]. unfold crash_states. simpl. split; [reflexivity|].
  exists [1%N]. split; [exists [2%N]; reflexivity | reflexivity].
Qed.
