(* C18 — every shipped method configuration is usable from the command line.
   Statements only.  [shipped] is REGENERATED from /repo's methods/*.toml on every run, so the finite-domain
   theorems below are re-checked against what the code ships now. *)
From PGF Require Import Base.Prelude Model.Fdr Model.Results Model.Competition Model.Pipeline Gen.Methods_gen
  Proofs.PipelineProofs.

(* no shipped method asks for a rescue step with a score that cannot rescue (which the tool refuses), and none
   needs a MaxQuant proteinGroups.txt file *)
Theorem C18_all_shipped_supported :
  forallb (fun nm => implb (is_rescued (m_grouping (snd (fst nm)))) (can_rescue (m_score (snd (fst nm))))) shipped = true.
Proof. vm_compute. reflexivity. Qed.
Print Assumptions C18_all_shipped_supported.

Theorem C18_shipped_need_no_protein_groups_file :
  forallb (fun nm => match m_grouping (snd (fst nm)) with GMqNative | GRescuedMqNative => false | _ => true end) shipped = true.
Proof. vm_compute. reflexivity. Qed.
Print Assumptions C18_shipped_need_no_protein_groups_file.

Theorem C18_shipped_nonempty : (0 < length shipped)%nat.
Proof. vm_compute. repeat constructor. Qed.
Print Assumptions C18_shipped_nonempty.

(* an unsupported combination (rescue with a score that cannot rescue) is refused with the tool's own error *)
Theorem C18_unsupported_refused : forall me o st l ka thr pc pis rows1 infos1 st1 s0,
  group_proteins (m_grouping me) l = Ok s0 ->
  is_rescued (m_grouping me) = true -> can_rescue (m_score me) = false ->
  one_pass me o {| ps_seen := ps_seen st; ps_counts := if m_razor me then Some l else ps_counts st;
                   ps_pep_cutoff := ps_pep_cutoff st; ps_rescue_cutoff := ps_rescue_cutoff st;
                   ps_obsolete := ps_obsolete st |} s0 l false ka pc (nth 0 pis []) (nth 1 pis []) = (st1, Ok (infos1, rows1)) ->
  snd (run me o st l ka thr pc pis) = Raise NotImplemented.
Proof. exact rescue_needs_pep_score. Qed.
Print Assumptions C18_unsupported_refused.

(* every table a method writes consists of rows built from a competition ranking with q-values from the
   decoy-based estimate: the ranking, q-value and row-consistency guarantees (C01, C02, C06) apply to it *)
Theorem C18_rows_come_from_a_ranking : forall me o st l ka thr pc pis rows,
  snd (run me o st l ka thr pc pis) = Ok rows -> rows_of_ranking me ka rows.
Proof. exact run_rows. Qed.
Print Assumptions C18_rows_come_from_a_ranking.
