(* C02 — picked competition keeps only the better of a target group and its decoy twin.
   Statements only.  [pi1], [pi2] are the two shuffles (any permutations); [keys st e] are the
   identifiers a group is compared by (stripped of decoy/placeholder prefixes; the whole joined
   string for protein-level picking), [picks st s] those of the leading proteins of a kept group. *)
From PGF Require Import Base.Prelude Base.PyStr Base.StableSort Model.Fdr Model.Results Model.Competition
  Proofs.CompetitionProofs.
From Coq Require Import Permutation Sorted.

(* the competition order: groups with evidence, shuffled, stably sorted by (score, regular-before-placeholder) *)
Definition order1 (es : list entry) (pi1 : list nat) : list entry :=
  isort key1_geb (apply_perm pi1 (filter has_infos es)).

(* survivors keep their peptides and score unchanged (they are input entries, each used at most once)
   and are ranked by non-increasing score *)
Theorem C02_survivors_unchanged_sorted : forall st es pi1 pi2 out,
  Permutation pi1 (seq 0 (length (filter has_infos es))) ->
  Permutation pi2 (seq 0 (length (ranked st [] es pi1))) ->
  do_competition st [] es pi1 pi2 = Ok out ->
  (exists removed, Permutation (out ++ removed) (filter has_infos es)) /\
  StronglySorted score_ge out.
Proof. intros st es pi1 pi2 out H1 H2. exact (survivors_unchanged_sorted st es pi1 pi2 H1 H2 out). Qed.
Print Assumptions C02_survivors_unchanged_sorted.

(* a group is removed only if it is a contaminant, has no peptide (not in the competition order at all),
   or shares an identifier with a leading protein of a survivor that scores higher, or equally - and
   then a placeholder survivor never displaces a regular group *)
Theorem C02_removal_justified : forall st es pi1 l1 e l2,
  order1 es pi1 = l1 ++ e :: l2 ->
  dropped st (seen_after st [] l1) e = true ->
  is_contaminant (e_group e) = true \/
  exists s k, In s (ranked st [] es pi1) /\ In k (keys st e) /\ In k (picks st s) /\
              ((e_score e < e_score s)%Q \/
               ((e_score s == e_score e)%Q /\ (e_obs s = true -> e_obs e = true))).
Proof. exact removal_justified. Qed.
Print Assumptions C02_removal_justified.

Theorem C02_kept_or_removed : forall st es pi1 l1 e l2,
  order1 es pi1 = l1 ++ e :: l2 ->
  (dropped st (seen_after st [] l1) e = false /\ In e (ranked st [] es pi1)) \/
  dropped st (seen_after st [] l1) e = true.
Proof. exact kept_or_dropped. Qed.
Print Assumptions C02_kept_or_removed.

(* conversely no survivor shares such an identifier with the leading proteins of a strictly
   higher-scoring survivor *)
Theorem C02_no_twin_survivors : forall st es pi1 pi2 out s e,
  Permutation pi2 (seq 0 (length (ranked st [] es pi1))) ->
  do_competition st [] es pi1 pi2 = Ok out ->
  In s out -> In e out -> (e_score e < e_score s)%Q ->
  forall k, In k (keys st e) -> ~ In k (picks st s).
Proof.
  intros st es pi1 pi2 out s e H2 Hd Hs He.
  apply (no_twin_survivors st es pi1 s e);
    [apply (out_is_K st es pi1 pi2 H2 out Hd); exact Hs | apply (out_is_K st es pi1 pi2 H2 out Hd); exact He].
Qed.
Print Assumptions C02_no_twin_survivors.

(* with the classic strategy nothing is removed for competition reasons *)
Theorem C02_classic_removes_nothing : forall l seen,
  greedy Classic seen l = filter (fun e => negb (is_contaminant (e_group e))) l.
Proof. exact classic_greedy. Qed.
Print Assumptions C02_classic_removes_nothing.

(* the leading proteins are members: blocking identifiers are a subset of the comparison identifiers *)
Theorem C02_picks_subset_keys : forall st e k, In k (picks st e) -> In k (keys st e).
Proof. exact picks_subset_keys. Qed.
Print Assumptions C02_picks_subset_keys.

(* non-vacuity: target P1 (score 2) beats its decoy twin REV__P1 (score 1); P2's placeholder ties with P2 *)
Example C02_witness :
  let es := mk_entries [[s2l "REV__P1"]; [s2l "P1"]; [s2l "OBSOLETE__P2"]; [s2l "P2"]]
                       [[((1#100)%Q, s2l "AAAK", [s2l "REV__P1"])]; [((1#100)%Q, s2l "AAAR", [s2l "P1"])];
                        [((1#100)%Q, s2l "LLLK", [s2l "OBSOLETE__P2"])]; [((1#100)%Q, s2l "LLLR", [s2l "P2"])]]
                       [1#1; 2#1; 1#1; 1#1]%Q in
  match do_competition PickedGroup [] es [0;1;2;3] [0;1] with
  | Ok out => map e_group out = [[s2l "P1"]; [s2l "P2"]]
  | Raise _ => False
  end.
Proof. vm_compute. reflexivity. Qed.

(* which members are "leading" (the identifiers a kept picked-group entry blocks): the members with the most peptides among the
   members AND every protein its evidence names *)
Theorem C02_leading_proteins_spec : forall g infos p,
  In p (leading_proteins g infos) <->
  In p g /\ forall q, In q (g ++ concat (map pi_prots infos)) ->
              peptide_count infos (Some (101 # 100)%Q) q <= peptide_count infos (Some (101 # 100)%Q) p.
Proof. exact leading_proteins_spec. Qed.
Print Assumptions C02_leading_proteins_spec.

(* hence a group whose evidence names an outside protein with strictly more peptides than every member has no leading protein and
   blocks nobody (placeholder groups whose evidence keeps the unprefixed names; score types that keep shared peptides) *)
Theorem C02_no_leader_when_outsider_has_most : forall g infos q,
  In q (concat (map pi_prots infos)) ->
  (forall p, In p g -> peptide_count infos (Some (101 # 100)%Q) p < peptide_count infos (Some (101 # 100)%Q) q) ->
  leading_proteins g infos = [].
Proof. exact no_leader_when_outsider_has_most. Qed.
Print Assumptions C02_no_leader_when_outsider_has_most.

