(* C11 — MaxLFQ.  Statements only.  Two layers: the exact rational model of columns/lfq.py (Model/Lfq.v) and the
   least-squares specification over the reals (Proofs/LfqSpec.v).  The theorems over R depend on the axioms of Coq's
   real numbers, listed by Print Assumptions below. *)
From Coq Require Import Reals.
From PGF Require Import Base.Prelude Base.PyStr Base.StableSort Model.Quant Model.Lfq Proofs.LfqProofs Proofs.LfqScale Proofs.LfqRename Proofs.LfqOrder Proofs.LfqSpec.
From Coq Require Import Permutation.

(* ----- exact layer (Q) ----- *)
Local Open Scope Q_scope.
(* consistent data (every observed intensity = peptide factor x sample factor): the median peptide ratio of samples i, j
   is exactly b_i / b_j *)
Theorem C11_median_ratio_of_consistent_data : forall (ci cj : list Q) (bi bj : Q),
  ~ (bj == 0)%Q ->
  (forall x y, In (x, y) (combine ci cj) -> nonzero x = true -> nonzero y = true ->
     exists a, (x == a * bi)%Q /\ (y == a * bj)%Q) ->
  both_ratios ci cj <> [] ->
  (median (both_ratios ci cj) == bi / bj)%Q.
Proof. exact median_of_consistent. Qed.
Print Assumptions C11_median_ratio_of_consistent_data.

(* a sample pair gets a ratio only if both samples have enough peptides and share enough of them, and the value is
   the median of the ratios of the shared peptides *)
Theorem C11_ratio_needs_enough_shared_peptides : forall M ncols minr graph ms i j m,
  In ((i, j), m) (median_ratios M ncols minr graph ms) ->
  (minr <= count_nonzero (col M i))%nat /\ (minr <= count_nonzero (col M j))%nat /\
  (minr <= length (both_ratios (col M i) (col M j)))%nat /\ m = median (both_ratios (col M i) (col M j)) /\
  (i < ncols)%nat /\ (j < ncols)%nat.
Proof. exact ratio_edge_valid. Qed.
Print Assumptions C11_ratio_needs_enough_shared_peptides.

Theorem C11_fastlfq_keeps_only_graph_edges : forall M ncols minr g ms i j m,
  In ((i, j), m) (median_ratios M ncols minr (Some g) ms) ->
  (ms <= length (filter (fun k => (minr <=? count_nonzero (col M k))%nat) (seq 0 ncols)))%nat ->
  has_edge g i j = true.
Proof. exact ratio_edge_in_graph. Qed.
Print Assumptions C11_fastlfq_keeps_only_graph_edges.

(* large-ratio stabilisation: summed-intensity ratio above a peptide-count ratio of 5, a weighted mix between 2.5 and 5,
   the median ratio otherwise (values are sums of coef * ln arg) *)
Theorem C11_stabilisation_regimes : forall pc1 pc2 si1 si2 med,
  let r := count_ratio pc1 pc2 in
  (Qlt_bool 5 r = true -> stab_value pc1 pc2 si1 si2 med = [(1, si1 / si2)]%Q) /\
  (Qlt_bool 5 r = false -> Qlt_bool (5 # 2) r = true ->
     stab_value pc1 pc2 si1 si2 med = [((r - (5 # 2)) / (5 # 2), si1 / si2); (1 - (r - (5 # 2)) / (5 # 2), med)]%Q) /\
  (Qlt_bool 5 r = false -> Qlt_bool (5 # 2) r = false -> stab_value pc1 pc2 si1 si2 med = [(1, med)]%Q).
Proof. exact stab_regimes. Qed.
Print Assumptions C11_stabilisation_regimes.

(* a sample is linked iff it occurs in a ratio edge (all others get 0) *)
Theorem C11_linked_samples : forall edges k,
  seen edges k = true <-> exists e, In e edges /\ (fst e = k \/ snd e = k).
Proof. exact seen_iff. Qed.
Print Assumptions C11_linked_samples.

(* rescaling over Q: the intensities sum to the summed intensity of the peptides used *)
Theorem C11_scale_equal_sum_total : forall v total, (0 < qsum v)%Q -> (qsum (scale_equal_sum v total) == total)%Q.
Proof. exact scale_equal_sum_total. Qed.
Print Assumptions C11_scale_equal_sum_total.

(* "scales with the input" on the exact layer: multiplying all intensities by a non-zero constant changes neither which sample
   pairs get a ratio (own and shared peptide counts) nor the median ratio itself; the total scales by the constant by definition, so
   the LFQ intensities (total x normalised solution of the same ratio equations) scale with it *)
Theorem C11_scaling_leaves_ratios_unchanged : forall c ci cj, ~ (c == 0)%Q ->
  (median (both_ratios (map (Qmult c) ci) (map (Qmult c) cj)) == median (both_ratios ci cj))%Q /\
  length (both_ratios (map (Qmult c) ci) (map (Qmult c) cj)) = length (both_ratios ci cj) /\
  count_nonzero (map (Qmult c) ci) = count_nonzero ci.
Proof.
  intros c ci cj Hc. split; [apply median_ratio_scale_invariant; exact Hc|].
  split; [apply shared_count_scale_invariant; exact Hc | apply count_nonzero_scale_invariant; exact Hc].
Qed.
Print Assumptions C11_scaling_leaves_ratios_unchanged.

(* the statement's "permutes with the samples" is FALSE of the faithful model: the arithmetic median of an even number
   of ratios is not reciprocal, so swapping two samples changes the ratio (finding D13; witness replayed on the code) *)
Theorem C11_sample_permutation_refuted :
  median_ratios M_witness 2 1 None 0 = [((0%nat, 1%nat), 3 # 2)] /\
  median_ratios (map (@rev Q) M_witness) 2 1 None 0 = [((0%nat, 1%nat), 3 # 4)] /\
  ~ ((3 # 4) == / (3 # 2))%Q.
Proof. exact median_not_reciprocal. Qed.
Print Assumptions C11_sample_permutation_refuted.

(* "unaffected by how experiments are named": every exact stage (peptide-intensity matrix, total, median ratios, the symbolic
   log-ratio expressions after large-ratio stabilisation) is the same after a renaming of the experiments that PRESERVES THEIR
   ORDER (str_compare); a renaming that changes the order of the names is a sample permutation, which the theorem above refutes *)
Theorem C11_order_preserving_renaming_invariant : forall (f : str -> str),
  (forall a b, str_compare (f a) (f b) = str_compare a b) ->
  forall cut exps ns minr stab graph ms l,
  lfq_exact cut (map f exps) ns minr stab graph ms (map (rename f) l) = lfq_exact cut exps ns minr stab graph ms l.
Proof. exact lfq_exact_rename. Qed.
Print Assumptions C11_order_preserving_renaming_invariant.

(* non-vacuity: prefixing every name with a fixed string preserves the order (checked on samples) *)
Example C11_renaming_witness :
  str_compare (s2l "x_" ++ s2l "E10") (s2l "x_" ++ s2l "E2") = str_compare (s2l "E10") (s2l "E2") /\
  str_compare (s2l "x_" ++ s2l "a") (s2l "x_" ++ s2l "a") = Eq.
Proof. split; vm_compute; reflexivity. Qed.

(* "the result does not depend on precursor order": every exact stage is the same for every permutation of the precursor list,
   provided the sort key (peptide, charge, experiment, fraction, -intensity, PEP) is a linear order on the precursors that are used
   (no two distinct ones compare equal both ways; transitive) *)
Theorem C11_precursor_order_invariant : forall cut exps ns minr stab graph ms l l',
  Permutation l l' -> key_separates (filter (l_used cut) l) ->
  lfq_exact cut exps ns minr stab graph ms l = lfq_exact cut exps ns minr stab graph ms l'.
Proof. exact lfq_exact_perm. Qed.
Print Assumptions C11_precursor_order_invariant.

(* the proviso holds whenever every used precursor carries a PEP (no match-between-runs row among them: a NaN compares "not less"
   both ways, which is not transitive) and no two distinct used precursors tie on the whole key *)
Theorem C11_precursor_order_proviso : forall U,
  (forall p, In p U -> has_pep p) ->
  (forall x y, In x U -> In y U -> key_leb x y = true -> key_leb y x = true -> x = y) ->
  key_separates U.
Proof. exact key_separates_sufficient. Qed.
Print Assumptions C11_precursor_order_proviso.

(* why the proviso asks for PEPs: a match-between-runs row among rows tying on the rest of the key makes the comparison intransitive *)
Theorem C11_key_not_transitive_with_mbr : key_leb nt_a nt_b = true /\ key_leb nt_b nt_c = true /\ key_leb nt_a nt_c = false.
Proof. exact key_not_transitive_with_mbr. Qed.
Print Assumptions C11_key_not_transitive_with_mbr.

(* without the proviso the clause is FALSE of the model: of two rows that tie on the whole key the first in file order supplies
   the SILAC channels (replayed on the implementation by the check: see DESIGN 0.5, "observed") *)
Theorem C11_precursor_order_matters_on_full_key_ties :
  Permutation [tie_a; tie_b] [tie_b; tie_a] /\
  peptide_intensities (1#1) 2 2 [tie_a; tie_b] <> peptide_intensities (1#1) 2 2 [tie_b; tie_a].
Proof. exact precursor_order_matters_on_full_key_ties. Qed.
Print Assumptions C11_precursor_order_matters_on_full_key_ties.

(* non-vacuity: three precursors (one block with two candidates, a second charge state in a second experiment) meet the proviso,
   a rotation of the list gives the same non-empty stages *)
Theorem C11_precursor_order_witness :
  key_separates (filter (l_used (1#1)) [ov1; ov2; ov3]) /\
  lfq_exact (1#1) [s2l "E1"; s2l "E2"] 0 1 false None 0 [ov1; ov2; ov3] =
  lfq_exact (1#1) [s2l "E1"; s2l "E2"] 0 1 false None 0 [ov3; ov1; ov2] /\
  st_matrix (lfq_exact (1#1) [s2l "E1"; s2l "E2"] 0 1 false None 0 [ov1; ov2; ov3]) <> [].
Proof. exact order_witness. Qed.
Print Assumptions C11_precursor_order_witness.

Local Close Scope Q_scope.
(* ----- specification layer (R) ----- *)
(* the condition the correspondence check evaluates on the implementation's answer (vanishing gradient) characterises
   the least-squares solutions of the ratio equations *)
Theorem C11_normal_equations_give_least_squares : forall n E x,
  in_range n E -> (forall k, (k < n)%nat -> grad E x k = 0%R) -> forall y, (lsq E x <= lsq E y)%R.
Proof. exact normal_equations_minimise. Qed.
Print Assumptions C11_normal_equations_give_least_squares.

(* consistent data: every least-squares solution reproduces the sample-factor ratios between all linked samples *)
Theorem C11_consistent_data_recovered : forall E (beta : nat -> R),
  (forall i j r, In (i, j, r) E -> r = (beta i - beta j)%R) ->
  lsq E beta = 0%R /\
  forall x, (forall y, (lsq E x <= lsq E y)%R) ->
    forall i j, linked E i j -> (exp (x i) / exp (x j) = exp (beta i) / exp (beta j))%R.
Proof. exact consistent_ratios_recovered. Qed.
Print Assumptions C11_consistent_data_recovered.

Theorem C11_final_ratio_is_solution_ratio : forall n is_seen x total i j,
  is_seen i = true -> is_seen j = true -> total <> 0%R -> sumN n (fun k => if is_seen k then exp (x k) else 0%R) <> 0%R ->
  (lfq_final n is_seen x total i / lfq_final n is_seen x total j = exp (x i) / exp (x j))%R.
Proof. exact final_ratio. Qed.
Print Assumptions C11_final_ratio_is_solution_ratio.

Theorem C11_total_preserved : forall n is_seen x total,
  (exists k, (k < n)%nat /\ is_seen k = true) -> sumN n (lfq_final n is_seen x total) = total.
Proof. exact scale_preserves_total. Qed.
Print Assumptions C11_total_preserved.

Theorem C11_unlinked_samples_zero : forall n is_seen x total k,
  is_seen k = false -> lfq_final n is_seen x total k = 0%R.
Proof. exact unlinked_samples_zero. Qed.
Print Assumptions C11_unlinked_samples_zero.
