(* C20 — protein-group lookups never return stale or foreign groups.  Statements only. *)
From PGF Require Import Base.Prelude Base.PyStr Model.ProteinGroups Proofs.ProteinGroupsProofs.

(* the index invariant holds after ANY sequence of append / extend / merge / remove-empty /
   re-index / add-unseen operations and edits of the group list from outside that are followed by a re-index (OReplace),
   from any initial collection *)
Theorem C20_invariant_reachable : forall init ops, Inv (run_ops init ops).
Proof. exact inv_reachable. Qed.
Print Assumptions C20_invariant_reachable.

Theorem C20_invariant_step : forall s o, Inv s -> Inv (step s o).
Proof. exact inv_step. Qed.
Print Assumptions C20_invariant_step.

(* a single-protein lookup fails loudly while the index is stale ... *)
Theorem C20_stale_fails_loudly : forall s p, valid s = false -> get_protein_group s p = Raise StaleIndex.
Proof. exact get_protein_group_stale. Qed.
Print Assumptions C20_stale_fails_loudly.

(* ... or returns a group of the collection that currently contains the protein *)
Theorem C20_lookup_sound : forall s p g,
  Inv s -> get_protein_group s p = Ok g -> In g (groups s) /\ In p g.
Proof. exact get_protein_group_sound. Qed.
Print Assumptions C20_lookup_sound.

(* group positions: every returned position is the missing marker for an unknown protein, or the
   position of a group currently containing one of the queried proteins *)
Theorem C20_idxs_sound : forall s ps idxs i,
  Inv s -> get_protein_group_idxs s ps = Ok idxs -> In i idxs ->
  (i = (-1)%Z /\ exists p, In p ps /\ lookup (index s) p = None) \/
  (exists p g, In p ps /\ (0 <= i)%Z /\ nth_error (groups s) (Z.to_nat i) = Some g /\ In p g).
Proof. exact get_protein_group_idxs_sound. Qed.
Print Assumptions C20_idxs_sound.

(* multi-protein lookup: every returned group is in the collection and contains a queried protein *)
Theorem C20_groups_sound : forall s ps l g,
  Inv s -> get_protein_groups s ps = Ok l -> In g l ->
  In g (groups s) /\ exists p, In p ps /\ In p g.
Proof. exact get_protein_groups_sound. Qed.
Print Assumptions C20_groups_sound.

Theorem C20_leading_sound : forall s ps l x,
  Inv s -> get_leading_proteins s ps = Ok l -> In x l ->
  exists p g, In p ps /\ In g (groups s) /\ In p g /\ hd_error g = Some x.
Proof. exact get_leading_proteins_sound. Qed.
Print Assumptions C20_leading_sound.

(* a protein contained in no group is reported as missing and never mapped to an existing group *)
Theorem C20_unknown_single : forall s p,
  Inv s -> in_no_group s p ->
  get_protein_group s p = Raise StaleIndex \/ get_protein_group s p = Raise KeyError.
Proof. exact get_protein_group_unknown. Qed.
Print Assumptions C20_unknown_single.

Theorem C20_unknown_idxs : forall s p,
  Inv s -> valid s = true -> in_no_group s p -> get_protein_group_idxs s [p] = Ok [(-1)%Z].
Proof. exact get_protein_group_idxs_unknown. Qed.
Print Assumptions C20_unknown_idxs.

Theorem C20_unknown_groups : forall s p,
  Inv s -> valid s = true -> in_no_group s p -> get_protein_groups s [p] = Ok [].
Proof. exact get_protein_groups_unknown. Qed.
Print Assumptions C20_unknown_groups.

(* a re-index forgets every protein that left the collection: after the group list was replaced from outside and re-indexed, a
   protein in none of the new groups is reported missing WHATEVER the object held before (no entry of the old index survives) *)
Theorem C20_reindex_forgets_departed : forall s gs p,
  (forall g, In g gs -> ~ In p g) ->
  get_protein_group_idxs (step s (OReplace gs)) [p] = Ok [(-1)%Z] /\
  get_protein_groups (step s (OReplace gs)) [p] = Ok [].
Proof. exact reindex_forgets_departed. Qed.
Print Assumptions C20_reindex_forgets_departed.

(* non-vacuity: a reachable valid state with a merge and a clean-up, an unknown protein (the D5 witness) *)
Example C20_witness :
  let s := run_ops [[s2l "A"]; [s2l "B"]; [s2l "C"]] [OMerge (s2l "A") (s2l "B"); ORemoveEmpty] in
  valid s = true /\ groups s = [[s2l "A"; s2l "B"]; [s2l "C"]] /\
  get_protein_groups s [s2l "X"] = Ok [] /\ get_protein_group s (s2l "B") = Ok [s2l "A"; s2l "B"].
Proof. vm_compute. repeat split; reflexivity. Qed.
