(* C03 — subset grouping partitions observed proteins into maximal peptide-set groups.
   Statements only.  [m] is the ordered peptide -> proteins map (a dict: keys distinct); [prot_order m]
   are the proteins with at least one observed peptide; [peptides_of m p] is p's observed peptide set. *)
From PGF Require Import Base.Prelude Model.ProteinGroups Model.Grouping Model.GroupingCheck Proofs.GroupingProofs Proofs.GroupingCheckProofs Proofs.PseudoGene.

Section C03.
Variable m : pmap.
Hypothesis m_keys : NoDup (map fst m).

(* every protein with an observed peptide is in exactly one group, which is non-empty *)
Theorem C03_covers : forall x, In x (prot_order m) -> exists g, In g (subset_grouping m) /\ In x g.
Proof. exact (subset_covers m m_keys). Qed.

Theorem C03_unique_group : forall g g' x,
  In g (subset_grouping m) -> In g' (subset_grouping m) -> In x g -> In x g' -> g = g'.
Proof. exact (subset_unique_group m m_keys). Qed.

Theorem C03_no_duplicate_in_group : forall g, In g (subset_grouping m) -> NoDup g.
Proof. exact (subset_group_nodup m m_keys). Qed.

Theorem C03_only_observed : forall g x, In g (subset_grouping m) -> In x g -> In x (prot_order m).
Proof. exact (subset_only_observed m m_keys). Qed.

Theorem C03_no_empty_group : forall g, In g (subset_grouping m) -> g <> [].
Proof. exact (subset_no_empty_group m m_keys). Qed.

(* the first (leading) protein's observed peptide set contains that of every other member *)
Theorem C03_leader_contains : forall g l tl x,
  In g (subset_grouping m) -> g = l :: tl -> In x g ->
  forall e, In e (peptides_of m x) -> In e (peptides_of m l).
Proof. exact (subset_leader_contains m m_keys). Qed.

(* no leading protein's peptide set is contained in the peptide set of a protein outside its group *)
Theorem C03_leader_maximal : forall g l tl q,
  In g (subset_grouping m) -> g = l :: tl -> In q (prot_order m) ->
  (forall e, In e (peptides_of m l) -> In e (peptides_of m q)) -> In q g.
Proof. exact (subset_leader_maximal m m_keys). Qed.

(* so the groups correspond one-to-one to the distinct inclusion-maximal peptide sets: leaders' sets are
   maximal, two different groups never have comparable leader sets, every protein's set is below a leader's *)
Theorem C03_leader_set_is_maximal : forall g l tl q,
  In g (subset_grouping m) -> g = l :: tl -> In q (prot_order m) ->
  (forall e, In e (peptides_of m l) -> In e (peptides_of m q)) ->
  (forall e, In e (peptides_of m q) -> In e (peptides_of m l)).
Proof. exact (subset_leader_set_is_maximal m m_keys). Qed.

Theorem C03_leaders_incomparable : forall g l tl g' l' tl',
  In g (subset_grouping m) -> g = l :: tl -> In g' (subset_grouping m) -> g' = l' :: tl' ->
  (forall e, In e (peptides_of m l) -> In e (peptides_of m l')) -> g = g'.
Proof. exact (subset_leaders_incomparable m m_keys). Qed.

Theorem C03_every_set_dominated : forall x, In x (prot_order m) ->
  exists g l tl, In g (subset_grouping m) /\ g = l :: tl /\
                 forall e, In e (peptides_of m x) -> In e (peptides_of m l).
Proof. exact (subset_every_set_dominated m m_keys). Qed.
End C03.

Print Assumptions C03_covers.
Print Assumptions C03_unique_group.
Print Assumptions C03_no_duplicate_in_group.
Print Assumptions C03_only_observed.
Print Assumptions C03_no_empty_group.
Print Assumptions C03_leader_contains.
Print Assumptions C03_leader_maximal.
Print Assumptions C03_leader_set_is_maximal.
Print Assumptions C03_leaders_incomparable.
Print Assumptions C03_every_set_dominated.

(* with no grouping every protein is its own group *)
Theorem C03_no_grouping_singletons : forall m,
  no_grouping m = map (fun p => [p]) (prot_order m) /\ NoDup (prot_order m).
Proof. exact no_grouping_singletons. Qed.
Print Assumptions C03_no_grouping_singletons.

(* pseudo-gene grouping, the ALGORITHM (merge every connected component of the leading proteins into its smallest member): for every
   peptide-to-protein map the groups are a duplicate-free partition of the observed proteins without empty group in which two proteins
   share a group exactly when a chain of proteins with a common peptide links them *)
Theorem C03_pseudo_gene_groups_are_components : forall m, NoDup (map fst m) ->
  NoDup (concat (pseudo_gene_grouping m)) /\
  (forall p, In p (concat (pseudo_gene_grouping m)) <-> In p (prot_order m)) /\
  (forall x y, In x (prot_order m) -> In y (prot_order m) -> (same_group (pseudo_gene_grouping m) x y <-> linked m x y)).
Proof. exact pseudo_gene_groups_are_components. Qed.
Print Assumptions C03_pseudo_gene_groups_are_components.

Theorem C03_pseudo_gene_no_empty_group : forall m, NoDup (map fst m) -> forall g, In g (pseudo_gene_grouping m) -> g <> [].
Proof. intros m Hm. exact (proj2 (proj2 (pseudo_gene_partition m Hm))). Qed.
Print Assumptions C03_pseudo_gene_no_empty_group.

(* pseudo-gene grouping: the claim "the groups are exactly the connected components of the shares-a-peptide relation" is ALSO decided on
   the IMPLEMENTATION's own groups by a boolean checker that the kernel evaluates in every pseudo-gene correspondence case
   (Harness/H03.v); the checker is sound: whenever it answers true the groups are a duplicate-free partition of the observed proteins
   in which two proteins share a group exactly when a chain of proteins with a common peptide links them *)
Theorem C03_pseudo_gene_component_checker_sound : forall m groups, components_ok m groups = true ->
  NoDup (concat groups) /\
  (forall p, In p (concat groups) <-> In p (prot_order m)) /\
  (forall x y, In x (concat groups) -> In y (concat groups) -> (same_group groups x y <-> linked m x y)).
Proof. exact components_ok_sound. Qed.
Print Assumptions C03_pseudo_gene_component_checker_sound.

(* ... and the model of pseudo-gene grouping passes it on the isoform example of the code's docstring *)
Example C03_pseudo_gene_witness :
  let m := [(s2l "pep1", [s2l "isoA1"; s2l "isoA2"]); (s2l "pep2", [s2l "isoA1"]); (s2l "pep3", [s2l "isoA2"]); (s2l "pep4", [s2l "B"])] in
  pseudo_gene_grouping m = [[s2l "isoA1"; s2l "isoA2"]; [s2l "B"]] /\ components_ok m (pseudo_gene_grouping m) = true /\
  components_ok m [[s2l "isoA1"]; [s2l "isoA2"]; [s2l "B"]] = false.
Proof. vm_compute. repeat split; reflexivity. Qed.

(* non-vacuity: A (e1,e2) contains B (e1); C (e3) stands alone; D has the same set as A *)
Example C03_witness :
  let m := [(s2l "e1", [s2l "B"; s2l "A"; s2l "D"]); (s2l "e2", [s2l "A"; s2l "D"]); (s2l "e3", [s2l "C"])] in
  NoDup (map fst m) /\ subset_grouping m = [[s2l "D"; s2l "A"; s2l "B"]; [s2l "C"]].
Proof.
  split; [|vm_compute; reflexivity].
  repeat (constructor; [simpl; intuition discriminate|]). constructor.
Qed.
