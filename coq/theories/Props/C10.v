(* C10 — evidence ingestion keeps the best PSM per peptide; targets and decoys never mix.
   Statements only.  [relevant pep rows] are the (PEP, proteins) pairs of all rows of all files - after the mapper -
   whose sequence with modifications stripped is [pep] and that carry a PEP (rows without one are ignored).  The
   per-format cell decoders (MaxQuant, Percolator native / mokapot, FragPipe, Sage, DIA-NN tsv) and the float
   transformations (1 - p + 1e-16, 10^x) are tied by correspondence with tabulated oracles. *)
From PGF Require Import Base.Prelude Base.PyStr Model.Fdr Model.Grouping Model.Fasta Model.Scoring Model.Ingest
  Proofs.IngestProofs.
From Coq Require Import Permutation.

(* the stored PEP is the lowest PEP over all PSMs of the peptide in all files, with the proteins of a PSM attaining it *)
Theorem C10_best_psm : forall pep rows,
  match pil_get (ingest rows) pep with
  | None => relevant pep rows = []
  | Some (m, ps) => In (m, ps) (relevant pep rows) /\ forall s ps', In (s, ps') (relevant pep rows) -> (m <= s)%Q
  end.
Proof. exact best_psm. Qed.
Print Assumptions C10_best_psm.

(* ... independent of the order of rows and files *)
Theorem C10_best_pep_order_independent : forall pep rows rows' m ps m' ps',
  Permutation rows rows' ->
  pil_get (ingest rows) pep = Some (m, ps) -> pil_get (ingest rows') pep = Some (m', ps') -> (m == m')%Q.
Proof. exact best_pep_order_independent. Qed.
Print Assumptions C10_best_pep_order_independent.

(* modifications in (..), [..] or two-level parentheses are stripped, and so is the hyphen that attaches a terminal modification
   in ProForma notation ("[m]-" before, "-[m]" after the sequence); exactly the residues stay *)
Theorem C10_strip_mods_spec : forall toks n c, Forall wf_tok toks -> plain_opt n -> plain_opt c ->
  (forall x, In x (flat_map residues toks) -> x <> dash) ->
  remove_modifications (nterm n ++ flat_map render toks ++ cterm c) = flat_map residues toks.
Proof. exact strip_mods_spec. Qed.
Print Assumptions C10_strip_mods_spec.

(* without the hypothesis on the residues: what is left is the residues minus the hyphens at both ends *)
Theorem C10_strip_mods_general : forall toks, Forall wf_tok toks ->
  remove_modifications (flat_map render toks) = strip_chr dash (flat_map residues toks).
Proof. exact strip_mods_general. Qed.
Print Assumptions C10_strip_mods_general.

(* non-vacuity: Sage / mokapot N-terminal notation, MaxQuant nested parentheses *)
Example C10_strip_witness :
  remove_modifications (s2l "[+42.0106]-PEPM[+15.9949]TIDEK") = s2l "PEPMTIDEK" /\
  remove_modifications (s2l "(ac)PEPM(Oxidation (M))K-[UNIMOD:737]") = s2l "PEPMK".
Proof. split; vm_compute; reflexivity. Qed.

(* a protein list containing a target loses its decoy entries *)
Theorem C10_purge_spec : forall ps, pure (remove_decoy_proteins_from_target_peptides ps).
Proof. exact purge_spec. Qed.
Print Assumptions C10_purge_spec.

Theorem C10_purge_keeps_targets : forall ps p, is_decoy ps = false -> is_decoy_id p = false -> In p ps ->
  In p (remove_decoy_proteins_from_target_peptides ps).
Proof. exact purge_keeps_targets. Qed.
Print Assumptions C10_purge_keeps_targets.

Theorem C10_mapper_output_pure : forall remap cfg md5 mp tmp ps,
  map_proteins remap cfg md5 mp tmp = Ok (Some ps) -> pure ps.
Proof. exact mapper_pure. Qed.
Print Assumptions C10_mapper_output_pure.

(* peptides unknown to the digest are skipped *)
Theorem C10_unknown_skipped : forall m cfg md5 mp tmp,
  map_get m (remove_modifications mp) = [] -> map_proteins (Some m) cfg md5 mp tmp = Ok None.
Proof. exact unknown_skipped. Qed.
Print Assumptions C10_unknown_skipped.

(* so every group consists only of targets or only of decoys (identifiers carry a decoy marker only as a prefix) *)
Theorem C10_purge_same_class : forall ps, wf_ids ps -> same_class (remove_decoy_proteins_from_target_peptides ps).
Proof. exact purge_same_class. Qed.
Print Assumptions C10_purge_same_class.

Theorem C10_group_purity : forall m : pmap, NoDup (map fst m) ->
  (forall e ps, In (e, ps) m -> same_class ps) ->
  forall g, In g (subset_grouping m) -> same_class g.
Proof. exact group_purity. Qed.
Print Assumptions C10_group_purity.

(* non-vacuity: the same peptide under two modifications and two files; a target list with a decoy entry *)
Example C10_witness :
  let rows := [(s2l "AAAM(ox)K", remove_decoy_proteins_from_target_peptides [s2l "P1"; s2l "REV__P2"], Some (1#100)%Q);
               (s2l "AAAM[16]K", [s2l "P1"], Some (1#1000)%Q); (s2l "(ac)AAAM(Oxidation (M))K", [s2l "P3"], None)] in
  ingest rows = [(s2l "AAAMK", ((1#1000)%Q, [s2l "P1"]))] /\
  remove_decoy_proteins_from_target_peptides [s2l "P1"; s2l "REV__P2"] = [s2l "P1"].
Proof. vm_compute. split; reflexivity. Qed.

(* Percolator flanks (after the repair D17): a peptide written "x.BODY.y" - whatever the two flanking characters, hyphens or residues -
   is recognised as flanked and stripping returns BODY; a peptide without any dot is never taken for flanked *)
Theorem C10_flanks_recognised_and_stripped : forall (a b : N) (body : str),
  has_flanks (a :: 46%N :: body ++ [46%N; b]) = true /\ strip_flanks (a :: 46%N :: body ++ [46%N; b]) = body.
Proof. exact flanks_recognised_and_stripped. Qed.
Print Assumptions C10_flanks_recognised_and_stripped.

Theorem C10_unflanked_left_alone : forall s : str, ~ In 46%N s -> has_flanks s = false.
Proof. exact no_dot_no_flanks. Qed.
Print Assumptions C10_unflanked_left_alone.

