(* C01 — protein-group q-values are the monotone decoy-based FDR estimate.
   Statements only; each closed by [exact <lemma>] and followed by Print Assumptions. *)
From PGF Require Import Base.Prelude Base.PyStr Model.Fdr Model.Results Proofs.FdrProofs Proofs.ResultsProofs.
Open Scope Q_scope.

(* each q-value is the minimum, over all ranks at or below it, of the estimated FDR there *)
Theorem C01_qval_suffix_min : forall f i, (i < length f)%nat ->
  (forall j, (i <= j < length f)%nat -> nth i (qvals f) 0 <= nth j f 0) /\
  (exists j, (i <= j < length f)%nat /\ nth i (qvals f) 0 == nth j f 0).
Proof. exact qval_suffix_min. Qed.
Print Assumptions C01_qval_suffix_min.

(* ... where the estimated FDR at rank i is (decoy groups so far + 1) / (target groups so far + 1) *)
Theorem C01_fdr_is_decoys_over_targets : forall l i, no_sentinel l -> (i < length l)%nat ->
  nth i (fdrs 0 0 l) 0 =
  ((ndecoy (firstn (S i) l) + 1)%Z # Z.to_pos (ntarget (firstn (S i) l) + 1)).
Proof. exact fdrs_nth. Qed.
Print Assumptions C01_fdr_is_decoys_over_targets.

(* a group counts as decoy only if all of its proteins are decoys (carry a decoy marker) *)
Theorem C01_decoy_iff_all_marked : forall g,
  is_decoy g = true <->
  (forall p, In p g -> exists u v, p = u ++ s2l "REV__" ++ v) \/
  (forall p, In p g -> exists u v, p = u ++ s2l "rev_" ++ v).
Proof. exact decoy_iff_all_marked. Qed.
Print Assumptions C01_decoy_iff_all_marked.

(* q-values never decrease down the ranking *)
Theorem C01_qval_monotone : forall f i j, (i <= j < length f)%nat ->
  nth i (qvals f) 0 <= nth j (qvals f) 0.
Proof. exact qval_monotone. Qed.
Print Assumptions C01_qval_monotone.

(* for every threshold t the groups with q <= t are a prefix of the ranking, and that prefix's own
   (decoys+1)/(targets+1) is at most t *)
Theorem C01_qval_threshold : forall f t,
  let k := accepted t f in
  (k <= length f)%nat /\
  (forall i, (i < length f)%nat -> ((i < k)%nat <-> nth i (qvals f) 0 <= t)) /\
  ((0 < k)%nat -> nth (k - 1) f 0 <= t).
Proof. exact qval_threshold. Qed.
Print Assumptions C01_qval_threshold.

(* reported rows carry exactly the score and q-value of the ranking, in the same relative order,
   even when other ranked groups (placeholders, groups without peptides below the cutoff) are withheld *)
Theorem C01_rows_aligned : forall cut ka gs is ss qs rows,
  from_protein_groups gs is ss qs cut ka = Ok rows ->
  map (fun r => (r_score r, r_q r)) rows =
  map (fun t : list str * list pinfo * Q * Q => (snd (fst t), snd t))
      (filter (reported cut ka) (zip4 gs is ss qs)).
Proof. exact rows_aligned. Qed.
Print Assumptions C01_rows_aligned.

(* non-vacuity: a ranking target, decoy, target, mixed group (counts as target), decoy *)
Example C01_witness :
  calculate_protein_fdrs
    [([s2l "A"], 5#1); ([s2l "REV__B"], 4#1); ([s2l "C"], 4#1);
     ([s2l "D"; s2l "REV__D"], 3#1); ([s2l "REV__E"; s2l "REV__F"], 2#1)]
  = Ok [1#2; 2#4; 2#4; 2#4; 3#4]%Q /\ (0 < length [1;2;3;4;5])%nat.
Proof. split; [vm_compute; reflexivity | simpl; lia]. Qed.
