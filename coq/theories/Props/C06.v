(* C06 — every reported row is consistent with its group's evidence peptides.
   Statements only.  [cnt infos cut p] is the declarative count: the number of evidence entries at
   or below the cutoff that list p (entries are one per peptide: NoDup hypothesis, which the
   pipeline guarantees because evidence is keyed by peptide). *)
From PGF Require Import Base.Prelude Base.PyStr Base.StableSort Model.Fdr Model.Results
  Model.ProteinGroups Model.Grouping Model.Scoring Model.Competition Model.Rescue Model.Pipeline
  Proofs.FdrProofs Proofs.ResultsProofs Proofs.PipelineOptions.
From Coq Require Import Sorted.

(* a peptide counts once per protein even if that protein is listed for it repeatedly *)
Theorem C06_count_is_distinct_peptides : forall infos cut p,
  NoDup (map pi_peptide infos) -> peptide_count infos cut p = cnt infos cut p.
Proof. exact peptide_count_spec. Qed.
Print Assumptions C06_count_is_distinct_peptides.

(* listed proteins (in group order, paired with their counts), majority proteins (count at least half
   the maximum), protein number, decoy/contaminant flags, score, q-value and best peptide (lowest PEP,
   ties by peptide string) of a reported row *)
Theorem C06_row_spec : forall g infos q s cut ka r,
  NoDup (map pi_peptide infos) ->
  from_protein_group g infos q s cut ka = Ok (Some r) ->
  row_spec g infos q s cut ka r.
Proof. exact from_protein_group_spec. Qed.
Print Assumptions C06_row_spec.

(* the listed proteins are exactly the members with a peptide at or below the cutoff (all when keep-all) *)
Theorem C06_listed_sound : forall g infos cut ka p c,
  In (p, c) (listed g infos cut ka) -> In p g /\ c = cnt infos cut p.
Proof. exact listed_subset. Qed.
Print Assumptions C06_listed_sound.

Theorem C06_listed_complete : forall g infos cut ka p,
  In p g -> (cnt infos cut p > 0 \/ ka = true) -> In (p, cnt infos cut p) (listed g infos cut ka).
Proof. exact listed_complete. Qed.
Print Assumptions C06_listed_complete.

(* a group none of whose proteins has such a peptide is omitted unless keep-all is set *)
Theorem C06_row_omitted_iff : forall g infos q s cut ka,
  NoDup (map pi_peptide infos) ->
  (from_protein_group g infos q s cut ka = Ok None <->
   ka = false /\ forall p, In p g -> cnt infos cut p = 0).
Proof. exact from_protein_group_none. Qed.
Print Assumptions C06_row_omitted_iff.

(* rows are in non-increasing score order when the ranking is *)
Theorem C06_rows_sorted : forall cut ka gs is ss qs rows,
  from_protein_groups gs is ss qs cut ka = Ok rows ->
  StronglySorted (fun a b => (b <= a)%Q) ss ->
  StronglySorted (fun a b => (r_score b <= r_score a)%Q) rows.
Proof. exact rows_sorted. Qed.
Print Assumptions C06_rows_sorted.

(* which option decides the count cutoff: a first pass builds its rows without a count filter, whatever the PSM-level FDR ... *)
Theorem C06_first_pass_ignores_psm_cutoff : forall me o st s l ka pc pc' p1 p2,
  snd (one_pass me o st s l false ka pc p1 p2) = snd (one_pass me o st s l false ka pc' p1 p2).
Proof. exact first_pass_ignores_psm_cut. Qed.
Print Assumptions C06_first_pass_ignores_psm_cutoff.

(* ... so for methods without a rescue step neither FDR option has any influence on the reported rows; with a rescue step the
   count cutoff of the reported rows is o_cutoff (PEPs of the final grouping) (PSM-level FDR): the level is an argument of the
   oracle, so a call asking for the cutoff of any other level is a disagreement of the correspondence check *)
Theorem C06_no_rescue_ignores_fdr_options : forall me o st l ka thr thr' pc pc' pis,
  is_rescued (m_grouping me) = false ->
  snd (run me o st l ka thr pc pis) = snd (run me o st l ka thr' pc' pis).
Proof. exact no_rescue_ignores_fdr_options. Qed.
Print Assumptions C06_no_rescue_ignores_fdr_options.

(* non-vacuity (the D3 witness): one peptide listing G1 twice counts once *)
Example C06_witness :
  peptide_count [((1#100)%Q, s2l "PEPK", [s2l "G1"; s2l "G1"; s2l "G2"])] None (s2l "G1") = 1 /\
  NoDup (map pi_peptide [((1#100)%Q, s2l "PEPK", [s2l "G1"; s2l "G1"; s2l "G2"])]).
Proof. split; [vm_compute; reflexivity | repeat constructor; intros []]. Qed.
