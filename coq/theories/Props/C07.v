(* C07 — results are reproducible across processes, hash seeds and repeated calls.
   Statements only.  PARTIAL by nature: the model is a function of the input, the shuffle draws and the
   recorded oracles, so determinism given those is definitional; what the theorems add is that nothing a call
   leaves behind in the long-lived strategy objects can influence a later call.  The interpreter's hash seed,
   numpy's RNG stream and networkx internals are observed by the correspondence runs, not modelled. *)
From PGF Require Import Base.Prelude Model.Fdr Model.Results Model.ProteinGroups Model.Scoring Model.Competition
  Model.Rescue Model.Pipeline Proofs.PipelineProofs.

(* two calls give the same result whatever the two configuration objects hold: seen proteins (the competition clears the set before
   it starts - since the repair of D15 - so what an aborted call left there is never read), razor tables, PEP cutoff, rescue cutoff,
   placeholder groups *)
Theorem C07_history_independent : forall me o a b l ka thr pc pis,
  snd (run me o a l ka thr pc pis) = snd (run me o b l ka thr pc pis).
Proof. exact run_history_independent. Qed.
Print Assumptions C07_history_independent.

(* every call leaves the seen-set empty (also when it raises) *)
Theorem C07_seen_reset : forall me o a l ka thr pc pis,
  ps_seen a = [] -> ps_seen (fst (run me o a l ka thr pc pis)) = [].
Proof. exact run_seen_reset. Qed.
Print Assumptions C07_seen_reset.

(* hence a call after ANY sequence of earlier calls on the same configuration object - on the same or on
   different inputs, failing or not - returns exactly what a fresh configuration returns *)
Theorem C07_call_after_any_history : forall me h o l ka thr pc pis,
  snd (run me o (after_history me h) l ka thr pc pis) = snd (run me o fresh l ka thr pc pis).
Proof. exact call_after_any_history. Qed.
Print Assumptions C07_call_after_any_history.

(* the same for histories in which any call may have been ABORTED at any point, leaving the object in an arbitrary state *)
Theorem C07_call_after_aborted_calls : forall me h o l ka thr pc pis,
  snd (run me o (after_steps me h) l ka thr pc pis) = snd (run me o fresh l ka thr pc pis).
Proof. exact call_after_any_steps. Qed.
Print Assumptions C07_call_after_aborted_calls.

(* a pass that returns a result leaves the seen set empty whatever it found there *)
Theorem C07_completed_pass_clears_seen : forall me o a s l rescue ka pc p1 p2 infos rows,
  snd (one_pass me o a s l rescue ka pc p1 p2) = Ok (infos, rows) ->
  ps_seen (fst (one_pass me o a s l rescue ka pc p1 p2)) = [].
Proof. exact one_pass_clears_seen. Qed.
Print Assumptions C07_completed_pass_clears_seen.

(* without the razor option the razor tables are never read *)
Theorem C07_razor_tables_unread_without_razor : forall rz sh c1 c2 md5 s sup l,
  rz = false ->
  collect {| sc_razor := rz; sc_shared := sh; sc_counts := c1 |} md5 s sup l =
  collect {| sc_razor := rz; sc_shared := sh; sc_counts := c2 |} md5 s sup l.
Proof. exact collect_counts_irrelevant. Qed.
Print Assumptions C07_razor_tables_unread_without_razor.

(* non-vacuity: a history exists and leaves a state different from the fresh one *)
Example C07_witness :
  let me := {| m_picked := PickedGroup; m_grouping := GSubset; m_score := SBestPEP; m_razor := true; m_shared := false |} in
  let o := {| o_score := fun _ => (1#1)%Q; o_cutoff := fun _ _ => (1#1)%Q; o_pow10neg := fun _ => (1#1)%Q;
              o_md5 := fun p => p; o_split := fun _ => [] |} in
  let c := {| c_l := [(s2l "AAAK", ((1#100)%Q, [s2l "P1"]))]; c_ka := false; c_thr := (1#100)%Q; c_pc := (1#100)%Q;
              c_pis := [[0]; [0]]; c_o := o |} in
  ps_counts (after_history me [c]) <> ps_counts fresh /\ ps_seen (after_history me [c]) = [].
Proof. split; [vm_compute; discriminate | vm_compute; reflexivity]. Qed.
