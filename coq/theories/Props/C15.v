(* C15 — merging rescoring results rewrites exactly the matched PSMs of evidence files.
   Statements only.  Rows are lists of cells; [fmt] is the tabulated repr(float(.)) of the two rewritten cells.
   The model's [merge_evidence] is header of the first file :: rows of all files in order, each row mapped by
   [update_row] (Some row' = written, None = dropped); csv reading/writing is tied by correspondence. *)
From PGF Require Import Base.Prelude Base.PyStr Model.ProteinGroups Model.Ingest Model.Merge Proofs.MergeProofs.

(* no field other than score and PEP is altered *)
Theorem C15_only_two_cells_change : forall fmt d sc ec rc nc pc row row',
  update_row fmt d (sc, ec, rc, nc, pc) row = Ok (Some row') ->
  length row' = length row /\ forall i, i <> sc -> i <> ec -> nth i row' [] = nth i row [].
Proof. exact only_two_cells_change. Qed.
Print Assumptions C15_only_two_cells_change.

(* match-between-runs rows pass through unchanged *)
Theorem C15_mbr_pass_through : forall fmt d sc ec rc nc pc row,
  cell row nc = [] -> update_row fmt d (sc, ec, rc, nc, pc) row = Ok (Some row).
Proof. exact mbr_pass_through. Qed.
Print Assumptions C15_mbr_pass_through.

(* an MS/MS row gets exactly its score and PEP replaced by the rescored values when its raw file, scan number and
   modified sequence occur in the results, and is dropped otherwise (also when its raw file is absent) *)
Theorem C15_msms_row_outcome : forall fmt d sc ec rc nc pc row n,
  cell row nc <> [] -> parse_nat_cell (cell row nc) = Some n -> n <> (-1)%Z -> d <> [] ->
  update_row fmt d (sc, ec, rc, nc, pc) row =
  match inner_get (rd_get d (cell row rc)) (n, drop_ends (cell row pc)) with
  | Some (s, e) => Ok (Some (set_nth_str (set_nth_str row sc (fmt s)) ec (fmt e)))
  | None => Ok None
  end.
Proof. exact msms_row_outcome. Qed.
Print Assumptions C15_msms_row_outcome.

(* without rescoring results the evidence files are simply concatenated under the first header *)
Theorem C15_no_results_is_concatenation : forall fmt h files,
  (forall c rows r, In (c, rows) files -> In r rows ->
     let '(_, _, _, nc, _) := c in cell r nc = [] \/ parse_nat_cell (cell r nc) <> None) ->
  merge_evidence fmt [] h files = Ok (h :: concat (map snd files)).
Proof. exact no_results_is_concatenation. Qed.
Print Assumptions C15_no_results_is_concatenation.

Theorem C15_header_is_first : forall fmt pouts h files out, merge_evidence fmt pouts h files = Ok out -> hd [] out = h.
Proof. exact header_is_first. Qed.
Print Assumptions C15_header_is_first.

(* Andromeda-style PSM identifiers: raw file and scan number are recovered also when the raw-file name contains underscores *)
Theorem C15_psmid_roundtrip : forall file scan charge rank n,
  ~ In us scan -> ~ In us charge -> ~ In us rank -> parse_nat_cell scan = Some n ->
  parse_psmid (file ++ us :: scan ++ us :: charge ++ us :: rank) = Ok (file, n).
Proof. exact psmid_roundtrip. Qed.
Print Assumptions C15_psmid_roundtrip.

(* non-vacuity *)
Example C15_witness :
  parse_psmid (s2l "run_01_b_123_2_1") = Ok (s2l "run_01_b", 123%Z) /\
  normalise_peptide (s2l "[42]AAAM[16]K") = s2l "(ac)AAAM(ox)K".
Proof. vm_compute. split; reflexivity. Qed.
