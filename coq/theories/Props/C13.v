(* C13 — output tables are rectangular, uniquely headed, re-readable; FDR filter exact.
   Statements only.  [gen_headers st g] / [gen_ncols st g] are the header list and the number of cells per row of
   column generator g for table state st (experiments, number of SILAC channels, number of TMT channels); the cell VALUES
   are C12's subject and enter only through their number.  The csv dialect is the tool's (TAB, double quote, CR LF). *)
From PGF Require Import Base.Prelude Base.PyStr Base.Csv Model.Table Proofs.TableProofs Proofs.CsvProofs.

(* every column generator appends as many cells to each row as it appends headers, for every number of experiments and
   every labelling *)
Theorem C13_generator_counts : forall st g, length (gen_headers st g) = gen_ncols st g.
Proof. exact gen_counts. Qed.
Print Assumptions C13_generator_counts.

(* hence after ANY sequence of column generators the headers are unique and every row has exactly one cell per header *)
Theorem C13_rectangular_invariant : forall st cells, (forall g i, length (cells g i) = gen_ncols st g) ->
  forall gs t t', Inv t -> gens_append st cells gs t = Ok t' -> Inv t'.
Proof. exact rectangular_invariant. Qed.
Print Assumptions C13_rectangular_invariant.

Theorem C13_initial_table_ok : forall n, Inv (init_table n).
Proof. exact inv_init. Qed.
Print Assumptions C13_initial_table_ok.

Theorem C13_written_rows_rectangular : forall t base, Inv t -> (forall b, In b base -> length b = length base_headers) ->
  length base = length (extra t) ->
  forall row, In row (map (fun be => fst be ++ snd be) (combine base (extra t))) -> length row = length (headers t).
Proof. exact written_rectangular. Qed.
Print Assumptions C13_written_rows_rectangular.

(* output formats with a header dictionary: one cell per dictionary entry in every row *)
Theorem C13_dictionary_output_rectangular : forall hs d rows out, write_dict hs rows d = Ok out ->
  forall r, In r out -> length r = length d.
Proof. exact write_dict_rectangular. Qed.
Print Assumptions C13_dictionary_output_rectangular.

(* the DIA-NN writer's dictionary refers only to columns its generators produce - for ANY number of runs (1 included) *)
Theorem C13_diann_dictionary_columns_exist : forall exps cells n t,
  gens_append {| t_exps := exps; t_silac := 0; t_tmt := 0 |} cells diann_gens (init_table n) = Ok t ->
  forall v, In v (map snd (diann_dict exps)) -> In v (headers t).
Proof. exact diann_dict_refers_to_existing_columns. Qed.
Print Assumptions C13_diann_dictionary_columns_exist.

Theorem C13_dictionary_write_total : forall hs d, (forall v, In v (map snd d) -> In v hs) ->
  forall rows, exists out, write_dict hs rows d = Ok out.
Proof. exact write_dict_total. Qed.
Print Assumptions C13_dictionary_write_total.

(* reading a written file back yields the same cells, whatever they contain (tabs, quotes, CR, LF, separators) *)
Theorem C13_csv_roundtrip : forall rows, csv_read (csv_write rows) = rows.
Proof. exact csv_roundtrip. Qed.
Print Assumptions C13_csv_roundtrip.

(* the FDR filter outputs the header plus exactly the rows whose q-value passes, unchanged and in their original order *)
Theorem C13_filter_exact : forall qle h rows out,
  filter_fdr qle (h :: rows) = Ok out ->
  exists qc, index_str (s2l "Q-value") h = Some qc /\ out = h :: filter (fun r => qle (nth qc r [])) rows.
Proof. exact filter_exact. Qed.
Print Assumptions C13_filter_exact.

(* non-vacuity: the MaxQuant writer's generators on two experiments with SILAC (2 channels) *)
Example C13_witness :
  let st := {| t_exps := [s2l "E1"; s2l "E2"]; t_silac := 2; t_tmt := 0 |} in
  match gens_append st (fun g _ => repeat [] (gen_ncols st g)) (maxquant_gens false) (init_table 2) with
  | Ok t => length (headers t) = 42 /\ map (@length str) (extra t) = [33; 33]
  | Raise _ => False
  end.
Proof. vm_compute. split; reflexivity. Qed.
