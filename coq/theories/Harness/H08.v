From PGF Require Import Base.Prelude Base.PyStr Model.Digest.

Definition dig_of (k : nat) : digestion := match k with 2 => DFull | 1 => DSemi | _ => DNone end.
(* case: ((pre, not_post, post), mode k, sequence, min, max, mc, met), implementation's peptide list *)
Definition c08_in := ((list N * list N * list N) * nat * str * nat * nat * nat * bool)%type.
Definition run08 (c : c08_in) : list str :=
  let '((p, np, po), k, s, mn, mx, mc, met) := c in
  get_digested_peptides {| pre := p; not_post := np; post := po |} (dig_of k) s mn mx mc met.
(* the model agrees with the implementation as a set *)
Definition chk08 (c : c08_in * list str) : bool := same_set (run08 (fst c)) (snd c).
(* the implementation's output equals the declarative rule (property checker on the implementation's output) *)
Definition pb08 (c : c08_in * list str) : bool :=
  let '((p, np, po), k, s, mn, mx, mc, met) := fst c in
  same_set (snd c) (spec_digest {| pre := p; not_post := np; post := po |} k s mn mx mc met).
