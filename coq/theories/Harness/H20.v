From PGF Require Import Base.Prelude Base.PyStr Base.StableSort Model.ProteinGroups.

Inductive lk := LGroup (p : str) | LIdxs (ps : list str) | LGroups (ps : list str) | LLeading (ps : list str).
Inductive outc :=
  | OG (r : res (list str)) | OI (r : res (list Z))
  | OGs (r : res (list (list str))) | OL (r : res (list str)).

Definition strs_leb (a b : list str) : bool := match strs_compare a b with Gt => false | _ => true end.

Definition do_lookup (s : pgs) (l : lk) : outc :=
  match l with
  | LGroup p => OG (get_protein_group s p)
  | LIdxs ps => OI (get_protein_group_idxs s ps)
  | LGroups ps => OGs (match get_protein_groups s ps with Ok l => Ok (isort strs_leb l) | Raise e => Raise e end)
  | LLeading ps => OL (get_leading_proteins s ps)
  end.

Definition outc_eqb (a b : outc) : bool :=
  match a, b with
  | OG x, OG y => eqb x y
  | OI x, OI y => eqb x y
  | OGs x, OGs y => eqb x y
  | OL x, OL y => eqb x y
  | _, _ => false
  end.
#[export] Instance Eqb_outc : Eqb outc := outc_eqb.

(* outcome of an operation: Raise e, or Ok (obsolete groups, their positions) for add_unseen, Ok ([],[]) otherwise *)
Definition step_out (s : pgs) (o : op) : pgs * res (list (list str) * list nat) :=
  match o with
  | OMerge a b => match merge_groups s a b with Ok s' => (s', Ok ([], [])) | Raise e => (s, Raise e) end
  | OAddUnseen other => let '(s', obs, oi) := add_unseen s other in (s', Ok (obs, oi))
  | _ => (step s o, Ok ([], []))
  end.

Fixpoint trace (s : pgs) (ops : list op) (lks : list lk)
  : list (res (list (list str) * list nat) * list (list str) * list outc) :=
  match ops with
  | [] => []
  | o :: r => let '(s', out) := step_out s o in
              (out, groups s', map (do_lookup s') lks) :: trace s' r lks
  end.

Definition run20 (c : list (list str) * list op * list lk) :=
  let '(init, ops, lks) := c in
  let s0 := create_index (of_list init) in
  (map (do_lookup s0) lks, trace s0 ops lks).

Definition chk20 (c : (list (list str) * list op * list lk) *
                      (list outc * list (res (list (list str) * list nat) * list (list str) * list outc))) : bool :=
  eqb (run20 (fst c)) (snd c).
