From PGF Require Import Base.Prelude Base.PyStr Model.ProteinGroups Model.Grouping Model.GroupingCheck.

(* mode: 0 = subset, 1 = no grouping, 2 = pseudo-gene *)
Definition run03 (c : nat * pmap) : list (list str) :=
  match fst c with
  | 0 => subset_grouping (snd c)
  | 1 => no_grouping (snd c)
  | _ => pseudo_gene_grouping (snd c)
  end.
(* model agreement and, in pseudo-gene mode, the proved-sound component checker applied to the implementation's own groups *)
Definition chk03 (c : (nat * pmap) * list (list str)) : bool :=
  eqb (run03 (fst c)) (snd c) &&
  match fst (fst c) with
  | 0 | 1 => true
  | _ => components_ok (snd (fst c)) (snd c)
  end.
