From PGF Require Import Base.Prelude Base.PyStr Model.ProteinGroups Model.Grouping.

(* mode: 0 = subset, 1 = no grouping, 2 = pseudo-gene *)
Definition run03 (c : nat * pmap) : list (list str) :=
  match fst c with
  | 0 => subset_grouping (snd c)
  | 1 => no_grouping (snd c)
  | _ => pseudo_gene_grouping (snd c)
  end.
Definition chk03 (c : (nat * pmap) * list (list str)) : bool := eqb (run03 (fst c)) (snd c).
