From PGF Require Import Base.Prelude Base.PyStr Model.ProteinGroups Model.Scoring Model.Quant.

Definition precT := (str * list str * Z * str * option Q * option Q * list Q * list Q * Z)%type.
Definition mk_prec (t : precT) : prec :=
  let '(pe, pr, ch, ex, it, pp, si, tm, id) := t in
  {| p_peptide := pe; p_proteins := pr; p_charge := ch; p_exp := ex; p_intensity := it; p_pep := pp; p_silac := si; p_tmt := tm; p_id := id |}.
Definition qrowT := (list str * list nat * list str * Q * list Q * list nat * Q * list Q * list Z)%type.
Definition qrow_tuple (r : qrow) : qrowT :=
  (q_ids r, q_unique r, q_idtype r, q_total r, q_ints r, q_ntheo r, q_ibaq_total r, q_ibaq r, q_evidence r).

Fixpoint tab_cut (t : list (list Q * Q)) (k : list Q) : Q :=
  match t with [] => (1#1)%Q | (a, b) :: r => if eqb a k then b else tab_cut r k end.

(* last component: the experiments of an experimental design, in its order (None: no design, experiments = sorted names of the rows) *)
Definition c12_in := (list (str * nat) * list (list Q * Q) * nat * list (list str) * list precT * option (list str))%type.
Definition c12_out := res (list str * list qrowT).
Definition run12 (c : c12_in) : c12_out :=
  let '(ibaq, cuts, ns, groups, rows, design) := c in
  match (match design with
         | None => quantify ibaq (tab_cut cuts) ns groups (map mk_prec rows)
         | Some dexps => quantify_design ibaq (tab_cut cuts) ns groups (map mk_prec rows) dexps
         end) with
  | Ok (e, l) => Ok (e, map qrow_tuple l)
  | Raise x => Raise x
  end.
Definition chk12 (c : c12_in * c12_out) : bool := eqb (run12 (fst c)) (snd c).

(* TMT reporter cells: (input, number of reporter columns per experiment) against the cells of every written row *)
Definition run12t (c : c12_in * nat) : list (list Q) :=
  let '(ibaq, cuts, ns, groups, rows, design) := fst c in
  quantify_tmt (tab_cut cuts) (snd c) groups (map mk_prec rows) design.
(* None: the implementation raised (a protein missing from the iBAQ table): the model of the other columns must raise as well *)
Definition chk12t (c : (c12_in * nat) * option (list (list Q))) : bool :=
  match snd c with
  | Some cells => eqb (run12t (fst c)) cells
  | None => match run12 (fst (fst c)) with Raise _ => true | Ok _ => false end
  end.
