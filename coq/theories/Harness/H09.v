From PGF Require Import Base.Prelude Base.PyStr Model.Digest Model.Fasta.

Definition db_of (k : nat) : dbmode := match k with 0 => DbTarget | 1 => DbDecoy | _ => DbConcat end.
Definition dig_of9 (k : nat) : digestion := match k with 2 => DFull | 1 => DSemi | _ => DNone end.

(* read_fasta: (db, special, lines) -> records *)
Definition run09r (c : nat * list N * list str) : list (str * str) :=
  let '(db, sp, lines) := c in read_fasta parse_until_first_space (db_of db) sp lines.
Definition chk09r (c : (nat * list N * list str) * list (str * str)) : bool := eqb (run09r (fst c)) (snd c).

(* one digestion parameter set *)
Definition params := ((list N * list N * list N) * nat * nat * nat * nat * bool)%type.  (* enzyme, mode, min, max, mc, met *)
Definition dig_fun (p : params) : str -> list str :=
  let '((a, b, c), k, mn, mx, mc, met) := p in
  fun s => get_digested_peptides {| pre := a; not_post := b; post := c |} (dig_of9 k) s mn mx mc met.

(* map from files x parameter sets: case = (db, special, list of files (as line lists), list of params) *)
Definition c09_in := (nat * list N * list (list str) * list params)%type.
Definition run09m (c : c09_in) : pp_map :=
  let '(db, sp, files, ps) := c in
  merge_maps (flat_map (fun lines => map (fun p => build_map (dig_fun p) (fun x => x)
                                                             (read_fasta parse_until_first_space (db_of db) sp lines)) ps) files).
(* compared as: same keys (as a set, order of first insertion is checked too) with the same protein lists *)
Definition chk09m (c : c09_in * pp_map) : bool := eqb (run09m (fst c)) (snd c).

(* iBAQ numbers: per protein *)
Definition run09i (c : c09_in * list str) : list nat :=
  let m := run09m (fst c) in map (num_peptides m) (snd c).
Definition chk09i (c : (c09_in * list str) * list nat) : bool := eqb (run09i (fst c)) (snd c).

(* non-specific lookup: (db, special, lines, min, max, peptide) -> sorted proteins *)
Definition run09h (c : nat * list N * list str * nat * nat * str) : list str :=
  let '(db, sp, lines, mn, mx, pep) := c in
  let recs := read_fasta parse_until_first_space (db_of db) sp lines in
  get_proteins_hashed (build_map (fun s => non_specific_digest s mn mx) hash_key recs) recs pep.
Definition chk09h (c : (nat * list N * list str * nat * nat * str) * list str) : bool := eqb (run09h (fst c)) (snd c).

(* map file: rows written by the tool's writer (after csv decoding) read back *)
Definition chk09f (c : pp_map * pp_map) : bool := eqb (read_rows (write_rows (fst c))) (snd c).
