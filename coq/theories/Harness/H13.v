From PGF Require Import Base.Prelude Base.PyStr Base.Csv Model.Table.

(* header of the written table: (writer kind 0 minimal / 1 maxquant / 2 diann, skip_lfq, experiments, #silac, #tmt) *)
Definition c13h_in := (nat * bool * list str * nat * nat)%type.
Definition run13h (c : c13h_in) : res (list str) :=
  let '(k, skip, exps, s, t) := c in
  let st := {| t_exps := exps; t_silac := s; t_tmt := t |} in
  let gs := match k with 0 => minimal_gens | 1 => maxquant_gens skip | _ => diann_gens end in
  match gens_append st (fun _ _ => []) gs (init_table 0) with
  | Raise e => Raise e
  | Ok t => match k with
            | 2 => match write_dict (headers t) [] (diann_dict exps) with Ok (h :: _) => Ok h | Ok [] => Ok [] | Raise e => Raise e end
            | _ => Ok (headers t)
            end
  end.
Definition chk13h (c : c13h_in * res (list str)) : bool := eqb (run13h (fst c)) (snd c).

(* csv: rows -> bytes, bytes -> rows *)
Definition chk13w (c : list (list str) * str) : bool := eqb (csv_write (fst c)) (snd c) && eqb (csv_read (snd c)) (fst c).
Definition run13w (c : list (list str)) : str := csv_write c.

(* filter: (table of q-cell -> passes, file rows) -> output rows *)
Fixpoint tab_b (t : list (str * bool)) (k : str) : bool :=
  match t with [] => false | (a, b) :: r => if str_eqb a k then b else tab_b r k end.
Definition run13f (c : list (str * bool) * list (list str)) : res (list (list str)) := filter_fdr (tab_b (fst c)) (snd c).
Definition chk13f (c : (list (str * bool) * list (list str)) * res (list (list str))) : bool := eqb (run13f (fst c)) (snd c).
