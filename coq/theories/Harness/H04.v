From PGF Require Import Base.Prelude Base.PyStr Model.Results Model.ProteinGroups Model.Grouping Model.Scoring Model.Rescue.

Definition mkg (p : list str * list str) : graph := {| g_prots := fst p; g_peps := snd p |}.
Definition c04_in := (list ((list str * list str) * list (list str * list str)) * pil * list (list str))%type.
Definition c04_out := res (list (list str) * list (list str) * list nat).
Definition run04 (c : c04_in) : c04_out :=
  let '(tab, l, old) := c in
  let split := oracle_lookup (map (fun kv => (mkg (fst kv), map mkg (snd kv))) tab) in
  match merge_with_rescued split l old with
  | Ok (s, obs, oi) => Ok (groups s, obs, oi)
  | Raise e => Raise e
  end.
Definition chk04 (c : c04_in * c04_out) : bool := eqb (run04 (fst c)) (snd c).

(* queries the model makes to the splitter: used to check that every recorded call is one the model makes *)
(* rescue cutoff: (table of 10^-x, rows, threshold, pil) -> filtered peptide list *)
Fixpoint tab_q (t : list (Q * Q)) (k : Q) : Q :=
  match t with [] => (0#1)%Q | (a, b) :: r => if Qeq_bool a k then b else tab_q r k end.
Definition run04c (c : list (Q * Q) * list (Q * Q) * Q * pil) : res (Q * pil) :=
  let '(t, rows, thr, l) := c in
  match rescue_score_cutoff (tab_q t) rows thr with
  | Ok cut => Ok (cut, filter_by_cutoff l cut)
  | Raise e => Raise e
  end.
Definition chk04c (c : (list (Q * Q) * list (Q * Q) * Q * pil) * res (Q * pil)) : bool := eqb (run04c (fst c)) (snd c).
