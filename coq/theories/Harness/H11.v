From PGF Require Import Base.Prelude Base.PyStr Model.Quant Model.Lfq.
Local Open Scope Q_scope.

Definition lprecT := (str * Z * nat * str * str * option Q * option Q * list Q)%type.
Definition mk_lprec (t : lprecT) : lprec :=
  let '(pe, ch, ex, en, fr, it, pp, si) := t in
  {| l_peptide := pe; l_charge := ch; l_exp := ex; l_expname := en; l_fraction := fr; l_intensity := it; l_pep := pp; l_silac := si |}.

Definition Qabs' (x : Q) : Q := if Qle_bool 0 x then x else - x.
Definition close_rel (tol a b : Q) : bool := Qle_bool (Qabs' (a - b)) (tol * Qabs' b).
Definition close_abs (tol a b : Q) : bool := Qle_bool (Qabs' (a - b)) tol.

(* ln oracle: table of (argument, np.log(argument)); looked up by an argument equal up to 1e-12 relative *)
Fixpoint ln_tab (t : list (Q * Q)) (x : Q) : option Q :=
  match t with
  | [] => None
  | (k, v) :: r => if close_rel (1 # 1000000000000) k x then Some v else ln_tab r x
  end.

Fixpoint eval_log (t : list (Q * Q)) (e : logexpr) : option Q :=
  match e with
  | [] => Some 0
  | (c, a) :: r => match ln_tab t a, eval_log t r with Some v, Some s => Some (c * v + s) | _, _ => None end
  end.

Definition c11_in := (list lprecT * list str * Q * nat * nat * bool * option (list (nat * nat)) * nat)%type.
(* matrix, total, medians, log values after stabilisation, final intensities, ln table *)
Definition c11_out := (list ((str * Z) * list Q) * Q * list ((nat * nat) * Q) * list ((nat * nat) * Q) * list Q * list (Q * Q))%type.

Definition run11 (c : c11_in) : lfq_stage :=
  let '(l, exps, cut, ns, minr, stab, graph, min_samples) := c in
  lfq_exact cut exps ns minr stab graph min_samples (map mk_lprec l).

Definition keys_eq {V W} (a : list ((nat * nat) * V)) (b : list ((nat * nat) * W)) : bool := eqb (map fst a) (map fst b).

Fixpoint all2 {A B} (f : A -> B -> bool) (a : list A) (b : list B) : bool :=
  match a, b with
  | [], [] => true
  | x :: r, y :: s => f x y && all2 f r s
  | _, _ => false
  end.

(* normal equations of the least-squares problem at the implementation's own answer *)
Definition gradient_ok (t : list (Q * Q)) (logs : list ((nat * nat) * Q)) (final : list Q) (k : nat) : bool :=
  let x i := match ln_tab t (nth i final 0) with Some v => v | None => 1000000 end in
  let g := fold_left (fun acc e =>
             let '((i, j), v) := e in
             let rho := x i - x j - v in
             if Nat.eqb i k then acc + rho else if Nat.eqb j k then acc - rho else acc) logs 0 in
  close_abs (1 # 1000) g 0.

Definition stage_tuple (s : lfq_stage) := (st_matrix s, st_total s, st_ratios s, st_logs s).

(* result code: 0 = agrees; otherwise the first stage that differs *)
Definition code11 (c : c11_in * c11_out) : N :=
  let '(l, exps, cut, ns, minr, stab, graph, min_samples) := fst c in
  let '(mat, tot, meds, logs, final, lt) := snd c in
  let s := run11 (fst c) in
  let ncols := (length exps * Nat.max 1 ns)%nat in
  if negb (eqb (st_matrix s) mat && eqb (st_total s) tot) then 1%N
  else if negb (keys_eq (st_ratios s) meds && all2 (fun a b => close_rel (1 # 10000000000000) (snd b) (snd a)) (st_ratios s) meds) then 2%N
  else if negb (keys_eq (st_logs s) logs &&
                all2 (fun a b => match eval_log lt (snd a) with Some v => close_abs (1 # 100000000000) (snd b) v | None => false end) (st_logs s) logs) then 3%N
  else if negb (Nat.eqb (length final) ncols) then 4%N
  else match st_logs s with
       | [] => if forallb (fun x => Qeq_bool x 0) final then 0%N else 5%N
       | _ =>
         let edges := map fst (st_logs s) in
         if negb (forallb (fun k => Bool.eqb (Qeq_bool (nth k final 0) 0) (negb (seen edges k))) (seq 0 ncols)) then 6%N
         else if negb (close_rel (1 # 1000000000) (qsum final) tot) then 7%N
         else if negb (forallb (fun k => negb (seen edges k) || gradient_ok lt logs final k) (seq 0 ncols)) then 8%N
         else 0%N
       end.
(* the last component: the harness's monitor of the property on the implementation's own output found nothing *)
Definition chk11 (c : c11_in * c11_out * bool) : bool := N.eqb (code11 (fst c)) 0 && snd c.

(* FastLFQ graph *)
Definition c11g_in := (list (list str) * nat * nat)%type.
Definition run11g (c : c11g_in) : list (nat * nat) := let '(s, mn, av) := c in fast_lfq_graph s mn av.
Definition chk11g (c : c11g_in * list (nat * nat) * bool) : bool :=
  let '(i, edges, mon) := c in
  let g := run11g i in
  Nat.eqb (length g) (length edges) &&
  forallb (fun e => has_edge g (fst e) (snd e)) edges && forallb (fun e => has_edge edges (fst e) (snd e)) g && mon.
