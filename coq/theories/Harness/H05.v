From PGF Require Import Base.Prelude Base.PyStr Model.Fdr Model.Results Model.ProteinGroups Model.Scoring.

Fixpoint tab_str (t : list (str * str)) (k : str) : str :=
  match t with [] => [] | (a, b) :: r => if str_eqb a k then b else tab_str r k end.
Fixpoint tab_q (t : list (Q * Q)) (k : Q) : Q :=
  match t with [] => (0#1)%Q | (a, b) :: r => if Qeq_bool a k then b else tab_q r k end.

(* collect: ((razor, shared, counts_set), md5 table, groups, index_valid, suppress, pil) *)
Definition c05_in := ((bool * bool * bool) * list (str * str) * list (list str) * bool * bool * pil)%type.
Definition c05_out := res (list (list pinfo) * list Q).
Definition run05 (c : c05_in) : c05_out :=
  let '((rz, sh, cs), md5t, gs, valid_ix, suppress, l) := c in
  let cfg := {| sc_razor := rz; sc_shared := sh; sc_counts := if cs then Some l else None |} in
  let s := if valid_ix then create_index (of_list gs) else append (create_index (of_list gs)) [] in
  collect cfg (tab_str md5t) s suppress l.
Definition chk05 (c : c05_in * c05_out) : bool := eqb (run05 (fst c)) (snd c).

(* best PEP score: (table of -log10(pep+eps), evidence) -> score *)
Definition run05b (c : list (Q * Q) * list pinfo) : Q := best_pep_score (tab_q (fst c)) (snd c).
Definition chk05b (c : (list (Q * Q) * list pinfo) * Q) : bool := eqb (run05b (fst c)) (snd c).

(* multiplied PEP: the PEPs that enter the sum, in order *)
Definition run05m (c : list pinfo) : list Q := mult_pep_terms c.
Definition chk05m (c : list pinfo * list Q) : bool := eqb (run05m (fst c)) (snd c).
