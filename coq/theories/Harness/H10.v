From PGF Require Import Base.Prelude Base.PyStr Model.Fasta Model.Scoring Model.Ingest Harness.H05.

Definition fmt_of (k : nat) : fmt :=
  match k with 0 => FMaxQuant | 1 => FPercNative | 2 => FMokapot | 3 => FFragPipe | 4 => FSage | _ => FDiann end.
Fixpoint tab_num (t : list (str * option Q)) (k : str) : option Q :=
  match t with [] => None | (a, b) :: r => if str_eqb a k then b else tab_num r k end.

(* case: (format, razor, number table, files = (optional map, header, rows)) -> ordered peptide list *)
Definition c10_in := (nat * bool * list (str * option Q) * list (option pp_map * list str * list (list str)))%type.
Definition run10 (c : c10_in) : res pil :=
  let '(k, rz, tab, files) := c in
  parse_evidence_files (fmt_of k) {| sc_razor := rz; sc_shared := false; sc_counts := None |} (fun p => p) (tab_num tab) files.
Definition chk10 (c : c10_in * res pil) : bool := eqb (run10 (fst c)) (snd c).

Definition chk10m (c : str * str) : bool := eqb (remove_modifications (fst c)) (snd c).
Definition chk10d (c : list str * list str) : bool := eqb (remove_decoy_proteins_from_target_peptides (fst c)) (snd c).
