From PGF Require Import Base.Prelude Base.PyStr Model.Fasta Model.Annotation.

Definition annot_tuple (a : annot) :=
  (a_id a, a_header a, a_uniprot a, a_entry a, a_gene a, a_length a, a_organism a, a_description a, a_existence a).
Definition annotT := (str * str * str * str * option str * nat * option str * str * option N)%type.

(* case: (db contains decoys, gene_level, use_uniprot, files as line lists) -> (dict items, use_pseudo_genes) *)
Definition c19_in := (bool * bool * bool * list (list str))%type.
Definition c19_out := res (list (option str * annotT) * bool).
Definition run19 (c : c19_in) : c19_out :=
  let '(cd, gl, uu, files) := c in
  let recs := map (read_fasta (fun h => h) (if cd then DbTarget else DbConcat) [75%N; 82%N]) files in
  match get_protein_annotations recs gl uu with
  | Ok (d, pg) => Ok (map (fun kv => (fst kv, annot_tuple (snd kv))) d, pg)
  | Raise e => Raise e
  end.
Definition chk19 (c : c19_in * c19_out) : bool := eqb (run19 (fst c)) (snd c).

(* columns: (dict as (id, gene, header) triples keyed by id, row protein ids) -> three joined strings *)
Definition mini (t : str * option str * str) : okey * annot :=
  let '(i, g, h) := t in
  (Some i, {| a_id := i; a_header := h; a_uniprot := []; a_entry := []; a_gene := g; a_length := 0;
              a_organism := None; a_description := []; a_existence := None |}).
Definition run19c (c : list (str * option str * str) * str) : str * str * str :=
  annotation_columns (map mini (fst c)) (snd c).
Definition chk19c (c : (list (str * option str * str) * str) * (str * str * str)) : bool := eqb (run19c (fst c)) (snd c).
