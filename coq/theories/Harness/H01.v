From PGF Require Import Base.Prelude Model.Fdr Model.Results.
(* direct tie of fdr.calculate_protein_fdrs: case = (ranking, implementation q-values) *)
Definition chk01 (c : list (list str * Q) * res (list Q)) : bool :=
  eqb (calculate_protein_fdrs (fst c)) (snd c).
Definition run01 (l : list (list str * Q)) := calculate_protein_fdrs l.

(* rows: compare as tuples *)
Definition row_tuple (r : row) :=
  (r_ids r, r_majority r, r_counts r, r_best r, r_nprot r, r_q r, r_score r, r_rev r, r_con r).
Definition rowT := (str * str * list nat * str * nat * Q * Q * bool * bool)%type.

Definition chk_rows (c : (list (list str) * list (list pinfo) * list Q * list Q * option Q * bool) * res (list rowT)) : bool :=
  let '((gs, is, ss, qs, cut, ka), out) := c in
  eqb (match from_protein_groups gs is ss qs cut ka with Ok rs => Ok (map row_tuple rs) | Raise e => Raise e end) out.
Definition run_rows (c : list (list str) * list (list pinfo) * list Q * list Q * option Q * bool) :=
  let '(gs, is, ss, qs, cut, ka) := c in
  match from_protein_groups gs is ss qs cut ka with Ok rs => Ok (map row_tuple rs) | Raise e => Raise e end.
