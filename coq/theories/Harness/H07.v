From PGF Require Import Base.Prelude Base.PyStr Model.Fdr Model.Results Model.ProteinGroups Model.Grouping
  Model.Scoring Model.Competition Model.Rescue Model.Pipeline Harness.H01 Harness.H04 Harness.H05.

Fixpoint tab_gen {K V} (e : K -> K -> bool) (d : V) (t : list (K * V)) (k : K) : V :=
  match t with [] => d | (a, b) :: r => if e a k then b else tab_gen e d r k end.

Definition c07_tabs := (list (list pinfo * Q) * list ((list Q * Q) * Q) * list (Q * Q) * list (str * str)
                        * list ((list str * list str) * list (list str * list str)))%type.
Definition mk_oracles (t : c07_tabs) : oracles :=
  let '(sc, cu, pw, md, sp) := t in
  {| o_score := tab_gen eqb (0#1)%Q sc;
     o_cutoff := fun peps q => tab_gen eqb (1#1)%Q cu (peps, q);
     o_pow10neg := tab_q pw;
     o_md5 := tab_str md;
     o_split := oracle_lookup (map (fun kv => (mkg (fst kv), map mkg (snd kv))) sp) |}.

Definition c07_in := (method * c07_tabs * pil * bool * Q * Q * list (list nat))%type.
Definition c07_out := res (list rowT).
Definition run07 (c : c07_in) : c07_out :=
  let '(me, t, l, ka, thr, pc, pis) := c in
  match snd (run me (mk_oracles t) fresh l ka thr pc pis) with
  | Ok rows => Ok (map row_tuple rows)
  | Raise e => Raise e
  end.
Definition chk07 (c : c07_in * c07_out) : bool := eqb (run07 (fst c)) (snd c).
