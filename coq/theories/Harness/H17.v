From PGF Require Import Base.Prelude Model.Cutoff.
Open Scope Z_scope.
(* case = (((D, (ln, ld)), pep list), implementation result in units 1/D) *)
Definition chk17 (c : (positive * (Z * positive) * list (option Z)) * Z) : bool :=
  let '((D, (ln, ld), l), out) := c in Z.eqb (cutoff D ln ld l) out.
Definition run17 (c : (positive * (Z * positive) * list (option Z))) : Z :=
  let '(D, (ln, ld), l) := c in cutoff D ln ld l.
