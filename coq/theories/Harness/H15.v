From PGF Require Import Base.Prelude Base.PyStr Model.Ingest Model.Merge.
Fixpoint tab_s (t : list (str * str)) (k : str) : str :=
  match t with [] => k | (a, b) :: r => if str_eqb a k then b else tab_s r k end.
Definition c15_in := (list (str * str) * list ((nat * nat * nat * nat) * list (list str)) * list str
                      * list (ecols * list (list str)))%type.
Definition run15 (c : c15_in) : res (list (list str)) :=
  let '(t, pouts, h, files) := c in merge_evidence (tab_s t) pouts h files.
Definition chk15 (c : c15_in * res (list (list str))) : bool := eqb (run15 (fst c)) (snd c).
