From PGF Require Import Base.Prelude Model.Fdr Model.Results Model.Competition.

Definition entry_tuple (e : entry) := (e_group e, e_infos e, e_score e).
Definition c02_in := (strategy * list (list str) * list (list pinfo) * list Q * list nat * list nat)%type.
Definition c02_out := res (list (list str * list pinfo * Q)).

Definition run02 (c : c02_in) : c02_out :=
  let '(st, gs, is, ss, p1, p2) := c in
  match do_competition st [] (mk_entries gs is ss) p1 p2 with
  | Ok l => Ok (map entry_tuple l)
  | Raise e => Raise e
  end.
Definition chk02 (c : c02_in * c02_out) : bool := eqb (run02 (fst c)) (snd c).
