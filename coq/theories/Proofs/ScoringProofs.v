From PGF Require Import Base.Prelude Base.PyStr Base.StableSort Model.Fdr Model.Results Model.ProteinGroups
  Model.Scoring Proofs.ProteinGroupsProofs Proofs.GroupingProofs Proofs.ResultsProofs.
From Coq Require Import Permutation Sorted Lqa.

(* ---------- index sets ---------- *)
Definition strictly_inc (l : list Z) : Prop := StronglySorted Z.lt l.

Lemma zinsert_inc x l : strictly_inc l -> strictly_inc (zinsert x l).
Proof.
  unfold strictly_inc. induction l as [|y l IH]; intros H; simpl.
  - constructor; constructor.
  - inversion H as [|? ? Hs Hall]; subst. destruct (x <? y)%Z eqn:E1.
    + apply Z.ltb_lt in E1. constructor; [exact H|]. constructor; [exact E1|].
      eapply Forall_impl; [|exact Hall]. intros a Ha. lia.
    + destruct (x =? y)%Z eqn:E2; [exact H|].
      apply Z.ltb_ge in E1. apply Z.eqb_neq in E2. constructor; [apply IH; exact Hs|].
      rewrite Forall_forall. intros a Ha. apply zinsert_In in Ha. destruct Ha as [->|Ha]; [lia|].
      rewrite Forall_forall in Hall. apply Hall. exact Ha.
Qed.

Lemma idxs_inc s ps : forall acc, strictly_inc acc ->
  strictly_inc (fold_left (fun a p => zinsert (idx_of s p) a) ps acc).
Proof. induction ps as [|p ps IH]; intros acc H; simpl; [exact H | apply IH, zinsert_inc, H]. Qed.

Lemma inc_all_equal l y0 : strictly_inc l -> l <> [] -> (forall y, In y l -> y = y0) -> l = [y0].
Proof.
  intros Hs Hne Hall. destruct l as [|a [|b l]]; [congruence | |].
  - rewrite (Hall a) by (left; reflexivity). reflexivity.
  - exfalso. inversion Hs as [|? ? _ Hf]; subst. inversion Hf as [|? ? Hab _]; subst.
    rewrite (Hall a), (Hall b) in Hab by (simpl; auto). lia.
Qed.

(* the index set of a protein list is the single position i iff the list is non-empty and every
   protein is indexed to i *)
Lemma idxs_singleton_iff s ps i :
  get_protein_group_idxs s ps = Ok [Z.of_nat i] <->
  valid s = true /\ ps <> [] /\ forall p, In p ps -> lookup (index s) p = Some i.
Proof.
  unfold get_protein_group_idxs. destruct (valid s); simpl; [|split; [discriminate | intros [H _]; discriminate]].
  set (r := fold_left (fun a p => zinsert (idx_of s p) a) ps []).
  assert (Hin : forall y, In y r <-> exists p, In p ps /\ y = idx_of s p).
  { intros y. unfold r. rewrite idxs_fold_In. split; [intros [[]|H]; exact H | intros H; right; exact H]. }
  assert (Hinc : strictly_inc r) by (apply idxs_inc; constructor).
  split.
  - intros H. inversion H as [Hr]. split; [reflexivity|]. split.
    + intros ->. unfold r in Hr. simpl in Hr. discriminate.
    + intros p Hp. assert (Hy : In (idx_of s p) r) by (apply Hin; exists p; auto).
      rewrite Hr in Hy. destruct Hy as [Hy|[]]. unfold idx_of in Hy.
      destruct (lookup (index s) p); [f_equal; lia | lia].
  - intros [_ [Hne Hall]]. f_equal. apply inc_all_equal; [exact Hinc | |].
    + destruct ps as [|p ps']; [congruence|]. intros Hr.
      assert (Hy : In (idx_of s p) r) by (apply Hin; exists p; split; [left; reflexivity | reflexivity]).
      rewrite Hr in Hy. destruct Hy.
    + intros y Hy. apply Hin in Hy. destruct Hy as [p [Hp ->]]. unfold idx_of. rewrite (Hall p Hp). reflexivity.
Qed.

(* ---------- evidence collection ---------- *)
Lemma nth_append_at infos i k x :
  i < length infos ->
  nth k (append_at infos i x) [] = if Nat.eqb k i then nth i infos [] ++ [x] else nth k infos [].
Proof.
  intros Hi. unfold append_at. rewrite nth_set_nth.
  destruct (Nat.eqb k i); [|reflexivity]. destruct (Nat.ltb_spec i (length infos)); [reflexivity | lia].
Qed.

Lemma append_at_length infos i x : length (append_at infos i x) = length infos.
Proof. apply set_nth_length. Qed.

Section Collect.
Variable c : scfg.
Variable md5 : str -> str.
Variable s : pgs.
Variable suppress : bool.
Hypothesis not_shared : sc_shared c = false.

(* an entry lands in group k *)
Definition lands (en : str * (Q * list str)) (k : nat) (x : pinfo) : Prop :=
  exists ps', filter_proteins c md5 (snd (snd en)) = Ok ps' /\
              x = (fst (snd en), fst en, ps') /\
              get_protein_group_idxs s ps' = Ok [Z.of_nat k].

Lemma collect_loop_spec : forall l infos peps infos' peps',
  collect_loop c md5 s suppress l infos peps = Ok (infos', peps') ->
  (forall idxs ps', get_protein_group_idxs s ps' = Ok idxs -> forall i, In i idxs -> (i < Z.of_nat (length infos))%Z) ->
  length infos' = length infos /\
  forall k x, k < length infos ->
    (In x (nth k infos' []) <-> In x (nth k infos []) \/ exists en, In en l /\ lands en k x).
Proof.
  induction l as [|[e [sc ps]] r IH]; intros infos peps infos' peps' H Hrange; simpl in H.
  - inversion H; subst. split; [reflexivity|]. intros k x _. split; [auto | intros [Hx|[en [[] _]]]; exact Hx].
  - destruct (filter_proteins c md5 ps) as [ps'|] eqn:Ef; [|discriminate].
    destruct (get_protein_group_idxs s ps') as [idxs|] eqn:Ei; [|discriminate].
    destruct (is_missing idxs && negb suppress); [discriminate|].
    rewrite not_shared in H. cbn [negb andb] in H.
    destruct (Nat.ltb 1 (length idxs)) eqn:El.
    + (* shared: skipped *)
      destruct (IH _ _ _ _ H Hrange) as [Hlen Hspec]. split; [exact Hlen|].
      intros k x Hk. rewrite (Hspec k x Hk). split.
      * intros [Hx|[en [Hen Hl]]]; [left; exact Hx | right; exists en; split; [right; exact Hen | exact Hl]].
      * intros [Hx|[en [[<-|Hen] Hl]]]; [left; exact Hx | | right; exists en; split; assumption].
        exfalso. destruct Hl as [ps2 [Hf [_ Hi2]]]. simpl in Hf. rewrite Ef in Hf. inversion Hf; subst ps2.
        rewrite Ei in Hi2. inversion Hi2; subst idxs. simpl in El. discriminate.
    + apply Nat.ltb_ge in El.
      set (infos1 := fold_left (fun acc i => if (i <? 0)%Z then acc else append_at acc (Z.to_nat i) (sc, e, ps')) idxs infos) in H.
      assert (H1 : length infos1 = length infos /\
                   forall k x, k < length infos ->
                     (In x (nth k infos1 []) <-> In x (nth k infos []) \/ (idxs = [Z.of_nat k] /\ x = (sc, e, ps')))).
      { destruct idxs as [|i [|i2 rest]]; [| |simpl in El; lia].
        - split; [reflexivity|]. intros k x _. split; [auto | intros [Hx|[Hc _]]; [exact Hx | discriminate]].
        - unfold infos1. simpl. destruct (i <? 0)%Z eqn:Eneg.
          + split; [reflexivity|]. intros k x _. split; [auto|]. intros [Hx|[Hc _]]; [exact Hx|].
            inversion Hc. apply Z.ltb_lt in Eneg. lia.
          + apply Z.ltb_ge in Eneg.
            assert (Hlt : Z.to_nat i < length infos).
            { specialize (Hrange _ _ Ei i (or_introl eq_refl)). lia. }
            split; [apply append_at_length|]. intros k x Hk. rewrite nth_append_at by exact Hlt.
            destruct (Nat.eqb_spec k (Z.to_nat i)) as [->|Hne].
            * rewrite in_app_iff. split.
              -- intros [Hx|[<-|[]]]; [left; exact Hx | right; split; [f_equal; lia | reflexivity]].
              -- intros [Hx|[_ ->]]; [left; exact Hx | right; left; reflexivity].
            * split; [auto|]. intros [Hx|[Hc _]]; [exact Hx|]. inversion Hc. lia. }
      destruct H1 as [Hlen1 Hspec1].
      assert (Hrange' : forall idxs0 ps0, get_protein_group_idxs s ps0 = Ok idxs0 -> forall i, In i idxs0 -> (i < Z.of_nat (length infos1))%Z).
      { intros. rewrite Hlen1. eapply Hrange; eassumption. }
      destruct (IH _ _ _ _ H Hrange') as [Hlen Hspec]. split; [congruence|].
      intros k x Hk. rewrite (Hspec k x) by (rewrite Hlen1; exact Hk). rewrite (Hspec1 k x Hk). split.
      * intros [[Hx|[Hi ->]]|[en [Hen Hl]]].
        -- left. exact Hx.
        -- right. exists (e, (sc, ps)). split; [left; reflexivity|]. exists ps'. simpl. rewrite <- Hi. auto.
        -- right. exists en. split; [right; exact Hen | exact Hl].
      * intros [Hx|[en [[<-|Hen] Hl]]].
        -- left. left. exact Hx.
        -- left. right. destruct Hl as [ps2 [Hf [Hx Hi2]]]. simpl in Hf, Hx. rewrite Ef in Hf. inversion Hf; subst ps2.
           rewrite Ei in Hi2. inversion Hi2. split; [reflexivity | exact Hx].
        -- right. exists en. split; assumption.
Qed.
End Collect.

Lemma idxs_in_range s : Inv s -> forall idxs ps, get_protein_group_idxs s ps = Ok idxs ->
  forall i, In i idxs -> (i < Z.of_nat (length (groups s)))%Z.
Proof.
  intros HI idxs ps H i Hi.
  destruct (get_protein_group_idxs_sound s ps idxs i HI H Hi) as [[-> _]|[p [g [_ [Hpos [Hn _]]]]]]; [lia|].
  assert (Z.to_nat i < length (groups s)) by (apply nth_error_Some; congruence). lia.
Qed.

Lemma nth_map_nil {A B} (l : list A) k : nth k (map (fun _ => @nil B) l) [] = [].
Proof. revert k. induction l as [|x l IH]; intros [|k]; simpl; auto. Qed.

(* ---- C05: general form (discard or razor, shared peptides not used) ---- *)
Lemma collect_spec c md5 s suppress l infos peps :
  sc_shared c = false -> Inv s ->
  collect c md5 s suppress l = Ok (infos, peps) ->
  length infos = length (groups s) /\
  forall k x, k < length (groups s) ->
    (In x (nth k infos []) <-> exists en, In en l /\ lands c md5 s en k x).
Proof.
  intros Hns HI H. unfold collect in H.
  destruct (collect_loop_spec c md5 s suppress Hns l _ _ _ _ H) as [Hlen Hspec].
  - intros idxs ps Hi i Hin. rewrite map_length. eapply idxs_in_range; eassumption.
  - rewrite map_length in Hlen, Hspec. split; [exact Hlen|]. intros k x Hk.
    rewrite (Hspec k x Hk), nth_map_nil. split; [intros [[]|Hx]; exact Hx | intros Hx; right; exact Hx].
Qed.

(* ---- discard: a peptide is evidence for group k exactly when it has proteins and all of them are
        indexed to group k (and is ignored otherwise) ---- *)
Lemma evidence_iff_all_in_one_group c md5 s suppress l infos peps :
  sc_razor c = false -> sc_shared c = false -> Inv s ->
  collect c md5 s suppress l = Ok (infos, peps) ->
  forall k x, k < length (groups s) ->
    (In x (nth k infos []) <->
     exists e sc ps, In (e, (sc, ps)) l /\ x = (sc, e, ps) /\
                     valid s = true /\ ps <> [] /\ forall p, In p ps -> lookup (index s) p = Some k).
Proof.
  intros Hnr Hns HI H k x Hk.
  destruct (collect_spec c md5 s suppress l infos peps Hns HI H) as [_ Hspec].
  rewrite (Hspec k x Hk). unfold lands, filter_proteins. rewrite Hnr. split.
  - intros [[e [sc ps]] [Hen [ps' [Hf [Hx Hi]]]]]. simpl in *. inversion Hf; subst ps'.
    exists e, sc, ps. split; [exact Hen|]. split; [exact Hx|]. apply idxs_singleton_iff. exact Hi.
  - intros [e [sc [ps [Hen [Hx Hi]]]]]. exists (e, (sc, ps)). split; [exact Hen|].
    exists ps. simpl. split; [reflexivity|]. split; [exact Hx|]. apply idxs_singleton_iff. exact Hi.
Qed.

(* ... and every protein it is indexed to really is in that group (with C20's invariant) *)
Lemma evidence_proteins_in_group c md5 s suppress l infos peps :
  sc_shared c = false -> Inv s ->
  collect c md5 s suppress l = Ok (infos, peps) ->
  forall k sc e ps, k < length (groups s) -> In (sc, e, ps) (nth k infos []) ->
    exists g, nth_error (groups s) k = Some g /\ forall p, In p ps -> In p g.
Proof.
  intros Hns HI H k sc e ps Hk Hin.
  destruct (collect_spec c md5 s suppress l infos peps Hns HI H) as [_ Hspec].
  apply (Hspec k _ Hk) in Hin. destruct Hin as [en [_ [ps' [_ [Hx Hi]]]]]. inversion Hx; subst.
  apply idxs_singleton_iff in Hi. destruct Hi as [Hv [_ Hall]].
  destruct (nth_error (groups s) k) as [g|] eqn:Eg; [|apply nth_error_None in Eg; lia].
  exists g. split; [reflexivity|]. intros p Hp. destruct (HI Hv) as [Hs _].
  destruct (Hs p k (Hall p Hp)) as [g' [Hn Hpg]]. congruence.
Qed.

(* ---- either way (discard or razor) a peptide supports at most one group ---- *)
Lemma at_most_one_group c md5 s suppress l infos peps :
  sc_shared c = false -> Inv s -> NoDup (map fst l) ->
  collect c md5 s suppress l = Ok (infos, peps) ->
  forall k k' x x', k < length (groups s) -> k' < length (groups s) ->
    In x (nth k infos []) -> In x' (nth k' infos []) -> pi_peptide x = pi_peptide x' -> k = k'.
Proof.
  intros Hns HI Hnd H k k' x x' Hk Hk' Hx Hx' Hpe.
  destruct (collect_spec c md5 s suppress l infos peps Hns HI H) as [_ Hspec].
  apply (Hspec k x Hk) in Hx. apply (Hspec k' x' Hk') in Hx'.
  destruct Hx as [[e [sc ps]] [Hen [ps1 [Hf1 [E1 Hi1]]]]]. destruct Hx' as [[e' [sc' ps']] [Hen' [ps2 [Hf2 [E2 Hi2]]]]].
  simpl in *. subst x x'. unfold pi_peptide in Hpe. simpl in Hpe. subst e'.
  assert (Heq : (sc, ps) = (sc', ps')).
  { clear -Hnd Hen Hen'. induction l as [|[a b] l IH]; [destruct Hen|].
    simpl in Hnd. inversion Hnd as [|? ? Hni Hnd']; subst.
    destruct Hen as [E|Hen], Hen' as [E'|Hen'].
    - congruence.
    - inversion E; subst. exfalso. apply Hni. apply in_map_iff. exists (e, (sc', ps')). auto.
    - inversion E'; subst. exfalso. apply Hni. apply in_map_iff. exists (e, (sc, ps)). auto.
    - apply IH; assumption. }
  inversion Heq; subst. rewrite Hf1 in Hf2. inversion Hf2; subst. rewrite Hi1 in Hi2. inversion Hi2. lia.
Qed.

(* ---- razor: the peptide is first reduced to a single protein, one of its own ---- *)
Lemma fold_max_in {A} (gt : A -> A -> bool) : forall r p, In (fold_left (fun best x => if gt x best then x else best) r p) (p :: r).
Proof.
  induction r as [|x r IH]; intros p; simpl; [left; reflexivity|].
  destruct (IH (if gt x p then x else p)) as [H|H].
  - destruct (gt x p); [right; left; congruence | left; congruence].
  - right. right. exact H.
Qed.

Lemma razor_single_protein l md5 ps out :
  retain_most_observed l md5 ps = Ok out -> exists p, out = [p] /\ In p ps.
Proof.
  unfold retain_most_observed. destruct ps as [|p r]; [discriminate|]. intros H. inversion H.
  eexists. split; [reflexivity|]. apply fold_max_in.
Qed.

(* ---------- scores ---------- *)
Section BestPep.
Variable f : Q -> Q.
Hypothesis f_antitone : forall x y, (x <= y)%Q -> (f y <= f x)%Q.

Lemma qmax_ge_l a b : (a <= qmax a b)%Q.
Proof. unfold qmax. destruct (Qle_bool a b) eqn:E; [apply Qle_bool_iff in E; exact E | apply Qle_refl]. Qed.
Lemma qmax_ge_r a b : (b <= qmax a b)%Q.
Proof. unfold qmax. destruct (Qle_bool a b) eqn:E; [apply Qle_refl|].
  destruct (Qlt_le_dec b a) as [H|H]; [apply Qlt_le_weak; exact H | apply Qle_bool_iff in H; congruence]. Qed.
Lemma qmax_cases a b : qmax a b = a \/ qmax a b = b.
Proof. unfold qmax. destruct (Qle_bool a b); auto. Qed.

Lemma fold_qmax_spec : forall r x,
  (forall y, In y (x :: r) -> (y <= fold_left qmax r x)%Q) /\ In (fold_left qmax r x) (x :: r).
Proof.
  induction r as [|z r IH]; intros x; simpl.
  - split; [intros y [<-|[]]; apply Qle_refl | left; reflexivity].
  - destruct (IH (qmax x z)) as [Hge Hin]. split.
    + intros y [<-|[<-|Hy]].
      * eapply Qle_trans; [apply qmax_ge_l | apply Hge; left; reflexivity].
      * eapply Qle_trans; [apply qmax_ge_r | apply Hge; left; reflexivity].
      * apply Hge. right. exact Hy.
    + destruct Hin as [Hin|Hin]; [|right; right; exact Hin].
      destruct (qmax_cases x z) as [E|E]; [left | right; left]; rewrite <- Hin; symmetry; exact E.
Qed.

(* the score of a group with evidence is f of its smallest PEP *)
Lemma best_pep_score_is_f_min infos : infos <> [] ->
  exists i, In i infos /\ (forall j, In j infos -> (pi_pep i <= pi_pep j)%Q \/ (f (pi_pep j) <= f (pi_pep i))%Q) /\
            best_pep_score f infos = f (pi_pep i) /\
            forall j, In j infos -> (f (pi_pep j) <= best_pep_score f infos)%Q.
Proof.
  intros Hne. unfold best_pep_score. destruct infos as [|i0 r]; [congruence|]. simpl map.
  destruct (fold_qmax_spec (map (fun i => f (pi_pep i)) r) (f (pi_pep i0))) as [Hge Hin].
  change (f (pi_pep i0) :: map (fun i => f (pi_pep i)) r) with (map (fun i => f (pi_pep i)) (i0 :: r)) in Hge, Hin.
  apply in_map_iff in Hin. destruct Hin as [i [Hi Hin]]. exists i. split; [exact Hin|].
  assert (Hall : forall j, In j (i0 :: r) -> (f (pi_pep j) <= fold_left qmax (map (fun i1 => f (pi_pep i1)) r) (f (pi_pep i0)))%Q).
  { intros j Hj. apply Hge. apply in_map_iff. exists j. auto. }
  split; [|split; [symmetry; exact Hi | exact Hall]].
  intros j Hj. right. rewrite Hi. apply Hall. exact Hj.
Qed.

(* additional evidence never lowers a best-PEP score *)
Lemma best_pep_monotone infos infos' :
  infos <> [] -> incl infos infos' -> (best_pep_score f infos <= best_pep_score f infos')%Q.
Proof.
  intros Hne Hincl. destruct (best_pep_score_is_f_min infos Hne) as [i [Hi [_ [Heq _]]]].
  assert (Hne' : infos' <> []) by (destruct infos'; [exfalso; apply (Hincl i Hi) | discriminate]).
  destruct (best_pep_score_is_f_min infos' Hne') as [_ [_ [_ [_ Hall]]]].
  rewrite Heq. apply Hall. apply Hincl. exact Hi.
Qed.

(* the maximum of f over the evidence is attained at an entry with the smallest PEP *)
Lemma best_pep_at_min_pep infos : infos <> [] ->
  exists i, In i infos /\ (forall j, In j infos -> (pi_pep i <= pi_pep j)%Q) /\
            (best_pep_score f infos == f (pi_pep i))%Q.
Proof.
  intros Hne.
  (* an entry of minimal PEP exists *)
  assert (Hmin : exists i, In i infos /\ forall j, In j infos -> (pi_pep i <= pi_pep j)%Q).
  { clear -Hne. induction infos as [|a r IH]; [congruence|]. destruct r as [|b r'].
    - exists a. split; [left; reflexivity | intros j [<-|[]]; apply Qle_refl].
    - destruct IH as [i [Hi Hm]]; [discriminate|].
      destruct (Qlt_le_dec (pi_pep a) (pi_pep i)) as [Hlt|Hle].
      + exists a. split; [left; reflexivity|]. intros j [<-|Hj]; [apply Qle_refl|].
        eapply Qle_trans; [apply Qlt_le_weak; exact Hlt | apply Hm; exact Hj].
      + exists i. split; [right; exact Hi|]. intros j [<-|Hj]; [exact Hle | apply Hm; exact Hj]. }
  destruct Hmin as [i [Hi Hm]]. exists i. split; [exact Hi|]. split; [exact Hm|].
  destruct (best_pep_score_is_f_min infos Hne) as [i' [Hi' [_ [Heq Hall]]]].
  apply Qle_antisym.
  - rewrite Heq. apply f_antitone. apply Hm. exact Hi'.
  - apply Hall. exact Hi.
Qed.
End BestPep.

Lemma best_pep_no_evidence f : best_pep_score f [] = minus100.
Proof. reflexivity. Qed.

(* ---- multiplied PEP: one term per distinct peptide, its lowest PEP, ascending ---- *)
Fixpoint first_occ (l : list pinfo) (seen : list str) : list pinfo :=
  match l with
  | [] => []
  | i :: r => if mem_str (pi_peptide i) seen then first_occ r seen
              else i :: first_occ r (pi_peptide i :: seen)
  end.

Lemma mult_terms_first_occ l seen : mult_terms l seen = map pi_pep (first_occ l seen).
Proof. revert seen. induction l as [|i r IH]; intros seen; simpl; [reflexivity|].
  destruct (mem_str (pi_peptide i) seen); simpl; rewrite IH; reflexivity. Qed.

Lemma first_occ_spec : forall l seen,
  (forall i, In i (first_occ l seen) -> In i l /\ ~ In (pi_peptide i) seen) /\
  NoDup (map pi_peptide (first_occ l seen)) /\
  (forall j, In j l -> ~ In (pi_peptide j) seen -> exists i, In i (first_occ l seen) /\ pi_peptide i = pi_peptide j) /\
  (StronglySorted pep_le l -> forall i j, In i (first_occ l seen) -> In j l -> pi_peptide i = pi_peptide j -> pep_le i j).
Proof.
  induction l as [|a r IH]; intros seen; simpl.
  - split; [intros i []|]. split; [constructor|]. split; [intros j []|]. intros _ i j [].
  - destruct (mem_str (pi_peptide a) seen) eqn:Em.
    + apply mem_str_In in Em. destruct (IH seen) as [H1 [H2 [H3 H4]]].
      split; [|split; [|split]].
      * intros i Hi. destruct (H1 i Hi). auto.
      * exact H2.
      * intros j [<-|Hj] Hns; [contradiction | apply H3; assumption].
      * intros Hs i j Hi [<-|Hj] Hp.
        -- exfalso. destruct (H1 i Hi) as [_ Hn]. apply Hn. rewrite Hp. exact Em.
        -- inversion Hs; subst. apply H4; assumption.
    + assert (Hn : ~ In (pi_peptide a) seen) by (intros H; apply mem_str_In in H; congruence).
      destruct (IH (pi_peptide a :: seen)) as [H1 [H2 [H3 H4]]].
      split; [|split; [|split]].
      * intros i [<-|Hi]; [split; [left; reflexivity | exact Hn]|].
        destruct (H1 i Hi) as [Hil Hx]. split; [right; exact Hil|]. intros Hs. apply Hx. right. exact Hs.
      * simpl. constructor; [|exact H2]. intros Hin. apply in_map_iff in Hin. destruct Hin as [i [Hp Hi]].
        destruct (H1 i Hi) as [_ Hx]. apply Hx. left. symmetry. exact Hp.
      * intros j [<-|Hj] Hns; [exists a; split; [left; reflexivity | reflexivity]|].
        destruct (list_eq_dec N.eq_dec (pi_peptide j) (pi_peptide a)) as [E|E].
        -- exists a. split; [left; reflexivity | symmetry; exact E].
        -- destruct (H3 j Hj) as [i [Hi Hp]]; [intros [H|H]; [congruence | contradiction]|].
           exists i. split; [right; exact Hi | exact Hp].
      * intros Hs i j [<-|Hi] [<-|Hj] Hp.
        -- unfold pep_le. apply Qle_refl.
        -- inversion Hs as [|? ? _ Hall]; subst. rewrite Forall_forall in Hall. apply Hall. exact Hj.
        -- exfalso. destruct (H1 i Hi) as [_ Hx]. apply Hx. left. symmetry. exact Hp.
        -- inversion Hs; subst. apply H4; assumption.
Qed.

Lemma mult_pep_structure infos :
  let fo := first_occ (isort pinfo_leb infos) [] in
  mult_pep_terms infos = map pi_pep fo /\
  NoDup (map pi_peptide fo) /\
  (forall i, In i fo -> In i infos) /\
  (forall j, In j infos -> exists i, In i fo /\ pi_peptide i = pi_peptide j /\ (pi_pep i <= pi_pep j)%Q).
Proof.
  intros fo. unfold mult_pep_terms. rewrite mult_terms_first_occ. fold fo.
  destruct (first_occ_spec (isort pinfo_leb infos) []) as [H1 [H2 [H3 H4]]]. fold fo in H1, H2, H3, H4.
  split; [reflexivity|]. split; [exact H2|]. split.
  - intros i Hi. apply (isort_In pinfo_leb). apply (H1 i Hi).
  - intros j Hj. assert (Hj' : In j (isort pinfo_leb infos)) by (apply (isort_In pinfo_leb); exact Hj).
    destruct (H3 j Hj') as [i [Hi Hp]]; [intros []|]. exists i. split; [exact Hi|]. split; [exact Hp|].
    apply (H4 (sorted_infos_pep infos) i j Hi Hj' Hp).
Qed.
