From PGF Require Import Base.Prelude Base.PyStr Base.StableSort Model.Fdr Model.Results Model.Competition.
From Coq Require Import Permutation Sorted Lqa.

(* ---------- the greedy pass ---------- *)
Fixpoint seen_after (st : strategy) (seen : list str) (l : list entry) : list str :=
  match l with
  | [] => seen
  | e :: r => if dropped st seen e then seen_after st seen r
              else seen_after st (picks st e ++ seen) r
  end.

Lemma greedy_app st : forall l1 l2 seen,
  greedy st seen (l1 ++ l2) = greedy st seen l1 ++ greedy st (seen_after st seen l1) l2.
Proof.
  induction l1 as [|e l1 IH]; intros l2 seen; simpl; [reflexivity|].
  destruct (dropped st seen e); simpl; rewrite IH; reflexivity.
Qed.

Lemma seen_after_spec st : forall l seen k,
  In k (seen_after st seen l) <->
  In k seen \/ exists s, In s (greedy st seen l) /\ In k (picks st s).
Proof.
  induction l as [|e l IH]; intros seen k; simpl.
  - split; [auto | intros [H|[s [[] _]]]; exact H].
  - destruct (dropped st seen e).
    + apply IH.
    + rewrite IH. rewrite in_app_iff. split.
      * intros [[H|H]|[s [Hs Hk]]].
        -- right. exists e. split; [left; reflexivity | exact H].
        -- left. exact H.
        -- right. exists s. split; [right; exact Hs | exact Hk].
      * intros [H|[s [[<-|Hs] Hk]]].
        -- left. right. exact H.
        -- left. left. exact Hk.
        -- right. exists s. split; assumption.
Qed.

Lemma dropped_spec st seen e :
  dropped st seen e = true <->
  is_contaminant (e_group e) = true \/ exists k, In k (keys st e) /\ In k seen.
Proof.
  unfold dropped, is_seen. rewrite orb_true_iff, existsb_exists. split.
  - intros [[k [Hk Hm]]|H]; [right; exists k; split; [exact Hk | apply mem_str_In; exact Hm] | left; exact H].
  - intros [H|[k [Hk Hs]]]; [right; exact H | left; exists k; split; [exact Hk | apply mem_str_In; exact Hs]].
Qed.

Lemma greedy_incl st : forall l seen e, In e (greedy st seen l) -> In e l.
Proof.
  induction l as [|x l IH]; intros seen e; simpl; [auto|].
  destruct (dropped st seen x); simpl; intros H.
  - right. eapply IH. exact H.
  - destruct H as [H|H]; [left; exact H | right; eapply IH; exact H].
Qed.

(* a survivor was kept at some position of the list *)
Lemma greedy_position st : forall l seen e, In e (greedy st seen l) ->
  exists l1 l2, l = l1 ++ e :: l2 /\ dropped st (seen_after st seen l1) e = false.
Proof.
  induction l as [|x l IH]; intros seen e; simpl; [intros []|].
  destruct (dropped st seen x) eqn:Ed.
  - intros H. destruct (IH _ _ H) as [l1 [l2 [-> Hd]]].
    exists (x :: l1), l2. split; [reflexivity|]. simpl. rewrite Ed. exact Hd.
  - intros [<-|H].
    + exists [], l. split; [reflexivity | exact Ed].
    + destruct (IH _ _ H) as [l1 [l2 [-> Hd]]].
      exists (x :: l1), l2. split; [reflexivity|]. simpl. rewrite Ed. exact Hd.
Qed.

(* the survivors together with the removed entries are the list *)
Lemma greedy_split st : forall l seen, exists removed, Permutation (greedy st seen l ++ removed) l.
Proof.
  induction l as [|x l IH]; intros seen; simpl; [exists []; constructor|].
  destruct (dropped st seen x).
  - destruct (IH seen) as [rm Hp]. exists (x :: rm).
    eapply perm_trans; [apply Permutation_sym, Permutation_middle | apply perm_skip; exact Hp].
  - destruct (IH (picks st x ++ seen)) as [rm Hp]. exists rm. simpl. apply perm_skip. exact Hp.
Qed.

(* ---------- the sort keys ---------- *)
Definition key1_ge (a b : entry) : Prop :=
  (e_score b < e_score a)%Q \/ ((e_score a == e_score b)%Q /\ (e_obs a = true -> e_obs b = true)).

Lemma key1_geb_spec a b : key1_geb a b = true <-> key1_ge a b.
Proof.
  unfold key1_geb, key1_ge. destruct (Qcompare (e_score a) (e_score b)) eqn:E.
  - apply Qeq_alt in E. split.
    + intros H. right. split; [exact E|]. intros Ha. rewrite Ha in H. exact H.
    + intros [H|[_ H]]; [rewrite E in H; exfalso; apply (Qlt_irrefl _ H)|].
      destruct (e_obs a); simpl; [apply H; reflexivity | reflexivity].
  - apply Qlt_alt in E. split; [discriminate|].
    intros [H|[H _]]; exfalso; lra.
  - apply Qgt_alt in E. split; [intros _; left; exact E | reflexivity].
Qed.

Lemma key1_total a b : key1_geb a b = false -> key1_ge b a.
Proof.
  unfold key1_geb, key1_ge. destruct (Qcompare (e_score a) (e_score b)) eqn:E; intros H.
  - apply Qeq_alt in E. right. split; [symmetry; exact E|].
    destruct (e_obs a), (e_obs b); simpl in H; try discriminate; auto.
  - apply Qlt_alt in E. left. exact E.
  - discriminate.
Qed.

Lemma key1_ge_trans a b c : key1_ge a b -> key1_ge b c -> key1_ge a c.
Proof.
  unfold key1_ge. intros [H1|[H1 O1]] [H2|[H2 O2]].
  - left. lra.
  - left. lra.
  - left. lra.
  - right. split; [lra | auto].
Qed.

Lemma sorted1 l : StronglySorted key1_ge (isort key1_geb l).
Proof.
  apply (isort_sorted_rel key1_geb key1_ge).
  - intros x y. apply key1_geb_spec.
  - apply key1_total.
  - apply key1_ge_trans.
Qed.

Definition score_ge (a b : entry) : Prop := (e_score b <= e_score a)%Q.
Lemma sorted2 l : StronglySorted score_ge (isort key2_geb l).
Proof.
  apply (isort_sorted_rel key2_geb score_ge).
  - intros x y. unfold key2_geb, score_ge. destruct (Qcompare (e_score x) (e_score y)) eqn:E; intros H; try discriminate.
    + apply Qeq_alt in E. lra.
    + apply Qgt_alt in E. lra.
  - intros x y. unfold key2_geb, score_ge. destruct (Qcompare (e_score x) (e_score y)) eqn:E; intros H; try discriminate.
    apply Qlt_alt in E. lra.
  - intros x y z. unfold score_ge. lra.
Qed.

Lemma sorted_app_before {A} (R : A -> A -> Prop) l1 e l2 :
  StronglySorted R (l1 ++ e :: l2) ->
  (forall s, In s l1 -> R s e) /\ (forall s, In s l2 -> R e s).
Proof.
  induction l1 as [|x l1 IH]; simpl; intros H.
  - inversion H as [|? ? _ Hall]; subst. split; [intros s []|].
    rewrite Forall_forall in Hall. exact Hall.
  - inversion H as [|? ? Hs Hall]; subst. destruct (IH Hs) as [H1 H2]. split; [|exact H2].
    intros s [<-|Hin]; [|apply H1; exact Hin].
    rewrite Forall_forall in Hall. apply Hall. apply in_or_app. right. left. reflexivity.
Qed.

(* ---------- permutations as shuffles ---------- *)
Lemma flat_map_seq_id {A} : forall (l2 l1 : list A),
  flat_map (fun i => match nth_error (l1 ++ l2) i with Some x => [x] | None => [] end)
           (seq (length l1) (length l2)) = l2.
Proof.
  induction l2 as [|x l2 IH]; intros l1; simpl; [reflexivity|].
  rewrite nth_error_app2 by lia. rewrite Nat.sub_diag. simpl. f_equal.
  specialize (IH (l1 ++ [x])). rewrite <- app_assoc in IH. simpl in IH.
  rewrite app_length in IH. simpl in IH. rewrite Nat.add_1_r in IH. exact IH.
Qed.

Lemma flat_map_perm {A B} (f : A -> list B) l l' : Permutation l l' -> Permutation (flat_map f l) (flat_map f l').
Proof.
  induction 1; simpl.
  - constructor.
  - apply Permutation_app_head. assumption.
  - rewrite !app_assoc. apply Permutation_app_tail, Permutation_app_comm.
  - eapply perm_trans; eassumption.
Qed.

Lemma apply_perm_perm {A} (pi : list nat) (l : list A) :
  Permutation pi (seq 0 (length l)) -> Permutation (apply_perm pi l) l.
Proof.
  intros H. unfold apply_perm.
  eapply perm_trans; [apply flat_map_perm; exact H|].
  pose proof (flat_map_seq_id l []) as E. simpl in E. rewrite E. apply Permutation_refl.
Qed.

(* ================= C02 ================= *)
Section C02.
Variable st : strategy.
Variable es : list entry.
Variables pi1 pi2 : list nat.
Let input := filter has_infos es.
Let S := isort key1_geb (apply_perm pi1 input).
Let K := greedy st [] S.
Hypothesis Hpi1 : Permutation pi1 (seq 0 (length input)).
Hypothesis Hpi2 : Permutation pi2 (seq 0 (length K)).

Lemma S_perm : Permutation S input.
Proof. unfold S. eapply perm_trans; [apply isort_perm | apply apply_perm_perm; exact Hpi1]. Qed.

(* survivors are unchanged input entries (as a sub-multiset of the groups with evidence), ranked by
   non-increasing score *)
Lemma survivors_unchanged_sorted out :
  do_competition st [] es pi1 pi2 = Ok out ->
  (exists removed, Permutation (out ++ removed) input) /\ StronglySorted score_ge out.
Proof.
  unfold do_competition, ranked. fold input. fold S. fold K.
  intros H. assert (Hout : out = isort key2_geb (apply_perm pi2 K)).
  { destruct (isort key2_geb (apply_perm pi2 K)); [discriminate | inversion H; reflexivity]. }
  split.
  - destruct (greedy_split st S []) as [rm Hrm]. fold K in Hrm. exists rm.
    eapply perm_trans; [|apply S_perm]. eapply perm_trans; [|exact Hrm].
    apply Permutation_app_tail. rewrite Hout.
    eapply perm_trans; [apply isort_perm | apply apply_perm_perm; exact Hpi2].
  - rewrite Hout. apply sorted2.
Qed.

Lemma out_is_K out : do_competition st [] es pi1 pi2 = Ok out -> forall e, In e out <-> In e K.
Proof.
  unfold do_competition, ranked. fold input. fold S. fold K. intros H e.
  assert (Hout : out = isort key2_geb (apply_perm pi2 K)).
  { destruct (isort key2_geb (apply_perm pi2 K)); [discriminate | inversion H; reflexivity]. }
  assert (Hp : Permutation out K).
  { rewrite Hout. eapply perm_trans; [apply isort_perm | apply apply_perm_perm; exact Hpi2]. }
  split; apply Permutation_in; [exact Hp | apply Permutation_sym; exact Hp].
Qed.

(* a group removed at its position in the ranking is a contaminant, or shares a (stripped) identifier
   with a leading protein of a survivor ranked before it, which scores strictly higher, or equally
   and then is a placeholder only if the removed group is one too *)
Lemma removal_justified l1 e l2 :
  S = l1 ++ e :: l2 ->
  dropped st (seen_after st [] l1) e = true ->
  is_contaminant (e_group e) = true \/
  exists s k, In s K /\ In k (keys st e) /\ In k (picks st s) /\ key1_ge s e.
Proof.
  intros HS Hd. apply dropped_spec in Hd. destruct Hd as [Hc|[k [Hk Hs]]]; [left; exact Hc|].
  right. apply seen_after_spec in Hs. destruct Hs as [[]|[s [Hs Hp]]].
  exists s, k. split.
  - unfold K. rewrite HS, greedy_app. apply in_or_app. left. exact Hs.
  - split; [exact Hk|]. split; [exact Hp|].
    pose proof (sorted1 (apply_perm pi1 input)) as Hsorted. fold S in Hsorted. rewrite HS in Hsorted.
    apply (proj1 (sorted_app_before _ _ _ _ Hsorted)). eapply greedy_incl. exact Hs.
Qed.

(* every entry of the ranking is either kept or removed at its position *)
Lemma kept_or_dropped l1 e l2 :
  S = l1 ++ e :: l2 ->
  (dropped st (seen_after st [] l1) e = false /\ In e K) \/ dropped st (seen_after st [] l1) e = true.
Proof.
  intros HS. destruct (dropped st (seen_after st [] l1) e) eqn:Ed; [right; reflexivity|].
  left. split; [reflexivity|]. unfold K. rewrite HS, greedy_app. apply in_or_app. right.
  simpl. rewrite Ed. left. reflexivity.
Qed.

(* no surviving group shares such an identifier with the leading proteins of a strictly higher-scoring survivor *)
Lemma no_twin_survivors s e :
  In s K -> In e K -> (e_score e < e_score s)%Q ->
  forall k, In k (keys st e) -> ~ In k (picks st s).
Proof.
  intros Hs He Hlt k Hk Hp.
  destruct (greedy_position st S [] e He) as [l1 [l2 [HS Hd]]].
  pose proof (sorted1 (apply_perm pi1 input)) as Hsorted. fold S in Hsorted. rewrite HS in Hsorted.
  destruct (sorted_app_before _ _ _ _ Hsorted) as [_ Hafter].
  unfold K in Hs. rewrite HS, greedy_app in Hs. apply in_app_or in Hs. destruct Hs as [Hs|Hs].
  - (* s was kept before e: its lead keys are in the seen set when e is examined *)
    assert (Hseen : In k (seen_after st [] l1)).
    { apply seen_after_spec. right. exists s. split; assumption. }
    assert (Hd' : dropped st (seen_after st [] l1) e = true).
    { apply dropped_spec. right. exists k. split; assumption. }
    congruence.
  - (* s is e itself or comes after e: then its score is at most e's *)
    simpl in Hs. rewrite Hd in Hs. destruct Hs as [<-|Hs]; [lra|].
    apply greedy_incl in Hs. specialize (Hafter s Hs). unfold key1_ge in Hafter. lra.
Qed.

End C02.

(* with the classic strategy only contaminant groups (and groups without peptides) go *)
Lemma classic_greedy : forall l seen,
  greedy Classic seen l = filter (fun e => negb (is_contaminant (e_group e))) l.
Proof.
  induction l as [|e l IH]; intros seen; simpl; [reflexivity|].
  unfold dropped, is_seen. simpl. destruct (is_contaminant (e_group e)); simpl; rewrite IH; reflexivity.
Qed.

(* the group identifier comparison strips decoy and placeholder prefixes *)
Lemma keys_picked_group e : keys PickedGroup e = map clean_protein_id (e_group e).
Proof. reflexivity. Qed.
Lemma picks_subset_keys st e : forall k, In k (picks st e) -> In k (keys st e).
Proof.
  destruct st; simpl; auto. intros k. rewrite !in_map_iff. intros [p [Hp Hin]].
  exists p. split; [exact Hp|]. unfold leading_proteins in Hin. apply filter_In in Hin. apply Hin.
Qed.

(* ================= C14: ties are ordered by the shuffles only ================= *)
Lemma key2_geb_spec a b : key2_geb a b = true <-> (e_score b <= e_score a)%Q.
Proof.
  unfold key2_geb. destruct (Qcompare (e_score a) (e_score b)) eqn:E.
  - apply Qeq_alt in E. split; [intros _; lra | reflexivity].
  - apply Qlt_alt in E. split; [discriminate | intros H; exfalso; lra].
  - apply Qgt_alt in E. split; [intros _; lra | reflexivity].
Qed.
Lemma key2_total a b : key2_geb a b = true \/ key2_geb b a = true.
Proof. rewrite !key2_geb_spec. destruct (Qlt_le_dec (e_score a) (e_score b)); [right; lra | left; lra]. Qed.
Lemma key2_trans a b c : key2_geb a b = true -> key2_geb b c = true -> key2_geb a c = true.
Proof. rewrite !key2_geb_spec. lra. Qed.

Lemma key1_total_b a b : key1_geb a b = true \/ key1_geb b a = true.
Proof.
  destruct (key1_geb a b) eqn:E; [left; reflexivity|]. right. apply key1_geb_spec, key1_total. exact E.
Qed.
Lemma key1_trans_b a b c : key1_geb a b = true -> key1_geb b c = true -> key1_geb a c = true.
Proof. rewrite !key1_geb_spec. apply key1_ge_trans. Qed.

Definition same_score (c : Q) (e : entry) : bool := Qeq_bool (e_score e) c.
Definition same_class (c : Q) (o : bool) (e : entry) : bool := Qeq_bool (e_score e) c && Bool.eqb (e_obs e) o.

(* final ranking: within every score class the order is exactly the order after the second shuffle *)
Lemma tie_order_final c l :
  filter (same_score c) (isort key2_geb l) = filter (same_score c) l.
Proof.
  rewrite (filter_isort key2_geb (same_score c) key2_total key2_trans).
  apply isort_all_equiv. intros x y Hx Hy.
  apply filter_In in Hx. apply filter_In in Hy. destruct Hx as [_ Hx], Hy as [_ Hy].
  unfold same_score in *. apply Qeq_bool_iff in Hx. apply Qeq_bool_iff in Hy.
  apply key2_geb_spec. lra.
Qed.

(* competition order: within every (score, placeholder-flag) class the order is exactly the order
   after the first shuffle *)
Lemma tie_order_competition c o l :
  filter (same_class c o) (isort key1_geb l) = filter (same_class c o) l.
Proof.
  rewrite (filter_isort key1_geb (same_class c o) key1_total_b key1_trans_b).
  apply isort_all_equiv. intros x y Hx Hy.
  apply filter_In in Hx. apply filter_In in Hy. destruct Hx as [_ Hx], Hy as [_ Hy].
  unfold same_class in *. apply andb_prop in Hx. apply andb_prop in Hy.
  destruct Hx as [Hx Ox], Hy as [Hy Oy]. apply Qeq_bool_iff in Hx. apply Qeq_bool_iff in Hy.
  apply Bool.eqb_prop in Ox. apply Bool.eqb_prop in Oy.
  apply key1_geb_spec. right. split; [lra | congruence].
Qed.

(* the sort keys mention only the score and the placeholder flag: never the decoy status, the
   identifiers, the peptides or the input position *)
Lemma sort_keys_ignore_everything_else a b a' b' :
  e_score a = e_score a' -> e_obs a = e_obs a' -> e_score b = e_score b' -> e_obs b = e_obs b' ->
  key1_geb a b = key1_geb a' b' /\ key2_geb a b = key2_geb a' b'.
Proof. intros H1 H2 H3 H4. unfold key1_geb, key2_geb. rewrite H1, H2, H3, H4. split; reflexivity. Qed.

(* the result depends on the input order only through the shuffled list *)
Lemma result_depends_on_shuffled_list st es es' pi1 pi1' pi2 :
  apply_perm pi1 (filter has_infos es) = apply_perm pi1' (filter has_infos es') ->
  do_competition st [] es pi1 pi2 = do_competition st [] es' pi1' pi2.
Proof. intros H. unfold do_competition, ranked. rewrite H. reflexivity. Qed.

(* ---- every reordering of the input is reachable by re-labelling the shuffle ---- *)
Lemma nth_error_apply_perm {A} (l : list A) : forall rho i,
  (forall j, In j rho -> j < length l) ->
  nth_error (apply_perm rho l) i = match nth_error rho i with Some j => nth_error l j | None => None end.
Proof.
  induction rho as [|r rho IH]; intros i Hr; [destruct i; reflexivity|].
  unfold apply_perm. cbn [flat_map].
  assert (Hlt : r < length l) by (apply Hr; left; reflexivity).
  destruct (nth_error l r) as [x|] eqn:E; [|apply nth_error_None in E; lia].
  destruct i as [|i]; cbn [app nth_error]; [symmetry; exact E|].
  apply IH. intros j Hj. apply Hr. right. exact Hj.
Qed.

Definition opt_list {A} (o : option A) : list A := match o with Some x => [x] | None => [] end.

Lemma apply_perm_cons {A} p pi (l : list A) :
  apply_perm (p :: pi) l = opt_list (nth_error l p) ++ apply_perm pi l.
Proof. reflexivity. Qed.

Lemma apply_perm_app {A} p1 p2 (l : list A) : apply_perm (p1 ++ p2) l = apply_perm p1 l ++ apply_perm p2 l.
Proof. unfold apply_perm. apply flat_map_app. Qed.

Lemma apply_perm_compose {A} (l : list A) rho : (forall j, In j rho -> j < length l) ->
  forall pi, apply_perm pi (apply_perm rho l) = apply_perm (apply_perm pi rho) l.
Proof.
  intros Hr. induction pi as [|p pi IH]; [reflexivity|].
  rewrite !apply_perm_cons, apply_perm_app, IH. f_equal.
  rewrite (nth_error_apply_perm l rho p Hr).
  destruct (nth_error rho p) as [j|] eqn:E; cbn [opt_list]; [|reflexivity].
  rewrite apply_perm_cons. unfold apply_perm at 1. cbn [flat_map]. rewrite app_nil_r. reflexivity.
Qed.

Lemma apply_perm_map_S {A} (x : A) l pi : apply_perm (map S pi) (x :: l) = apply_perm pi l.
Proof. induction pi as [|p pi IH]; [reflexivity|]. unfold apply_perm in *. cbn [map flat_map nth_error]. rewrite IH. reflexivity. Qed.

Lemma perm_exists {A} (a b : list A) : Permutation a b ->
  exists rho, Permutation rho (seq 0 (length a)) /\ apply_perm rho a = b.
Proof.
  induction 1 as [|x a b Hp [rho [Hr He]]|x y a|a b c H1 [r1 [Hr1 He1]] H2 [r2 [Hr2 He2]]].
  - exists []. split; [constructor | reflexivity].
  - exists (0 :: map S rho). split.
    + cbn [length seq]. apply perm_skip. rewrite <- seq_shift. apply Permutation_map. exact Hr.
    + unfold apply_perm. cbn [flat_map nth_error app]. fold (apply_perm (map S rho) (x :: a)).
      rewrite apply_perm_map_S, He. reflexivity.
  - exists (1 :: 0 :: map (fun i => S (S i)) (seq 0 (length a))). split.
    + cbn [length seq]. eapply perm_trans; [apply perm_swap|]. do 2 apply perm_skip.
      rewrite <- !seq_shift, map_map. apply Permutation_refl.
    + unfold apply_perm. cbn [flat_map nth_error app]. f_equal. f_equal.
      rewrite <- (map_map S S). fold (apply_perm (map S (map S (seq 0 (length a)))) (y :: x :: a)).
      rewrite !apply_perm_map_S.
      pose proof (flat_map_seq_id a []) as E. simpl in E. exact E.
  - (* composition *)
    assert (Hin1 : forall j, In j r1 -> j < length a).
    { intros j Hj. assert (In j (seq 0 (length a))) by (eapply Permutation_in; eassumption).
      apply in_seq in H. lia. }
    exists (apply_perm r2 r1). split.
    + assert (Hlen : length b = length r1).
      { rewrite (Permutation_length Hr1), seq_length. symmetry. apply Permutation_length. exact H1. }
      eapply perm_trans; [apply apply_perm_perm; rewrite <- Hlen; exact Hr2 | exact Hr1].
    + rewrite <- apply_perm_compose by exact Hin1. rewrite He1. exact He2.
Qed.

(* whatever order the groups arrive in, every shuffle outcome of one order is a shuffle outcome of the
   other, with the same result: the distribution of the ranking under a uniform shuffle cannot depend
   on the arrival order *)
Lemma input_order_irrelevant st es es' pi1 :
  Permutation (filter has_infos es') (filter has_infos es) ->
  Permutation pi1 (seq 0 (length (filter has_infos es))) ->
  exists pi1', Permutation pi1' (seq 0 (length (filter has_infos es'))) /\
               forall pi2, do_competition st [] es' pi1' pi2 = do_competition st [] es pi1 pi2.
Proof.
  intros Hp H1. destruct (perm_exists _ _ Hp) as [rho [Hr He]].
  assert (Hin : forall j, In j rho -> j < length (filter has_infos es')).
  { intros j Hj. assert (In j (seq 0 (length (filter has_infos es')))) by (eapply Permutation_in; eassumption).
    apply in_seq in H. lia. }
  exists (apply_perm pi1 rho). split.
  - assert (Hlen : length (filter has_infos es) = length rho).
    { rewrite (Permutation_length Hr), seq_length. symmetry. apply Permutation_length. exact Hp. }
    eapply perm_trans; [apply apply_perm_perm; rewrite <- Hlen; exact H1 | exact Hr].
  - intros pi2. apply result_depends_on_shuffled_list.
    rewrite <- apply_perm_compose by exact Hin. rewrite He. reflexivity.
Qed.

(* a group without evidence never enters the competition order, hence is not ranked *)
Lemma ranked_has_infos st seen es pi1 e : In e (ranked st seen es pi1) -> e_infos e <> [].
Proof.
  intros H. unfold ranked in H.
  apply greedy_incl in H. apply (proj1 (isort_In key1_geb _ _)) in H.
  unfold apply_perm in H. apply in_flat_map in H. destruct H as [i [_ H]].
  destruct (nth_error (filter has_infos es) i) as [x|] eqn:E; [|destruct H]. destruct H as [<-|[]].
  apply nth_error_In in E. apply filter_In in E. destruct E as [_ E]. unfold has_infos in E.
  destruct (e_infos x); [discriminate | discriminate].
Qed.

(* ---- which members of a group are "leading": those with the most peptides among the members AND every protein the evidence names ---- *)
Lemma leading_proteins_spec g infos p :
  In p (leading_proteins g infos) <->
  In p g /\ forall q, In q (g ++ concat (map pi_prots infos)) ->
              peptide_count infos (Some (101 # 100)%Q) q <= peptide_count infos (Some (101 # 100)%Q) p.
Proof.
  unfold leading_proteins. set (cnt := peptide_count infos (Some (101 # 100)%Q)).
  set (all := g ++ concat (map pi_prots infos)).
  rewrite filter_In, Nat.eqb_eq.
  assert (Hle : forall q, In q all -> cnt q <= list_max (map cnt all)).
  { intros q Hq. assert (H : list_max (map cnt all) <= list_max (map cnt all)) by apply Nat.le_refl.
    apply list_max_le in H. rewrite Forall_forall in H. apply H. apply in_map. exact Hq. }
  split.
  - intros [Hp Hm]. split; [exact Hp|]. intros q Hq. rewrite Hm. apply Hle. exact Hq.
  - intros [Hp Hall]. split; [exact Hp|]. apply Nat.le_antisymm.
    + apply Hle. unfold all. apply in_or_app. left. exact Hp.
    + apply list_max_le. apply Forall_forall. intros n Hn. apply in_map_iff in Hn. destruct Hn as [q [<- Hq]]. apply Hall. exact Hq.
Qed.

(* a group whose evidence names an OUTSIDE protein with strictly more peptides than every member has no leading protein at all
   (it blocks nobody): what the code does, e.g. for placeholder groups whose evidence keeps the unprefixed names *)
Lemma no_leader_when_outsider_has_most g infos q :
  In q (concat (map pi_prots infos)) ->
  (forall p, In p g -> peptide_count infos (Some (101 # 100)%Q) p < peptide_count infos (Some (101 # 100)%Q) q) ->
  leading_proteins g infos = [].
Proof.
  intros Hq Hlt. destruct (leading_proteins g infos) as [|p r] eqn:E; [reflexivity|]. exfalso.
  assert (Hp : In p (leading_proteins g infos)) by (rewrite E; left; reflexivity).
  apply leading_proteins_spec in Hp. destruct Hp as [Hg Hall].
  specialize (Hall q (in_or_app _ _ _ (or_intror Hq))). specialize (Hlt p Hg). lia.
Qed.
