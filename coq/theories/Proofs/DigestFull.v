(* full_digest = the declarative cleavage rule, for ALL sequences, when no initiator-methionine site is in play
   (methionine cleavage off, or the protein does not start with M). *)
From PGF Require Import Base.Prelude Base.PyStr Model.Digest Proofs.DigestProofs.
From Coq Require Import Lia Sorted.

(* ---------- the last k elements of a list ---------- *)
Definition keep {A} (k : nat) (l : list A) : list A := skipn (length l - k) l.

Lemma keep_all {A} k (l : list A) : length l <= k -> keep k l = l.
Proof. intros H. unfold keep. replace (length l - k) with 0 by lia. reflexivity. Qed.

Lemma keep_length {A} k (l : list A) : length (keep k l) = Nat.min k (length l).
Proof. unfold keep. rewrite skipn_length. lia. Qed.

Lemma skipn_app_exact {A} (x y : list A) m j : length x = m -> skipn (m + j) (x ++ y) = skipn j y.
Proof.
  intros H. rewrite skipn_app, skipn_all2 by lia. simpl. f_equal. lia.
Qed.

Lemma keep_keep_app {A} k (a b : list A) : keep k (keep k a ++ b) = keep k (a ++ b).
Proof.
  destruct (Nat.le_gt_cases (length a) k) as [H|H]; [rewrite (keep_all k a H); reflexivity|].
  assert (Ea : a = firstn (length a - k) a ++ keep k a) by (unfold keep; symmetry; apply firstn_skipn).
  transitivity (skipn (length b) (keep k a ++ b)).
  - unfold keep at 1. rewrite app_length, keep_length. f_equal. lia.
  - unfold keep at 2. rewrite app_length. rewrite Ea at 3. rewrite <- app_assoc.
    replace (length a + length b - k) with ((length a - k) + length b) by lia.
    symmetry. apply skipn_app_exact. rewrite firstn_length. lia.
Qed.

Lemma keep_step {A} k (l : list A) x : length l <= k ->
  (if Nat.ltb k (length (l ++ [x])) then skipn 1 (l ++ [x]) else l ++ [x]) = keep k (l ++ [x]).
Proof.
  intros H. rewrite app_length. simpl. destruct (Nat.ltb_spec k (length l + 1)).
  - unfold keep. rewrite app_length. simpl. replace (length l + 1 - k) with 1 by lia. reflexivity.
  - symmetry. apply keep_all. rewrite app_length. simpl. lia.
Qed.

Lemma in_skipn {A} (x : A) n l : In x (skipn n l) -> In x l.
Proof. revert l. induction n as [|n IH]; intros l H; [exact H|]. destruct l as [|y l]; [destruct H|]. right. apply IH. exact H. Qed.

(* strictly increasing lists *)
Definition incr (l : list nat) : Prop := StronglySorted lt l.

Lemma incr_app_inv l1 x l2 : incr (l1 ++ x :: l2) -> (forall y, In y l1 -> y < x) /\ (forall y, In y l2 -> x < y) /\ incr l1.
Proof.
  induction l1 as [|a l1 IH]; simpl; intros H.
  - inversion H as [|? ? Hs Hf]; subst. split; [intros ? []|]. split; [|constructor].
    intros y Hy. rewrite Forall_forall in Hf. apply Hf. exact Hy.
  - inversion H as [|? ? Hs Hf]; subst. destruct (IH Hs) as [H1 [H2 H3]]. rewrite Forall_forall in Hf. split; [|split; [exact H2|]].
    + intros y [<-|Hy]; [apply Hf, in_or_app; right; left; reflexivity | apply H1; exact Hy].
    + constructor; [exact H3|]. apply Forall_forall. intros y Hy. apply Hf, in_or_app. left. exact Hy.
Qed.

(* in a strictly increasing list, x belongs to the last k elements iff fewer than k elements are larger *)
Lemma keep_incr_iff k l x : incr l -> In x l ->
  (In x (keep k l) <-> length (filter (fun y => Nat.ltb x y) l) < k).
Proof.
  intros Hs Hx. apply in_split in Hx. destruct Hx as [l1 [l2 ->]].
  destruct (incr_app_inv l1 x l2 Hs) as [H1 [H2 H3]].
  assert (Hf : filter (fun y => Nat.ltb x y) (l1 ++ x :: l2) = l2).
  { rewrite filter_app. cbn [filter]. rewrite Nat.ltb_irrefl.
    replace (filter (fun y => Nat.ltb x y) l1) with (@nil nat).
    - simpl. clear -H2. induction l2 as [|y l2 IH]; simpl; [reflexivity|].
      assert (E : Nat.ltb x y = true) by (apply Nat.ltb_lt, H2; left; reflexivity). rewrite E. f_equal.
      apply IH. intros z Hz. apply H2. right. exact Hz.
    - symmetry. clear -H1. induction l1 as [|y l1 IH]; simpl; [reflexivity|].
      assert (E : Nat.ltb x y = false) by (apply Nat.ltb_ge; specialize (H1 y (or_introl eq_refl)); lia). rewrite E.
      apply IH. intros z Hz. apply H1. right. exact Hz. }
  rewrite Hf. unfold keep. rewrite app_length. cbn [length].
  assert (Hnd : ~ In x l1) by (intros Hin; specialize (H1 x Hin); lia).
  assert (Hnd2 : ~ In x l2) by (intros Hin; specialize (H2 x Hin); lia).
  set (m := length l1 + S (length l2) - k).
  destruct (Nat.le_gt_cases m (length l1)) as [Hm|Hm].
  - split; [intros _; lia|]. intros _. rewrite skipn_app. apply in_or_app. right.
    replace (m - length l1) with 0 by lia. left. reflexivity.
  - split; [|intros; lia]. intros Hin. exfalso. rewrite skipn_app in Hin. apply in_app_or in Hin.
    destruct Hin as [Hin|Hin].
    + apply Hnd. eapply in_skipn. exact Hin.
    + assert (Hm' : m - length l1 = S (m - length l1 - 1)) by lia. rewrite Hm' in Hin. cbn [skipn] in Hin.
      apply Hnd2. eapply in_skipn. exact Hin.
Qed.

Lemma incr_NoDup l : incr l -> NoDup l.
Proof.
  induction 1 as [|x l Hs IH Hf]; constructor; [|exact IH]. intros Hin. rewrite Forall_forall in Hf. specialize (Hf x Hin). lia.
Qed.

Lemma incr_filter_seq f : forall m a, incr (filter f (seq a m)).
Proof.
  induction m as [|m IH]; intros a; simpl; [constructor|]. destruct (f a); [|apply IH].
  constructor; [apply IH|]. apply Forall_forall. intros y Hy. apply filter_In in Hy. destruct Hy as [Hy _]. apply in_seq in Hy. lia.
Qed.

Lemma incr_app_last l x : incr l -> (forall y, In y l -> y < x) -> incr (l ++ [x]).
Proof.
  induction 1 as [|a l Hs IH Hf]; intros Hx; simpl; [constructor; [constructor | constructor]|].
  constructor; [apply IH; intros y Hy; apply Hx; right; exact Hy|].
  apply Forall_forall. intros y Hy. apply in_app_or in Hy. destruct Hy as [Hy|[<-|[]]].
  - rewrite Forall_forall in Hf. apply Hf. exact Hy.
  - apply Hx. left. reflexivity.
Qed.

Lemma incr_map_succ l : incr l -> incr (map (fun c => c + 1) l).
Proof.
  induction 1 as [|a l Hs IH Hf]; simpl; constructor; [exact IH|].
  apply Forall_forall. intros y Hy. apply in_map_iff in Hy. destruct Hy as [z [<- Hz]]. rewrite Forall_forall in Hf. specialize (Hf z Hz). lia.
Qed.

Lemma filter_none' {A} (f : A -> bool) l : (forall x, f x = false) -> filter f l = [].
Proof. intros H. induction l as [|x l IH]; simpl; [reflexivity|]. rewrite H. exact IH. Qed.

Lemma filter_all' {A} (f : A -> bool) l : (forall x, In x l -> f x = true) -> filter f l = l.
Proof.
  induction l as [|x l IH]; intros H; simpl; [reflexivity|]. rewrite (H x (or_introl eq_refl)). f_equal. apply IH. intros y Hy. apply H. right. exact Hy.
Qed.

Lemma filter_len_le' {A} (f : A -> bool) l : length (filter f l) <= length l.
Proof. induction l as [|x l IH]; simpl; [lia|]. destruct (f x); simpl; lia. Qed.

Lemma keep_app_drop {A} k (x y : list A) : k <= length y -> keep k (x ++ y) = keep k y.
Proof.
  intros H. unfold keep. rewrite app_length. replace (length x + length y - k) with (length x + (length y - k)) by lia.
  apply skipn_app_exact. reflexivity.
Qed.

Lemma keep_incl {A} k (l : list A) x : In x (keep k l) -> In x l.
Proof. apply in_skipn. Qed.

Lemma filter_gt_cons0 a l : filter (fun y => Nat.ltb a y) (0 :: l) = filter (fun y => Nat.ltb a y) l.
Proof. cbn [filter]. replace (Nat.ltb a 0) with false by (symmetry; apply Nat.ltb_ge; lia). reflexivity. Qed.

Section Full.
Variables (e : enzyme) (s : str) (mn mx mc : nat).

(* the loop without an initiator-methionine site: at site i the open starts are the last mc+1 boundaries seen so far *)
Lemma full_loop_nomet_In p : forall sites starts, length starts <= mc + 1 ->
  (In p (full_loop s mn mx mc false sites starts) <->
   exists l1 i l2 st, sites = l1 ++ i :: l2 /\ In st (keep (mc + 1) (starts ++ map (fun c => c + 1) l1)) /\
                      in_window mn mx (i + 1 - st) = true /\ p = slice s st (i + 1)).
Proof.
  induction sites as [|i rest IH]; intros starts Hl.
  - simpl. split; [intros [] | intros [l1 [i [l2 [st [H _]]]]]; destruct l1; discriminate].
  - cbn [full_loop]. rewrite andb_false_r. cbv iota. rewrite !Nat.add_0_r.
    rewrite (keep_step (mc + 1) starts (i + 1) Hl). rewrite in_app_iff.
    assert (Hl' : length (keep (mc + 1) (starts ++ [i + 1])) <= mc + 1) by (rewrite keep_length; lia).
    rewrite (IH _ Hl'). split.
    + intros [H|H].
      * apply in_flat_map in H. destruct H as [st [Hst H]].
        destruct (in_window mn mx (i + 1 - st)) eqn:Ew; [|destruct H]. destruct H as [<-|[]].
        exists [], i, rest, st. simpl. rewrite app_nil_r, (keep_all _ _ Hl). auto.
      * destruct H as [l1 [j [l2 [st [E [Hst [Hw Hp]]]]]]]. exists (i :: l1), j, l2, st.
        split; [simpl; rewrite E; reflexivity|]. split; [|split; assumption].
        rewrite keep_keep_app in Hst. rewrite <- app_assoc in Hst. exact Hst.
    + intros [l1 [j [l2 [st [E [Hst [Hw Hp]]]]]]]. destruct l1 as [|c l1].
      * simpl in E. inversion E; subst j l2. left. simpl in Hst. rewrite app_nil_r, (keep_all _ _ Hl) in Hst.
        apply in_flat_map. exists st. split; [exact Hst|]. rewrite Hw. left. symmetry. exact Hp.
      * simpl in E. inversion E; subst c rest. right. exists l1, j, l2, st.
        split; [reflexivity|]. split; [|split; assumption].
        rewrite keep_keep_app, <- app_assoc. exact Hst.
Qed.

Let n := length s.
Let C := filter (site_after e s) (seq 0 (n - 1)) ++ [n - 1].

Lemma site_after_site c : c + 1 < n -> site_after e s c = site e s (c + 1).
Proof.
  intros H. unfold site_after, site. fold n. rewrite Nat.add_sub.
  assert (E1 : Nat.leb 1 (c + 1) = true) by (apply Nat.leb_le; lia).
  assert (E2 : Nat.ltb (c + 1) n = true) by (apply Nat.ltb_lt; exact H).
  rewrite E1, E2. reflexivity.
Qed.

Lemma C_In c : 1 <= n -> (In c C <-> c = n - 1 \/ (c + 1 < n /\ site e s (c + 1) = true)).
Proof.
  intros Hn. unfold C. rewrite in_app_iff, filter_In, in_seq. split.
  - intros [[Hc Hs]|[<-|[]]]; [right | left; reflexivity]. assert (c + 1 < n) by lia. rewrite <- site_after_site by assumption. auto.
  - intros [->|[Hc Hs]]; [right; left; reflexivity | left]. rewrite site_after_site by assumption. split; [lia | exact Hs].
Qed.

Lemma C_incr : incr C.
Proof.
  unfold C. apply incr_app_last; [apply incr_filter_seq|]. intros y Hy. apply filter_In in Hy. destruct Hy as [Hy _]. apply in_seq in Hy. lia.
Qed.

(* counting the enzymatic sites strictly between two boundaries *)
Lemma inner_sites_count l1 i l2 a : 1 <= n -> C = l1 ++ i :: l2 ->
  inner_sites e s a (i + 1) = length (filter (fun y => Nat.ltb a y) (map (fun c => c + 1) l1)).
Proof.
  intros Hn EC. pose proof C_incr as HI. rewrite EC in HI. destruct (incr_app_inv _ _ _ HI) as [H1 [H2 H3]].
  assert (Hi : In i C) by (rewrite EC; apply in_or_app; right; left; reflexivity).
  assert (Hin : i < n) by (apply C_In in Hi; [|exact Hn]; lia).
  unfold inner_sites. fold n.
  set (F := filter (fun c => Nat.ltb a c && Nat.ltb c (i + 1) && site e s c) (seq 0 (n + 1))).
  set (G := filter (fun y => Nat.ltb a y) (map (fun c => c + 1) l1)).
  assert (NF : NoDup F) by (apply NoDup_filter, seq_NoDup).
  assert (NG : NoDup G) by (apply NoDup_filter, incr_NoDup, incr_map_succ, H3).
  assert (FG : forall c, In c F <-> In c G).
  { intros c. unfold F, G. rewrite !filter_In, in_seq, !andb_true_iff, !Nat.ltb_lt. split.
    - intros [Hc [[Hac Hci] Hs]]. split; [|exact Hac]. apply in_map_iff. exists (c - 1).
      assert (c >= 1) by (unfold site in Hs; rewrite !andb_true_iff, Nat.leb_le in Hs; lia). split; [lia|].
      assert (Hm : In (c - 1) C).
      { apply C_In; [exact Hn|]. right. replace (c - 1 + 1) with c by lia. split; [|exact Hs].
        unfold site in Hs. rewrite !andb_true_iff, Nat.ltb_lt in Hs. fold n in Hs. lia. }
      rewrite EC in Hm. apply in_app_or in Hm. destruct Hm as [Hm|[Hm|Hm]]; [exact Hm | lia | specialize (H2 _ Hm); lia].
    - intros [Hc Hac]. apply in_map_iff in Hc. destruct Hc as [z [<- Hz]]. specialize (H1 z Hz).
      assert (Hz' : In z C) by (rewrite EC; apply in_or_app; left; exact Hz).
      apply C_In in Hz'; [|exact Hn]. destruct Hz' as [->|[Hzn Hs]]; [lia|].
      split; [lia|]. split; [split; [exact Hac | lia] | exact Hs]. }
  apply Nat.le_antisymm; apply NoDup_incl_length; try assumption; intros c Hc; apply FG; exact Hc.
Qed.



Theorem full_digest_spec_nomet met0 p :
  1 <= n -> met0 && N.eqb (at_ s 0) resM = false ->
  (In p (full_digest e s mn mx mc met0) <-> In p (spec_digest e 2 s mn mx mc met0)).
Proof.
  intros Hn Hm. unfold full_digest. rewrite Hm. unfold full_sites. cbn [app]. fold n. fold C.
  rewrite full_loop_nomet_In by (simpl; lia). rewrite spec_digest_In.
  assert (Hmet : forall b, met_site s met0 b = false).
  { intros b. unfold met_site. rewrite <- andb_assoc, Hm. apply andb_false_r. }
  assert (term_iff : forall b, term e s met0 b = true <-> b = 0 \/ b = n \/ site e s b = true).
  { intros b. unfold term. rewrite Hmet, orb_false_r, !orb_true_iff, !Nat.eqb_eq. fold n. tauto. }
  split.
  - intros [l1 [i [l2 [st [EC [Hst [Hw Hp]]]]]]]. cbn [app] in Hst.
    pose proof C_incr as HI. rewrite EC in HI. destruct (incr_app_inv _ _ _ HI) as [H1 [H2 H3]].
    assert (Hi : In i C) by (rewrite EC; apply in_or_app; right; left; reflexivity).
    assert (HT : incr (0 :: map (fun c => c + 1) l1)).
    { constructor; [apply incr_map_succ; exact H3|]. apply Forall_forall. intros y Hy. apply in_map_iff in Hy. destruct Hy as [z [<- _]]. lia. }
    assert (Hst' : In st (0 :: map (fun c => c + 1) l1)) by (eapply in_skipn; exact Hst).
    exists st, (i + 1). split; [|exact Hp].
    assert (Hib : i + 1 <= n /\ term e s met0 (i + 1) = true).
    { apply C_In in Hi; [|exact Hn]. destruct Hi as [->|[Hi Hs]]; (split; [lia|]); apply term_iff; [right; left; lia | right; right; exact Hs]. }
    assert (Hsa : st < i + 1 /\ term e s met0 st = true).
    { destruct Hst' as [<-|Hc]; [split; [lia | apply term_iff; left; reflexivity]|].
      apply in_map_iff in Hc. destruct Hc as [z [<- Hz]]. specialize (H1 z Hz). split; [lia|].
      assert (Hz' : In z C) by (rewrite EC; apply in_or_app; left; exact Hz).
      apply C_In in Hz'; [|exact Hn]. destruct Hz' as [->|[_ Hs]]; [lia|]. apply term_iff. right. right. exact Hs. }
    unfold spec_ok. destruct Hib as [Hib Htb]. destruct Hsa as [Hsa Hta]. rewrite Hta, Htb.
    assert (Hcount := proj1 (keep_incr_iff (mc + 1) _ st HT Hst') Hst).
    rewrite filter_gt_cons0, <- (inner_sites_count l1 i l2 st Hn EC) in Hcount.
    rewrite !andb_true_iff, Nat.ltb_lt, !Nat.leb_le. fold n. repeat split; try lia. exact Hw.
  - intros [a [b [Hok Hp]]]. unfold spec_ok in Hok. rewrite !andb_true_iff, Nat.ltb_lt, !Nat.leb_le in Hok. fold n in Hok.
    destruct Hok as [[[Hab Hbn] Hw] [Hk Hinner]].
    assert (Hta : term e s met0 a = true) by (destruct (term e s met0 a), (term e s met0 b); simpl in Hk; try lia; reflexivity).
    assert (Htb : term e s met0 b = true) by (destruct (term e s met0 a), (term e s met0 b); simpl in Hk; try lia; reflexivity).
    assert (Hi : In (b - 1) C).
    { apply C_In; [exact Hn|]. apply term_iff in Htb. destruct Htb as [Hb|[Hb|Hb]]; [lia | left; lia | right].
      replace (b - 1 + 1) with b by lia. split; [|exact Hb]. unfold site in Hb. rewrite !andb_true_iff, Nat.ltb_lt in Hb. fold n in Hb. lia. }
    apply in_split in Hi. destruct Hi as [l1 [l2 EC]].
    pose proof C_incr as HI. rewrite EC in HI. destruct (incr_app_inv _ _ _ HI) as [H1 [H2 H3]].
    assert (HT : incr (0 :: map (fun c => c + 1) l1)).
    { constructor; [apply incr_map_succ; exact H3|]. apply Forall_forall. intros y Hy. apply in_map_iff in Hy. destruct Hy as [z [<- _]]. lia. }
    assert (Ha : In a (0 :: map (fun c => c + 1) l1)).
    { apply term_iff in Hta. destruct Hta as [->|[Ha|Ha]]; [left; reflexivity | lia | right].
      apply in_map_iff. exists (a - 1). assert (a >= 1) by (unfold site in Ha; rewrite !andb_true_iff, Nat.leb_le in Ha; lia).
      split; [lia|].
      assert (Hmem : In (a - 1) C).
      { apply C_In; [exact Hn|]. right. replace (a - 1 + 1) with a by lia. split; [lia | exact Ha]. }
      rewrite EC in Hmem. apply in_app_or in Hmem. destruct Hmem as [Hmem|[Hmem|Hmem]]; [exact Hmem | lia | specialize (H2 _ Hmem); lia]. }
    exists l1, (b - 1), l2, a. replace (b - 1 + 1) with b by lia.
    split; [exact EC|]. split; [|split; [exact Hw | exact Hp]]. cbn [app].
    apply (keep_incr_iff (mc + 1) _ a HT Ha).
    rewrite filter_gt_cons0, <- (inner_sites_count l1 (b - 1) l2 a Hn EC). replace (b - 1 + 1) with b by lia. lia.
Qed.

(* ---------- with the initiator-methionine site ---------- *)
(* the open starts while the methionine site is in play: everything as long as at most mc+2 boundaries were seen
   (0, the methionine site 1, and mc enzymatic ones), the last mc+1 afterwards *)
Definition gkeep (T : list nat) : list nat := if Nat.leb (length T) (mc + 2) then T else keep (mc + 1) T.



Lemma keep_tail_nonzero T' : Forall (fun x => x <> 0) T' -> mc + 2 < length (0 :: T') ->
  forall x, In x (keep (mc + 1) (0 :: T')) -> x <> 0.
Proof.
  intros HF Hl x Hx. unfold keep in Hx. cbn [length] in *.
  assert (E : S (length T') - (mc + 1) = S (length T' - (mc + 1))) by lia. rewrite E in Hx. cbn [skipn] in Hx.
  apply in_skipn in Hx. rewrite Forall_forall in HF. apply HF. exact Hx.
Qed.

Lemma gkeep_step T' x : Forall (fun y => y <> 0) T' -> x <> 0 ->
  let starts := gkeep (0 :: T') in
  let starts1 := starts ++ [x] in
  let mcl := if Nat.eqb (hd 1 starts1) 0 && true then 1 else 0 in
  (if Nat.ltb (mc + 1 + mcl) (length starts1) then skipn (1 + mcl) starts1 else starts1) = gkeep ((0 :: T') ++ [x]).
Proof.
  intros HF Hx. cbv zeta. unfold gkeep.
  destruct (Nat.leb_spec (length (0 :: T')) (mc + 2)) as [Hle|Hgt]; cbn [length] in *.
  - (* the start 0 is still open *)
    cbn [app hd]. cbn [Nat.eqb andb]. cbn [length]. rewrite !app_length. cbn [length].
    destruct (Nat.leb_spec (S (length T' + 1)) (mc + 2)) as [Hle2|Hgt2].
    + destruct (Nat.ltb_spec (mc + 1 + 1) (S (length T' + 1))); [lia | reflexivity].
    + destruct (Nat.ltb_spec (mc + 1 + 1) (S (length T' + 1))); [|lia].
      unfold keep. cbn [length]. rewrite app_length. cbn [length].
      replace (S (length T' + 1) - (mc + 1)) with 2 by lia. reflexivity.
  - (* 0 has been dropped: the ordinary step *)
    assert (Hnz : forall y, In y (keep (mc + 1) (0 :: T')) -> y <> 0) by (apply keep_tail_nonzero; [exact HF | cbn [length]; lia]).
    assert (Hlen : length (keep (mc + 1) (0 :: T')) = mc + 1) by (rewrite keep_length; cbn [length]; lia).
    assert (Hhd : Nat.eqb (hd 1 (keep (mc + 1) (0 :: T') ++ [x])) 0 = false).
    { destruct (keep (mc + 1) (0 :: T')) as [|y l] eqn:Ek; [simpl in Hlen; lia|]. cbn [app hd].
      apply Nat.eqb_neq. apply Hnz. left. reflexivity. }
    rewrite Hhd. cbn [andb]. rewrite Nat.add_0_r. rewrite (app_length (keep (mc + 1) (0 :: T')) [x]), Hlen. cbn [length].
    destruct (Nat.ltb_spec (mc + 1) (mc + 1 + 1)); [|lia].
    rewrite (app_length (0 :: T') [x]). cbn [length].
    destruct (Nat.leb_spec (S (length T') + 1) (mc + 2)); [lia|].
    replace (1 + 0) with 1 by reflexivity.
    rewrite <- (keep_keep_app (mc + 1) (0 :: T') [x]).
    unfold keep at 2. rewrite (app_length (keep (mc + 1) (0 :: T')) [x]), Hlen. cbn [length]. replace (mc + 1 + 1 - (mc + 1)) with 1 by lia. reflexivity.
Qed.

Lemma full_loop_met_In p : forall sites T', Forall (fun y => y <> 0) T' ->
  (In p (full_loop s mn mx mc true sites (gkeep (0 :: T'))) <->
   exists l1 i l2 st, sites = l1 ++ i :: l2 /\ In st (gkeep ((0 :: T') ++ map (fun c => c + 1) l1)) /\
                      in_window mn mx (i + 1 - st) = true /\ p = slice s st (i + 1)).
Proof.
  induction sites as [|i rest IH]; intros T' HF.
  - simpl. split; [intros [] | intros [l1 [i [l2 [st [H _]]]]]; destruct l1; discriminate].
  - cbn [full_loop].
    assert (Hx : i + 1 <> 0) by lia.
    rewrite (gkeep_step T' (i + 1) HF Hx). rewrite in_app_iff.
    assert (HF' : Forall (fun y => y <> 0) (T' ++ [i + 1])) by (apply Forall_app; split; [exact HF | constructor; [lia | constructor]]).
    change ((0 :: T') ++ [i + 1]) with (0 :: (T' ++ [i + 1])).
    rewrite (IH _ HF'). split.
    + intros [H|H].
      * apply in_flat_map in H. destruct H as [st [Hst H]].
        destruct (in_window mn mx (i + 1 - st)) eqn:Ew; [|destruct H]. destruct H as [<-|[]].
        exists [], i, rest, st. cbn [map]. rewrite app_nil_r. auto.
      * destruct H as [l1 [j [l2 [st [E [Hst [Hw Hp]]]]]]]. exists (i :: l1), j, l2, st.
        split; [simpl; rewrite E; reflexivity|]. split; [|split; assumption].
        cbn [map]. replace ((0 :: T') ++ i + 1 :: map (fun c => c + 1) l1) with ((0 :: T' ++ [i + 1]) ++ map (fun c => c + 1) l1); [exact Hst|].
        cbn [app]. rewrite <- app_assoc. reflexivity.
    + intros [l1 [j [l2 [st [E [Hst [Hw Hp]]]]]]]. destruct l1 as [|c l1].
      * simpl in E. inversion E; subst j l2. left. cbn [map] in Hst. rewrite app_nil_r in Hst.
        apply in_flat_map. exists st. split; [exact Hst|]. rewrite Hw. left. symmetry. exact Hp.
      * simpl in E. inversion E; subst c rest. right. exists l1, j, l2, st.
        split; [reflexivity|]. split; [|split; assumption].
        cbn [map] in Hst. replace ((0 :: T') ++ i + 1 :: map (fun c => c + 1) l1) with ((0 :: T' ++ [i + 1]) ++ map (fun c => c + 1) l1) in Hst; [exact Hst|].
        cbn [app]. rewrite <- app_assoc. reflexivity.
Qed.

Lemma gkeep_small T : length T <= mc + 2 -> gkeep T = T.
Proof. intros H. unfold gkeep. destruct (Nat.leb_spec (length T) (mc + 2)); [reflexivity | lia]. Qed.









(* which starts are open once the methionine site and the enzymatic sites l1 have been passed *)
Lemma gkeep_In_iff l1 a : incr l1 ->
  let S1 := map (fun c => c + 1) l1 in
  (In a (gkeep (0 :: 1 :: S1)) <-> In a (0 :: 1 :: S1) /\ length (filter (fun y => Nat.ltb a y) S1) <= mc).
Proof.
  intros HI S1. assert (HS : incr S1) by (apply incr_map_succ; exact HI).
  assert (Hlen : length S1 = length l1) by (unfold S1; apply map_length).
  assert (Hge : forall y, In y S1 -> 1 <= y) by (intros y Hy; unfold S1 in Hy; apply in_map_iff in Hy; destruct Hy as [z [<- _]]; lia).
  unfold gkeep. cbn [length]. destruct (Nat.leb_spec (S (S (length S1))) (mc + 2)) as [Hle|Hgt].
  - split; [intros H; split; [exact H|] | intros [H _]; exact H].
    pose proof (filter_len_le' (fun y => Nat.ltb a y) S1). lia.
  - change (0 :: 1 :: S1) with ([0; 1] ++ S1). rewrite keep_app_drop by lia. split.
    + intros H. assert (Hin : In a S1) by (eapply keep_incl; exact H). split; [right; right; exact Hin|].
      apply (keep_incr_iff (mc + 1) S1 a HS Hin) in H. lia.
    + intros [Hin Hc]. destruct (in_dec Nat.eq_dec a S1) as [Ha|Ha].
      * apply (keep_incr_iff (mc + 1) S1 a HS Ha). lia.
      * exfalso. assert (Hall : forall y, In y S1 -> Nat.ltb a y = true).
        { intros y Hy. apply Nat.ltb_lt. specialize (Hge y Hy). destruct Hin as [<-|[<-|Hin]]; [lia | | contradiction].
          assert (y <> 1) by (intros ->; apply Ha; exact Hy). lia. }
        rewrite (filter_all' (fun y => Nat.ltb a y) S1 Hall) in Hc. lia.
Qed.

Theorem full_digest_spec_met met0 p :
  1 <= n -> 1 <= mn -> met0 && N.eqb (at_ s 0) resM = true ->
  (In p (full_digest e s mn mx mc met0) <-> In p (spec_digest e 2 s mn mx mc met0)).
Proof.
  intros Hn Hmn Hm. unfold full_digest. rewrite Hm. unfold full_sites. cbn [app]. fold n. fold C.
  rewrite <- (gkeep_small [0]) by (simpl; lia).
  rewrite (full_loop_met_In p (0 :: C) [] (Forall_nil _)). rewrite spec_digest_In.
  assert (Hmet : forall b, met_site s met0 b = Nat.eqb b 1).
  { intros b. unfold met_site. rewrite <- andb_assoc, Hm. apply andb_true_r. }
  assert (term_iff : forall b, term e s met0 b = true <-> b = 0 \/ b = n \/ site e s b = true \/ b = 1).
  { intros b. unfold term. rewrite Hmet, !orb_true_iff, !Nat.eqb_eq. fold n. tauto. }
  assert (Hwin : forall a b, in_window mn mx (b - a) = true -> a < b).
  { intros a b H. unfold in_window in H. rewrite andb_true_iff, !Nat.leb_le in H. lia. }
  split.
  - intros [l1 [i [l2 [st [EC [Hst [Hw Hp]]]]]]]. exists st, (i + 1). split; [|exact Hp].
    pose proof (Hwin _ _ Hw) as Hlt.
    destruct l1 as [|c l1].
    + (* the methionine site itself *)
      simpl in EC. inversion EC; subst i l2. cbn [map app] in Hst. rewrite gkeep_small in Hst by (simpl; lia).
      destruct Hst as [<-|[]]. unfold spec_ok.
      assert (Ht0 : term e s met0 0 = true) by (apply term_iff; left; reflexivity).
      assert (Ht1 : term e s met0 (0 + 1) = true) by (apply term_iff; right; right; right; reflexivity).
      rewrite Ht0, Ht1. rewrite !andb_true_iff, Nat.ltb_lt, !Nat.leb_le. fold n.
      assert (Hz : inner_sites e s 0 (0 + 1) = 0).
      { unfold inner_sites. rewrite filter_none'; [reflexivity|]. intros c.
        destruct (Nat.ltb_spec 0 c), (Nat.ltb_spec c (0 + 1)); simpl; try reflexivity. lia. }
      rewrite Hz. repeat split; try lia. exact Hw.
    + simpl in EC. inversion EC as [[Hc EC']]. subst c. clear EC.
      pose proof C_incr as HI. rewrite EC' in HI. destruct (incr_app_inv _ _ _ HI) as [H1 [H2 H3]].
      assert (Hi : In i C) by (rewrite EC'; apply in_or_app; right; left; reflexivity).
      cbn [map app] in Hst. replace (0 + 1) with 1 in Hst by reflexivity.
      apply (gkeep_In_iff l1 st H3) in Hst. destruct Hst as [Hst Hcount].
      rewrite <- (inner_sites_count l1 i l2 st Hn EC') in Hcount.
      assert (Hib : i + 1 <= n /\ term e s met0 (i + 1) = true).
      { apply C_In in Hi; [|exact Hn]. destruct Hi as [->|[Hi Hs]]; (split; [lia|]); apply term_iff; [right; left; lia | right; right; left; exact Hs]. }
      assert (Hta : term e s met0 st = true).
      { destruct Hst as [<-|[<-|Hc]]; [apply term_iff; left; reflexivity | apply term_iff; right; right; right; reflexivity|].
        apply in_map_iff in Hc. destruct Hc as [z [<- Hz]]. specialize (H1 z Hz).
        assert (Hz' : In z C) by (rewrite EC'; apply in_or_app; left; exact Hz).
        apply C_In in Hz'; [|exact Hn]. destruct Hz' as [->|[_ Hs]]; [lia|]. apply term_iff. right. right. left. exact Hs. }
      unfold spec_ok. destruct Hib as [Hib Htb]. rewrite Hta, Htb.
      rewrite !andb_true_iff, Nat.ltb_lt, !Nat.leb_le. fold n. repeat split; try lia. exact Hw.
  - intros [a [b [Hok Hp]]]. unfold spec_ok in Hok. rewrite !andb_true_iff, Nat.ltb_lt, !Nat.leb_le in Hok. fold n in Hok.
    destruct Hok as [[[Hab Hbn] Hw] [Hk Hinner]].
    assert (Hta : term e s met0 a = true) by (destruct (term e s met0 a), (term e s met0 b); simpl in Hk; try lia; reflexivity).
    assert (Htb : term e s met0 b = true) by (destruct (term e s met0 a), (term e s met0 b); simpl in Hk; try lia; reflexivity).
    destruct (Nat.eq_dec b 1) as [->|Hb1].
    + (* the peptide "M" in front of the methionine site *)
      assert (a = 0) by lia. subst a. exists [], 0, C, 0. split; [reflexivity|]. cbn [map app]. rewrite gkeep_small by (simpl; lia).
      split; [left; reflexivity|]. split; [exact Hw | exact Hp].
    + assert (Hi : In (b - 1) C).
      { apply C_In; [exact Hn|]. apply term_iff in Htb. destruct Htb as [Hb|[Hb|[Hb|Hb]]]; [lia | left; lia | right | lia].
        replace (b - 1 + 1) with b by lia. split; [|exact Hb]. unfold site in Hb. rewrite !andb_true_iff, Nat.ltb_lt in Hb. fold n in Hb. lia. }
      apply in_split in Hi. destruct Hi as [l1 [l2 EC]].
      pose proof C_incr as HI. rewrite EC in HI. destruct (incr_app_inv _ _ _ HI) as [H1 [H2 H3]].
      exists (0 :: l1), (b - 1), l2, a. replace (b - 1 + 1) with b by lia.
      split; [simpl; rewrite EC; reflexivity|]. split; [|split; [exact Hw | exact Hp]].
      cbn [map app]. replace (0 + 1) with 1 by reflexivity. apply (gkeep_In_iff l1 a H3). split.
      * apply term_iff in Hta. destruct Hta as [ -> | [Ha | [Ha | -> ] ] ]; [left; reflexivity | lia | right; right | right; left; reflexivity].
        apply in_map_iff. exists (a - 1). assert (a >= 1) by (unfold site in Ha; rewrite !andb_true_iff, Nat.leb_le in Ha; lia).
        split; [lia|].
        assert (Hmem : In (a - 1) C).
        { apply C_In; [exact Hn|]. right. replace (a - 1 + 1) with a by lia. split; [lia | exact Ha]. }
        rewrite EC in Hmem. apply in_app_or in Hmem. destruct Hmem as [Hmem|[Hmem|Hmem]]; [exact Hmem | lia | specialize (H2 _ Hmem); lia].
      * rewrite <- (inner_sites_count l1 (b - 1) l2 a Hn EC). replace (b - 1 + 1) with b by lia. exact Hinner.
Qed.

(* full digestion = the cleavage rule, for every non-empty sequence, enzyme, window, budget and methionine setting *)
Theorem full_digest_spec met0 p :
  1 <= n -> 1 <= mn ->
  (In p (full_digest e s mn mx mc met0) <-> In p (spec_digest e 2 s mn mx mc met0)).
Proof.
  intros Hn Hmn. destruct (met0 && N.eqb (at_ s 0) resM) eqn:Hm.
  - apply full_digest_spec_met; assumption.
  - apply full_digest_spec_nomet; assumption.
Qed.
End Full.
