From PGF Require Import Base.Prelude Model.AtomicFs.

Lemma in_firstn {A} (x : A) : forall n l, In x (firstn n l) -> In x l.
Proof. induction n as [|n IH]; intros [|y l] H; simpl in *; try contradiction. destruct H as [H|H]; [left; exact H | right; apply IH; exact H]. Qed.

Definition no_rename (ops : list fop) : Prop := forall o, In o ops -> o <> Rename.

Lemma run_no_rename : forall ops s, no_rename ops -> f_out (run_fs ops s) = f_out s.
Proof.
  unfold run_fs. induction ops as [|o ops IH]; intros s H; [reflexivity|]. simpl. rewrite IH.
  - destruct o; simpl; try reflexivity. exfalso. apply (H Rename); [left; reflexivity | reflexivity].
  - intros o' Ho'. apply H. right. exact Ho'.
Qed.

Lemma run_writes : forall chunks s c, f_tmp s = Some c ->
  f_tmp (run_fs (map Write chunks) s) = Some (c ++ concat chunks) /\ f_out (run_fs (map Write chunks) s) = f_out s.
Proof.
  unfold run_fs. induction chunks as [|b chunks IH]; intros s c H; simpl.
  - rewrite app_nil_r. auto.
  - destruct (IH {| f_out := f_out s; f_tmp := match f_tmp s with Some c0 => Some (c0 ++ b) | None => None end |} (c ++ b)) as [H1 H2].
    + simpl. rewrite H. reflexivity.
    + rewrite H1, H2. rewrite <- app_assoc. auto.
Qed.

Lemma full_run s chunks : f_out s = None ->
  run_fs (prog s chunks) s = {| f_out := Some (concat chunks); f_tmp := None |}.
Proof.
  intros H. unfold prog. rewrite H. unfold run_fs. simpl. rewrite fold_left_app.
  destruct (run_writes chunks {| f_out := f_out s; f_tmp := Some [] |} [] eq_refl) as [H1 H2].
  unfold run_fs in H1, H2. simpl. rewrite H1. reflexivity.
Qed.

Lemma firstn_no_rename chunks k : k < length (OpenTrunc :: map Write chunks ++ [Close; Rename]) ->
  no_rename (firstn k (OpenTrunc :: map Write chunks ++ [Close; Rename])).
Proof.
  intros Hk o Ho Heq. subst o.
  (* Rename is the last element; a proper prefix does not contain it *)
  set (l := OpenTrunc :: map Write chunks ++ [Close]).
  assert (Hl : OpenTrunc :: map Write chunks ++ [Close; Rename] = l ++ [Rename]).
  { unfold l. simpl. rewrite <- app_assoc. reflexivity. }
  rewrite Hl in Ho, Hk. rewrite app_length in Hk. change (length [Rename]) with 1 in Hk.
  rewrite firstn_app in Ho. replace (k - length l) with 0 in Ho by lia. simpl in Ho. rewrite app_nil_r in Ho.
  assert (Hin : In Rename l) by (eapply in_firstn; exact Ho).
  unfold l in Hin. destruct Hin as [Hin|Hin]; [discriminate|]. apply in_app_or in Hin. destruct Hin as [Hin|[Hin|[]]]; [|discriminate].
  apply in_map_iff in Hin. destruct Hin as [x [Hx _]]. discriminate.
Qed.

(* ---- C16: whenever the process dies, the final path holds its initial content or the complete output ---- *)
Lemma atomic_publish s0 chunks k s :
  crash_states s0 chunks k s -> f_out s = f_out s0 \/ f_out s = Some (concat chunks).
Proof.
  intros [Ho _]. rewrite Ho. unfold prog. destruct (f_out s0) as [c|] eqn:E.
  - left. destruct k; simpl; exact E.
  - set (p := OpenTrunc :: map Write chunks ++ [Close; Rename]).
    destruct (Nat.lt_ge_cases k (length p)) as [Hlt|Hge].
    + left. rewrite run_no_rename by (apply firstn_no_rename; exact Hlt). exact E.
    + right. rewrite firstn_all2 by exact Hge.
      pose proof (full_run s0 chunks E) as Hf. unfold prog in Hf. rewrite E in Hf. fold p in Hf. rewrite Hf. reflexivity.
Qed.

(* never a proper prefix of the output under the final name *)
Lemma never_partial s0 chunks k s c :
  f_out s0 = None -> crash_states s0 chunks k s -> f_out s = Some c -> c = concat chunks.
Proof.
  intros H0 Hc Hs. destruct (atomic_publish s0 chunks k s Hc) as [H|H]; congruence.
Qed.

(* an existing final output is never modified: neither by a complete run nor at any crash point *)
Lemma existing_untouched s0 chunks c k s :
  f_out s0 = Some c -> crash_states s0 chunks k s -> f_out s = Some c.
Proof.
  intros H0 [Ho _]. rewrite Ho. unfold prog. rewrite H0. destruct k; simpl; exact H0.
Qed.

(* re-running after a crash at any point completes and yields exactly what an uninterrupted run yields;
   any number of further re-runs change nothing *)
Lemma rerun_completes s0 chunks k s :
  f_out s0 = None -> crash_states s0 chunks k s ->
  f_out (run_fs (prog s chunks) s) = Some (concat chunks) /\
  f_out (run_fs (prog s chunks) s) = f_out (run_fs (prog s0 chunks) s0).
Proof.
  intros H0 Hc. rewrite (full_run s0 chunks H0). simpl.
  destruct (atomic_publish s0 chunks k s Hc) as [H|H].
  - rewrite H0 in H. rewrite (full_run s chunks H). auto.
  - unfold prog. rewrite H. simpl. auto.
Qed.

Lemma reruns_idempotent s chunks : f_out s = Some (concat chunks) ->
  forall n, f_out (reruns chunks n s) = Some (concat chunks).
Proof.
  intros H n. induction n as [|n IH]; [exact H|]. cbn [reruns]. cbv zeta.
  unfold prog. rewrite IH. exact IH.
Qed.
