(* Which option can influence what: the two FDR options of get_protein_group_results. *)
From PGF Require Import Base.Prelude Base.PyStr Base.StableSort Model.Fdr Model.Results Model.ProteinGroups
  Model.Grouping Model.Scoring Model.Competition Model.Rescue Model.Pipeline.

(* a first pass (rescue = false) does not look at the PSM-level cutoff: its rows are built without a count filter *)
Lemma first_pass_ignores_psm_cut me o st s l ka pc pc' p1 p2 :
  snd (one_pass me o st s l false ka pc p1 p2) = snd (one_pass me o st s l false ka pc' p1 p2).
Proof.
  unfold one_pass. destruct (collect _ (o_md5 o) s false l) as [[infos peps]|e]; [|reflexivity].
  cbn [ps_seen ps_counts ps_pep_cutoff ps_rescue_cutoff ps_obsolete].
  destruct (is_mult (m_score me) && no_evidence infos); [reflexivity|].
  destruct (do_competition _ _ _ p1 p2) as [ranked|e]; [|reflexivity].
  destruct (calculate_protein_fdrs _) as [qs|e]; [|reflexivity].
  destruct (from_protein_groups _ _ _ qs _ ka) as [rows|e]; reflexivity.
Qed.

(* methods without a rescue step: neither FDR option has any influence on the result *)
Theorem no_rescue_ignores_fdr_options me o st l ka thr thr' pc pc' pis :
  is_rescued (m_grouping me) = false ->
  snd (run me o st l ka thr pc pis) = snd (run me o st l ka thr' pc' pis).
Proof.
  intros Hr. unfold run. destruct (group_proteins (m_grouping me) l) as [s0|e]; [|reflexivity].
  rewrite Hr. cbn [negb].
  match goal with |- context [one_pass me o ?st0 s0 l false ka pc ?p1 ?p2] =>
    pose proof (first_pass_ignores_psm_cut me o st0 s0 l ka pc pc' p1 p2) as H;
    destruct (one_pass me o st0 s0 l false ka pc p1 p2) as [a1 ra];
    destruct (one_pass me o st0 s0 l false ka pc' p1 p2) as [b1 rb] end.
  cbn [snd] in H. subst rb. destruct ra as [[infos1 rows1]|e]; reflexivity.
Qed.

(* with a rescue step the threshold acts only through the rescue cutoff computed from the first-pass rows *)
Theorem threshold_acts_through_rescue_cutoff me o st l ka thr thr' pc pis s0 st1 infos1 rows1 :
  group_proteins (m_grouping me) l = Ok s0 ->
  one_pass me o {| ps_seen := ps_seen st; ps_counts := if m_razor me then Some l else ps_counts st;
                   ps_pep_cutoff := ps_pep_cutoff st; ps_rescue_cutoff := ps_rescue_cutoff st;
                   ps_obsolete := ps_obsolete st |} s0 l false ka pc (nth 0 pis []) (nth 1 pis []) = (st1, Ok (infos1, rows1)) ->
  rescue_score_cutoff (o_pow10neg o) (map (fun r => (r_score r, r_q r)) rows1) thr =
  rescue_score_cutoff (o_pow10neg o) (map (fun r => (r_score r, r_q r)) rows1) thr' ->
  snd (run me o st l ka thr pc pis) = snd (run me o st l ka thr' pc pis).
Proof.
  intros Hg H1 Hc. unfold run. rewrite Hg, H1.
  destruct (negb (is_rescued (m_grouping me))); [reflexivity|].
  destruct (negb (can_rescue (m_score me))); [reflexivity|].
  rewrite Hc. reflexivity.
Qed.

(* ---- the rescue cutoff is the PEP equivalent of the worst-scoring accepted group ---- *)
Local Open Scope Q_scope.

Lemma qmin_fold_spec : forall r x,
  (In (fold_left qmin r x) (x :: r)) /\ (forall y, In y (x :: r) -> fold_left qmin r x <= y).
Proof.
  induction r as [|z r IH]; intros x; cbn [fold_left].
  - split; [left; reflexivity|]. intros y [<-|[]]. apply Qle_refl.
  - destruct (IH (qmin x z)) as [Hin Hle]. split.
    + destruct Hin as [Hq|Hr]; [|right; right; exact Hr].
      assert (Hc : qmin x z = x \/ qmin x z = z) by (unfold qmin; destruct (Qle_bool x z); auto).
      destruct Hc as [Hc|Hc]; [left | right; left]; rewrite <- Hc at 1; exact Hq.
    + assert (Hm : qmin x z <= x /\ qmin x z <= z).
      { unfold qmin. destruct (Qle_bool x z) eqn:E.
        - apply Qle_bool_iff in E. split; [apply Qle_refl | exact E].
        - split; [|apply Qle_refl]. destruct (Qlt_le_dec z x) as [Hlt|Hle']; [apply Qlt_le_weak; exact Hlt|].
          apply Qle_bool_iff in Hle'. congruence. }
      intros y [<-|[<-|Hy]].
      * eapply Qle_trans; [apply Hle; left; reflexivity | apply Hm].
      * eapply Qle_trans; [apply Hle; left; reflexivity | apply Hm].
      * apply Hle. right. exact Hy.
Qed.

Definition accepted (rows : list (Q * Q)) (thr : Q) : list (Q * Q) :=
  filter (fun r => negb (Qle_bool thr (snd r))) rows.

Lemma accepted_spec rows thr r : In r (accepted rows thr) <-> In r rows /\ snd r < thr.
Proof.
  unfold accepted. rewrite filter_In. split; intros [Hi Hq]; (split; [exact Hi|]).
  - destruct (Qle_bool thr (snd r)) eqn:E; [discriminate|]. apply Qnot_le_lt. intros H. apply Qle_bool_iff in H. congruence.
  - destruct (Qle_bool thr (snd r)) eqn:E; [|reflexivity]. apply Qle_bool_iff in E. exfalso. exact (Qlt_not_le _ _ Hq E).
Qed.

(* rows = (score, q-value) of the first-pass report; the pool is the accepted rows (q < threshold), or all rows when none is
   accepted; the cutoff is 10^-m for the LOWEST score m of the pool *)
Theorem rescue_cutoff_is_worst_accepted pw rows thr c :
  rescue_score_cutoff pw rows thr = Ok c ->
  let pool := match accepted rows thr with [] => rows | _ => accepted rows thr end in
  exists m, c = pw m /\ In m (map fst pool) /\ forall r, In r pool -> m <= fst r.
Proof.
  unfold rescue_score_cutoff. fold (accepted rows thr). intros H. cbv zeta.
  assert (G : forall pool : list (Q * Q), (match map fst pool with [] => Raise ValueError | _ => Ok (pw (qmin_list (map fst pool) (0#1))) end) = Ok c ->
              exists m, c = pw m /\ In m (map fst pool) /\ forall r, In r pool -> m <= fst r).
  { intros pool Hp. destruct pool as [|p0 pool]; [discriminate|]. cbn [map] in Hp. inversion Hp; subst. clear Hp.
    exists (qmin_list (fst p0 :: map fst pool) (0#1)). cbn [qmin_list].
    destruct (qmin_fold_spec (map fst pool) (fst p0)) as [Hin Hle]. split; [reflexivity|]. split; [exact Hin|].
    intros r Hr. apply Hle. change (In (fst r) (map fst (p0 :: pool))). apply in_map. exact Hr. }
  destruct (accepted rows thr) as [|a acc] eqn:Ea.
  - cbn [map] in H. apply G. exact H.
  - apply G. exact H.
Qed.

(* raising the threshold can only lower (or keep) the cutoff score when some group was already accepted *)
Example rescue_cutoff_witness :
  rescue_score_cutoff (fun x => x) [((5#1), (0#1)); ((3#1), (1#10)); ((2#1), (1#2))] (1#5) = Ok (3#1) /\
  rescue_score_cutoff (fun x => x) [((5#1), (1#1)); ((3#1), (1#1))] (1#100) = Ok (3#1).
Proof. split; vm_compute; reflexivity. Qed.

(* ---- the rescue regrouping sees exactly the peptides STRICTLY better than the rescue cutoff, in their original order ---- *)
Lemma filter_by_cutoff_spec (l : pil) (cut : Q) en :
  In en (filter_by_cutoff l cut) <-> In en l /\ (fst (snd en) < cut)%Q.
Proof.
  unfold filter_by_cutoff. rewrite filter_In. split; intros [H1 H2]; (split; [exact H1|]).
  - apply negb_true_iff in H2. apply Qnot_le_lt. intros Hle. apply Qle_bool_iff in Hle. congruence.
  - apply negb_true_iff. destruct (Qle_bool cut (fst (snd en))) eqn:E; [|reflexivity].
    apply Qle_bool_iff in E. exfalso. apply (Qlt_not_le _ _ H2). exact E.
Qed.

Lemma filter_by_cutoff_keeps_order (l : pil) (cut : Q) :
  exists keep : str * (Q * list str) -> bool, filter_by_cutoff l cut = filter keep l.
Proof. eexists. reflexivity. Qed.
