From PGF Require Import Base.Prelude Base.PyStr Model.ProteinGroups Model.Grouping Model.GroupingCheck Proofs.GroupingProofs.
From Coq Require Import Relations Lia.

Section CheckProofs.
Variable m : pmap.
Notation adj := (adj m).
Notation group_connected := (group_connected m).
Notation closed_under_sharing := (closed_under_sharing m).
Notation components_ok := (components_ok m).

(* reachability through proteins that share a peptide (the relation is symmetric) *)
Definition linked : str -> str -> Prop := clos_refl_trans str (fun a b => adj a b = true).
Definition same_group (groups : list (list str)) (x y : str) : Prop := exists g, In g groups /\ In x g /\ In y g.

Lemma nodupb_NoDup l : nodupb l = true -> NoDup l.
Proof.
  induction l as [|x l IH]; simpl; intros H; [constructor|]. apply andb_true_iff in H. destruct H as [H1 H2].
  constructor; [|apply IH; exact H2]. intros Hin. apply mem_str_In in Hin. rewrite Hin in H1. discriminate.
Qed.

Lemma adj_sym a b : adj a b = true -> adj b a = true.
Proof.
  unfold adj, share_peptide. rewrite !existsb_exists. intros [e [He Hb]]. apply mem_str_In in Hb.
  exists e. split; [exact Hb | apply mem_str_In; exact He].
Qed.

Lemma linked_sym a b : linked a b -> linked b a.
Proof.
  induction 1 as [a b H | a | a b c H1 IH1 H2 IH2]; [apply rt_step, adj_sym; exact H | apply rt_refl | eapply rt_trans; eassumption].
Qed.

(* the fuel-bounded closure only ever reaches linked nodes *)
Lemma closure_sound u : forall fuel nodes reach,
  (forall r, In r reach -> linked u r) -> forall x, In x (closure fuel adj nodes reach) -> linked u x.
Proof.
  induction fuel as [|f IH]; intros nodes reach Hr x Hx; simpl in Hx; [apply Hr; exact Hx|].
  destruct (filter (fun n => negb (mem_str n reach) && existsb (fun r => adj r n) reach) nodes) as [|n0 next] eqn:En;
    [apply Hr; exact Hx|].
  apply (IH nodes (reach ++ n0 :: next)); [|exact Hx].
  intros r Hin. apply in_app_or in Hin. destruct Hin as [Hin|Hin]; [apply Hr; exact Hin|].
  rewrite <- En in Hin. apply filter_In in Hin. destruct Hin as [_ Hb]. apply andb_true_iff in Hb. destruct Hb as [_ Hb].
  apply existsb_exists in Hb. destruct Hb as [r0 [Hr0 Ha]].
  eapply rt_trans; [apply Hr; exact Hr0 | apply rt_step; exact Ha].
Qed.

Lemma group_connected_linked g : group_connected g = true -> forall x y, In x g -> In y g -> linked x y.
Proof.
  unfold group_connected. destruct g as [|u g']; [discriminate|]. intros H x y Hx Hy.
  rewrite forallb_forall in H.
  assert (Hu : forall z, In z (u :: g') -> linked u z).
  { intros z Hz. apply (closure_sound u (length (u :: g')) (u :: g') [u]).
    - intros r [<-|[]]. apply rt_refl.
    - apply mem_str_In. apply H. exact Hz. }
  eapply rt_trans; [apply linked_sym; apply Hu; exact Hx | apply Hu; exact Hy].
Qed.



(* soundness of the checker: a partition of the observed proteins in which two proteins share a group exactly when they are linked *)
Theorem components_ok_sound groups : components_ok groups = true ->
  NoDup (concat groups) /\
  (forall p, In p (concat groups) <-> In p (prot_order m)) /\
  (forall x y, In x (concat groups) -> In y (concat groups) -> (same_group groups x y <-> linked x y)).
Proof.
  unfold components_ok. rewrite !andb_true_iff. intros [[[[Hnd Hall] Hobs] Hconn] Hclosed].
  apply nodupb_NoDup in Hnd. rewrite forallb_forall in Hall, Hobs, Hconn.
  split; [exact Hnd|]. split.
  - intros p. split; intros H; [apply mem_str_In, Hobs, H | apply mem_str_In, Hall, H].
  - assert (Hstep : forall g x y, In g groups -> In x g -> In y (concat groups) -> adj x y = true -> In y g).
    { intros g x y Hg Hx Hy Ha. unfold closed_under_sharing in Hclosed. rewrite forallb_forall in Hclosed.
      specialize (Hclosed g Hg). rewrite forallb_forall in Hclosed. specialize (Hclosed x Hx).
      rewrite forallb_forall in Hclosed. specialize (Hclosed y Hy). rewrite Ha in Hclosed. simpl in Hclosed.
      apply mem_str_In. exact Hclosed. }
    (* every protein with a peptide in common with an observed one is observed itself, hence in some group *)
    assert (Hadj_obs : forall x y, adj x y = true -> In y (concat groups)).
    { intros x y Ha. apply mem_str_In, Hall. unfold adj, share_peptide in Ha. apply existsb_exists in Ha.
      destruct Ha as [e [_ He]]. apply mem_str_In in He.
      unfold prot_order. apply dedup_In. split; [|intros []].
      unfold peptides_of in He. apply in_flat_map in He. destruct He as [[e' ps] [Hin Hrep]]. cbn [fst snd] in Hrep.
      apply in_concat. exists ps. split; [apply in_map_iff; exists (e', ps); split; [reflexivity | exact Hin]|].
      destruct (count_str y ps) eqn:Ec; [destruct Hrep|]. clear -Ec. induction ps as [|q ps IH]; [discriminate|].
      simpl in Ec. destruct (str_eqb q y) eqn:Eq; [left; apply str_eqb_eq; exact Eq | right; apply IH; exact Ec]. }
    intros x y Hx Hy. split.
    + intros [g [Hg [Hxg Hyg]]]. apply (group_connected_linked g (Hconn g Hg)); assumption.
    + intros Hl. apply in_concat in Hx. destruct Hx as [g [Hg Hxg]]. exists g. split; [exact Hg|]. split; [exact Hxg|].
      clear Hy. revert g Hg Hxg. induction Hl as [a b Hab | a | a b c H1 IH1 H2 IH2]; intros g Hg Hag.
      * apply (Hstep g a b Hg Hag (Hadj_obs a b Hab) Hab).
      * exact Hag.
      * apply (IH2 g Hg). apply (IH1 g Hg Hag).
Qed.
End CheckProofs.
