From PGF Require Import Base.Prelude Base.PyStr Base.Csv Model.Table.

(* ---------- every generator produces as many cells per row as headers ---------- *)
Lemma flat_map_length_const {A B} (f : A -> list B) k : forall l, (forall x, In x l -> length (f x) = k) -> length (flat_map f l) = length l * k.
Proof.
  induction l as [|x l IH]; intros H; simpl; [reflexivity|]. rewrite app_length, (H x) by (left; reflexivity).
  rewrite IH by (intros y Hy; apply H; right; exact Hy). reflexivity.
Qed.

Lemma gen_counts st g : length (gen_headers st g) = gen_ncols st g.
Proof.
  destruct g; unfold gen_headers, gen_ncols; cbv zeta.
  - reflexivity.
  - reflexivity.
  - simpl. rewrite map_length. reflexivity.
  - rewrite map_length. reflexivity.
  - rewrite app_length. cbn [length].
    rewrite (flat_map_length_const _ (1 + length (silac_channels (t_silac st)))) by (intros e _; simpl; rewrite map_length; reflexivity).
    rewrite (flat_map_length_const _ (1 + length (silac_channels (t_silac st)))) by (intros e _; simpl; rewrite map_length; reflexivity).
    lia.
  - destruct (t_silac st) as [|s] eqn:Es.
    + rewrite (flat_map_length_const _ 1) by (intros; reflexivity). lia.
    + rewrite (flat_map_length_const _ (length (silac_channels (S s)))) by (intros; rewrite map_length; reflexivity). reflexivity.
  - rewrite app_length, !map_length. reflexivity.
  - rewrite (flat_map_length_const _ (3 * t_tmt st)); [reflexivity|].
    intros e _. rewrite !app_length, !map_length, !seq_length. lia.
  - reflexivity.
Qed.

(* ---------- append_header refuses duplicates, so headers stay unique ---------- *)
Lemma append_headers_spec : forall new hs hs', append_headers hs new = Ok hs' ->
  hs' = hs ++ new /\ (NoDup hs -> NoDup hs').
Proof.
  induction new as [|h new IH]; intros hs hs' H; simpl in H.
  - inversion H; subst. rewrite app_nil_r. auto.
  - destruct (mem_str h hs) eqn:E; [discriminate|]. destruct (IH _ _ H) as [H1 H2]. split.
    + rewrite H1, <- app_assoc. reflexivity.
    + intros Hnd. apply H2. clear -Hnd E. induction hs as [|x hs IHh]; simpl.
      * constructor; [intros [] | constructor].
      * inversion Hnd as [|? ? Hni Hnd']; subst. unfold mem_str in E. simpl in E. apply orb_false_elim in E. destruct E as [E1 E2].
        constructor.
        -- rewrite in_app_iff. intros [Hi|[Hi|[]]]; [contradiction|]. subst. rewrite str_eqb_refl in E1. discriminate.
        -- apply IHh; assumption.
Qed.

(* ---------- the table invariant ---------- *)
Definition Inv (t : table) : Prop :=
  NoDup (headers t) /\ forall r, In r (extra t) -> length base_headers + length r = length (headers t).

Fixpoint distinctb (l : list str) : bool := match l with [] => true | x :: r => negb (mem_str x r) && distinctb r end.
Lemma distinctb_NoDup l : distinctb l = true -> NoDup l.
Proof.
  induction l as [|x l IH]; simpl; intros H; [constructor|]. apply andb_prop in H. destruct H as [H1 H2].
  constructor; [|apply IH; exact H2]. intros Hin. apply mem_str_In in Hin. rewrite Hin in H1. discriminate.
Qed.

Lemma inv_init n : Inv (init_table n).
Proof.
  split; [apply distinctb_NoDup; vm_compute; reflexivity|].
  intros r Hr. simpl in Hr. apply repeat_spec in Hr. subst. simpl. lia.
Qed.

Lemma in_combine_seq {A} (l : list A) k i x : In (i, x) (combine (seq k (length l)) l) -> In x l.
Proof. intros H. apply in_combine_r in H. exact H. Qed.

Lemma inv_gen_append st cells g t t' :
  (forall i, length (cells g i) = gen_ncols st g) ->
  Inv t -> gen_append st cells g t = Ok t' -> Inv t'.
Proof.
  intros Hc [Hnd Hrect] H. unfold gen_append in H. destruct (negb (gen_valid st g)); [inversion H; subst; split; assumption|].
  destruct (append_headers (headers t) (gen_headers st g)) as [hs|] eqn:E; [|discriminate]. inversion H; subst; clear H.
  destruct (append_headers_spec _ _ _ E) as [Hhs Hnd']. split; simpl.
  - apply Hnd'. exact Hnd.
  - intros r Hr. apply in_map_iff in Hr. destruct Hr as [[i x] [Hx Hin]]. simpl in Hx. subst r.
    apply in_combine_r in Hin. pose proof (Hrect x Hin) as Hx. rewrite Hhs, !app_length, Hc, gen_counts.
    change (length base_headers) with 9 in *. generalize dependent (gen_ncols st g). intros k _. lia.
Qed.

(* for every sequence of column generators: unique headers, and every row has as many cells as there are headers *)
Lemma rectangular_invariant st cells : (forall g i, length (cells g i) = gen_ncols st g) ->
  forall gs t t', Inv t -> gens_append st cells gs t = Ok t' -> Inv t'.
Proof.
  intros Hc. induction gs as [|g gs IH]; intros t t' HI H; simpl in H.
  - inversion H; subst. exact HI.
  - destruct (gen_append st cells g t) as [t1|] eqn:E; [|discriminate].
    apply (IH t1 t'); [eapply inv_gen_append; [apply Hc | exact HI | exact E] | exact H].
Qed.

(* the rows as written (9 base cells followed by the extra cells) all have the header's length *)
Lemma written_rectangular t base : Inv t -> (forall b, In b base -> length b = length base_headers) ->
  length base = length (extra t) ->
  forall row, In row (map (fun be => fst be ++ snd be) (combine base (extra t))) -> length row = length (headers t).
Proof.
  intros [_ Hrect] Hb Hl row Hr. apply in_map_iff in Hr. destruct Hr as [[b e] [Hx Hin]]. simpl in Hx. subst row.
  rewrite app_length, (Hb b (in_combine_l _ _ _ _ Hin)). apply Hrect. eapply in_combine_r. exact Hin.
Qed.

(* with a header dictionary every written row has one cell per dictionary entry *)
Lemma pick_length hs row : forall cols out, pick hs row cols = Ok out -> length out = length cols.
Proof.
  induction cols as [|c cols IH]; intros out H; simpl in H; [inversion H; reflexivity|].
  destruct (index_str c hs); [|discriminate]. destruct (pick hs row cols) as [l|]; [|discriminate].
  inversion H; subst. simpl. f_equal. apply IH. reflexivity.
Qed.

Lemma write_dict_rectangular hs d : forall rows out, write_dict hs rows d = Ok out ->
  forall r, In r out -> length r = length d.
Proof.
  intros rows out H. unfold write_dict in H. destruct (write_dict_rows hs rows (map snd d)) as [l|] eqn:E; [|discriminate].
  inversion H; subst out; clear H. intros r [<-|Hr]; [apply map_length|].
  assert (Hall : forall rows l, write_dict_rows hs rows (map snd d) = Ok l -> forall r, In r l -> length r = length d).
  { clear. induction rows as [|x rows IH]; intros l E r Hr; simpl in E.
    - inversion E; subst. destruct Hr.
    - destruct (pick hs x (map snd d)) as [a|] eqn:Ep; [|discriminate].
      destruct (write_dict_rows hs rows (map snd d)) as [b|] eqn:Eb; [|discriminate]. inversion E; subst.
      destruct Hr as [<-|Hr]; [rewrite (pick_length _ _ _ _ Ep), map_length; reflexivity | eapply IH; [reflexivity | exact Hr]]. }
  eapply Hall; eassumption.
Qed.

(* picking only known columns never raises *)
Lemma index_str_some h hs : In h hs -> index_str h hs <> None.
Proof.
  induction hs as [|x hs IH]; intros H; [destruct H|]. simpl. destruct (str_eqb x h) eqn:E; [discriminate|].
  destruct H as [->|H]; [rewrite str_eqb_refl in E; discriminate|]. destruct (index_str h hs); [discriminate | exfalso; apply (IH H); reflexivity].
Qed.

Lemma write_dict_total hs d : (forall v, In v (map snd d) -> In v hs) -> forall rows, exists out, write_dict hs rows d = Ok out.
Proof.
  intros Hv rows. unfold write_dict.
  assert (Hp : forall row cols, (forall v, In v cols -> In v hs) -> exists l, pick hs row cols = Ok l).
  { intros row. induction cols as [|c cols IH]; intros H; simpl; [eauto|].
    destruct (index_str c hs) eqn:E; [|exfalso; apply (index_str_some c hs); [apply H; left; reflexivity | exact E]].
    destruct IH as [l Hl]; [intros v Hin; apply H; right; exact Hin|]. rewrite Hl. eauto. }
  assert (Hr : exists l, write_dict_rows hs rows (map snd d) = Ok l).
  { induction rows as [|x rows IH]; simpl; [eauto|]. destruct (Hp x (map snd d) Hv) as [a Ha]. destruct IH as [b Hb]. rewrite Ha, Hb. eauto. }
  destruct Hr as [l Hl]. rewrite Hl. eauto.
Qed.

(* DIA-NN writer: every column its header dictionary refers to is produced by its generators, for any number of runs *)
Lemma diann_dict_refers_to_existing_columns exps cells n t :
  gens_append {| t_exps := exps; t_silac := 0; t_tmt := 0 |} cells diann_gens (init_table n) = Ok t ->
  forall v, In v (map snd (diann_dict exps)) -> In v (headers t).
Proof.
  unfold diann_gens. cbn [gens_append]. unfold gen_append. cbn [gen_valid negb t_exps t_tmt t_silac Nat.eqb andb].
  destruct (append_headers (headers (init_table n)) _) as [h1|] eqn:E1; [|discriminate]. cbn [headers].
  destruct (append_headers h1 _) as [h2|] eqn:E2; [|discriminate]. cbn [headers].
  destruct (append_headers_spec _ _ _ E1) as [H1 _]. destruct (append_headers_spec _ _ _ E2) as [H2 _].
  unfold diann_dict. destruct (Nat.ltb 1 (length exps)) eqn:El; cbn [negb andb].
  - destruct (append_headers h2 _) as [h3|] eqn:E3; [|discriminate]. destruct (append_headers_spec _ _ _ E3) as [H3 _].
    intros H. inversion H; subst t; clear H. cbn [headers]. intros v Hv. rewrite map_app in Hv. apply in_app_or in Hv.
    rewrite H3, H2, H1. destruct Hv as [Hv|Hv].
    + cbn in Hv. rewrite !in_app_iff. cbn. intuition.
    + rewrite map_map in Hv. apply in_map_iff in Hv. destruct Hv as [e [<- He]]. cbn [snd].
      rewrite !in_app_iff. right. cbn [gen_headers t_exps t_silac]. apply in_flat_map. exists e. split; [exact He | left; reflexivity].
  - intros H. inversion H; subst t; clear H. cbn [headers]. intros v Hv. rewrite app_nil_r in Hv.
    rewrite H2, H1. cbn in Hv. rewrite !in_app_iff. cbn. intuition.
Qed.

(* ---------- the FDR filter: header plus exactly the rows passing the cutoff, unchanged, in their original order ---------- *)
Lemma filter_exact qle h rows out :
  filter_fdr qle (h :: rows) = Ok out ->
  exists qc, index_str (s2l "Q-value") h = Some qc /\ out = h :: filter (fun r => qle (nth qc r [])) rows.
Proof.
  unfold filter_fdr. destruct (index_str (s2l "Q-value") h) as [qc|]; [|discriminate].
  intros H. inversion H. exists qc. auto.
Qed.
