From PGF Require Import Base.Prelude Base.PyStr Model.Digest Proofs.DigestProofs Proofs.DigestSweepFullA Proofs.DigestSweepFullK Proofs.DigestSweepFullP Proofs.DigestSweepFullD Proofs.DigestSweepFullM Proofs.DigestSweepSemiA Proofs.DigestSweepSemiK Proofs.DigestSweepSemiP Proofs.DigestSweepSemiD Proofs.DigestSweepSemiM.

(* full and semi-specific digestion agree with the declarative rule on EVERY sequence of length 1..5 over the five
   residue classes the algorithm can distinguish (other, pre, not_post, post, M), for the five enzyme shapes, five
   length windows, missed-cleavage budgets 0..2 and both methionine settings *)
Lemma bounded_digest_spec (d : digestion) : d <> DNone ->
  forall s e w mc met p,
    1 <= length s <= 5 -> Forall (fun c => In c alpha5) s ->
    In e shapes -> In w windows -> In mc budgets ->
    (In p (get_digested_peptides e d s (fst w) (snd w) mc met) <->
     In p (spec_digest e (k_of d) s (fst w) (snd w) mc met)).
Proof.
  intros Hd s e w mc met p Hl Hf He Hw Hmc. destruct s as [|c t]; [simpl in Hl; lia|].
  inversion Hf as [|? ? Hc Ht]; subst. simpl in Hl.
  apply same_set_In. apply sweep_spec; try assumption; [|apply tails4_In; [lia | assumption]].
  destruct d; [| |congruence].
  - destruct Hc as [<-|[<-|[<-|[<-|[<-|[]]]]]];
      [exact sweep_full_A | exact sweep_full_K | exact sweep_full_P | exact sweep_full_D | exact sweep_full_M].
  - destruct Hc as [<-|[<-|[<-|[<-|[<-|[]]]]]];
      [exact sweep_semi_A | exact sweep_semi_K | exact sweep_semi_P | exact sweep_semi_D | exact sweep_semi_M].
Qed.
