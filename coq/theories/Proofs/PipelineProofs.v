From PGF Require Import Base.Prelude Base.PyStr Base.StableSort Model.Fdr Model.Results Model.ProteinGroups
  Model.Grouping Model.Scoring Model.Competition Model.Rescue Model.Pipeline.

(* without the razor option the razor tables are never read *)
Lemma collect_loop_counts_irrelevant rz sh c1 c2 md5 s sup : forall l infos peps,
  rz = false ->
  collect_loop {| sc_razor := rz; sc_shared := sh; sc_counts := c1 |} md5 s sup l infos peps =
  collect_loop {| sc_razor := rz; sc_shared := sh; sc_counts := c2 |} md5 s sup l infos peps.
Proof.
  induction l as [|[e [sc ps]] r IH]; intros infos peps Hrz; [reflexivity|].
  cbn [collect_loop]. unfold filter_proteins. cbn [sc_razor sc_shared]. subst rz.
  destruct (get_protein_group_idxs s ps) as [idxs|]; [|reflexivity].
  destruct (is_missing idxs && negb sup); [reflexivity|].
  destruct (negb sh && Nat.ltb 1 (length idxs)); apply IH; reflexivity.
Qed.

Lemma collect_counts_irrelevant rz sh c1 c2 md5 s sup l :
  rz = false ->
  collect {| sc_razor := rz; sc_shared := sh; sc_counts := c1 |} md5 s sup l =
  collect {| sc_razor := rz; sc_shared := sh; sc_counts := c2 |} md5 s sup l.
Proof. intros H. unfold collect. apply collect_loop_counts_irrelevant. exact H. Qed.

(* the part of the long-lived state a pass can read *)
Definition relevant (me : method) (rescue : bool) (a b : pstate) : Prop :=
  (m_razor me = true -> ps_counts a = ps_counts b) /\
  (rescue = true -> ps_obsolete a = ps_obsolete b).

Lemma one_pass_reads_only_relevant me o a b s l rescue ka pc p1 p2 :
  relevant me rescue a b ->
  snd (one_pass me o a s l rescue ka pc p1 p2) = snd (one_pass me o b s l rescue ka pc p1 p2) /\
  ps_counts (fst (one_pass me o a s l rescue ka pc p1 p2)) = ps_counts a /\
  ps_counts (fst (one_pass me o b s l rescue ka pc p1 p2)) = ps_counts b.
Proof.
  intros [Hcounts Hobs]. unfold one_pass.
  assert (Hc : collect {| sc_razor := m_razor me; sc_shared := m_shared me; sc_counts := ps_counts a |} (o_md5 o) s rescue l =
               collect {| sc_razor := m_razor me; sc_shared := m_shared me; sc_counts := ps_counts b |} (o_md5 o) s rescue l).
  { destruct (m_razor me) eqn:Er; [rewrite Hcounts by reflexivity; reflexivity | apply collect_counts_irrelevant; reflexivity]. }
  rewrite Hc. clear Hc. destruct (collect _ (o_md5 o) s rescue l) as [[infos peps]|e]; [|simpl; auto].
  cbn [ps_seen ps_counts ps_pep_cutoff ps_rescue_cutoff ps_obsolete].
  destruct (is_mult (m_score me) && no_evidence infos); [simpl; auto|].
  assert (Hgi : (match rescue, m_picked me, ps_obsolete a with
                 | true, PickedGroup, Some (og, oi) => (groups s ++ og, infos ++ oi)
                 | _, _, _ => (groups s, infos) end) =
                (match rescue, m_picked me, ps_obsolete b with
                 | true, PickedGroup, Some (og, oi) => (groups s ++ og, infos ++ oi)
                 | _, _, _ => (groups s, infos) end)).
  { destruct rescue; [rewrite Hobs by reflexivity; reflexivity | reflexivity]. }
  rewrite Hgi. destruct (match rescue, m_picked me, ps_obsolete b with
                         | true, PickedGroup, Some (og, oi) => (groups s ++ og, infos ++ oi)
                         | _, _, _ => (groups s, infos) end) as [gs is].
  destruct (do_competition (m_picked me) [] (mk_entries gs is (map (o_score o) is)) p1 p2) as [ranked|e]; [|simpl; auto].
  destruct (calculate_protein_fdrs _) as [qs|e]; [|simpl; auto].
  destruct (from_protein_groups _ _ _ qs _ ka) as [rows|e]; simpl; auto.
Qed.

(* after a pass the seen set is empty, unless evidence collection raised before the competition started *)
Lemma one_pass_seen me o a s l rescue ka pc p1 p2 :
  ps_seen a = [] -> ps_seen (fst (one_pass me o a s l rescue ka pc p1 p2)) = [].
Proof.
  intros H. unfold one_pass.
  destruct (collect _ (o_md5 o) s rescue l) as [[infos peps]|e]; [|exact H].
  destruct (is_mult (m_score me) && no_evidence infos); [exact H|].
  destruct (match rescue, m_picked me, ps_obsolete a with
            | true, PickedGroup, Some (og, oi) => (groups s ++ og, infos ++ oi)
            | _, _, _ => (groups s, infos) end) as [gs is].
  destruct (do_competition _ _ _ p1 p2) as [ranked|e]; [|reflexivity].
  destruct (calculate_protein_fdrs _) as [qs|e]; [|reflexivity].
  destruct (from_protein_groups _ _ _ qs _ ka) as [rows|e]; reflexivity.
Qed.

(* ---- C07: the result of a call does not depend on what earlier calls left in the strategy objects ---- *)
(* (no hypothesis on the two states: the competition clears its seen set before it starts, so even the set an ABORTED call
   left behind is never read) *)
Lemma run_history_independent me o a b l ka thr pc pis :
  snd (run me o a l ka thr pc pis) = snd (run me o b l ka thr pc pis).
Proof.
  unfold run. destruct (group_proteins (m_grouping me) l) as [s0|e]; [|reflexivity].
  set (a0 := {| ps_seen := ps_seen a; ps_counts := if m_razor me then Some l else ps_counts a;
                ps_pep_cutoff := ps_pep_cutoff a; ps_rescue_cutoff := ps_rescue_cutoff a; ps_obsolete := ps_obsolete a |}).
  set (b0 := {| ps_seen := ps_seen b; ps_counts := if m_razor me then Some l else ps_counts b;
                ps_pep_cutoff := ps_pep_cutoff b; ps_rescue_cutoff := ps_rescue_cutoff b; ps_obsolete := ps_obsolete b |}).
  assert (Hrel0 : relevant me false a0 b0).
  { split; [intros Hr; simpl; rewrite Hr; reflexivity | discriminate]. }
  destruct (one_pass_reads_only_relevant me o a0 b0 s0 l false ka pc (nth 0 pis []) (nth 1 pis []) Hrel0) as [Hs [Hca Hcb]].
  destruct (one_pass me o a0 s0 l false ka pc (nth 0 pis []) (nth 1 pis [])) as [a1 ra] eqn:Ea.
  destruct (one_pass me o b0 s0 l false ka pc (nth 0 pis []) (nth 1 pis [])) as [b1 rb] eqn:Eb.
  simpl in Hs, Hca, Hcb. subst rb.
  destruct ra as [[infos1 rows1]|e]; [|reflexivity].
  destruct (negb (is_rescued (m_grouping me))); [reflexivity|].
  destruct (negb (can_rescue (m_score me))); [reflexivity|].
  destruct (rescue_score_cutoff _ _ thr) as [rc|e]; [|reflexivity].
  destruct (merge_with_rescued _ _ (groups s0)) as [[[s2 og] oidx]|e]; [|reflexivity].
  set (a2 := {| ps_seen := ps_seen a1; ps_counts := ps_counts a1; ps_pep_cutoff := ps_pep_cutoff a1;
                ps_rescue_cutoff := Some rc; ps_obsolete := Some (og, map (fun i => nth i infos1 []) oidx) |}).
  set (b2 := {| ps_seen := ps_seen b1; ps_counts := ps_counts b1; ps_pep_cutoff := ps_pep_cutoff b1;
                ps_rescue_cutoff := Some rc; ps_obsolete := Some (og, map (fun i => nth i infos1 []) oidx) |}).
  assert (Hrel2 : relevant me true a2 b2).
  { split; [|reflexivity]. intros Hr. simpl. rewrite Hca, Hcb. simpl. rewrite Hr. reflexivity. }
  destruct (one_pass_reads_only_relevant me o a2 b2 s2 l true ka pc (nth 2 pis []) (nth 3 pis []) Hrel2) as [Hs2 _].
  destruct (one_pass me o a2 s2 l true ka pc (nth 2 pis []) (nth 3 pis [])) as [a3 ra3].
  destruct (one_pass me o b2 s2 l true ka pc (nth 2 pis []) (nth 3 pis [])) as [b3 rb3].
  simpl in Hs2. subst rb3. destruct ra3 as [[? ?]|?]; reflexivity.
Qed.

(* every call leaves the seen set empty again *)
Lemma run_seen_reset me o a l ka thr pc pis : ps_seen a = [] -> ps_seen (fst (run me o a l ka thr pc pis)) = [].
Proof.
  intros H. unfold run. destruct (group_proteins (m_grouping me) l) as [s0|e]; [|exact H].
  match goal with |- context [one_pass me o ?st s0 l false ka pc ?p1 ?p2] =>
    pose proof (one_pass_seen me o st s0 l false ka pc p1 p2 H) as H1;
    destruct (one_pass me o st s0 l false ka pc p1 p2) as [a1 ra] end.
  simpl in H1. destruct ra as [[infos1 rows1]|e]; [|exact H1].
  destruct (negb (is_rescued (m_grouping me))); [exact H1|].
  destruct (negb (can_rescue (m_score me))); [exact H1|].
  destruct (rescue_score_cutoff _ _ thr) as [rc|e]; [|exact H1].
  destruct (merge_with_rescued _ _ (groups s0)) as [[[s2 og] oidx]|e]; [|exact H1].
  match goal with |- context [one_pass me o ?st s2 l true ka pc ?p1 ?p2] =>
    pose proof (one_pass_seen me o st s2 l true ka pc p1 p2 H1) as H2;
    destruct (one_pass me o st s2 l true ka pc p1 p2) as [a3 ra3] end.
  simpl in H2. destruct ra3 as [[? ?]|?]; exact H2.
Qed.

(* a call that got as far as the competition leaves the seen set empty WHATEVER it found there *)
Lemma one_pass_clears_seen me o a s l rescue ka pc p1 p2 infos rows :
  snd (one_pass me o a s l rescue ka pc p1 p2) = Ok (infos, rows) ->
  ps_seen (fst (one_pass me o a s l rescue ka pc p1 p2)) = [].
Proof.
  unfold one_pass.
  destruct (collect _ (o_md5 o) s rescue l) as [[infos' peps]|e]; [|discriminate].
  destruct (is_mult (m_score me) && no_evidence infos'); [discriminate|].
  destruct (match rescue, m_picked me, ps_obsolete a with
            | true, PickedGroup, Some (og, oi) => (groups s ++ og, infos' ++ oi)
            | _, _, _ => (groups s, infos') end) as [gs is].
  destruct (do_competition _ _ _ p1 p2) as [ranked|e]; [|discriminate].
  destruct (calculate_protein_fdrs _) as [qs|e]; [|discriminate].
  destruct (from_protein_groups _ _ _ qs _ ka) as [rows'|e]; [reflexivity | discriminate].
Qed.

(* a call after ANY sequence of earlier calls on the same configuration object gives what a fresh one gives *)
Record call := { c_l : pil; c_ka : bool; c_thr : Q; c_pc : Q; c_pis : list (list nat); c_o : oracles }.
Definition after_history (me : method) (h : list call) : pstate :=
  fold_left (fun st c => fst (run me (c_o c) st (c_l c) (c_ka c) (c_thr c) (c_pc c) (c_pis c))) h fresh.

Lemma after_history_seen me h : ps_seen (after_history me h) = [].
Proof.
  unfold after_history. assert (H : ps_seen fresh = []) by reflexivity. revert H. generalize fresh.
  induction h as [|c h IH]; intros st H; simpl; [exact H|]. apply IH. apply run_seen_reset. exact H.
Qed.

Theorem call_after_any_history me h o l ka thr pc pis :
  snd (run me o (after_history me h) l ka thr pc pis) = snd (run me o fresh l ka thr pc pis).
Proof. apply run_history_independent. Qed.

(* histories in which calls may be ABORTED at any point: an aborted call leaves the configuration object in some state the model
   does not try to predict (any seen set, any razor table, any cutoffs, any placeholder list) - [Abort st] stands for all of them *)
Inductive hstep := Completed (c : call) | Aborted (left_behind : pstate).
Definition after_steps (me : method) (h : list hstep) : pstate :=
  fold_left (fun st x => match x with
                         | Completed c => fst (run me (c_o c) st (c_l c) (c_ka c) (c_thr c) (c_pc c) (c_pis c))
                         | Aborted st' => st'
                         end) h fresh.

Theorem call_after_any_steps me h o l ka thr pc pis :
  snd (run me o (after_steps me h) l ka thr pc pis) = snd (run me o fresh l ka thr pc pis).
Proof. apply run_history_independent. Qed.

(* ---- C18: unsupported combinations are refused with the tool's own error ---- *)
Lemma rescue_needs_pep_score me o st l ka thr pc pis rows1 infos1 st1 s0 :
  group_proteins (m_grouping me) l = Ok s0 ->
  is_rescued (m_grouping me) = true -> can_rescue (m_score me) = false ->
  one_pass me o {| ps_seen := ps_seen st; ps_counts := if m_razor me then Some l else ps_counts st;
                   ps_pep_cutoff := ps_pep_cutoff st; ps_rescue_cutoff := ps_rescue_cutoff st;
                   ps_obsolete := ps_obsolete st |} s0 l false ka pc (nth 0 pis []) (nth 1 pis []) = (st1, Ok (infos1, rows1)) ->
  snd (run me o st l ka thr pc pis) = Raise NotImplemented.
Proof.
  intros Hg Hr Hc H1. unfold run. rewrite Hg, H1, Hr, Hc. reflexivity.
Qed.

(* every successful call reports rows built by from_protein_groups from a ranking produced by do_competition
   with q-values from calculate_protein_fdrs: the C01/C02/C06 theorems apply to them *)
Definition rows_of_ranking (me : method) (ka : bool) (rows : list row) : Prop :=
  exists seen es p1 p2 ranked qs cut,
    do_competition (m_picked me) seen es p1 p2 = Ok ranked /\
    calculate_protein_fdrs (map (fun e => (e_group e, e_score e)) ranked) = Ok qs /\
    from_protein_groups (map e_group ranked) (map e_infos ranked) (map e_score ranked) qs cut ka = Ok rows.

Lemma one_pass_rows me o st s l rescue ka pc p1 p2 st' infos rows :
  one_pass me o st s l rescue ka pc p1 p2 = (st', Ok (infos, rows)) -> rows_of_ranking me ka rows.
Proof.
  unfold one_pass. destruct (collect _ (o_md5 o) s rescue l) as [[infos0 peps]|e]; [|discriminate].
  destruct (is_mult (m_score me) && no_evidence infos0); [discriminate|].
  destruct (match rescue, m_picked me, ps_obsolete st with
            | true, PickedGroup, Some (og, oi) => (groups s ++ og, infos0 ++ oi)
            | _, _, _ => (groups s, infos0) end) as [gs is].
  destruct (do_competition _ _ _ p1 p2) as [ranked|e] eqn:Ed; [|discriminate].
  destruct (calculate_protein_fdrs _) as [qs|e] eqn:Eq; [|discriminate].
  destruct (from_protein_groups _ _ _ qs _ ka) as [rows0|e] eqn:Er; [|discriminate].
  intros H. inversion H; subst. repeat eexists; eassumption.
Qed.

Theorem run_rows me o st l ka thr pc pis rows :
  snd (run me o st l ka thr pc pis) = Ok rows -> rows_of_ranking me ka rows.
Proof.
  unfold run. destruct (group_proteins (m_grouping me) l) as [s0|e]; [|discriminate].
  match goal with |- context [one_pass me o ?st0 s0 l false ka pc ?p1 ?p2] =>
    destruct (one_pass me o st0 s0 l false ka pc p1 p2) as [a1 ra] eqn:E1 end.
  destruct ra as [[infos1 rows1]|e]; [|discriminate].
  destruct (negb (is_rescued (m_grouping me))).
  - simpl. intros H. inversion H; subst. eapply one_pass_rows. exact E1.
  - destruct (negb (can_rescue (m_score me))); [discriminate|].
    destruct (rescue_score_cutoff _ _ thr) as [rc|e]; [|discriminate].
    destruct (merge_with_rescued _ _ (groups s0)) as [[[s2 og] oidx]|e]; [|discriminate].
    match goal with |- context [one_pass me o ?st2 s2 l true ka pc ?p1 ?p2] =>
      destruct (one_pass me o st2 s2 l true ka pc p1 p2) as [a3 ra3] eqn:E3 end.
    destruct ra3 as [[infos3 rows3]|e]; [|discriminate].
    simpl. intros H. inversion H; subst. eapply one_pass_rows. exact E3.
Qed.
