(* C05: the razor protein is a maximum of the key (observed peptide count, -best PEP, md5, name). *)
From PGF Require Import Base.Prelude Base.PyStr Model.Fdr Model.Results Model.ProteinGroups Model.Scoring Proofs.ScoringProofs.
From Coq Require Import Lia QArith Lqa.

(* comparison functions that are strict weak orders with [Eq] as their equivalence *)
Definition GoodCmp {A} (c : A -> A -> comparison) : Prop :=
  (forall x, c x x = Eq) /\
  forall x y z,
    (c x y = Gt -> c y z = Gt -> c x z = Gt) /\ (c x y = Gt -> c y z = Eq -> c x z = Gt) /\
    (c x y = Eq -> c y z = Gt -> c x z = Gt) /\ (c x y = Eq -> c y z = Eq -> c x z = Eq).

Definition lex {A} (c1 c2 : A -> A -> comparison) (x y : A) : comparison :=
  match c1 x y with Eq => c2 x y | r => r end.

Lemma lex_good {A} (c1 c2 : A -> A -> comparison) : GoodCmp c1 -> GoodCmp c2 -> GoodCmp (lex c1 c2).
Proof.
  intros [R1 T1] [R2 T2]. split; [intros x; unfold lex; rewrite R1; apply R2|].
  intros x y z. unfold lex. destruct (T1 x y z) as [A1 [A2 [A3 A4]]]. destruct (T2 x y z) as [B1 [B2 [B3 B4]]].
  destruct (c1 x y) eqn:E1, (c1 y z) eqn:E2;
    try rewrite (A1 eq_refl eq_refl); try rewrite (A2 eq_refl eq_refl); try rewrite (A3 eq_refl eq_refl);
    try rewrite (A4 eq_refl eq_refl);
    repeat split; intros; try discriminate; try reflexivity; auto.
Qed.

Lemma on_good {A B} (f : A -> B) (c : B -> B -> comparison) : GoodCmp c -> GoodCmp (fun x y => c (f x) (f y)).
Proof. intros [R T]. split; [intros x; apply R | intros x y z; apply T]. Qed.

Lemma nat_compare_good : GoodCmp Nat.compare.
Proof.
  split; [intros x; apply Nat.compare_refl|]. intros x y z.
  repeat split; intros H1 H2;
    repeat match goal with
    | H : Nat.compare _ _ = Gt |- _ => apply Nat.compare_gt_iff in H
    | H : Nat.compare _ _ = Eq |- _ => apply Nat.compare_eq_iff in H
    end; try (apply Nat.compare_gt_iff; lia); try (apply Nat.compare_eq_iff; lia).
Qed.

(* smaller best PEP ranks higher: compare with the arguments swapped *)
Definition qcmp_rev (a b : Q) : comparison := Qcompare b a.
Lemma qcmp_rev_good : GoodCmp qcmp_rev.
Proof.
  unfold qcmp_rev. split; [intros x; apply Qeq_alt; reflexivity|]. intros x y z.
  repeat split; intros H1 H2;
    repeat match goal with
    | H : Qcompare _ _ = Gt |- _ => apply Qgt_alt in H
    | H : Qcompare _ _ = Eq |- _ => apply Qeq_alt in H
    end; try (apply Qgt_alt; lra); try (apply Qeq_alt; lra).
Qed.

Lemma str_compare_gt_lt a b : str_compare a b = Gt <-> str_compare b a = Lt.
Proof. rewrite (str_compare_antisym b a). destruct (str_compare b a); simpl; split; congruence. Qed.

Lemma str_compare_good : GoodCmp str_compare.
Proof.
  split; [apply str_compare_refl|]. intros x y z. repeat split; intros H1 H2.
  - apply str_compare_gt_lt in H1, H2. apply str_compare_gt_lt. eapply str_compare_trans_lt; eassumption.
  - apply str_compare_eq in H2. subst. exact H1.
  - apply str_compare_eq in H1. subst. exact H2.
  - apply str_compare_eq in H1, H2. subst. apply str_compare_refl.
Qed.

(* the razor key comparison *)
Definition rcmp (l : pil) (md5 : str -> str) : str -> str -> comparison :=
  lex (fun a b => Nat.compare (pcount l a) (pcount l b))
   (lex (fun a b => qcmp_rev (pbest_min l a) (pbest_min l b))
    (lex (fun a b => str_compare (md5 a) (md5 b)) str_compare)).

Lemma rcmp_good l md5 : GoodCmp (rcmp l md5).
Proof.
  unfold rcmp. apply lex_good; [apply (on_good (pcount l)), nat_compare_good|].
  apply lex_good; [apply (on_good (pbest_min l)), qcmp_rev_good|].
  apply lex_good; [apply (on_good md5), str_compare_good | apply str_compare_good].
Qed.

Lemma razor_gtb_rcmp l md5 a b : razor_gtb l md5 a b = match rcmp l md5 a b with Gt => true | _ => false end.
Proof.
  unfold razor_gtb, rcmp, lex, qcmp_rev.
  destruct (Nat.compare (pcount l a) (pcount l b)); try reflexivity.
  rewrite <- (Qcompare_antisym (pbest_min l a) (pbest_min l b)).
  destruct (Qcompare (pbest_min l a) (pbest_min l b)); simpl; try reflexivity.
  destruct (str_compare (md5 a) (md5 b)); try reflexivity.
Qed.

Lemma razor_gtb_trans l md5 a b c : razor_gtb l md5 a b = true -> razor_gtb l md5 b c = true -> razor_gtb l md5 a c = true.
Proof.
  rewrite !razor_gtb_rcmp. destruct (rcmp_good l md5) as [_ T]. destruct (T a b c) as [T1 _].
  destruct (rcmp l md5 a b); try discriminate. destruct (rcmp l md5 b c); try discriminate.
  intros _ _. rewrite T1 by reflexivity. reflexivity.
Qed.

Lemma razor_gtb_irrefl l md5 a : razor_gtb l md5 a a = false.
Proof. rewrite razor_gtb_rcmp. destruct (rcmp_good l md5) as [R _]. rewrite R. reflexivity. Qed.

Lemma fold_max_maximal l md5 : forall r b seen,
  (forall q, In q seen -> razor_gtb l md5 q b = false) ->
  forall q, In q (seen ++ b :: r) ->
    razor_gtb l md5 q (fold_left (fun best x => if razor_gtb l md5 x best then x else best) r b) = false.
Proof.
  induction r as [|x r IH]; intros b seen Hs q Hq.
  - simpl. apply in_app_or in Hq. destruct Hq as [Hq|[<-|[]]]; [apply Hs; exact Hq | apply razor_gtb_irrefl].
  - cbn [fold_left]. destruct (razor_gtb l md5 x b) eqn:E.
    + apply (IH x (seen ++ [b])).
      * intros q' Hq'. apply in_app_or in Hq'. destruct Hq' as [Hq'|[<-|[]]].
        -- destruct (razor_gtb l md5 q' x) eqn:E2; [|reflexivity].
           rewrite <- (Hs q' Hq'). symmetry. eapply razor_gtb_trans; eassumption.
        -- destruct (razor_gtb l md5 b x) eqn:E2; [|reflexivity].
           rewrite <- (razor_gtb_irrefl l md5 b). symmetry. eapply razor_gtb_trans; eassumption.
      * rewrite <- app_assoc. simpl. apply in_app_or in Hq. apply in_or_app.
        destruct Hq as [Hq|[<-|[<-|Hq]]]; [left; exact Hq | right; left; reflexivity | right; right; left; reflexivity | right; right; right; exact Hq].
    + apply (IH b (seen ++ [x])).
      * intros q' Hq'. apply in_app_or in Hq'. destruct Hq' as [Hq'|[<-|[]]]; [apply Hs; exact Hq' | exact E].
      * rewrite <- app_assoc. simpl. apply in_app_or in Hq. apply in_or_app.
        destruct Hq as [Hq|[<-|[<-|Hq]]]; [left; exact Hq | right; right; left; reflexivity | right; left; reflexivity | right; right; right; exact Hq].
Qed.

(* the razor protein: one of the peptide's proteins, and none of them has a strictly larger key;
   in particular none has more observed peptides, and among those with as many none has a lower best PEP *)
Lemma razor_is_maximal l md5 ps out :
  retain_most_observed l md5 ps = Ok out ->
  exists p, out = [p] /\ In p ps /\
    (forall q, In q ps -> razor_gtb l md5 q p = false) /\
    (forall q, In q ps -> (pcount l q <= pcount l p)%nat) /\
    (forall q, In q ps -> pcount l q = pcount l p -> (pbest_min l p <= pbest_min l q)%Q).
Proof.
  intros H. destruct (razor_single_protein l md5 ps out H) as [p [Ho Hin]]. exists p. split; [exact Ho|]. split; [exact Hin|].
  assert (Hmax : forall q, In q ps -> razor_gtb l md5 q p = false).
  { unfold retain_most_observed in H. destruct ps as [|p0 r]; [discriminate|]. inversion H as [Hp]. rewrite Ho in Hp. inversion Hp; subst p.
    intros q Hq. apply (fold_max_maximal l md5 r p0 []); [intros ? []|exact Hq]. }
  split; [exact Hmax|]. split; intros q Hq.
  - specialize (Hmax q Hq). unfold razor_gtb in Hmax. destruct (Nat.compare_spec (pcount l q) (pcount l p)); try lia; try discriminate.
  - intros Ec. specialize (Hmax q Hq). unfold razor_gtb in Hmax. rewrite Ec, Nat.compare_refl in Hmax.
    destruct (Qcompare (pbest_min l q) (pbest_min l p)) eqn:Eq'.
    + apply Qeq_alt in Eq'. lra.
    + discriminate.
    + apply Qgt_alt in Eq'. lra.
Qed.
