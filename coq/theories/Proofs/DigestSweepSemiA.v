From PGF Require Import Base.Prelude Model.Digest Proofs.DigestProofs.
(* all sequences of length 1-5 over five residue classes starting with A x 5 enzyme shapes x 5 windows x 3 budgets x 2 *)
Lemma sweep_semi_A : sweep DSemi rA = true.
Proof. vm_compute. reflexivity. Qed.
