(* Refinement: the concrete generate_protein_groups (slots indexed by a stale position map) implements
   the abstract loc/alive machine of GroupingAbstract.v; hence partition / containment / maximality. *)
From PGF Require Import Base.Prelude Base.PyStr Base.StableSort Model.ProteinGroups Model.Grouping
  Proofs.ProteinGroupsProofs Proofs.GroupingAbstract.
From Coq Require Import Permutation.

(* ---------- generic list facts ---------- *)
Lemma dedup_In : forall l seen x, In x (dedup seen l) <-> In x l /\ ~ In x seen.
Proof.
  induction l as [|y l IH]; intros seen x; simpl; [tauto|].
  destruct (mem_str y seen) eqn:E.
  - apply mem_str_In in E. rewrite IH. split.
    + intros [H1 H2]. split; [right; exact H1 | exact H2].
    + intros [[->|H1] H2]; [contradiction | split; assumption].
  - assert (Hn : ~ In y seen) by (intros H; apply mem_str_In in H; congruence).
    simpl. rewrite IH. simpl. split.
    + intros [<-|[H1 H2]]; [split; [left; reflexivity | exact Hn] | split; [right; exact H1 | tauto]].
    + intros [[->|H1] H2]; [left; reflexivity|].
      destruct (list_eq_dec N.eq_dec y x) as [->|Hne]; [left; reflexivity|].
      right. split; [exact H1|]. intros [Heq|Hs]; [congruence | contradiction].
Qed.

Lemma dedup_NoDup : forall l seen, NoDup (dedup seen l).
Proof.
  induction l as [|y l IH]; intros seen; simpl; [constructor|].
  destruct (mem_str y seen); [apply IH|]. constructor; [|apply IH].
  rewrite dedup_In. intros [_ H]. apply H. left. reflexivity.
Qed.

Lemma count_str_pos p l : count_str p l > 0 <-> In p l.
Proof.
  induction l as [|x l IH]; simpl; [lia|].
  destruct (str_eqb x p) eqn:E.
  - apply str_eqb_eq in E. subst. split; [intros _; left; reflexivity | lia].
  - apply str_eqb_neq in E. rewrite IH. split; [intros H; right; exact H | intros [H|H]; [contradiction | exact H]].
Qed.

Lemma set_nth_length {A} (l : list A) i v : length (set_nth l i v) = length l.
Proof. revert i. induction l as [|x l IH]; intros [|i]; simpl; auto. Qed.

Lemma nth_set_nth {A} (l : list A) i k v d :
  nth k (set_nth l i v) d = if Nat.eqb k i then (if Nat.ltb i (length l) then v else d) else nth k l d.
Proof.
  revert i k. induction l as [|x l IH]; intros i k; simpl.
  - destruct i, k; simpl; try reflexivity. destruct (Nat.eqb k i); reflexivity.
  - destruct i as [|i], k as [|k]; simpl; try reflexivity.
    rewrite IH. destruct (Nat.eqb k i); [|reflexivity].
    destruct (Nat.ltb_spec i (length l)); destruct (Nat.ltb_spec (S i) (S (length l))); try reflexivity; lia.
Qed.

Lemma nodup_app {A} (a b : list A) :
  NoDup a -> NoDup b -> (forall x, In x a -> In x b -> False) -> NoDup (a ++ b).
Proof.
  induction a as [|x a IH]; intros Ha Hb Hd; simpl; [exact Hb|].
  inversion Ha as [|? ? Hni Ha']; subst. constructor.
  - intros Hin. apply in_app_or in Hin. destruct Hin as [Hin|Hin]; [contradiction|].
    apply (Hd x); [left; reflexivity | exact Hin].
  - apply IH; [exact Ha' | exact Hb|]. intros y Hy1 Hy2. apply (Hd y); [right; exact Hy1 | exact Hy2].
Qed.

Section Ref.
Variable m : pmap.
Hypothesis m_keys : NoDup (map fst m).
Let prots := prot_order m.
Let pep := peptides_of m.

(* ---------- the peptide / protein incidence ---------- *)
Lemma proteins_of_entry : forall e ps, In (e, ps) m -> proteins_of m e = ps.
Proof.
  clear prots pep. induction m as [|[e' ps'] r IH]; intros e ps Hin; [destruct Hin|].
  simpl. inversion m_keys as [|? ? Hni Hnd]; subst. destruct Hin as [Heq|Hin].
  - inversion Heq; subst. rewrite str_eqb_refl. reflexivity.
  - destruct (str_eqb e' e) eqn:E.
    + apply str_eqb_eq in E. subst. exfalso. apply Hni. apply in_map_iff. exists (e, ps). split; [reflexivity | exact Hin].
    + apply IH; assumption.
Qed.

Lemma proteins_of_In e p : In p (proteins_of m e) -> In (e, proteins_of m e) m.
Proof.
  clear m_keys prots pep. induction m as [|[e' ps'] r IH]; simpl; [intros []|].
  destruct (str_eqb e' e) eqn:E.
  - apply str_eqb_eq in E. subst. intros _. left. reflexivity.
  - intros H. right. apply IH. exact H.
Qed.

Lemma peptides_of_In e p : In e (pep p) <-> exists ps, In (e, ps) m /\ In p ps.
Proof.
  unfold pep, peptides_of. rewrite in_flat_map. split.
  - intros [[e' ps] [Hin Hr]]. simpl in Hr. apply repeat_spec in Hr as He. subst e'.
    exists ps. split; [exact Hin|]. apply count_str_pos.
    destruct (count_str p ps); [simpl in Hr; destruct Hr | lia].
  - intros [ps [Hin Hp]]. exists (e, ps). split; [exact Hin|]. simpl.
    apply count_str_pos in Hp. destruct (count_str p ps); [lia | left; reflexivity].
Qed.

Lemma pep_iff_prot e p : In e (pep p) <-> In p (proteins_of m e).
Proof.
  rewrite peptides_of_In. split.
  - intros [ps [Hin Hp]]. rewrite (proteins_of_entry _ _ Hin). exact Hp.
  - intros H. exists (proteins_of m e). split; [eapply proteins_of_In; exact H | exact H].
Qed.

Lemma prots_NoDup : NoDup prots.
Proof. apply dedup_NoDup. Qed.

Lemma prots_In p : In p prots <-> exists e, In e (pep p).
Proof.
  unfold prots, prot_order. rewrite dedup_In, in_concat. split.
  - intros [[ps [Hps Hp]] _]. apply in_map_iff in Hps. destruct Hps as [[e ps'] [Heq Hin]]. simpl in Heq. subst.
    exists e. apply peptides_of_In. exists ps. split; assumption.
  - intros [e He]. apply peptides_of_In in He. destruct He as [ps [Hin Hp]].
    split; [|intros []]. exists ps. split; [|exact Hp]. apply in_map_iff. exists (e, ps). split; [reflexivity | exact Hin].
Qed.

Lemma prot_of_In_prots e p : In p (proteins_of m e) -> In p prots.
Proof. intros H. apply prots_In. exists e. apply pep_iff_prot. exact H. Qed.

(* ---------- the preorder and the candidate lists ---------- *)
Definition sub (p q : str) : bool := forallb (fun e => mem_str e (pep q)) (pep p).
Definition inU (p : str) : bool := mem_str p prots.
Definition sup' (p q : str) : bool := if inU p then inU q && sub p q else str_eqb p q.
Definition cands0 (p : str) : list str := isort (npep_geb m) (superset_proteins m (pep p)).
Definition cands' (p : str) : list str := if inU p then cands0 p else [p].

Lemma sub_spec p q : sub p q = true <-> forall e, In e (pep p) -> In e (pep q).
Proof.
  unfold sub. rewrite forallb_forall. split; intros H e He; [apply mem_str_In, H, He | apply mem_str_In, H, He].
Qed.

Lemma sub_refl p : sub p p = true.
Proof. apply sub_spec. auto. Qed.
Lemma sub_trans p q r : sub p q = true -> sub q r = true -> sub p r = true.
Proof. rewrite !sub_spec. auto. Qed.

Lemma sup'_refl p : sup' p p = true.
Proof. unfold sup'. destruct (inU p) eqn:E; [rewrite sub_refl; reflexivity | apply str_eqb_refl]. Qed.

Lemma sup'_trans p q r : sup' p q = true -> sup' q r = true -> sup' p r = true.
Proof.
  unfold sup'. destruct (inU p) eqn:Ep.
  - intros H1. apply andb_prop in H1. destruct H1 as [Hq H1]. rewrite Hq.
    intros H2. apply andb_prop in H2. destruct H2 as [Hr H2]. rewrite Hr. simpl.
    eapply sub_trans; eassumption.
  - intros H1. apply str_eqb_eq in H1. subst q. rewrite Ep. auto.
Qed.

Lemma narrow_spec p : forall peps c,
  In p c -> (forall e, In e peps -> In p (proteins_of m e)) ->
  forall q, In q (narrow m c peps) <-> In q c /\ forall e, In e peps -> In q (proteins_of m e).
Proof.
  induction peps as [|e r IH]; intros c Hpc Hall q; simpl.
  - split; [intros H; split; [exact H | intros e []] | intros [H _]; exact H].
  - set (c' := filter (fun x => mem_str x (proteins_of m e)) c).
    assert (Hpc' : In p c').
    { apply filter_In. split; [exact Hpc|]. apply mem_str_In. apply Hall. left. reflexivity. }
    assert (Hc' : forall x, In x c' <-> In x c /\ In x (proteins_of m e)).
    { intros x. unfold c'. rewrite filter_In, mem_str_In. reflexivity. }
    destruct (Nat.eqb (length c') 1) eqn:El.
    + apply Nat.eqb_eq in El. destruct c' as [|y [|z c'']] eqn:Ec; simpl in El; try lia.
      assert (y = p) by (destruct Hpc' as [H|[]]; exact H). subst y. split.
      * intros [<-|[]]. split; [exact Hpc | exact Hall].
      * intros [Hq Hqa]. assert (Hin : In q [p]) by (apply Hc'; split; [exact Hq | apply Hqa; left; reflexivity]).
        exact Hin.
    + rewrite IH; [|exact Hpc' | intros e' He'; apply Hall; right; exact He'].
      rewrite Hc'. split.
      * intros [[H1 H2] H3]. split; [exact H1|]. intros e' [<-|He']; [exact H2 | apply H3; exact He'].
      * intros [H1 H2]. split; [split; [exact H1 | apply H2; left; reflexivity] | intros e' He'; apply H2; right; exact He'].
Qed.

Lemma cands0_spec p q : inU p = true -> (In q (cands0 p) <-> inU q = true /\ sub p q = true).
Proof.
  intros Hp. unfold cands0. rewrite (isort_In (npep_geb m)).
  unfold inU in Hp. apply mem_str_In in Hp. apply prots_In in Hp. destruct Hp as [e0' He0'].
  unfold superset_proteins. destruct (pep p) as [|e0 r] eqn:Epep; [destruct He0'|].
  assert (Hall : forall e, In e (e0 :: r) -> In p (proteins_of m e)).
  { intros e He. apply pep_iff_prot. rewrite Epep. exact He. }
  rewrite (narrow_spec p r (proteins_of m e0)); [|apply Hall; left; reflexivity | intros e He; apply Hall; right; exact He].
  rewrite sub_spec, Epep. unfold inU. rewrite mem_str_In. split.
  - intros [H0 Hr]. split; [eapply prot_of_In_prots; exact H0|].
    intros e [<-|He]; apply pep_iff_prot; [exact H0 | apply Hr; exact He].
  - intros [_ H]. split; [apply pep_iff_prot, H; left; reflexivity|].
    intros e He. apply pep_iff_prot, H. right. exact He.
Qed.

Lemma cands'_spec p q : In q (cands' p) <-> sup' p q = true.
Proof.
  unfold cands', sup'. destruct (inU p) eqn:Ep.
  - rewrite (cands0_spec p q Ep), andb_true_iff. reflexivity.
  - simpl. rewrite str_eqb_eq. split; [intros [H|[]]; exact H | intros H; left; exact H].
Qed.

(* ---------- the concrete slot store ---------- *)
Definition s0 : pgs := create_index (of_list (map (fun p => [p]) prots)).
Definition Conc (s : pgs) : Prop := index s = index s0 /\ length (groups s) = length prots.

Lemma index0_lookup i p : nth_error prots i = Some p -> lookup (index s0) p = Some i.
Proof.
  intros Hi. pose proof (create_index_inv (of_list (map (fun p => [p]) prots)) eq_refl) as [Hs Hc].
  fold s0 in Hs, Hc. simpl in Hs, Hc.
  destruct (lookup (index s0) p) as [k|] eqn:El.
  - destruct (Hs p k El) as [g [Hn Hin]].
    rewrite nth_error_map in Hn. destruct (nth_error prots k) as [x|] eqn:Ek; [|discriminate].
    simpl in Hn. inversion Hn; subst g. destruct Hin as [->|[]].
    f_equal. apply (proj1 (NoDup_nth_error prots) prots_NoDup); [apply nth_error_Some; congruence | congruence].
  - exfalso. apply (Hc p [p]); [|left; reflexivity | exact El].
    apply in_map_iff. exists p. split; [reflexivity | eapply nth_error_In; exact Hi].
Qed.

Lemma slot_at s i p : Conc s -> nth_error prots i = Some p -> slot s p = nth i (groups s) [].
Proof. intros [Hix _] Hi. unfold slot. rewrite Hix, (index0_lookup i p Hi). reflexivity. Qed.

Lemma groups_as_slots s : Conc s -> groups s = map (slot s) prots.
Proof.
  intros HC. apply nth_ext with (d := []) (d' := slot s []).
  - rewrite map_length. apply HC.
  - intros i Hi. destruct HC as [Hix Hlen]. rewrite Hlen in Hi.
    destruct (nth_error prots i) as [p|] eqn:Ep; [|apply nth_error_None in Ep; lia].
    rewrite (map_nth (slot s)). rewrite (nth_error_nth _ _ _ Ep).
    symmetry. apply slot_at; [split; assumption | exact Ep].
Qed.

Lemma merge_slots s q p :
  Conc s -> In q prots -> In p prots -> q <> p ->
  exists s', merge_groups s q p = Ok s' /\ Conc s' /\
    forall x, In x prots ->
      slot s' x = if str_eqb x q then slot s q ++ slot s p else if str_eqb x p then [] else slot s x.
Proof.
  intros HC Hq Hp Hne. destruct (In_nth_error _ _ Hq) as [i Hi]. destruct (In_nth_error _ _ Hp) as [j Hj].
  assert (Hij : i <> j) by (intros ->; congruence).
  assert (Hil : i < length (groups s)) by (destruct HC as [_ ->]; apply nth_error_Some; congruence).
  assert (Hjl : j < length (groups s)) by (destruct HC as [_ ->]; apply nth_error_Some; congruence).
  unfold merge_groups. destruct HC as [Hix Hlen].
  assert (Lq : lookup (index s) q = Some i) by (rewrite Hix; apply index0_lookup; exact Hi).
  assert (Lp : lookup (index s) p = Some j) by (rewrite Hix; apply index0_lookup; exact Hj).
  rewrite Lq, Lp.
  rewrite (nth_error_nth' (groups s) [] Hil), (nth_error_nth' (groups s) [] Hjl).
  eexists. split; [reflexivity|]. split.
  - split; [exact Hix|]. simpl. rewrite !set_nth_length. exact Hlen.
  - intros x Hx. destruct (In_nth_error _ _ Hx) as [k Hk].
    assert (HC' : Conc {| groups := set_nth (set_nth (groups s) i (nth i (groups s) [] ++ nth j (groups s) [])) j [];
                          index := index s; valid := false |}).
    { split; [exact Hix|]. simpl. rewrite !set_nth_length. exact Hlen. }
    rewrite (slot_at _ k x HC' Hk). simpl. rewrite !nth_set_nth, !set_nth_length.
    rewrite (slot_at s i q (conj Hix Hlen) Hi), (slot_at s j p (conj Hix Hlen) Hj).
    destruct (Nat.ltb_spec j (length (groups s))); [|lia]. destruct (Nat.ltb_spec i (length (groups s))); [|lia].
    destruct (Nat.eqb_spec k j) as [->|Hkj].
    + assert (x = p) by congruence. subst x. rewrite str_eqb_refl.
      destruct (str_eqb p q) eqn:E; [apply str_eqb_eq in E; congruence | reflexivity].
    + destruct (Nat.eqb_spec k i) as [->|Hki].
      * assert (x = q) by congruence. subst x. rewrite str_eqb_refl. reflexivity.
      * assert (Hxq : str_eqb x q = false).
        { apply str_eqb_neq. intros ->. apply Hki.
          apply (proj1 (NoDup_nth_error prots) prots_NoDup); [apply nth_error_Some; congruence | congruence]. }
        assert (Hxp : str_eqb x p = false).
        { apply str_eqb_neq. intros ->. apply Hkj.
          apply (proj1 (NoDup_nth_error prots) prots_NoDup); [apply nth_error_Some; congruence | congruence]. }
        rewrite Hxq, Hxp. symmetry. apply slot_at; [split; assumption | exact Hk].
Qed.

(* ---------- the refinement relation ---------- *)
Notation ast := (@GroupingAbstract.st str).
Definition astep : ast -> str -> ast := GroupingAbstract.step str_eqb cands'.

Record Ref (s : pgs) (a : ast) : Prop := {
  rC : Conc s;
  r1 : forall x, In x prots -> In (loc a x) prots /\ In x (slot s (loc a x));
  r3 : forall o y, In o prots -> In y (slot s o) -> loc a y = o /\ In y prots;
  r2 : forall o, In o prots -> alive a o = nonempty (slot s o);
  r4 : forall o, In o prots -> alive a o = true -> exists tl, slot s o = o :: tl;
  r5 : forall o, In o prots -> NoDup (slot s o)
}.

Lemma slot0 p : In p prots -> slot s0 p = [p].
Proof.
  intros Hp. destruct (In_nth_error _ _ Hp) as [i Hi].
  assert (HC : Conc s0) by (split; [reflexivity | simpl; apply map_length]).
  rewrite (slot_at s0 i p HC Hi). simpl.
  apply nth_error_nth. rewrite nth_error_map, Hi. reflexivity.
Qed.

Lemma ref_init : Ref s0 (@GroupingAbstract.init str).
Proof.
  split; simpl.
  - split; [reflexivity | simpl; apply map_length].
  - intros x Hx. split; [exact Hx|]. rewrite (slot0 x Hx). left. reflexivity.
  - intros o y Ho Hy. rewrite (slot0 o Ho) in Hy. destruct Hy as [<-|[]]. split; [reflexivity | exact Ho].
  - intros o Ho. rewrite (slot0 o Ho). reflexivity.
  - intros o Ho _. exists []. apply slot0. exact Ho.
  - intros o Ho. rewrite (slot0 o Ho). constructor; [intros [] | constructor].
Qed.

Lemma find_ext_in {A} (f g : A -> bool) l : (forall x, In x l -> f x = g x) -> find f l = find g l.
Proof.
  induction l as [|x l IH]; intros H; simpl; [reflexivity|].
  rewrite (H x) by (left; reflexivity). destruct (g x); [reflexivity|].
  apply IH. intros y Hy. apply H. right. exact Hy.
Qed.

Lemma inU_true p : In p prots -> inU p = true.
Proof. intros H. apply mem_str_In. exact H. Qed.

Lemma cands0_in_prots p q : In p prots -> In q (cands0 p) -> In q prots.
Proof. intros Hp Hq. apply (cands0_spec p q (inU_true p Hp)) in Hq. destruct Hq as [Hq _]. apply mem_str_In. exact Hq. Qed.

Lemma ref_step s a p : Ref s a -> In p prots -> Ref (group_step m s p) (astep a p).
Proof.
  intros [HC R1 R3 R2 R4 R5] Hp. unfold group_step, astep, GroupingAbstract.step, GroupingAbstract.pick.
  fold pep. fold (cands0 p). unfold cands' at 1. rewrite (inU_true p Hp).
  rewrite (find_ext_in (fun q => alive a q && negb (str_eqb p q))
                       (fun q => nonempty (slot s q) && negb (str_eqb p q)) (cands0 p))
    by (intros x Hx; rewrite (R2 x (cands0_in_prots p x Hp Hx)); reflexivity).
  destruct (find (fun q => nonempty (slot s q) && negb (str_eqb p q)) (cands0 p)) as [q|] eqn:Ef.
  2: { split; assumption. }
  apply find_some in Ef. destruct Ef as [Hqc Hqb]. apply andb_prop in Hqb. destruct Hqb as [Hqne Hqp].
  assert (Hq : In q prots) by (eapply cands0_in_prots; eassumption).
  assert (Hne : q <> p).
  { apply negb_true_iff in Hqp. apply str_eqb_neq in Hqp. congruence. }
  destruct (merge_slots s q p HC Hq Hp Hne) as [s' [Hm [HC' Hslot]]]. rewrite Hm.
  assert (Hqp' : str_eqb q p = false) by (apply str_eqb_neq; exact Hne).
  split; simpl.
  - exact HC'.
  - intros x Hx. destruct (R1 x Hx) as [Hl Hin]. destruct (str_eqb (loc a x) p) eqn:E.
    + apply str_eqb_eq in E. split; [exact Hq|]. rewrite (Hslot q Hq), str_eqb_refl.
      apply in_or_app. right. rewrite <- E. exact Hin.
    + split; [exact Hl|]. rewrite (Hslot _ Hl), E. destruct (str_eqb (loc a x) q) eqn:E2.
      * apply str_eqb_eq in E2. apply in_or_app. left. rewrite <- E2. exact Hin.
      * exact Hin.
  - intros o y Ho Hy. rewrite (Hslot o Ho) in Hy. destruct (str_eqb o q) eqn:Eo.
    + apply str_eqb_eq in Eo. subst o. apply in_app_or in Hy. destruct Hy as [Hy|Hy].
      * destruct (R3 q y Hq Hy) as [Hl Hyp]. split; [|exact Hyp]. rewrite Hl, Hqp'. reflexivity.
      * destruct (R3 p y Hp Hy) as [Hl Hyp]. split; [|exact Hyp]. rewrite Hl, str_eqb_refl. reflexivity.
    + destruct (str_eqb o p) eqn:Eop; [destruct Hy|].
      destruct (R3 o y Ho Hy) as [Hl Hyp]. split; [|exact Hyp]. rewrite Hl, Eop. reflexivity.
  - intros o Ho. rewrite (Hslot o Ho). destruct (str_eqb o p) eqn:Eop.
    + apply str_eqb_eq in Eop. subst o. rewrite (proj2 (str_eqb_neq p q)) by congruence. reflexivity.
    + destruct (str_eqb o q) eqn:Eo.
      * apply str_eqb_eq in Eo. subst o. rewrite (R2 q Hq). destruct (slot s q); [discriminate | reflexivity].
      * apply R2. exact Ho.
  - intros o Ho. destruct (str_eqb o p) eqn:Eop; [discriminate|]. intros Ha.
    destruct (R4 o Ho Ha) as [tl Htl]. rewrite (Hslot o Ho), Eop. destruct (str_eqb o q) eqn:Eo.
    + apply str_eqb_eq in Eo. subst o. rewrite Htl. exists (tl ++ slot s p). reflexivity.
    + exists tl. exact Htl.
  - intros o Ho. rewrite (Hslot o Ho). destruct (str_eqb o q) eqn:Eo.
    + apply str_eqb_eq in Eo. subst o. apply nodup_app; [apply R5; exact Hq | apply R5; exact Hp|].
      intros y Hy1 Hy2. destruct (R3 q y Hq Hy1) as [L1 _]. destruct (R3 p y Hp Hy2) as [L2 _]. congruence.
    + destruct (str_eqb o p); [constructor | apply R5; exact Ho].
Qed.

Lemma ref_fold : forall ps s a, (forall p, In p ps -> In p prots) -> Ref s a ->
  Ref (fold_left (group_step m) ps s) (fold_left astep ps a).
Proof.
  induction ps as [|p ps IH]; intros s a Hps HR; simpl; [exact HR|].
  apply IH; [intros q Hq; apply Hps; right; exact Hq|].
  apply ref_step; [exact HR | apply Hps; left; reflexivity].
Qed.

Definition s_final : pgs := fold_left (group_step m) prots s0.
Definition a_final : ast := GroupingAbstract.run str_eqb cands' prots.

Lemma ref_final : Ref s_final a_final.
Proof. apply ref_fold; [auto | apply ref_init]. Qed.

Lemma subset_grouping_eq : subset_grouping m = filter nonempty (map (slot s_final) prots).
Proof.
  unfold subset_grouping, generate_protein_groups. fold prots. fold s0. fold s_final.
  simpl. rewrite (groups_as_slots s_final (rC _ _ ref_final)). reflexivity.
Qed.

(* abstract theorems instantiated *)
Let A_inv := GroupingAbstract.run_inv str_eqb str_eqb_eq sup' sup'_refl sup'_trans cands' cands'_spec prots prots_NoDup.

Lemma group_is_slot g : In g (subset_grouping m) ->
  exists o tl, In o prots /\ alive a_final o = true /\ g = slot s_final o /\ g = o :: tl.
Proof.
  rewrite subset_grouping_eq, filter_In, in_map_iff. intros [[o [Hg Ho]] Hne]. subst g.
  assert (Ha : alive a_final o = true) by (rewrite (r2 _ _ ref_final o Ho); exact Hne).
  destruct (r4 _ _ ref_final o Ho Ha) as [tl Htl]. exists o, tl. repeat split; assumption.
Qed.

(* ---- C03: partition ---- *)
Lemma subset_no_empty_group g : In g (subset_grouping m) -> g <> [].
Proof. intros Hg. destruct (group_is_slot g Hg) as [o [tl [_ [_ [_ ->]]]]]. discriminate. Qed.

Lemma subset_covers x : In x prots -> exists g, In g (subset_grouping m) /\ In x g.
Proof.
  intros Hx. destruct (r1 _ _ ref_final x Hx) as [Hl Hin].
  exists (slot s_final (loc a_final x)). split; [|exact Hin].
  rewrite subset_grouping_eq, filter_In. split; [apply in_map; exact Hl|].
  destruct (slot s_final (loc a_final x)); [destruct Hin | reflexivity].
Qed.

Lemma subset_only_observed g x : In g (subset_grouping m) -> In x g -> In x prots.
Proof.
  intros Hg Hx. destruct (group_is_slot g Hg) as [o [tl [Ho [_ [Hs _]]]]]. subst g.
  apply (r3 _ _ ref_final o x Ho Hx).
Qed.

Lemma subset_unique_group g g' x :
  In g (subset_grouping m) -> In g' (subset_grouping m) -> In x g -> In x g' -> g = g'.
Proof.
  intros Hg Hg' Hx Hx'. destruct (group_is_slot g Hg) as [o [tl [Ho [_ [Hs _]]]]].
  destruct (group_is_slot g' Hg') as [o' [tl' [Ho' [_ [Hs' _]]]]]. subst g g'.
  destruct (r3 _ _ ref_final o x Ho Hx) as [L _]. destruct (r3 _ _ ref_final o' x Ho' Hx') as [L' _]. congruence.
Qed.

Lemma subset_group_nodup g : In g (subset_grouping m) -> NoDup g.
Proof. intros Hg. destruct (group_is_slot g Hg) as [o [tl [Ho [_ [Hs _]]]]]. subst g. apply (r5 _ _ ref_final o Ho). Qed.

(* ---- C03: the leading protein's peptide set contains every member's ---- *)
Lemma subset_leader_contains g l tl x :
  In g (subset_grouping m) -> g = l :: tl -> In x g -> forall e, In e (pep x) -> In e (pep l).
Proof.
  intros Hg Hgl Hx. destruct (group_is_slot g Hg) as [o [tl' [Ho [Ha [Hs Hot]]]]].
  assert (l = o) by congruence. subst l.
  rewrite Hs in Hx. destruct (r3 _ _ ref_final o x Ho Hx) as [L Hxp].
  destruct A_inv as [_ HB' _ _ _]. pose proof (HB' x) as HB. fold a_final in HB. rewrite L in HB.
  unfold sup' in HB. rewrite (inU_true x Hxp) in HB. apply andb_prop in HB. destruct HB as [_ HB].
  apply sub_spec. exact HB.
Qed.

(* ---- C03: no leading protein's peptide set is contained in that of a protein outside its group ---- *)
Lemma subset_leader_maximal g l tl q :
  In g (subset_grouping m) -> g = l :: tl -> In q prots ->
  (forall e, In e (pep l) -> In e (pep q)) -> In q g.
Proof.
  intros Hg Hgl Hq Hsub. destruct (group_is_slot g Hg) as [o [tl' [Ho [Ha [Hs Hot]]]]].
  assert (l = o) by congruence. subst l.
  assert (Hsup : sup' o q = true).
  { unfold sup'. rewrite (inU_true o Ho), (inU_true q Hq). simpl. apply sub_spec. exact Hsub. }
  destruct A_inv as [_ _ _ _ HC']. pose proof (HC' o Ho Ha q Hsup) as HC. fold a_final in HC.
  destruct (r1 _ _ ref_final q Hq) as [_ Hin]. rewrite HC in Hin. rewrite Hs. exact Hin.
Qed.

(* the groups, concatenated, are the observed proteins: each exactly once *)
Lemma concat_filter_nonempty {A} (l : list (list A)) : concat (filter nonempty l) = concat l.
Proof. induction l as [|x l IH]; simpl; [reflexivity|]. destruct x; simpl; rewrite IH; reflexivity. Qed.

Lemma NoDup_concat_map {A B} (f : A -> list B) (l : list A) :
  NoDup l -> (forall o, In o l -> NoDup (f o)) ->
  (forall o o' y, In o l -> In o' l -> In y (f o) -> In y (f o') -> o = o') ->
  NoDup (concat (map f l)).
Proof.
  induction l as [|a l IH]; intros Hnd Hf Hd; simpl; [constructor|].
  inversion Hnd as [|? ? Hni Hnd']; subst. apply nodup_app.
  - apply Hf. left. reflexivity.
  - apply IH; [exact Hnd' | intros o Ho; apply Hf; right; exact Ho|].
    intros o o' y Ho Ho'. apply Hd; right; assumption.
  - intros y Hy Hy'. apply in_concat in Hy'. destruct Hy' as [g [Hg Hyg]]. apply in_map_iff in Hg.
    destruct Hg as [o [<- Ho]]. assert (a = o) by (apply (Hd a o y); [left; reflexivity | right; exact Ho | exact Hy | exact Hyg]).
    subst. contradiction.
Qed.

Lemma subset_concat_NoDup : NoDup (concat (subset_grouping m)).
Proof.
  rewrite subset_grouping_eq, concat_filter_nonempty.
  apply NoDup_concat_map; [apply prots_NoDup | apply (r5 _ _ ref_final)|].
  intros o o' y Ho Ho' Hy Hy'.
  destruct (r3 _ _ ref_final o y Ho Hy) as [L _]. destruct (r3 _ _ ref_final o' y Ho' Hy') as [L' _]. congruence.
Qed.

Lemma subset_concat_In x : In x (concat (subset_grouping m)) <-> In x prots.
Proof.
  rewrite in_concat. split.
  - intros [g [Hg Hx]]. eapply subset_only_observed; eassumption.
  - intros Hx. destruct (subset_covers x Hx) as [g [Hg Hxg]]. exists g. split; assumption.
Qed.

(* ---- C03: the number of groups is the number of distinct inclusion-maximal peptide sets:
        leaders' sets are maximal, pairwise incomparable, and dominate every protein's set ---- *)
Lemma leader_in_prots g l tl : In g (subset_grouping m) -> g = l :: tl -> In l prots.
Proof. intros Hg Hgl. apply (subset_only_observed g l Hg). rewrite Hgl. left. reflexivity. Qed.

Lemma subset_leader_set_is_maximal g l tl q :
  In g (subset_grouping m) -> g = l :: tl -> In q prots ->
  (forall e, In e (pep l) -> In e (pep q)) -> (forall e, In e (pep q) -> In e (pep l)).
Proof.
  intros Hg Hgl Hq Hsub. apply (subset_leader_contains g l tl q Hg Hgl).
  apply (subset_leader_maximal g l tl q Hg Hgl Hq Hsub).
Qed.

Lemma subset_leaders_incomparable g l tl g' l' tl' :
  In g (subset_grouping m) -> g = l :: tl -> In g' (subset_grouping m) -> g' = l' :: tl' ->
  (forall e, In e (pep l) -> In e (pep l')) -> g = g'.
Proof.
  intros Hg Hgl Hg' Hgl' Hsub.
  assert (Hl' : In l' g) by (apply (subset_leader_maximal g l tl l' Hg Hgl (leader_in_prots g' l' tl' Hg' Hgl') Hsub)).
  apply (subset_unique_group g g' l' Hg Hg' Hl'). rewrite Hgl'. left. reflexivity.
Qed.

Lemma subset_every_set_dominated x : In x prots ->
  exists g l tl, In g (subset_grouping m) /\ g = l :: tl /\ forall e, In e (pep x) -> In e (pep l).
Proof.
  intros Hx. destruct (subset_covers x Hx) as [g [Hg Hxg]].
  destruct (group_is_slot g Hg) as [o [tl [_ [_ [_ Hot]]]]].
  exists g, o, tl. split; [exact Hg|]. split; [exact Hot|].
  apply (subset_leader_contains g o tl x Hg Hot Hxg).
Qed.
End Ref.

(* no grouping: every observed protein is its own group, in first-appearance order *)
Lemma no_grouping_singletons m : no_grouping m = map (fun p => [p]) (prot_order m) /\ NoDup (prot_order m).
Proof. split; [reflexivity | apply dedup_NoDup]. Qed.
