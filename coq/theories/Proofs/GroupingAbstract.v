(* Abstract layer of generate_protein_groups: proteins are elements of any type with decidable
   equality, [sup p q] says pep p is a subset of pep q (a preorder), [cands p] is any list whose members
   are exactly the supersets of p.  State: [loc x] = owner of the slot x currently sits in, [alive x]
   = x's own slot is non-empty. *)
From Coq Require Import List Arith Bool Lia.
Import ListNotations.

Section Abs.
Context {P : Type}.
Variable peq : P -> P -> bool.
Hypothesis peq_spec : forall a b, peq a b = true <-> a = b.
Variable sup : P -> P -> bool.
Hypothesis sup_refl : forall p, sup p p = true.
Hypothesis sup_trans : forall p q r, sup p q = true -> sup q r = true -> sup p r = true.
Variable cands : P -> list P.
Hypothesis cands_spec : forall p q, In q (cands p) <-> sup p q = true.

Record st := { loc : P -> P; alive : P -> bool }.
Definition init : st := {| loc := fun x => x; alive := fun _ => true |}.

Definition pick (s : st) (p : P) : option P :=
  find (fun q => alive s q && negb (peq p q)) (cands p).

Definition step (s : st) (p : P) : st :=
  match pick s p with
  | None => s
  | Some q => {| loc := fun x => if peq (loc s x) p then q else loc s x;
                 alive := fun x => if peq x p then false else alive s x |}
  end.

Definition run (ps : list P) : st := fold_left step ps init.

Record Inv (done : list P) (s : st) : Prop := {
  iA : forall x, alive s (loc s x) = true;
  iB : forall x, sup x (loc s x) = true;
  iD : forall x, alive s x = true -> loc s x = x;
  iE : forall x, alive s x = false -> In x done;
  iC : forall p, In p done -> alive s p = true -> forall q, sup p q = true -> loc s q = p
}.

Lemma peq_refl a : peq a a = true. Proof. apply peq_spec. reflexivity. Qed.
Lemma peq_false a b : peq a b = false <-> a <> b.
Proof. split; [intros H E; apply peq_spec in E; congruence|].
  intros H. destruct (peq a b) eqn:E; [apply peq_spec in E; contradiction | reflexivity]. Qed.

Lemma inv_init : Inv [] init.
Proof. split; simpl; intros; auto; try discriminate; try contradiction. Qed.

Lemma pick_some s p q : pick s p = Some q -> sup p q = true /\ alive s q = true /\ q <> p.
Proof.
  unfold pick. intros H. apply find_some in H. destruct H as [Hin Hb].
  apply andb_prop in Hb. destruct Hb as [Ha Hn].
  split; [apply cands_spec; exact Hin|]. split; [exact Ha|].
  apply negb_true_iff in Hn. apply peq_false in Hn. congruence.
Qed.

Lemma pick_none s p : pick s p = None -> forall q, sup p q = true -> alive s q = true -> q = p.
Proof.
  unfold pick. intros H q Hs Ha.
  assert (Hin : In q (cands p)) by (apply cands_spec; exact Hs).
  pose proof (find_none _ _ H q Hin) as Hf. simpl in Hf.
  rewrite Ha in Hf. simpl in Hf. apply negb_false_iff in Hf. apply peq_spec in Hf. congruence.
Qed.

Lemma inv_step done s p : Inv done s -> ~ In p done -> Inv (done ++ [p]) (step s p).
Proof.
  intros [A B D E C] Hnew. unfold step. destruct (pick s p) as [q|] eqn:Hp.
  - destruct (pick_some _ _ _ Hp) as [Hsup [Haq Hne]].
    assert (Hp_alive : alive s p = true).
    { destruct (alive s p) eqn:Ea; [reflexivity|]. exfalso. apply Hnew. apply E. exact Ea. }
    split; simpl.
    + intros x. destruct (peq (loc s x) p) eqn:Ex.
      * destruct (peq q p) eqn:Eq; [apply peq_spec in Eq; contradiction | exact Haq].
      * rewrite Ex. apply A.
    + intros x. destruct (peq (loc s x) p) eqn:Ex.
      * apply peq_spec in Ex. eapply sup_trans; [|exact Hsup]. rewrite <- Ex. apply B.
      * apply B.
    + intros x. destruct (peq x p) eqn:Ex; [discriminate|]. intros Ha.
      rewrite (D x Ha). rewrite Ex. reflexivity.
    + intros x. destruct (peq x p) eqn:Ex.
      * intros _. apply peq_spec in Ex. subst. apply in_or_app. right. left. reflexivity.
      * intros Ha. apply in_or_app. left. apply E. exact Ha.
    + intros p0 Hin. destruct (peq p0 p) eqn:Ex; [discriminate|]. intros Ha q0 Hs.
      apply in_app_or in Hin. destruct Hin as [Hin|[Hin|[]]].
      * rewrite (C p0 Hin Ha q0 Hs). rewrite Ex. reflexivity.
      * subst. rewrite peq_refl in Ex. discriminate.
  - split.
    + exact A. + exact B. + exact D.
    + intros x Ha. apply in_or_app. left. apply E. exact Ha.
    + intros p0 Hin Ha q0 Hs. apply in_app_or in Hin. destruct Hin as [Hin|[Hin|[]]].
      * apply C; assumption.
      * subst p0.
        assert (Hl : alive s (loc s q0) = true) by apply A.
        assert (Hs2 : sup p (loc s q0) = true) by (eapply sup_trans; [exact Hs|apply B]).
        exact (pick_none _ _ Hp _ Hs2 Hl).
Qed.

Lemma inv_run_gen done s ps : Inv done s -> NoDup (done ++ ps) -> Inv (done ++ ps) (fold_left step ps s).
Proof.
  revert done s. induction ps as [|p ps IH]; intros done s HI Hnd; simpl.
  - rewrite app_nil_r. exact HI.
  - replace (done ++ p :: ps) with ((done ++ [p]) ++ ps) by (rewrite <- app_assoc; reflexivity).
    apply IH.
    + apply inv_step; [exact HI|]. apply NoDup_remove_2 in Hnd. intro Hc. apply Hnd. apply in_or_app. left. exact Hc.
    + rewrite <- app_assoc. exact Hnd.
Qed.

Theorem run_inv ps : NoDup ps -> Inv ps (run ps).
Proof. intros H. apply (inv_run_gen [] init ps inv_init). exact H. Qed.

(* at the end, when every protein has been processed: *)
Theorem final_owner_alive ps x : NoDup ps -> alive (run ps) (loc (run ps) x) = true.
Proof. intros H. apply (iA _ _ (run_inv ps H)). Qed.

Theorem final_member_contained ps x : NoDup ps -> sup x (loc (run ps) x) = true.
Proof. intros H. apply (iB _ _ (run_inv ps H)). Qed.

Theorem final_leader_maximal ps p q : NoDup ps -> In p ps -> alive (run ps) p = true ->
  sup p q = true -> loc (run ps) q = p.
Proof. intros Hnd Hin Ha Hs. exact (iC _ _ (run_inv ps Hnd) p Hin Ha q Hs). Qed.

Theorem final_owner_fixed ps x : NoDup ps -> alive (run ps) x = true -> loc (run ps) x = x.
Proof. intros H. apply (iD _ _ (run_inv ps H)). Qed.

(* owners are inclusion-maximal and pairwise have different peptide sets *)
Theorem final_owners_distinct ps p q : NoDup ps -> In p ps -> In q ps ->
  alive (run ps) p = true -> alive (run ps) q = true -> sup p q = true -> p = q.
Proof.
  intros Hnd Hp Hq Ha Hb Hs.
  rewrite <- (final_leader_maximal ps p q Hnd Hp Ha Hs). apply final_owner_fixed; assumption.
Qed.
End Abs.
