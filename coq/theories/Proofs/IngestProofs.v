From PGF Require Import Base.Prelude Base.PyStr Base.StableSort Model.Fdr Model.Grouping Model.Fasta Model.Scoring Model.Ingest
  Proofs.FdrProofs Proofs.GroupingProofs Proofs.FastaProofs Proofs.CompetitionProofs.
From Coq Require Import Lqa Permutation.

(* ================= best PSM per peptide ================= *)
Lemma pil_get_set l k v k' : pil_get (pil_set l k v) k' = if str_eqb k k' then Some v else pil_get l k'.
Proof.
  unfold pil_get. induction l as [|[k0 v0] l IH]; simpl.
  - destruct (str_eqb k k'); reflexivity.
  - destruct (str_eqb k0 k) eqn:E0; simpl.
    + apply str_eqb_eq in E0. subst k0. destruct (str_eqb k k'); reflexivity.
    + destruct (str_eqb k0 k') eqn:E1.
      * apply str_eqb_eq in E1. subst k0. rewrite str_eqb_sym, E0. reflexivity.
      * exact IH.
Qed.

(* the rows that speak about peptide [pep]: (score, proteins) of every non-NaN row whose stripped sequence is pep, in file order *)
Definition relevant (pep : str) (rows : list drow) : list (Q * list str) :=
  flat_map (fun r => match r with
                     | (mp, ps, Some s) => if str_eqb (remove_modifications mp) pep then [(s, ps)] else []
                     | (_, _, None) => []
                     end) rows.

(* running best: a later row replaces the current one only if it is strictly better *)
Fixpoint best_acc (acc : option (Q * list str)) (l : list (Q * list str)) : option (Q * list str) :=
  match l with
  | [] => acc
  | (s, ps) :: r =>
    match acc with
    | Some (c, _) => if Qle_bool c s then best_acc acc r else best_acc (Some (s, ps)) r
    | None => best_acc (Some (s, ps)) r
    end
  end.

Lemma ingest_get_gen pep : forall rows acc,
  pil_get (fold_left ingest_step rows acc) pep = best_acc (pil_get acc pep) (relevant pep rows).
Proof.
  induction rows as [|[[mp ps] sc] rows IH]; intros acc; simpl; [reflexivity|].
  rewrite IH. destruct sc as [s|]; [|reflexivity]. simpl.
  destruct (str_eqb (remove_modifications mp) pep) eqn:E.
  - apply str_eqb_eq in E. subst pep. simpl.
    destruct (pil_get acc (remove_modifications mp)) as [[c cps]|] eqn:Eg.
    + destruct (Qle_bool c s) eqn:Ec; [rewrite Eg; reflexivity|]. rewrite pil_get_set, str_eqb_refl. reflexivity.
    + rewrite pil_get_set, str_eqb_refl. reflexivity.
  - rewrite app_nil_l. f_equal.
    destruct (pil_get acc (remove_modifications mp)) as [[c cps]|].
    + destruct (Qle_bool c s); [reflexivity|]. rewrite pil_get_set, E. reflexivity.
    + rewrite pil_get_set, E. reflexivity.
Qed.

Lemma ingest_get pep rows : pil_get (ingest rows) pep = best_acc None (relevant pep rows).
Proof. unfold ingest. rewrite ingest_get_gen. reflexivity. Qed.

(* the running best is a lower bound of everything seen and is attained *)
Lemma best_acc_spec : forall l acc,
  match best_acc acc l with
  | None => acc = None /\ l = []
  | Some (m, ps) =>
    (forall s ps', In (s, ps') l -> (m <= s)%Q) /\
    (match acc with Some (c, _) => (m <= c)%Q | None => True end) /\
    (In (m, ps) l \/ acc = Some (m, ps))
  end.
Proof.
  induction l as [|[s ps] l IH]; intros acc; simpl.
  - destruct acc as [[c cps]|]; [|auto]. split; [intros ? ? []|]. split; [apply Qle_refl | right; reflexivity].
  - destruct acc as [[c cps]|].
    + destruct (Qle_bool c s) eqn:Ec.
      * apply Qle_bool_iff in Ec. specialize (IH (Some (c, cps))). destruct (best_acc (Some (c, cps)) l) as [[m mps]|]; [|destruct IH; discriminate].
        destruct IH as [H1 [H2 H3]]. split; [|split; [exact H2|]].
        -- intros s' ps' [E|Hin]; [inversion E; subst; lra | eapply H1; exact Hin].
        -- destruct H3 as [H3|H3]; [left; right; exact H3 | right; exact H3].
      * assert (Hlt : (s < c)%Q).
        { destruct (Qlt_le_dec s c) as [H|H]; [exact H | apply Qle_bool_iff in H; congruence]. }
        specialize (IH (Some (s, ps))). destruct (best_acc (Some (s, ps)) l) as [[m mps]|]; [|destruct IH; discriminate].
        destruct IH as [H1 [H2 H3]]. split; [|split].
        -- intros s' ps' [E|Hin]; [inversion E; subst; exact H2 | eapply H1; exact Hin].
        -- lra.
        -- destruct H3 as [H3|H3]; [left; right; exact H3 | left; left; inversion H3; reflexivity].
    + specialize (IH (Some (s, ps))). destruct (best_acc (Some (s, ps)) l) as [[m mps]|]; [|destruct IH; discriminate].
      destruct IH as [H1 [H2 H3]]. split; [|split; [exact I|]].
      * intros s' ps' [E|Hin]; [inversion E; subst; exact H2 | eapply H1; exact Hin].
      * destruct H3 as [H3|H3]; [left; right; exact H3 | left; left; inversion H3; reflexivity].
Qed.

(* ---- C10: for every stripped peptide the stored PEP is the lowest PEP over all of its PSMs in all files
        (rows without a PEP ignored), together with the proteins of a PSM attaining it ---- *)
Lemma best_psm pep rows :
  match pil_get (ingest rows) pep with
  | None => relevant pep rows = []
  | Some (m, ps) => In (m, ps) (relevant pep rows) /\ forall s ps', In (s, ps') (relevant pep rows) -> (m <= s)%Q
  end.
Proof.
  rewrite ingest_get. pose proof (best_acc_spec (relevant pep rows) None) as H.
  destruct (best_acc None (relevant pep rows)) as [[m ps]|]; [|apply H].
  destruct H as [H1 [_ [H3|H3]]]; [split; assumption | discriminate].
Qed.

(* the stored PEP does not depend on the order of rows and files *)
Lemma relevant_perm pep rows rows' : Permutation rows rows' -> Permutation (relevant pep rows) (relevant pep rows').
Proof. intros H. unfold relevant. apply flat_map_perm. exact H. Qed.

Lemma best_pep_order_independent pep rows rows' m ps m' ps' :
  Permutation rows rows' ->
  pil_get (ingest rows) pep = Some (m, ps) -> pil_get (ingest rows') pep = Some (m', ps') -> (m == m')%Q.
Proof.
  intros Hp H1 H2. pose proof (best_psm pep rows) as B1. pose proof (best_psm pep rows') as B2.
  rewrite H1 in B1. rewrite H2 in B2. destruct B1 as [I1 L1]. destruct B2 as [I2 L2].
  pose proof (relevant_perm pep rows rows' Hp) as Hr.
  assert (A : (m <= m')%Q) by (eapply L1; eapply Permutation_in; [apply Permutation_sym; exact Hr | exact I2]).
  assert (B : (m' <= m)%Q) by (eapply L2; eapply Permutation_in; [exact Hr | exact I1]).
  lra.
Qed.

(* ================= modifications ================= *)
Inductive tok :=
  | Res (c : N)                       (* a residue *)
  | ModP (m : str)                    (* "(" m ")" *)
  | ModB (m : str)                    (* "[" m "]" *)
  | ModPP (a b : str).                (* "(" a "(" b "))"  - MaxQuant's nested form *)

Definition bracket (c : N) : bool := N.eqb c lpar || N.eqb c rpar || N.eqb c lbr || N.eqb c rbr.
Definition plain (m : str) : Prop := forall c, In c m -> bracket c = false.
Definition wf_tok (t : tok) : Prop :=
  match t with
  | Res c => bracket c = false
  | ModP m | ModB m => plain m
  | ModPP a b => plain a /\ plain b
  end.
Definition render (t : tok) : str :=
  match t with
  | Res c => [c]
  | ModP m => lpar :: m ++ [rpar]
  | ModB m => lbr :: m ++ [rbr]
  | ModPP a b => lpar :: a ++ lpar :: b ++ [rpar; rpar]
  end.
Definition residues (t : tok) : str := match t with Res c => [c] | _ => [] end.

Lemma find_chr_app_some c m r : exists n, find_chr c (m ++ c :: r) = Some n.
Proof.
  induction m as [|x m IH]; simpl; [rewrite N.eqb_refl; eauto|].
  destruct (N.eqb x c); [eauto|]. destruct IH as [n ->]. eauto.
Qed.

Lemma strip_inside op cl m r : (forall c, In c m -> N.eqb c cl = false) ->
  strip_go op cl true (m ++ cl :: r) = strip_go op cl false r.
Proof.
  induction m as [|x m IH]; intros H; simpl; [rewrite N.eqb_refl; reflexivity|].
  rewrite (H x) by (left; reflexivity). apply IH. intros c Hc. apply H. right. exact Hc.
Qed.

Lemma strip_mod op cl m r : (forall c, In c m -> N.eqb c cl = false) ->
  strip_go op cl false (op :: m ++ cl :: r) = strip_go op cl false r.
Proof.
  intros H. simpl. rewrite N.eqb_refl. destruct (find_chr_app_some cl m r) as [n ->]. apply strip_inside. exact H.
Qed.

Lemma strip_keep op cl c r : N.eqb c op = false -> strip_go op cl false (c :: r) = c :: strip_go op cl false r.
Proof. intros H. simpl. rewrite H. reflexivity. Qed.

Lemma strip_keep_list op cl m r : (forall c, In c m -> N.eqb c op = false) ->
  strip_go op cl false (m ++ r) = m ++ strip_go op cl false r.
Proof.
  induction m as [|x m IH]; intros H; [reflexivity|]. simpl app. rewrite strip_keep by (apply H; left; reflexivity).
  f_equal. apply IH. intros c Hc. apply H. right. exact Hc.
Qed.

Lemma plain_not m c0 : plain m -> bracket c0 = true -> forall c, In c m -> N.eqb c c0 = false.
Proof.
  intros Hp Hb c Hc. destruct (N.eqb c c0) eqn:E; [|reflexivity]. apply N.eqb_eq in E. subst. rewrite (Hp c0 Hc) in Hb. discriminate.
Qed.

(* first pass (parentheses) and second pass (square brackets) on a token sequence *)
Definition after_paren (t : tok) : str :=
  match t with Res c => [c] | ModP _ => [] | ModB m => lbr :: m ++ [rbr] | ModPP _ _ => [rpar] end.

Lemma bracket_false c : bracket c = false ->
  N.eqb c lpar = false /\ N.eqb c rpar = false /\ N.eqb c lbr = false /\ N.eqb c rbr = false.
Proof.
  unfold bracket. intros H. apply orb_false_elim in H. destruct H as [H H4]. apply orb_false_elim in H. destruct H as [H H3].
  apply orb_false_elim in H. destruct H as [H1 H2]. auto.
Qed.

Lemma paren_pass : forall toks, Forall wf_tok toks ->
  strip_delim lpar rpar (flat_map render toks) = flat_map after_paren toks.
Proof.
  unfold strip_delim. induction toks as [|t toks IH]; intros Hwf; [reflexivity|].
  inversion Hwf as [|? ? Ht Hrest]; subst. cbn [flat_map]. destruct t as [c|m|m|a b]; cbn [wf_tok] in Ht.
  - cbn [render after_paren app]. destruct (bracket_false c Ht) as [H1 _].
    rewrite strip_keep by exact H1. f_equal. apply IH. exact Hrest.
  - cbn [render after_paren app]. rewrite <- app_assoc. cbn [app].
    rewrite strip_mod by (apply (plain_not m rpar Ht); reflexivity). apply IH. exact Hrest.
  - cbn [render after_paren app]. rewrite <- !app_assoc. cbn [app].
    rewrite strip_keep by reflexivity. f_equal.
    rewrite strip_keep_list by (apply (plain_not m lpar Ht); reflexivity). f_equal.
    rewrite strip_keep by reflexivity. f_equal. apply IH. exact Hrest.
  - destruct Ht as [Ha Hb]. cbn [render after_paren].
    assert (E : (lpar :: a ++ lpar :: b ++ [rpar; rpar]) ++ flat_map render toks =
                lpar :: (a ++ lpar :: b) ++ rpar :: rpar :: flat_map render toks).
    { cbn [app]. f_equal. repeat (rewrite <- app_assoc; cbn [app]). reflexivity. }
    rewrite E. cbn [app]. rewrite strip_mod.
    + rewrite strip_keep by reflexivity. f_equal. apply IH. exact Hrest.
    + intros c Hc. apply in_app_or in Hc. destruct Hc as [Hc|[<-|Hc]];
        [apply (plain_not a rpar Ha); [reflexivity | exact Hc] | reflexivity | apply (plain_not b rpar Hb); [reflexivity | exact Hc]].
Qed.

Definition after_both (t : tok) : str := match t with Res c => [c] | ModPP _ _ => [rpar] | _ => [] end.

Lemma bracket_pass : forall toks, Forall wf_tok toks ->
  strip_delim lbr rbr (flat_map after_paren toks) = flat_map after_both toks.
Proof.
  unfold strip_delim. induction toks as [|t toks IH]; intros Hwf; [reflexivity|].
  inversion Hwf as [|? ? Ht Hrest]; subst. cbn [flat_map]. destruct t as [c|m|m|a b]; cbn [wf_tok] in Ht.
  - cbn [after_paren after_both app]. destruct (bracket_false c Ht) as [_ [_ [H3 _]]].
    rewrite strip_keep by exact H3. f_equal. apply IH. exact Hrest.
  - cbn [after_paren after_both app]. apply IH. exact Hrest.
  - cbn [after_paren after_both app]. rewrite <- app_assoc. cbn [app].
    rewrite strip_mod by (apply (plain_not m rbr Ht); reflexivity). apply IH. exact Hrest.
  - cbn [after_paren after_both app]. rewrite strip_keep by reflexivity. f_equal. apply IH. exact Hrest.
Qed.

(* ---- C10: modifications in one-level (..) / [..] or two-level parentheses are stripped, the residues stay ---- *)
Lemma strip_brackets_spec toks : Forall wf_tok toks ->
  strip_brackets (flat_map render toks) = flat_map residues toks.
Proof.
  intros Hwf. unfold strip_brackets. rewrite paren_pass by exact Hwf. rewrite bracket_pass by exact Hwf.
  induction toks as [|t toks IH]; [reflexivity|]. inversion Hwf as [|? ? Ht Hrest]; subst.
  cbn [flat_map]. rewrite filter_app, IH by exact Hrest. f_equal. destruct t as [c|m|m|a b]; cbn [after_both residues filter]; try reflexivity.
  - cbn [wf_tok] in Ht. destruct (bracket_false c Ht) as [_ [H2 _]]. rewrite H2. reflexivity.
Qed.

(* stripping the terminal hyphens *)
Lemma lstrip_chr_all c pre r : (forall x, In x pre -> x = c) -> lstrip_chr c (pre ++ r) = lstrip_chr c r.
Proof.
  induction pre as [|x pre IH]; intros H; [reflexivity|]. cbn [app lstrip_chr].
  rewrite (H x (or_introl eq_refl)), N.eqb_refl. apply IH. intros y Hy. apply H. right. exact Hy.
Qed.

Lemma lstrip_chr_stop c body r : (forall x, In x body -> x <> c) -> body <> [] -> lstrip_chr c (body ++ r) = body ++ r.
Proof.
  intros H Hne. destruct body as [|x body]; [congruence|]. cbn [app lstrip_chr].
  destruct (N.eqb_spec x c) as [->|_]; [exfalso; apply (H c); [left|]; reflexivity | reflexivity].
Qed.

Lemma strip_chr_core c pre body post :
  (forall x, In x pre -> x = c) -> (forall x, In x post -> x = c) -> (forall x, In x body -> x <> c) ->
  strip_chr c (pre ++ body ++ post) = body.
Proof.
  intros Hpre Hpost Hbody. unfold strip_chr. rewrite lstrip_chr_all by exact Hpre.
  destruct body as [|b0 body'] eqn:Eb.
  - cbn [app]. assert (E : lstrip_chr c post = []).
    { clear -Hpost. induction post as [|x post IH]; [reflexivity|]. cbn [lstrip_chr]. rewrite (Hpost x (or_introl eq_refl)), N.eqb_refl.
      apply IH. intros y Hy. apply Hpost. right. exact Hy. }
    rewrite E. reflexivity.
  - rewrite <- Eb in *. rewrite lstrip_chr_stop by (try exact Hbody; rewrite Eb; discriminate).
    rewrite rev_app_distr. rewrite lstrip_chr_all by (intros x Hx; apply Hpost; apply in_rev; exact Hx).
    replace (rev body) with (rev body ++ []) by apply app_nil_r.
    rewrite lstrip_chr_stop.
    + rewrite app_nil_r. apply rev_involutive.
    + intros x Hx. apply Hbody. apply in_rev. exact Hx.
    + rewrite Eb. cbn [rev]. intros E. apply app_eq_nil in E. destruct E as [_ E]. discriminate.
Qed.

(* general form: what is left is the residues with the hyphens at both ends removed *)
Lemma strip_mods_general toks : Forall wf_tok toks ->
  remove_modifications (flat_map render toks) = strip_chr dash (flat_map residues toks).
Proof. intros Hwf. unfold remove_modifications. rewrite strip_brackets_spec by exact Hwf. reflexivity. Qed.

(* a peptide in any of the notations: an optional N-terminal modification "[m]-", residues (none of them a hyphen) interleaved with
   modifications, an optional C-terminal modification "-[m]": exactly the residues are left *)
Definition nterm (m : option str) : str := match m with Some m => lbr :: m ++ [rbr; dash] | None => [] end.
Definition cterm (m : option str) : str := match m with Some m => dash :: lbr :: m ++ [rbr] | None => [] end.
Definition plain_opt (m : option str) : Prop := match m with Some m => plain m | None => True end.

Lemma strip_mods_spec toks n c : Forall wf_tok toks -> plain_opt n -> plain_opt c ->
  (forall x, In x (flat_map residues toks) -> x <> dash) ->
  remove_modifications (nterm n ++ flat_map render toks ++ cterm c) = flat_map residues toks.
Proof.
  intros Hwf Hn Hc Hres.
  set (ntoks := match n with Some m => [ModB m; Res dash] | None => [] end).
  set (ctoks := match c with Some m => [Res dash; ModB m] | None => [] end).
  assert (E : nterm n ++ flat_map render toks ++ cterm c = flat_map render (ntoks ++ toks ++ ctoks)).
  { rewrite !flat_map_app. unfold ntoks, ctoks, nterm, cterm. destruct n as [mn|], c as [mc|]; cbn [flat_map render app];
      repeat (rewrite <- ?app_assoc; cbn [app]); rewrite ?app_nil_r; reflexivity. }
  rewrite E. rewrite strip_mods_general.
  - rewrite !flat_map_app.
    apply strip_chr_core.
    + unfold ntoks. destruct n; cbn [flat_map residues app]; intros x Hx; [destruct Hx as [<-|[]]; reflexivity | destruct Hx].
    + unfold ctoks. destruct c; cbn [flat_map residues app]; intros x Hx; [destruct Hx as [<-|[]]; reflexivity | destruct Hx].
    + exact Hres.
  - apply Forall_app. split; [|apply Forall_app; split; [exact Hwf|]].
    + unfold ntoks. destruct n as [mn|]; [|constructor]. constructor; [exact Hn|]. constructor; [reflexivity | constructor].
    + unfold ctoks. destruct c as [mc|]; [|constructor]. constructor; [reflexivity|]. constructor; [exact Hc | constructor].
Qed.

(* ================= targets and decoys never mix ================= *)
Definition pure (ps : list str) : Prop := is_decoy ps = true \/ forall p, In p ps -> is_decoy_id p = false.

Lemma purge_spec ps : pure (remove_decoy_proteins_from_target_peptides ps).
Proof.
  unfold remove_decoy_proteins_from_target_peptides, pure. destruct (is_decoy ps) eqn:E; [left; exact E|].
  right. intros p Hp. apply filter_In in Hp. destruct Hp as [_ Hp]. apply negb_true_iff in Hp. exact Hp.
Qed.

Lemma purge_keeps_targets ps p : is_decoy ps = false -> is_decoy_id p = false -> In p ps ->
  In p (remove_decoy_proteins_from_target_peptides ps).
Proof.
  intros E Hp Hin. unfold remove_decoy_proteins_from_target_peptides. rewrite E. apply filter_In. split; [exact Hin|]. rewrite Hp. reflexivity.
Qed.

(* every protein list the mapper lets through is pure *)
Lemma mapper_pure remap cfg md5 mp tmp ps :
  map_proteins remap cfg md5 mp tmp = Ok (Some ps) -> pure ps.
Proof.
  unfold map_proteins. destruct remap as [m|].
  - destruct (map_get m (remove_modifications mp)) as [|x r]; [discriminate|].
    destruct (filter_proteins cfg md5 (x :: r)); [|discriminate]. intros H. inversion H. apply purge_spec.
  - destruct (filter_proteins cfg md5 tmp); [|discriminate]. intros H. inversion H. apply purge_spec.
Qed.

(* peptides unknown to the digest are skipped when the method remaps *)
Lemma unknown_skipped m cfg md5 mp tmp :
  map_get m (remove_modifications mp) = [] -> map_proteins (Some m) cfg md5 mp tmp = Ok None.
Proof. intros H. unfold map_proteins. rewrite H. reflexivity. Qed.

(* ---- every reported group consists only of targets or only of decoys ---- *)
Definition same_class (ps : list str) : Prop := forall x y, In x ps -> In y ps -> is_decoy_id x = is_decoy_id y.
(* identifiers are well formed: a decoy marker occurs only as a prefix *)
Definition wf_ids (ps : list str) : Prop :=
  forall p, In p ps -> (contains (s2l "REV__") p || contains (s2l "rev_") p) = is_decoy_id p.

Lemma purge_same_class ps : wf_ids ps -> same_class (remove_decoy_proteins_from_target_peptides ps).
Proof.
  intros Hwf. unfold remove_decoy_proteins_from_target_peptides. destruct (is_decoy ps) eqn:E.
  - intros x y Hx Hy.
    assert (Hall : forall p, In p ps -> is_decoy_id p = true).
    { intros p Hp. rewrite <- (Hwf p Hp). unfold is_decoy, all_contain in E. apply orb_prop in E.
      destruct E as [E|E]; rewrite forallb_forall in E; rewrite (E p Hp); [reflexivity | apply orb_true_r]. }
    rewrite (Hall x Hx), (Hall y Hy). reflexivity.
  - intros x y Hx Hy. apply filter_In in Hx. apply filter_In in Hy. destruct Hx as [_ Hx], Hy as [_ Hy].
    apply negb_true_iff in Hx. apply negb_true_iff in Hy. congruence.
Qed.

Lemma group_purity (m : pmap) : NoDup (map fst m) ->
  (forall e ps, In (e, ps) m -> same_class ps) ->
  forall g, In g (subset_grouping m) -> same_class g.
Proof.
  intros Hk Hpure g Hg.
  destruct g as [|l tl] eqn:Eg; [intros x y []|]. rewrite <- Eg in *.
  assert (Hlead : forall x, In x g -> is_decoy_id x = is_decoy_id l).
  { intros x Hx.
    assert (Hxp : In x (prot_order m)) by (eapply (subset_only_observed m Hk); eassumption).
    apply (prots_In m) in Hxp. destruct Hxp as [e He].
    pose proof (subset_leader_contains m Hk g l tl x Hg Eg Hx e He) as Hel.
    apply (peptides_of_In m) in He. destruct He as [ps [Hin Hxps]].
    apply (peptides_of_In m) in Hel. destruct Hel as [ps' [Hin' Hlps]].
    assert (ps = ps') by (rewrite <- (proteins_of_entry m Hk e ps Hin), <- (proteins_of_entry m Hk e ps' Hin'); reflexivity).
    subst ps'. apply (Hpure e ps Hin); assumption. }
  intros x y Hx Hy. rewrite (Hlead x Hx), (Hlead y Hy). reflexivity.
Qed.

(* ---------- Percolator flanks: "x.BODY.y" is recognised whatever x and y are, and stripping gives BODY back ---------- *)
Lemma has_flanks_spec (a b : N) (body : str) : has_flanks (a :: 46%N :: body ++ [46%N; b]) = true.
Proof.
  unfold has_flanks. apply andb_true_intro. split; [apply andb_true_intro; split|].
  - apply Nat.leb_le. cbn [length]. rewrite app_length. cbn [length]. lia.
  - reflexivity.
  - change (a :: 46%N :: body ++ [46%N; b]) with ([a; 46%N] ++ body ++ [46%N; b]).
    rewrite !rev_app_distr. reflexivity.
Qed.

Lemma strip_flanks_spec (a b : N) (body : str) : strip_flanks (a :: 46%N :: body ++ [46%N; b]) = body.
Proof.
  unfold strip_flanks. cbn [skipn length]. rewrite app_length. cbn [length].
  replace (S (S (length body + 2)) - 4)%nat with (length body + 0)%nat by lia.
  rewrite firstn_app_2. cbn [firstn]. apply app_nil_r.
Qed.

(* an unflanked peptide of residues (no dot at all) is left alone *)
Lemma no_dot_no_flanks (s : str) : ~ In 46%N s -> has_flanks s = false.
Proof.
  intros H. unfold has_flanks. destruct s as [|x [|c r]]; [reflexivity | reflexivity |].
  assert (Hc : N.eqb c 46%N = false).
  { apply N.eqb_neq. intros ->. apply H. right. left. reflexivity. }
  cbn [second_is_dot]. rewrite Hc. rewrite andb_false_r. reflexivity.
Qed.

Lemma flanks_recognised_and_stripped (a b : N) (body : str) :
  has_flanks (a :: 46%N :: body ++ [46%N; b]) = true /\ strip_flanks (a :: 46%N :: body ++ [46%N; b]) = body.
Proof. split; [apply has_flanks_spec | apply strip_flanks_spec]. Qed.

