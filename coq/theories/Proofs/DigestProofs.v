From PGF Require Import Base.Prelude Base.PyStr Model.Digest.

(* a cleavage site is exactly a position after a 'pre' residue not followed by a 'not_post' residue,
   or before a 'post' residue *)
Lemma inl_In c l : inl c l = true <-> In c l.
Proof.
  unfold inl. rewrite existsb_exists. split.
  - intros [x [Hx E]]. apply N.eqb_eq in E. subst. exact Hx.
  - intros H. exists c. split; [exact H | apply N.eqb_refl].
Qed.

Lemma is_enzymatic_rule e a b :
  is_enzymatic e a b = true <-> (In a (pre e) /\ ~ In b (not_post e)) \/ In b (post e).
Proof.
  unfold is_enzymatic. rewrite orb_true_iff, andb_true_iff, negb_true_iff, !inl_In. split.
  - intros [[H1 H2]|H]; [left; split; [exact H1|] | right; exact H].
    intros Hb. apply inl_In in Hb. congruence.
  - intros [[H1 H2]|H]; [left; split; [exact H1|] | right; exact H].
    destruct (inl b (not_post e)) eqn:E; [apply inl_In in E; contradiction | reflexivity].
Qed.

Lemma site_rule e s b :
  site e s b = true <->
  1 <= b < length s /\ ((In (at_ s (b - 1)) (pre e) /\ ~ In (at_ s b) (not_post e)) \/ In (at_ s b) (post e)).
Proof.
  unfold site. rewrite !andb_true_iff, Nat.leb_le, Nat.ltb_lt, is_enzymatic_rule. tauto.
Qed.

(* the declarative rule, as a proposition *)
Lemma spec_digest_In e k s mn mx mc met p :
  In p (spec_digest e k s mn mx mc met) <->
  exists a b, spec_ok e k s mn mx mc met a b = true /\ p = slice s a b.
Proof.
  unfold spec_digest. rewrite in_flat_map. split.
  - intros [a [_ H]]. apply in_flat_map in H. destruct H as [b [_ H]].
    destruct (spec_ok e k s mn mx mc met a b) eqn:E; [|destruct H]. destruct H as [<-|[]].
    exists a, b. split; [exact E | reflexivity].
  - intros [a [b [E ->]]].
    assert (Hb : b <= length s /\ a < b).
    { unfold spec_ok in E. rewrite !andb_true_iff, Nat.ltb_lt, Nat.leb_le in E. lia. }
    exists a. split; [apply in_seq; lia|]. apply in_flat_map. exists b. split; [apply in_seq; lia|].
    rewrite E. left. reflexivity.
Qed.

(* ---- non-specific digestion: every substring within the length window, nothing else ---- *)
Lemma non_specific_digest_spec e s mn mx mc met p :
  1 <= mn ->
  (In p (non_specific_digest s mn mx) <-> In p (spec_digest e 0 s mn mx mc met)).
Proof.
  intros Hmn. rewrite spec_digest_In. unfold non_specific_digest. rewrite in_flat_map. split.
  - intros [i [Hi H]]. apply in_flat_map in H. destruct H as [j [Hj H]].
    apply in_seq in Hi. apply in_seq in Hj.
    destruct (Nat.leb j (length s)) eqn:E; [|destruct H]. destruct H as [<-|[]].
    apply Nat.leb_le in E. exists i, j. split; [|reflexivity].
    unfold spec_ok, in_window. rewrite !andb_true_iff, Nat.ltb_lt, !Nat.leb_le. lia.
  - intros [a [b [E ->]]]. unfold spec_ok, in_window in E.
    rewrite !andb_true_iff, Nat.ltb_lt, !Nat.leb_le in E.
    exists a. split; [apply in_seq; lia|]. apply in_flat_map. exists b. split; [apply in_seq; lia|].
    destruct (Nat.leb_spec b (length s)); [left; reflexivity | lia].
Qed.

(* ---- finite sweeps for the full and semi-specific digests (the bound is part of the statement) ---- *)
Fixpoint allseq (alpha : list N) (n : nat) : list str :=
  match n with
  | O => [[]]
  | S k => flat_map (fun t => map (fun c => c :: t) alpha) (allseq alpha k)
  end.
Definition seqs_upto (alpha : list N) (n : nat) : list str :=
  filter (fun s => negb (Nat.eqb (length s) 0)) (flat_map (allseq alpha) (seq 0 (S n))).

(* residues: A other, K pre, P not_post, D post, M *)
Definition rA := 65%N. Definition rK := 75%N. Definition rP := 80%N. Definition rD := 68%N.
Definition alpha5 : list N := [rA; rK; rP; rD; resM].
Definition shapes : list enzyme :=
  [ {| pre := [rK]; not_post := [rP]; post := [] |};
    {| pre := []; not_post := []; post := [rD] |};
    {| pre := [resM]; not_post := []; post := [] |};
    {| pre := [rK]; not_post := [rP]; post := [rD] |};
    {| pre := [rK; resM]; not_post := []; post := [] |} ].
Definition windows : list (nat * nat) := [(1, 3); (2, 4); (3, 3); (1, 8); (2, 2)].
Definition budgets : list nat := [0; 1; 2].

Definition tails4 : list str := flat_map (allseq alpha5) (seq 0 5).    (* all sequences of length 0..4 *)

(* one shard of the sweep: all sequences of length 1..5 that start with residue c *)
Definition sweep (d : digestion) (c : N) : bool :=
  forallb (fun t =>
    let s := c :: t in
    forallb (fun e =>
      forallb (fun w =>
        forallb (fun mc =>
          forallb (fun met =>
            same_set (get_digested_peptides e d s (fst w) (snd w) mc met)
                     (spec_digest e (k_of d) s (fst w) (snd w) mc met))
          [false; true]) budgets) windows) shapes) tails4.

Lemma sweep_spec d c : sweep d c = true ->
  forall t e w mc met, In t tails4 -> In e shapes -> In w windows -> In mc budgets ->
  same_set (get_digested_peptides e d (c :: t) (fst w) (snd w) mc met)
           (spec_digest e (k_of d) (c :: t) (fst w) (snd w) mc met) = true.
Proof.
  unfold sweep. intros H t e w mc met Ht He Hw Hmc.
  rewrite forallb_forall in H. specialize (H t Ht). cbv zeta in H.
  rewrite forallb_forall in H. specialize (H e He).
  rewrite forallb_forall in H. specialize (H w Hw).
  rewrite forallb_forall in H. specialize (H mc Hmc).
  rewrite forallb_forall in H. apply H. destruct met; simpl; auto.
Qed.

Lemma same_set_In x y : same_set x y = true -> forall p, In p x <-> In p y.
Proof.
  unfold same_set, subset_strs. rewrite andb_true_iff, !forallb_forall. intros [H1 H2] p.
  split; intros H; apply mem_str_In; [apply H1 | apply H2]; exact H.
Qed.

(* membership in the enumerated domain, readably *)
Lemma allseq_In alpha : forall n t, length t = n -> Forall (fun c => In c alpha) t -> In t (allseq alpha n).
Proof.
  induction n as [|n IH]; intros t Hl Hf.
  - destruct t; [left; reflexivity | discriminate].
  - destruct t as [|c t]; [discriminate|]. simpl in Hl. inversion Hf; subst. simpl.
    apply in_flat_map. exists t. split; [apply IH; [lia | assumption]|].
    apply in_map_iff. exists c. split; [reflexivity | assumption].
Qed.

Lemma tails4_In t : length t <= 4 -> Forall (fun c => In c alpha5) t -> In t tails4.
Proof.
  intros Hl Hf. unfold tails4. apply in_flat_map. exists (length t). split; [apply in_seq; lia|].
  apply allseq_In; [reflexivity | exact Hf].
Qed.
