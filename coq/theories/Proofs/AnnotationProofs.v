From PGF Require Import Base.Prelude Base.PyStr Base.StableSort Model.Digest Model.Grouping Model.Fasta Model.Annotation.

(* ---------- str.split with a multi-character separator ---------- *)
Lemma skipn_length_le {A} n (l : list A) : length (skipn n l) <= length l.
Proof. rewrite skipn_length. lia. Qed.

(* enough fuel is enough *)
Lemma split_fuel_irrelevant sep : sep <> [] -> forall f1 f2 cur s,
  S (length s) <= f1 -> S (length s) <= f2 -> split_fuel f1 sep cur s = split_fuel f2 sep cur s.
Proof.
  intros Hsep. induction f1 as [|f1 IH]; intros f2 cur s H1 H2; [lia|].
  destruct f2 as [|f2]; [lia|]. simpl. destruct s as [|c s']; [reflexivity|].
  destruct (startswith sep (c :: s')) eqn:E.
  - f_equal. apply IH.
    + assert (length (skipn (length sep) (c :: s')) < length (c :: s')).
      { rewrite skipn_length. destruct sep; [congruence|]. simpl. lia. }
      lia.
    + assert (length (skipn (length sep) (c :: s')) < length (c :: s')).
      { rewrite skipn_length. destruct sep; [congruence|]. simpl. lia. }
      lia.
  - apply IH; simpl in *; lia.
Qed.

(* no occurrence at any of the first [length a] positions *)
Definition no_match_in (sep a tail : str) : Prop :=
  forall i, i < length a -> startswith sep (skipn i (a ++ tail)) = false.

Lemma split_fuel_first sep tail : sep <> [] -> forall a cur fuel,
  S (length a + length tail) <= fuel -> no_match_in sep a tail ->
  split_fuel fuel sep cur (a ++ tail) = split_fuel (fuel - length a) sep (rev a ++ cur) tail.
Proof.
  intros Hsep. induction a as [|c a IH]; intros cur fuel Hf Hno; simpl.
  - rewrite Nat.sub_0_r. reflexivity.
  - destruct fuel as [|fuel]; [simpl in Hf; lia|]. simpl.
    assert (H0 : startswith sep (c :: a ++ tail) = false) by (apply (Hno 0); simpl; lia).
    rewrite H0. rewrite IH.
    + rewrite <- app_assoc. reflexivity.
    + simpl in Hf. lia.
    + intros i Hi. apply (Hno (S i)). simpl. lia.
Qed.

Lemma split_fuel_at_sep sep b f cur : sep <> [] ->
  split_fuel (S f) sep cur (sep ++ b) = rev cur :: split_fuel f sep [] b.
Proof.
  intros Hsep. destruct sep as [|c0 sep']; [congruence|].
  change (split_fuel (S f) (c0 :: sep') cur ((c0 :: sep') ++ b)) with
    (if startswith (c0 :: sep') ((c0 :: sep') ++ b)
     then rev cur :: split_fuel f (c0 :: sep') [] (skipn (length (c0 :: sep')) ((c0 :: sep') ++ b))
     else split_fuel f (c0 :: sep') (c0 :: cur) (sep' ++ b)).
  rewrite startswith_app, skipn_app, skipn_all, Nat.sub_diag. reflexivity.
Qed.

(* B: the first occurrence of the separator ends the first piece *)
Lemma split_on_first sep a b : sep <> [] -> no_match_in sep a (sep ++ b) ->
  split_on sep (a ++ sep ++ b) = a :: split_on sep b.
Proof.
  intros Hsep Hno. unfold split_on.
  rewrite (split_fuel_first sep (sep ++ b) Hsep a [] _); [|rewrite !app_length; lia | exact Hno].
  rewrite app_nil_r.
  replace (S (length (a ++ sep ++ b)) - length a) with (S (length (sep ++ b))) by (rewrite !app_length; lia).
  rewrite split_fuel_at_sep by exact Hsep. rewrite rev_involutive. f_equal.
  apply split_fuel_irrelevant; [exact Hsep | rewrite app_length; destruct sep; [congruence | simpl; lia] | lia].
Qed.

(* A: without an occurrence nothing is split *)
Lemma split_on_none sep a : sep <> [] -> no_match_in sep a [] -> split_on sep a = [a].
Proof.
  intros Hsep Hno. unfold split_on. rewrite <- (app_nil_r a) at 2.
  rewrite (split_fuel_first sep [] Hsep a [] _); [|simpl; lia | exact Hno].
  replace (S (length a) - length a) with 1 by lia. simpl. rewrite !app_nil_r, rev_involutive. reflexivity.
Qed.

(* a separator that starts with a character occurring nowhere else in it (" OS=", " GN=", " PE=", " ", "|") cannot
   straddle the end of a piece that does not contain it *)
Lemma startswith_contains p s : startswith p s = true -> contains p s = true.
Proof. intros H. destruct s; simpl; rewrite H; reflexivity. Qed.

Lemma contains_skipn p i : forall s, contains p (skipn i s) = true -> contains p s = true.
Proof.
  induction i as [|i IH]; intros s H; [exact H|]. destruct s as [|c s]; [exact H|].
  simpl in H. simpl. rewrite (IH s H). apply orb_true_r.
Qed.

Lemma startswith_prefix_of_app : forall (p a t : str),
  startswith p (a ++ t) = true -> length p <= length a -> startswith p a = true.
Proof.
  induction p as [|x p IH]; intros a t H Hl; [reflexivity|].
  destruct a as [|y a]; [simpl in Hl; lia|]. simpl in *. apply andb_prop in H. destruct H as [H1 H2].
  rewrite H1. simpl. apply (IH a t H2). lia.
Qed.

Lemma startswith_long : forall (p a t : str),
  startswith p (a ++ t) = true -> length a < length p ->
  exists q, p = a ++ q /\ q <> [] /\ startswith q t = true.
Proof.
  induction p as [|x p IH]; intros a t H Hl; [simpl in Hl; lia|].
  destruct a as [|y a].
  - exists (x :: p). split; [reflexivity|]. split; [discriminate | exact H].
  - simpl in *. apply andb_prop in H. destruct H as [H1 H2]. apply N.eqb_eq in H1. subst y.
    destruct (IH a t H2) as [q [-> [Hq Hs]]]; [lia|]. exists q. split; [reflexivity|]. split; assumption.
Qed.

Lemma no_straddle c rest a b :
  ~ In c rest -> contains (c :: rest) a = false -> no_match_in (c :: rest) a ((c :: rest) ++ b).
Proof.
  intros Hc Hna i Hi.
  destruct (startswith (c :: rest) (skipn i (a ++ (c :: rest) ++ b))) eqn:E; [|reflexivity]. exfalso.
  rewrite skipn_app in E. replace (i - length a) with 0 in E by lia. cbn [skipn] in E.
  set (a' := skipn i a) in *. assert (Hl : length a' = length a - i) by (unfold a'; apply skipn_length).
  destruct (Nat.le_gt_cases (length (c :: rest)) (length a')) as [Hle|Hgt].
  - apply startswith_prefix_of_app in E; [|exact Hle]. apply startswith_contains in E.
    apply contains_skipn in E. congruence.
  - destruct (startswith_long _ _ _ E Hgt) as [q [Hq [Hne Hs]]].
    (* a' is a non-empty proper prefix of the separator, so q is a suffix of [rest]; but q starts with c *)
    destruct a' as [|y a'']; [simpl in Hl; lia|]. simpl in Hq. inversion Hq as [[Hy Hr]].
    destruct q as [|z q]; [congruence|]. simpl in Hs. apply andb_prop in Hs. destruct Hs as [Hz _].
    apply N.eqb_eq in Hz. subst z. apply Hc. rewrite Hr. apply in_or_app. right. left. reflexivity.
Qed.

Lemma no_match_of_not_contains sep a : contains sep a = false -> no_match_in sep a [].
Proof.
  intros H i Hi. rewrite app_nil_r.
  destruct (startswith sep (skipn i a)) eqn:E; [|reflexivity].
  apply startswith_contains, contains_skipn in E. congruence.
Qed.

(* the two facts the header parsers rest on *)
Lemma split_field c rest a b : ~ In c rest -> contains (c :: rest) a = false ->
  split_on (c :: rest) (a ++ (c :: rest) ++ b) = a :: split_on (c :: rest) b.
Proof. intros Hc Hn. apply split_on_first; [discriminate | apply no_straddle; assumption]. Qed.

Lemma split_whole sep a : sep <> [] -> contains sep a = false -> split_on sep a = [a].
Proof. intros Hs Hn. apply split_on_none; [exact Hs | apply no_match_of_not_contains; exact Hn]. Qed.

Lemma split_on_hd_nonempty sep s : exists x r, split_on sep s = x :: r.
Proof.
  unfold split_on. generalize (@nil N) as cur. generalize (S (length s)) as fuel. revert s.
  intros s fuel. revert s. induction fuel as [|f IH]; intros s cur; simpl; [eauto|].
  destruct s as [|c s']; [eauto|]. destruct (startswith sep (c :: s')); [eauto | apply IH].
Qed.

(* join is a left inverse of split *)
Lemma join_cons_nonempty sep x r : r <> [] -> join sep (x :: r) = x ++ sep ++ join sep r.
Proof. destruct r; [congruence | reflexivity]. Qed.

Lemma split_fuel_nonempty sep : forall f cur s, split_fuel f sep cur s <> [].
Proof. induction f as [|f IH]; intros cur s; simpl; [discriminate|]. destruct s; [discriminate|]. destruct (startswith sep (n :: s)); [discriminate | apply IH]. Qed.

Lemma join_split_fuel sep : sep <> [] -> forall f cur s, S (length s) <= f ->
  join sep (split_fuel f sep cur s) = rev cur ++ s.
Proof.
  intros Hsep. induction f as [|f IH]; intros cur s Hf; [lia|]. simpl. destruct s as [|c s'].
  - simpl. rewrite app_nil_r. reflexivity.
  - destruct (startswith sep (c :: s')) eqn:E.
    + rewrite join_cons_nonempty by apply split_fuel_nonempty. rewrite IH.
      * simpl. apply startswith_spec in E. destruct E as [t Ht]. rewrite Ht.
        rewrite skipn_app, skipn_all, Nat.sub_diag. reflexivity.
      * assert (length (skipn (length sep) (c :: s')) < length (c :: s')).
        { rewrite skipn_length. destruct sep; [congruence | simpl; lia]. }
        lia.
    + rewrite IH by (simpl in Hf; lia). simpl. rewrite <- app_assoc. reflexivity.
Qed.

Lemma join_split sep s : sep <> [] -> join sep (split_on sep s) = s.
Proof. intros H. unfold split_on. rewrite join_split_fuel by (try exact H; lia). reflexivity. Qed.

Lemma contains_single c a : contains [c] a = false <-> ~ In c a.
Proof.
  induction a as [|x a IH]; simpl; [split; [intros _ [] | reflexivity]|].
  rewrite orb_false_iff, IH. rewrite andb_true_r. split.
  - intros [H1 H2] [->|H]; [rewrite N.eqb_refl in H1; discriminate | contradiction].
  - intros H. split; [apply N.eqb_neq; intros ->; apply H; left; reflexivity | intros Hi; apply H; right; exact Hi].
Qed.

Lemma split_chr_first c a b : ~ In c a -> split_chr c (a ++ c :: b) = a :: split_chr c b.
Proof.
  induction a as [|x a IH]; intros H; simpl.
  - rewrite N.eqb_refl. reflexivity.
  - destruct (N.eqb x c) eqn:E; [apply N.eqb_eq in E; subst; exfalso; apply H; left; reflexivity|].
    rewrite IH by (intros Hi; apply H; right; exact Hi). reflexivity.
Qed.

Lemma split_OS a b : contains s_OS a = false -> split_on s_OS (a ++ s_OS ++ b) = a :: split_on s_OS b.
Proof. intros H. apply (split_field 32%N [79; 83; 61]%N a b); [simpl; intuition discriminate | exact H]. Qed.
Lemma split_GN a b : contains s_GN a = false -> split_on s_GN (a ++ s_GN ++ b) = a :: split_on s_GN b.
Proof. intros H. apply (split_field 32%N [71; 78; 61]%N a b); [simpl; intuition discriminate | exact H]. Qed.
Lemma split_PE a b : contains s_PE a = false -> split_on s_PE (a ++ s_PE ++ b) = a :: split_on s_PE b.
Proof. intros H. apply (split_field 32%N [80; 69; 61]%N a b); [simpl; intuition discriminate | exact H]. Qed.
Lemma split_sp a b : ~ In 32%N a -> split_on sp (a ++ sp ++ b) = a :: split_on sp b.
Proof. intros H. apply (split_field 32%N [] a b); [intros [] | apply contains_single; exact H]. Qed.
Lemma split_bar a b : ~ In 124%N a -> split_on bar (a ++ bar ++ b) = a :: split_on bar b.
Proof. intros H. apply (split_field 124%N [] a b); [intros [] | apply contains_single; exact H]. Qed.

(* ================= header fields ================= *)
Section Header.
Variables db acc entry rest : str.
Hypothesis db_ok : ~ In 124%N db /\ ~ In 32%N db.
Hypothesis acc_ok : ~ In 124%N acc /\ ~ In 32%N acc.
Hypothesis entry_ok : ~ In 124%N entry /\ ~ In 32%N entry.
Let id := db ++ bar ++ acc ++ bar ++ entry.
Let h := id ++ sp ++ rest.

Lemma id_nosp : ~ In 32%N id.
Proof.
  unfold id, bar. rewrite !in_app_iff. simpl. intros [H|[[H|[]]|[H|[[H|[]]|H]]]]; try discriminate; tauto.
Qed.

Lemma first_token : parse_until_first_space h = id.
Proof. unfold parse_until_first_space, h, sp, space. simpl app. rewrite split_chr_first by apply id_nosp. reflexivity. Qed.

Lemma id_has_bar : contains bar id = true.
Proof. apply contains_spec. exists db, (acc ++ bar ++ entry). reflexivity. Qed.

Lemma split_id : split_on bar id = [db; acc; entry].
Proof.
  unfold id. rewrite split_bar by apply db_ok. rewrite split_bar by apply acc_ok.
  rewrite split_whole; [reflexivity | discriminate | apply contains_single; apply entry_ok].
Qed.

(* the accession *)
Lemma uniprot_id_roundtrip : parse_uniprot_id h = acc.
Proof. unfold parse_uniprot_id. rewrite first_token, id_has_bar, split_id. reflexivity. Qed.

Lemma count_bars : 2 <= count_sub1 124%N id.
Proof.
  unfold count_sub1, id, bar. rewrite !filter_app, !app_length. simpl. lia.
Qed.

(* the entry name *)
Lemma entry_name_roundtrip : parse_entry_name h = entry.
Proof.
  unfold parse_entry_name. rewrite first_token, id_has_bar, split_id.
  destruct (Nat.leb_spec 2 (count_sub1 124%N id)) as [_|Hc]; [reflexivity | pose proof count_bars; lia].
Qed.

(* the full identifier *)
Lemma full_id_roundtrip : id_of IdFull h = Some id.
Proof. simpl. rewrite first_token. reflexivity. Qed.
End Header.

(* description: everything between the identifier and " OS=" *)
Lemma description_roundtrip idt desc rest :
  ~ In 32%N idt -> contains s_OS (idt ++ sp ++ desc) = false ->
  parse_protein_name (idt ++ sp ++ desc ++ s_OS ++ rest) = desc.
Proof.
  intros Hid Hno. unfold parse_protein_name.
  replace (idt ++ sp ++ desc ++ s_OS ++ rest) with ((idt ++ sp ++ desc) ++ s_OS ++ rest) by (rewrite <- !app_assoc; reflexivity).
  rewrite split_OS by exact Hno.
  unfold nth_str. cbn [nth]. rewrite split_sp by exact Hid.
  cbn [tl]. apply join_split. discriminate.
Qed.

(* gene name: the token after " GN=" *)
Lemma gene_name_roundtrip x g y :
  contains s_GN x = false -> ~ In 32%N g -> contains s_GN (g ++ sp ++ y) = false ->
  parse_gene_name (x ++ s_GN ++ g ++ sp ++ y) = Some g.
Proof.
  intros Hx Hg Hy. unfold parse_gene_name.
  assert (Hc : contains s_GN (x ++ s_GN ++ g ++ sp ++ y) = true) by (apply contains_spec; exists x, (g ++ sp ++ y); reflexivity).
  rewrite Hc. rewrite split_GN by exact Hx.
  rewrite (split_whole s_GN (g ++ sp ++ y)); [| discriminate | exact Hy]. unfold nth_str. cbn [nth].
  rewrite split_sp by exact Hg. reflexivity.
Qed.

Lemma gene_name_absent h : contains s_GN h = false -> parse_gene_name h = None.
Proof. intros H. unfold parse_gene_name. rewrite H. reflexivity. Qed.

(* organism (for headers that carry a gene name): between " OS=" and " GN=" *)
Lemma organism_roundtrip x org y :
  contains s_OS x = false -> contains s_GN org = false -> contains s_OS (org ++ s_GN ++ y) = false ->
  parse_organism (x ++ s_OS ++ org ++ s_GN ++ y) = Some org.
Proof.
  intros Hx Ho Hy. unfold parse_organism.
  assert (Hc : contains s_OS (x ++ s_OS ++ org ++ s_GN ++ y) = true) by (apply contains_spec; exists x, (org ++ s_GN ++ y); reflexivity).
  rewrite Hc. rewrite split_OS by exact Hx.
  rewrite (split_whole s_OS (org ++ s_GN ++ y)); [| discriminate | exact Hy]. unfold nth_str. cbn [nth].
  rewrite split_GN by exact Ho. reflexivity.
Qed.

(* existence level (a single digit 0-9 after " PE=") *)
Lemma existence_roundtrip x (d : N) y :
  (d <= 9)%N -> contains s_PE x = false -> contains s_PE ([(48 + d)%N] ++ sp ++ y) = false ->
  parse_existence (x ++ s_PE ++ [(48 + d)%N] ++ sp ++ y) = Ok (Some d).
Proof.
  intros Hd Hx Hy. unfold parse_existence.
  assert (Hc : contains s_PE (x ++ s_PE ++ [(48 + d)%N] ++ sp ++ y) = true) by (apply contains_spec; exists x, ([(48 + d)%N] ++ sp ++ y); reflexivity).
  rewrite Hc. rewrite split_PE by exact Hx.
  rewrite (split_whole s_PE ([(48 + d)%N] ++ sp ++ y)); [| discriminate | exact Hy]. unfold nth_str. cbn [nth].
  assert (Hns : ~ In 32%N [(48 + d)%N]) by (intros [H|[]]; lia).
  rewrite split_sp by exact Hns. cbn [nth].
  unfold parse_int, digit. cbn [forallb fold_left].
  assert (H1 : (48 <=? 48 + d)%N = true) by (apply N.leb_le; lia).
  assert (H2 : (48 + d <=? 57)%N = true) by (apply N.leb_le; lia).
  rewrite H1, H2. replace ((0 * 10 + (48 + d - 48))%N) with d by lia. reflexivity.
Qed.

(* the sequence length is the length of the sequence *)
Lemma length_is_sequence_length r h seq k a : mk_annot r (h, seq) = Ok (k, a) -> a_length a = length seq.
Proof. unfold mk_annot. simpl. destruct (parse_existence h); [|discriminate]. intros H. inversion H. reflexivity. Qed.

(* ================= dictionaries ================= *)
(* within one file the first record wins for a repeated identifier *)
Lemma single_loop_first r : forall recs d0 d k,
  single_loop r recs d0 = Ok d ->
  ad_get d k = match ad_get d0 k with
               | Some a => Some a
               | None => match find (fun rec => match mk_annot r rec with Ok (k', _) => okey_eqb k' k | Raise _ => false end) recs with
                         | Some rec => match mk_annot r rec with Ok (_, a) => Some a | Raise _ => None end
                         | None => None
                         end
               end.
Proof.
  assert (Hget_app : forall d0 k' a' k, ad_get (d0 ++ [(k', a')]) k =
            match ad_get d0 k with Some a => Some a | None => if okey_eqb k' k then Some a' else None end).
  { induction d0 as [|[k0 a0] d0 IH]; intros; simpl; [reflexivity|]. destruct (okey_eqb k0 k); [reflexivity | apply IH]. }
  assert (Hmem : forall d0 k, ad_mem d0 k = match ad_get d0 k with Some _ => true | None => false end).
  { induction d0 as [|[k0 a0] d0 IH]; intros; simpl; [reflexivity|]. destruct (okey_eqb k0 k); [reflexivity | apply IH]. }
  assert (Hsym : forall a b, okey_eqb a b = okey_eqb b a).
  { intros [x|] [y|]; simpl; try reflexivity. destruct (str_eqb x y) eqn:E1, (str_eqb y x) eqn:E2; try reflexivity.
    - apply str_eqb_eq in E1. subst. rewrite str_eqb_refl in E2. discriminate.
    - apply str_eqb_eq in E2. subst. rewrite str_eqb_refl in E1. discriminate. }
  assert (Heq : forall a b c, okey_eqb a b = true -> okey_eqb a c = okey_eqb b c).
  { intros [x|] [y|] [z|]; simpl; try discriminate; try reflexivity. intros H. apply str_eqb_eq in H. subst. reflexivity. }
  induction recs as [|rec recs IH]; intros d0 d k H; simpl in H.
  - inversion H; subst. simpl. destruct (ad_get d k); reflexivity.
  - destruct (mk_annot r rec) as [[k' a']|e] eqn:Em; [|discriminate]. simpl. rewrite Em.
    rewrite (IH _ _ k H). rewrite Hmem. destruct (ad_get d0 k') as [a0|] eqn:E0.
    + destruct (ad_get d0 k) eqn:Ek; [reflexivity|].
      destruct (okey_eqb k' k) eqn:Ekk; [|rewrite ?Em; reflexivity].
      (* k' = k but d0 has k' and not k: impossible *)
      exfalso. clear -E0 Ek Ekk Heq. induction d0 as [|[k0 a1] d0 IHd]; simpl in *; [discriminate|].
      destruct (okey_eqb k0 k') eqn:E1.
      * rewrite (Heq k0 k' k E1) in Ek. rewrite Ekk in Ek. discriminate.
      * destruct (okey_eqb k0 k); [discriminate | apply IHd; assumption].
    + rewrite Hget_app. destruct (ad_get d0 k); [reflexivity|]. destruct (okey_eqb k' k); rewrite ?Em; reflexivity.
Qed.

(* ================= columns ================= *)
Lemma dedup_ext : forall l s1 s2, (forall y, mem_str y s1 = mem_str y s2) -> dedup s1 l = dedup s2 l.
Proof.
  induction l as [|x l IH]; intros s1 s2 H; simpl; [reflexivity|]. rewrite (H x).
  destruct (mem_str x s2); [apply IH; exact H|]. f_equal. apply IH. intros y.
  unfold mem_str. simpl. fold (mem_str y s1). fold (mem_str y s2). rewrite (H y). reflexivity.
Qed.

Lemma once_fold_gen : forall l acc, fold_left (fun a x => add_once x a) l acc = acc ++ dedup acc l.
Proof.
  induction l as [|x l IH]; intros acc; simpl; [rewrite app_nil_r; reflexivity|].
  rewrite IH. unfold add_once. destruct (mem_str x acc) eqn:E; [reflexivity|].
  rewrite <- app_assoc. simpl. f_equal. f_equal. apply dedup_ext. intros y.
  unfold mem_str. rewrite existsb_app. simpl. rewrite orb_false_r. apply orb_comm.
Qed.

(* each distinct value once, in the order of the row's proteins *)
Lemma once_fold_dedup l : once_fold l = dedup [] l.
Proof. unfold once_fold. rewrite once_fold_gen. reflexivity. Qed.

Lemma columns_follow_row_order d ids :
  annotation_columns d ids =
  (join [59%N] (dedup [] (map a_id (found_annots d ids))),
   join [59%N] (dedup [] (flat_map (fun a => match a_gene a with Some g => [g] | None => [] end) (found_annots d ids))),
   join [59%N] (dedup [] (map a_header (found_annots d ids)))).
Proof. unfold annotation_columns. rewrite !once_fold_dedup. reflexivity. Qed.

(* ================= gene-level reporting ================= *)
Lemma gene_level_rule files (uu : bool) d :
  multiple (if uu then IdUniprot else IdFull) files [] = Ok d -> d <> (@nil (okey * annot)) ->
  get_protein_annotations files true uu =
  if Nat.ltb (length d) (2 * length (filter (fun kv => has_gene (snd kv)) d))
  then match multiple IdGene files [] with Ok d2 => Ok (d2, false) | Raise e => Raise e end
  else Ok (d, true).
Proof.
  intros H Hne. unfold get_protein_annotations. rewrite H. unfold has_gene_names.
  destruct d; [congruence|]. reflexivity.
Qed.

Lemma protein_level_rule files (uu : bool) :
  get_protein_annotations files false uu =
  match multiple (if uu then IdUniprot else IdFull) files [] with Ok d => Ok (d, false) | Raise e => Raise e end.
Proof. unfold get_protein_annotations. destruct (multiple _ files []); reflexivity. Qed.
