(* C09: read_fasta's line loop gives back the records of a well-formed FASTA text. *)
From PGF Require Import Base.Prelude Base.PyStr Base.StableSort Model.Digest Model.Grouping Model.Fasta.
From Coq Require Import Lia.

Record frec := { f_hdr : str; f_chunks : list str }.

Definition render_rec (r : frec) : list str := (gt :: f_hdr r) :: f_chunks r.
Definition render_fasta (recs : list frec) : list str := flat_map render_rec recs.

Definition chunk_wf (c : str) : Prop := c <> [] /\ rstrip c = c /\ hd 0%N c <> gt.

Section Loop.
Variable parse_id : str -> str.
Variable db : dbmode.
Variable special : list N.

Definition rec_wf (r : frec) : Prop :=
  f_hdr r <> [] /\ rstrip (f_hdr r) = f_hdr r /\ parse_id (f_hdr r) <> [] /\ Forall chunk_wf (f_chunks r).

Definition rec_out (r : frec) : list (str * str) := emit db special (parse_id (f_hdr r)) (concat (f_chunks r)).

Lemma rstrip_cons_stable c r : r <> [] -> rstrip r = r -> rstrip (c :: r) = c :: r.
Proof. intros Hne Hr. simpl. rewrite Hr. destruct r; [congruence | reflexivity]. Qed.

Lemma loop_chunks : forall chunks rest name seq, Forall chunk_wf chunks ->
  fasta_loop parse_id db special (chunks ++ rest) name seq = fasta_loop parse_id db special rest name (seq ++ concat chunks).
Proof.
  induction chunks as [|c chunks IH]; intros rest name seq Hwf; simpl; [rewrite app_nil_r; reflexivity|].
  inversion Hwf as [|? ? [Hne [Hr Hgt]] Hwf']; subst. rewrite Hr. destruct c as [|x c']; [congruence|].
  simpl in Hgt. destruct (N.eqb_spec x gt) as [->|_]; [congruence|].
  rewrite IH by exact Hwf'. rewrite <- app_assoc. reflexivity.
Qed.

Lemma loop_records : forall recs name seq, Forall rec_wf recs ->
  fasta_loop parse_id db special (render_fasta recs) name seq =
  (match name with Some n => match n with [] => [] | _ => emit db special n seq end | None => [] end) ++ flat_map rec_out recs.
Proof.
  induction recs as [|r recs IH]; intros name seq Hwf.
  - simpl. rewrite app_nil_r. reflexivity.
  - inversion Hwf as [|? ? [Hh [Hr [Hp Hc]]] Hwf']; subst.
    unfold render_fasta. cbn [flat_map]. unfold render_rec at 1. cbn [app fasta_loop].
    rewrite (rstrip_cons_stable gt (f_hdr r) Hh Hr). rewrite N.eqb_refl.
    destruct (f_hdr r) as [|h0 hs] eqn:Eh; [congruence|]. rewrite <- Eh.
    f_equal. fold (render_fasta recs).
    rewrite loop_chunks by exact Hc. rewrite IH by exact Hwf'. cbn [app].
    unfold rec_out at 2. destruct (parse_id (f_hdr r)) eqn:Ep; [congruence|]. reflexivity.
Qed.

(* the records of a well-formed FASTA text, in order: identifier = parse_id of the header line, sequence = the
   concatenated sequence lines; decoys as [emit] (C09_decoy_record) says *)
Theorem read_fasta_records recs : Forall rec_wf recs ->
  read_fasta parse_id db special (render_fasta recs) = flat_map rec_out recs.
Proof. intros H. unfold read_fasta. rewrite loop_records by exact H. reflexivity. Qed.
End Loop.

Corollary read_fasta_target parse_id special recs : Forall (rec_wf parse_id) recs ->
  read_fasta parse_id DbTarget special (render_fasta recs) = map (fun r => (parse_id (f_hdr r), concat (f_chunks r))) recs.
Proof.
  intros H. rewrite read_fasta_records by exact H. unfold rec_out, emit. cbn [app].
  clear H. induction recs as [|r recs IH]; [reflexivity|]. cbn [flat_map map app]. rewrite IH. reflexivity.
Qed.
