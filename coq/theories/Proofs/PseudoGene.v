(* C03, pseudo-gene clause: the algorithm (not only the checker) merges only proteins that are linked by shared peptides. *)
From PGF Require Import Base.Prelude Base.PyStr Base.StableSort Model.Fdr Model.Results Model.ProteinGroups Model.Grouping
  Model.GroupingCheck Model.Scoring Model.Rescue Proofs.ProteinGroupsProofs Proofs.GroupingProofs Proofs.GroupingCheckProofs
  Proofs.RescueProofs Proofs.RescueConnect.
From Coq Require Import Relations Lia Permutation.


(* ---------- the fuel-bounded closure is closed when the fuel covers the nodes ---------- *)
Lemma filter_nil_forall {A} (f : A -> bool) l : filter f l = [] -> forall x, In x l -> f x = false.
Proof.
  induction l as [|y l IH]; intros H x Hx; [destruct Hx|]. simpl in H. destruct (f y) eqn:E; [discriminate|].
  destruct Hx as [<-|Hx]; [exact E | apply IH; assumption].
Qed.

Lemma closure_start R nodes : forall fuel reach x, In x reach -> In x (closure fuel R nodes reach).
Proof.
  induction fuel as [|f IH]; intros reach x Hx; simpl; [exact Hx|].
  destruct (filter _ nodes) as [|n0 nx]; [exact Hx|]. apply IH. apply in_or_app. left. exact Hx.
Qed.

Lemma NoDup_filter' {A} (f : A -> bool) l : NoDup l -> NoDup (filter f l).
Proof.
  induction 1 as [|x l Hni Hnd IH]; simpl; [constructor|]. destruct (f x); [|exact IH].
  constructor; [|exact IH]. intros H. apply filter_In in H. apply Hni. apply H.
Qed.

Lemma closure_closed R nodes : NoDup nodes -> forall fuel reach,
  NoDup reach -> incl reach nodes -> length nodes - length reach < fuel ->
  forall r n, In r (closure fuel R nodes reach) -> In n nodes -> R r n = true -> In n (closure fuel R nodes reach).
Proof.
  intros Hnodes. induction fuel as [|f IH]; intros reach Hnd Hincl Hlen r n Hr Hn HR; [lia|]. simpl in *.
  destruct (filter (fun n0 => negb (mem_str n0 reach) && existsb (fun r0 => R r0 n0) reach) nodes) as [|n0 nx] eqn:En.
  - destruct (mem_str n reach) eqn:Em; [apply mem_str_In; exact Em|]. exfalso.
    pose proof (filter_nil_forall _ _ En n Hn) as Hf. cbv beta in Hf. rewrite Em in Hf. cbn [negb andb] in Hf.
    assert (Hex : existsb (fun r0 => R r0 n) reach = true) by (apply existsb_exists; exists r; split; assumption).
    congruence.
  - assert (Hnext : forall y, In y (n0 :: nx) -> In y nodes /\ ~ In y reach).
    { intros y Hy. rewrite <- En in Hy. apply filter_In in Hy. destruct Hy as [Hy Hb]. split; [exact Hy|].
      apply andb_true_iff in Hb. destruct Hb as [Hb _]. intros Hin. apply mem_str_In in Hin. rewrite Hin in Hb. discriminate. }
    assert (Hnd' : NoDup (reach ++ n0 :: nx)).
    { apply nodup_app; [exact Hnd | rewrite <- En; apply NoDup_filter'; exact Hnodes|].
      intros y Hy1 Hy2. apply (proj2 (Hnext y Hy2)). exact Hy1. }
    assert (Hincl' : incl (reach ++ n0 :: nx) nodes).
    { intros y Hy. apply in_app_or in Hy. destruct Hy as [Hy|Hy]; [apply Hincl; exact Hy | apply (Hnext y Hy)]. }
    apply (IH (reach ++ n0 :: nx) Hnd' Hincl') with (r := r); [|exact Hr | exact Hn | exact HR].
    pose proof (NoDup_incl_length Hnd' Hincl') as Hle. rewrite app_length in *. simpl in *. lia.
Qed.


Lemma closure_NoDup R nodes : NoDup nodes -> forall fuel reach, NoDup reach -> NoDup (closure fuel R nodes reach).
Proof.
  intros Hnodes. induction fuel as [|f IH]; intros reach Hnd; simpl; [exact Hnd|].
  destruct (filter (fun n0 => negb (mem_str n0 reach) && existsb (fun r0 => R r0 n0) reach) nodes) as [|n0 nx] eqn:En; [exact Hnd|].
  apply IH. apply nodup_app; [exact Hnd | rewrite <- En; apply NoDup_filter'; exact Hnodes|].
  intros y Hy1 Hy2. rewrite <- En in Hy2. apply filter_In in Hy2. destruct Hy2 as [_ Hb]. apply andb_true_iff in Hb. destruct Hb as [Hb _].
  apply mem_str_In in Hy1. rewrite Hy1 in Hb. discriminate.
Qed.

Section Pseudo.
Variable m : pmap.
Hypothesis m_keys : NoDup (map fst m).
Let s1 := generate_protein_groups m.
Let ix := index s1.
Let leaders := flat_map (fun g : list str => match g with [] => [] | x :: _ => [x] end) (groups s1).

Definition pstep (i j : nat) : Prop :=
  exists a b, lookup ix a = Some i /\ lookup ix b = Some j /\ share_peptide m a b = true.
Definition plinked : nat -> nat -> Prop := clos_refl_sym_trans nat pstep.

Lemma pl_sym i j : plinked i j -> plinked j i. Proof. apply rst_sym. Qed.
Lemma pl_trans i j k : plinked i j -> plinked j k -> plinked i k. Proof. apply rst_trans. Qed.

Lemma s1_nodup : NoDup (concat (groups s1)).
Proof. exact (subset_concat_NoDup m m_keys). Qed.

Lemma s1_slot_lookup i g x : nth_error (groups s1) i = Some g -> In x g -> lookup ix x = Some i.
Proof.
  intros Hn Hx. change ix with (build_index (groups s1) 0 []).
  destruct (lookup (build_index (groups s1) 0 []) x) as [k|] eqn:El.
  - apply lookup_build in El. destruct El as [[g' [_ [Hk Hx']]]|El]; [|discriminate].
    rewrite Nat.sub_0_r in Hk. f_equal. symmetry. exact (unique_slot _ _ _ _ _ _ s1_nodup Hn Hk Hx Hx').
  - exfalso. revert El. apply lookup_build_some. right. exists g. split; [eapply nth_error_In; exact Hn | exact Hx].
Qed.

Lemma s1_lookup_slot x i : lookup ix x = Some i -> exists g, nth_error (groups s1) i = Some g /\ In x g.
Proof.
  change ix with (build_index (groups s1) 0 []). intros El. apply lookup_build in El.
  destruct El as [[g [_ [Hk Hx]]]|El]; [|discriminate]. rewrite Nat.sub_0_r in Hk. exists g. auto.
Qed.

(* a member of a first-pass group is linked to the group's leading protein: the leader carries all its peptides *)
Lemma member_linked_leader g l tl x : In g (groups s1) -> g = l :: tl -> In x g -> linked m l x.
Proof.
  intros Hg Hgl Hx. destruct (str_eqb l x) eqn:E; [apply str_eqb_eq in E; subst; apply rt_refl|].
  apply linked_sym. apply rt_step. unfold adj, share_peptide. apply existsb_exists.
  assert (Hobs : In x (prot_order m)) by (eapply (subset_only_observed m m_keys); eassumption).
  apply (prots_In m) in Hobs. destruct Hobs as [e He]. exists e. split; [exact He|].
  apply mem_str_In. exact (subset_leader_contains m m_keys g l tl x Hg Hgl Hx e He).
Qed.

Lemma same_slot_linked x y i : lookup ix x = Some i -> lookup ix y = Some i -> linked m x y.
Proof.
  intros Hx Hy. destruct (s1_lookup_slot x i Hx) as [g [Hn Hxg]]. destruct (s1_lookup_slot y i Hy) as [g' [Hn' Hyg]].
  assert (g' = g) by congruence. subst g'.
  assert (Hg : In g (groups s1)) by (eapply nth_error_In; exact Hn).
  destruct g as [|l tl]; [destruct Hxg|].
  eapply rt_trans; [apply linked_sym; eapply member_linked_leader; [exact Hg | reflexivity | exact Hxg]
                   | eapply member_linked_leader; [exact Hg | reflexivity | exact Hyg]].
Qed.

(* linked slots hold linked proteins (and are inhabited together) *)
Lemma plinked_linked i j : plinked i j ->
  (forall x y, lookup ix x = Some i -> lookup ix y = Some j -> linked m x y) /\
  ((exists x, lookup ix x = Some i) <-> (exists y, lookup ix y = Some j)).
Proof.
  induction 1 as [i j [a [b [Ha [Hb Hab]]]] | i | i j H IH | i k j H1 IH1 H2 IH2].
  - split.
    + intros x y Hx Hy. eapply rt_trans; [eapply same_slot_linked; [exact Hx | exact Ha]|].
      eapply rt_trans; [apply rt_step; exact Hab | eapply same_slot_linked; [exact Hb | exact Hy]].
    + split; intros _; [exists b; exact Hb | exists a; exact Ha].
  - split; [intros x y Hx Hy; eapply same_slot_linked; eassumption | tauto].
  - destruct IH as [IHl IHe]. split; [intros x y Hx Hy; apply linked_sym; apply IHl; assumption | tauto].
  - destruct IH1 as [L1 E1]. destruct IH2 as [L2 E2]. split; [|tauto].
    intros x y Hx Hy. destruct (proj1 E1 (ex_intro _ x Hx)) as [z Hz].
    eapply rt_trans; [apply L1; [exact Hx | exact Hz] | apply L2; [exact Hz | exact Hy]].
Qed.

Lemma leader_has_slot n : In n leaders -> exists k, lookup ix n = Some k.
Proof.
  unfold leaders. rewrite in_flat_map. intros [g [Hg Hn]]. destruct g as [|p g']; [destruct Hn|]. destruct Hn as [<-|[]].
  apply In_nth_error in Hg. destruct Hg as [j Hj]. exists j. eapply s1_slot_lookup; [exact Hj | left; reflexivity].
Qed.

Lemma component_related u : In u leaders -> related ix plinked (isort str_leb (component m leaders u)).
Proof.
  intros Hu. destruct (leader_has_slot u Hu) as [iu Hiu].
  set (Q := fun x => exists j, lookup ix x = Some j /\ plinked iu j).
  assert (HQ : forall x, In x (component m leaders u) -> Q x).
  { unfold component. apply (closure_pred (share_peptide m) Q leaders).
    - intros r n [j [Hj Hl]] HR Hn. destruct (leader_has_slot n Hn) as [k Hk]. exists k. split; [exact Hk|].
      eapply pl_trans; [exact Hl|]. apply rst_step. exists r, n. auto.
    - intros r [<-|[]]. exists iu. split; [exact Hiu | apply rst_refl]. }
  intros a b Ha Hb. rewrite isort_In in Ha, Hb.
  destruct (HQ a Ha) as [ja [Hja Hla]]. destruct (HQ b Hb) as [jb [Hjb Hlb]].
  exists ja, jb. split; [exact Hja|]. split; [exact Hjb|]. eapply pl_trans; [apply pl_sym; exact Hla | exact Hlb].
Qed.

(* the merging loop keeps the slot invariant *)
Lemma pseudo_loop_slots : forall us s,
  (forall u, In u us -> In u leaders) -> index s = ix -> slots_ok ix plinked (groups s) ->
  let s2 := fold_left
    (fun s u =>
       let comp := isort str_leb (component m leaders u) in
       match comp with
       | l :: rest => if str_eqb l u
                      then fold_left (fun s' p => match merge_groups s' l p with Ok t => t | Raise _ => s' end) rest s
                      else s
       | [] => s
       end) us s in
  slots_ok ix plinked (groups s2) /\ index s2 = ix.
Proof.
  induction us as [|u us IH]; intros s Hus Hix Hok; cbn [fold_left]; [auto|].
  apply IH; [intros v Hv; apply Hus; right; exact Hv | |].
  - destruct (isort str_leb (component m leaders u)) as [|l rest] eqn:Ec; [exact Hix|].
    destruct (str_eqb l u); [|exact Hix].
    pose proof (component_related u (Hus u (or_introl eq_refl))) as Hrel. rewrite Ec in Hrel.
    exact (proj2 (merge_all_slots ix plinked pl_trans s (l :: rest) Hix Hrel Hok)).
  - destruct (isort str_leb (component m leaders u)) as [|l rest] eqn:Ec; [exact Hok|].
    destruct (str_eqb l u); [|exact Hok].
    pose proof (component_related u (Hus u (or_introl eq_refl))) as Hrel. rewrite Ec in Hrel.
    exact (proj1 (merge_all_slots ix plinked pl_trans s (l :: rest) Hix Hrel Hok)).
Qed.

(* C03: two proteins share a pseudo-gene group only if they are linked by a chain of shared peptides *)
Theorem pseudo_gene_groups_are_linked g x y :
  In g (pseudo_gene_grouping m) -> In x g -> In y g -> linked m x y.
Proof.
  intros Hg Hx Hy. unfold pseudo_gene_grouping in Hg. fold s1 in Hg. fold leaders in Hg.
  match type of Hg with In g (groups (remove_empty_groups ?t)) => set (s2 := t) in Hg end.
  assert (H2 : slots_ok ix plinked (groups s2) /\ index s2 = ix).
  { apply (pseudo_loop_slots leaders s1); [auto | reflexivity|].
    intros i g0 z Hn Hz. exists i. split; [eapply s1_slot_lookup; eassumption | apply rst_refl]. }
  destruct H2 as [Hok _].
  cbn [remove_empty_groups create_index groups] in Hg.
  destruct (filter_nonempty_slots ix plinked pl_sym pl_trans (groups s2) Hok g x y Hg Hx Hy) as [i [j [Hi [Hj Hl]]]].
  exact (proj1 (plinked_linked i j Hl) x y Hi Hj).
Qed.

(* ---------- components of the leader graph ---------- *)
Definition lstep (a b : str) : Prop := In a leaders /\ In b leaders /\ share_peptide m a b = true.
Definition lreach : str -> str -> Prop := clos_refl_trans str lstep.

Lemma groups_s1_nonempty g : In g (groups s1) -> g <> [].
Proof. exact (subset_no_empty_group m m_keys g). Qed.

Lemma leaders_heads : leaders = map (fun g => hd [] g) (groups s1).
Proof.
  unfold leaders. assert (H : forall g, In g (groups s1) -> g <> []) by exact groups_s1_nonempty.
  induction (groups s1) as [|g gs IH]; [reflexivity|]. cbn [flat_map map]. rewrite IH by (intros g' Hg'; apply H; right; exact Hg').
  destruct g as [|x g']; [exfalso; apply (H []); [left|]; reflexivity | reflexivity].
Qed.

Lemma leaders_NoDup : NoDup leaders.
Proof.
  unfold leaders. pose proof s1_nodup as Hnd. induction (groups s1) as [|g gs IH]; [constructor|].
  cbn [flat_map concat] in *. destruct (NoDup_app_inv _ _ Hnd) as [Hgs Hd]. destruct g as [|x g']; [apply IH; exact Hgs|].
  cbn [app]. constructor; [|apply IH; exact Hgs].
  intros Hin. apply in_flat_map in Hin. destruct Hin as [g2 [Hg2 Hx]]. destruct g2 as [|y g2']; [destruct Hx|]. destruct Hx as [<-|[]].
  apply (Hd y); [left; reflexivity|]. apply in_concat. exists (y :: g2'). split; [exact Hg2 | left; reflexivity].
Qed.

Lemma lstep_sym a b : lstep a b -> lstep b a.
Proof. intros [Ha [Hb H]]. split; [exact Hb|]. split; [exact Ha|]. apply (adj_sym m). exact H. Qed.

Lemma lreach_sym a b : lreach a b -> lreach b a.
Proof.
  induction 1 as [a b H | a | a b c H1 IH1 H2 IH2]; [apply rt_step, lstep_sym; exact H | apply rt_refl | eapply rt_trans; eassumption].
Qed.

Lemma comp_sound u v : In u leaders -> In v (component m leaders u) -> lreach u v /\ In v leaders.
Proof.
  intros Hu. unfold component. apply (closure_pred (share_peptide m) (fun x => lreach u x /\ In x leaders) leaders).
  - intros r n [Hr Hrl] HR Hn. split; [|exact Hn]. eapply rt_trans; [exact Hr|]. apply rt_step. split; [exact Hrl|]. split; [exact Hn | exact HR].
  - intros r [<-|[]]. split; [apply rt_refl | exact Hu].
Qed.

Lemma comp_complete u v : In u leaders -> lreach u v -> In v (component m leaders u).
Proof.
  intros Hu Hr.
  assert (G : forall a b, lreach a b -> In a (component m leaders u) -> In b (component m leaders u)).
  { induction 1 as [a b [Ha [Hb Hab]] | a | a b c H1 IH1 H2 IH2]; intros Hin; [|exact Hin | apply IH2, IH1, Hin].
    unfold component in *. apply (closure_closed (share_peptide m) leaders leaders_NoDup (length leaders) [u]) with (r := a).
    - constructor; [intros [] | constructor].
    - intros x [<-|[]]. exact Hu.
    - cbn [length]. destruct leaders; [destruct Hu | simpl; lia].
    - exact Hin.
    - exact Hb.
    - exact Hab. }
  apply (G u v Hr). unfold component. apply closure_start. left. reflexivity.
Qed.

Lemma comp_iff u v : In u leaders -> (In v (component m leaders u) <-> lreach u v /\ In v leaders).
Proof.
  intros Hu. split; [apply comp_sound; exact Hu | intros [H _]; apply comp_complete; assumption].
Qed.

Lemma comp_same u v w : In u leaders -> In v (component m leaders u) ->
  (In w (component m leaders v) <-> In w (component m leaders u)).
Proof.
  intros Hu Hv. destruct (comp_sound u v Hu Hv) as [Huv Hvl]. rewrite (comp_iff v w Hvl), (comp_iff u w Hu). split; intros [H Hw]; (split; [|exact Hw]).
  - eapply rt_trans; eassumption.
  - eapply rt_trans; [apply lreach_sym; exact Huv | exact H].
Qed.

(* the smallest member of a component (the protein the others are merged into) *)
Definition cmin (u : str) : str := match isort str_leb (component m leaders u) with l :: _ => l | [] => u end.

Lemma isort_head_min : forall (l : list str) h t, isort str_leb l = h :: t -> In h l /\ forall x, In x l -> str_leb h x = true.
Proof.
  intros l h t E. split; [apply (isort_In str_leb); rewrite E; left; reflexivity|].
  intros x Hx. apply (isort_In str_leb) in Hx. rewrite E in Hx.
  pose proof (isort_sorted_rel str_leb (fun a b => str_leb a b = true) (fun a b H => H)
                (fun a b H => match str_leb_total a b with or_introl H1 => ltac:(congruence) | or_intror H2 => H2 end)
                str_leb_trans l) as Hs.
  rewrite E in Hs. inversion Hs as [|? ? _ Hall]; subst. destruct Hx as [<-|Hx]; [|exact (proj1 (Forall_forall _ _) Hall x Hx)].
  destruct (str_leb_total h h); assumption.
Qed.

Lemma cmin_spec u : In u leaders -> In (cmin u) (component m leaders u) /\ forall x, In x (component m leaders u) -> str_leb (cmin u) x = true.
Proof.
  intros Hu. unfold cmin. destruct (isort str_leb (component m leaders u)) as [|h t] eqn:E.
  - exfalso. assert (Hin : In u (component m leaders u)) by (unfold component; apply closure_start; left; reflexivity).
    apply (isort_In str_leb) in Hin. rewrite E in Hin. destruct Hin.
  - exact (isort_head_min _ h t E).
Qed.

Lemma cmin_same u v : In u leaders -> In v (component m leaders u) -> cmin v = cmin u.
Proof.
  intros Hu Hv. destruct (comp_sound u v Hu Hv) as [_ Hvl].
  destruct (cmin_spec u Hu) as [Hmu Hlu]. destruct (cmin_spec v Hvl) as [Hmv Hlv].
  apply str_leb_antisym.
  - apply Hlv. apply (comp_same u v _ Hu Hv). exact Hmu.
  - apply Hlu. apply (comp_same u v _ Hu Hv). exact Hmv.
Qed.

(* ---------- what one merge and one merge_all do to the slots ---------- *)
Lemma nth_error_set_nth_same {A} : forall (l : list A) i v x, nth_error l i = Some x -> nth_error (set_nth l i v) i = Some v.
Proof. induction l as [|y l IH]; intros [|i] v x H; simpl in *; try discriminate; [reflexivity | eapply IH; exact H]. Qed.

Lemma merge_groups_effect s l p il ip gl gp :
  index s = ix -> lookup ix l = Some il -> lookup ix p = Some ip -> il <> ip ->
  nth_error (groups s) il = Some gl -> nth_error (groups s) ip = Some gp ->
  exists s', merge_groups s l p = Ok s' /\ index s' = ix /\
             nth_error (groups s') il = Some (gl ++ gp) /\ nth_error (groups s') ip = Some [] /\
             forall k, k <> il -> k <> ip -> nth_error (groups s') k = nth_error (groups s) k.
Proof.
  intros Hix Hl Hp Hne Hgl Hgp. unfold merge_groups. rewrite Hix, Hl, Hp, Hgl, Hgp. eexists. split; [reflexivity|].
  cbn [index groups]. split; [reflexivity|]. split; [|split].
  - rewrite nth_error_set_nth_other by congruence. eapply nth_error_set_nth_same. exact Hgl.
  - eapply nth_error_set_nth_same. rewrite nth_error_set_nth_other by exact Hne. exact Hgp.
  - intros k Hk1 Hk2. rewrite nth_error_set_nth_other by congruence. rewrite nth_error_set_nth_other by congruence. reflexivity.
Qed.

Lemma merge_all_effect l il : lookup ix l = Some il -> forall rest s gl,
  index s = ix -> nth_error (groups s) il = Some gl ->
  NoDup (map (lookup ix) rest) ->
  (forall p, In p rest -> exists ip gp, lookup ix p = Some ip /\ ip <> il /\ nth_error (groups s) ip = Some gp) ->
  let s' := merge_all s (l :: rest) in
  index s' = ix /\
  (exists g', nth_error (groups s') il = Some g' /\ incl gl g' /\
              forall p ip gp, In p rest -> lookup ix p = Some ip -> nth_error (groups s) ip = Some gp -> incl gp g') /\
  (forall k, k <> il -> (forall p, In p rest -> lookup ix p <> Some k) -> nth_error (groups s') k = nth_error (groups s) k).
Proof.
  intros Hl. induction rest as [|p rest IH]; intros s gl Hix Hgl Hnd Hall; cbn [merge_all fold_left].
  - split; [exact Hix|]. split; [exists gl; split; [exact Hgl|]; split; [apply incl_refl | intros p ip gp []] | reflexivity].
  - destruct (Hall p (or_introl eq_refl)) as [ip [gp [Hp [Hne Hgp]]]].
    destruct (merge_groups_effect s l p il ip gl gp Hix Hl Hp (not_eq_sym Hne) Hgl Hgp) as [s1' [Hm [Hix1 [Hil1 [Hip1 Hfr1]]]]].
    rewrite Hm. cbn [map] in Hnd. inversion Hnd as [|? ? Hni Hnd']; subst.
    assert (Hall' : forall q, In q rest -> exists iq gq, lookup ix q = Some iq /\ iq <> il /\ nth_error (groups s1') iq = Some gq).
    { intros q Hq. destruct (Hall q (or_intror Hq)) as [iq [gq [Hq1 [Hq2 Hq3]]]]. exists iq, gq. split; [exact Hq1|]. split; [exact Hq2|].
      rewrite Hfr1; [exact Hq3 | exact Hq2|]. intros E. subst iq. apply Hni. rewrite Hp, <- Hq1. apply in_map. exact Hq. }
    change (fold_left (fun s' p0 => match merge_groups s' l p0 with Ok t => t | Raise _ => s' end) rest s1') with (merge_all s1' (l :: rest)).
    destruct (IH s1' (gl ++ gp) Hix1 Hil1 Hnd' Hall') as [Hix2 [[g' [Hg' [Hinc Hrest]]] Hfr2]].
    split; [exact Hix2|]. split.
    + exists g'. split; [exact Hg'|]. split; [intros x Hx; apply Hinc; apply in_or_app; left; exact Hx|].
      intros q iq gq [<-|Hq] Hq1 Hq3.
      * assert (iq = ip) by congruence. subst iq. assert (gq = gp) by congruence. subst gq.
        intros x Hx. apply Hinc. apply in_or_app. right. exact Hx.
      * apply (Hrest q iq gq Hq Hq1). destruct (Hall' q Hq) as [iq' [gq' [Hq1' [Hq2' Hq3']]]].
        assert (iq' = iq) by congruence. subst iq'. rewrite Hq3'. rewrite Hfr1 in Hq3'; [congruence | exact Hq2'|].
        intros E. subst iq. apply Hni. rewrite Hp, <- Hq1. apply in_map. exact Hq.
    + intros k Hk Hnot. rewrite Hfr2; [|exact Hk | intros q Hq; apply Hnot; right; exact Hq].
      apply Hfr1; [exact Hk|]. intros E. subst k. apply (Hnot p (or_introl eq_refl)). exact Hp.
Qed.

(* ---------- leaders and their slots ---------- *)
Lemma leader_slot u : In u leaders -> exists i tl, nth_error (groups s1) i = Some (u :: tl) /\ lookup ix u = Some i.
Proof.
  unfold leaders. rewrite in_flat_map. intros [g [Hg Hn]]. destruct g as [|p g']; [destruct Hn|]. destruct Hn as [<-|[]].
  apply In_nth_error in Hg. destruct Hg as [j Hj]. exists j, g'. split; [exact Hj|]. eapply s1_slot_lookup; [exact Hj | left; reflexivity].
Qed.

Lemma leader_slot_inj u v : In u leaders -> In v leaders -> lookup ix u = lookup ix v -> u = v.
Proof.
  intros Hu Hv E. destruct (leader_slot u Hu) as [i [tl [Hi Hli]]]. destruct (leader_slot v Hv) as [j [tl' [Hj Hlj]]].
  assert (i = j) by congruence. subst j. congruence.
Qed.

Lemma comp_NoDup u : NoDup (component m leaders u).
Proof. unfold component. apply closure_NoDup; [exact leaders_NoDup | constructor; [intros [] | constructor]]. Qed.

Lemma cmin_leader u : In u leaders -> In (cmin u) leaders.
Proof. intros Hu. exact (proj2 (comp_sound u (cmin u) Hu (proj1 (cmin_spec u Hu)))). Qed.

Lemma cmin_idem u : In u leaders -> cmin (cmin u) = cmin u.
Proof. intros Hu. apply cmin_same; [exact Hu | exact (proj1 (cmin_spec u Hu))]. Qed.

Lemma in_comp_of_cmin u w : In u leaders -> In w leaders -> cmin w = cmin u -> In w (component m leaders u).
Proof.
  intros Hu Hw E. destruct (cmin_spec w Hw) as [Hmw _]. destruct (cmin_spec u Hu) as [Hmu _].
  rewrite E in Hmw. (* cmin u in comp w and in comp u *)
  apply comp_iff; [exact Hu|]. split; [|exact Hw].
  destruct (comp_sound u (cmin u) Hu Hmu) as [H1 _]. destruct (comp_sound w (cmin u) Hw Hmw) as [H2 _].
  eapply rt_trans; [exact H1 | apply lreach_sym; exact H2].
Qed.

(* ---------- the merging loop gathers every component in the slot of its smallest leader ---------- *)
Definition step_u (s : pgs) (u : str) : pgs :=
  match isort str_leb (component m leaders u) with
  | l :: rest => if str_eqb l u
                 then fold_left (fun s' p => match merge_groups s' l p with Ok t => t | Raise _ => s' end) rest s
                 else s
  | [] => s
  end.

Record LInv (s : pgs) (D : str -> Prop) : Prop := {
  li_ix : index s = ix;
  li_done : forall w iw ic gw, In w leaders -> D (cmin w) -> lookup ix w = Some iw -> lookup ix (cmin w) = Some ic ->
              nth_error (groups s1) iw = Some gw -> exists gc, nth_error (groups s) ic = Some gc /\ incl gw gc;
  li_todo : forall w iw, In w leaders -> ~ D (cmin w) -> lookup ix w = Some iw ->
              nth_error (groups s) iw = nth_error (groups s1) iw
}.

Lemma step_u_inv s D u : In u leaders -> ~ D u -> LInv s D -> LInv (step_u s u) (fun x => D x \/ x = u).
Proof.
  intros Hu HnD [Hix Hdone Htodo]. unfold step_u.
  destruct (cmin_spec u Hu) as [Hmin_in Hmin_le].
  destruct (isort str_leb (component m leaders u)) as [|l rest] eqn:Ec.
  { exfalso. assert (Hin : In u (component m leaders u)) by (unfold component; apply closure_start; left; reflexivity).
    apply (isort_In str_leb) in Hin. rewrite Ec in Hin. destruct Hin. }
  assert (Hl : l = cmin u) by (unfold cmin; rewrite Ec; reflexivity).
  destruct (str_eqb l u) eqn:El.
  - (* u is the smallest leader of its component: gather *)
    apply str_eqb_eq in El. assert (Hcu : cmin u = u) by (rewrite <- Hl; exact El). clear Hl. subst l.
    destruct (leader_slot u Hu) as [iu [tlu [Hgu Hlu]]].
    assert (Hperm : Permutation (u :: rest) (component m leaders u)) by (rewrite <- Ec; apply isort_perm).
    assert (Hnd : NoDup (u :: rest)) by (eapply Permutation_NoDup; [apply Permutation_sym; exact Hperm | apply comp_NoDup]).
    assert (Hrest_comp : forall p, In p rest -> In p (component m leaders u) /\ In p leaders /\ p <> u).
    { intros p Hp. assert (Hpc : In p (component m leaders u)) by (eapply Permutation_in; [exact Hperm | right; exact Hp]).
      split; [exact Hpc|]. split; [exact (proj2 (comp_sound u p Hu Hpc))|]. inversion Hnd as [|? ? Hni _]; subst. intros ->. contradiction. }
    assert (Hrest_cmin : forall p, In p rest -> cmin p = u).
    { intros p Hp. rewrite (cmin_same u p Hu (proj1 (Hrest_comp p Hp))). exact Hcu. }
    assert (Hgu_s : nth_error (groups s) iu = Some (u :: tlu)).
    { rewrite (Htodo u iu Hu); [exact Hgu | rewrite Hcu; exact HnD | exact Hlu]. }
    assert (Hnd_slots : NoDup (map (lookup ix) rest)).
    { inversion Hnd as [|? ? _ Hnd']; subst. clear -Hnd' Hrest_comp m_keys. induction rest as [|p rest IH]; [constructor|].
      inversion Hnd' as [|? ? Hni Hnd'']; subst. cbn [map]. constructor.
      - intros Hin. apply in_map_iff in Hin. destruct Hin as [q [Hq Hqr]]. apply Hni.
        assert (q = p); [|subst; exact Hqr].
        apply leader_slot_inj; [apply Hrest_comp; right; exact Hqr | apply Hrest_comp; left; reflexivity | exact Hq].
      - apply IH; [|exact Hnd'']. intros q Hq. apply Hrest_comp. right. exact Hq. }
    assert (Hall : forall p, In p rest -> exists ip gp, lookup ix p = Some ip /\ ip <> iu /\ nth_error (groups s) ip = Some gp).
    { intros p Hp. destruct (Hrest_comp p Hp) as [_ [Hpl Hpu]]. destruct (leader_slot p Hpl) as [ip [tlp [Hgp Hlp]]].
      exists ip, (p :: tlp). split; [exact Hlp|]. split.
      - intros E. subst ip. apply Hpu. apply leader_slot_inj; [exact Hpl | exact Hu | congruence].
      - rewrite (Htodo p ip Hpl); [exact Hgp | rewrite (Hrest_cmin p Hp); exact HnD | exact Hlp]. }
    destruct (merge_all_effect u iu Hlu rest s (u :: tlu) Hix Hgu_s Hnd_slots Hall) as [Hix' [[g' [Hg' [Hinc Hgather]]] Hframe]].
    change (fold_left (fun s' p => match merge_groups s' u p with Ok t => t | Raise _ => s' end) rest s) with (merge_all s (u :: rest)).
    (* which slots are untouched: those of leaders outside the component *)
    assert (Huntouched : forall w iw, In w leaders -> lookup ix w = Some iw -> cmin w <> u ->
              nth_error (groups (merge_all s (u :: rest))) iw = nth_error (groups s) iw).
    { intros w iw Hw Hlw Hcw. apply Hframe.
      - intros E. subst iw. apply Hcw. assert (w = u) by (apply leader_slot_inj; [exact Hw | exact Hu | congruence]). subst w. exact Hcu.
      - intros p Hp E. apply Hcw. assert (w = p); [|subst w; apply Hrest_cmin; exact Hp].
        apply leader_slot_inj; [exact Hw | apply Hrest_comp; exact Hp | congruence]. }
    constructor.
    + exact Hix'.
    + intros w iw ic gw Hw [HD|Hcw] Hlw Hlc Hgw.
      * (* a component gathered earlier: its slot is untouched *)
        destruct (Hdone w iw ic gw Hw HD Hlw Hlc Hgw) as [gc [Hgc Hincl]]. exists gc. split; [|exact Hincl].
        rewrite (Huntouched (cmin w) ic (cmin_leader w Hw) Hlc); [exact Hgc|].
        rewrite (cmin_idem w Hw). intros E. apply HnD. rewrite <- E. exact HD.
      * (* the component of u *)
        rewrite Hcw in Hlc. assert (ic = iu) by congruence. subst ic. exists g'. split; [exact Hg'|].
        assert (Hwc : In w (component m leaders u)) by (apply in_comp_of_cmin; [exact Hu | exact Hw | rewrite Hcw, Hcu; reflexivity]).
        assert (Hwu : In w (u :: rest)) by (eapply Permutation_in; [apply Permutation_sym; exact Hperm | exact Hwc]).
        destruct Hwu as [<-|Hwr].
        -- assert (iw = iu) by congruence. subst iw. assert (gw = u :: tlu) by congruence. subst gw. exact Hinc.
        -- destruct (Hall w Hwr) as [iw' [gw' [Hlw' [_ Hgw']]]]. assert (iw' = iw) by congruence. subst iw'.
           assert (gw' = gw) by (rewrite (Htodo w iw Hw) in Hgw'; [congruence | rewrite Hcw; exact HnD | exact Hlw]). subst gw'.
           apply (Hgather w iw gw Hwr Hlw). exact Hgw'.
    + intros w iw Hw HnD' Hlw.
      rewrite (Huntouched w iw Hw Hlw); [apply (Htodo w iw); [exact Hw | intros HD; apply HnD'; left; exact HD | exact Hlw]|].
      intros E. apply HnD'. right. exact E.
  - (* u is not the smallest of its component: nothing happens, and u is the minimum of no component *)
    assert (Hne : cmin u <> u) by (intros E; rewrite Hl, E, str_eqb_refl in El; discriminate).
    assert (Hnomin : forall w, In w leaders -> cmin w <> u).
    { intros w Hw E. apply Hne. rewrite <- E at 1. rewrite (cmin_idem w Hw). exact E. }
    constructor.
    + exact Hix.
    + intros w iw ic gw Hw [HD|E] Hlw Hlc Hgw; [exact (Hdone w iw ic gw Hw HD Hlw Hlc Hgw) | exfalso; exact (Hnomin w Hw E)].
    + intros w iw Hw HnD' Hlw. apply (Htodo w iw); [exact Hw | intros HD; apply HnD'; left; exact HD | exact Hlw].
Qed.

Lemma LInv_ext s D D' : (forall x, D x <-> D' x) -> LInv s D -> LInv s D'.
Proof.
  intros HE [H1 H2 H3]. constructor; [exact H1 | |].
  - intros w iw ic gw Hw HD. apply H2; [exact Hw | apply HE; exact HD].
  - intros w iw Hw HnD. apply H3; [exact Hw | intros HD; apply HnD; apply HE; exact HD].
Qed.

Lemma loop_inv : forall us s D, NoDup us -> (forall u, In u us -> In u leaders /\ ~ D u) -> LInv s D ->
  LInv (fold_left step_u us s) (fun x => D x \/ In x us).
Proof.
  induction us as [|u us IH]; intros s D Hnd Hus Hinv; cbn [fold_left].
  - eapply LInv_ext; [|exact Hinv]. intros x. split; [auto | intros [H|[]]; exact H].
  - inversion Hnd as [|? ? Hni Hnd']; subst. destruct (Hus u (or_introl eq_refl)) as [Hul HnD].
    pose proof (step_u_inv s D u Hul HnD Hinv) as Hstep.
    eapply LInv_ext; [|apply (IH (step_u s u) (fun x => D x \/ x = u) Hnd'); [|exact Hstep]].
    + intros x. cbn [In]. split; [intros [[H|H]|H]; auto | intros [H|[H|H]]; auto].
    + intros v Hv. destruct (Hus v (or_intror Hv)) as [Hvl HnDv]. split; [exact Hvl|].
      intros [H|H]; [exact (HnDv H) | subst v; exact (Hni Hv)].
Qed.

(* the leading protein of the first-pass group of a protein *)
Definition lead (x : str) : str :=
  match lookup ix x with
  | Some i => match nth_error (groups s1) i with Some (l :: _) => l | _ => x end
  | None => x
  end.

Lemma lead_spec x : In x (prot_order m) ->
  exists i tl, lookup ix x = Some i /\ nth_error (groups s1) i = Some (lead x :: tl) /\ In x (lead x :: tl) /\ In (lead x) leaders.
Proof.
  intros Hx. destruct (subset_covers m m_keys x Hx) as [g [Hg Hxg]]. change (subset_grouping m) with (groups s1) in Hg.
  destruct (In_nth_error _ _ Hg) as [i Hi]. pose proof (s1_slot_lookup i g x Hi Hxg) as Hl.
  destruct g as [|l tl]; [destruct Hxg|]. exists i, tl. unfold lead. rewrite Hl, Hi. split; [reflexivity|]. split; [reflexivity|]. split; [exact Hxg|].
  unfold leaders. apply in_flat_map. exists (l :: tl). split; [exact Hg | left; reflexivity].
Qed.

Lemma lead_in_leaders x : In x (prot_order m) -> In (lead x) leaders.
Proof. intros Hx. destruct (lead_spec x Hx) as [i [tl [_ [_ [_ H]]]]]. exact H. Qed.

Lemma adj_observed a b : adj m a b = true -> In a (prot_order m) /\ In b (prot_order m) /\
  exists e, In e (peptides_of m a) /\ In e (peptides_of m b).
Proof.
  unfold adj, share_peptide. rewrite existsb_exists. intros [e [Ha Hb]]. apply mem_str_In in Hb.
  split; [apply (prots_In m); exists e; exact Ha|]. split; [apply (prots_In m); exists e; exact Hb|]. exists e. auto.
Qed.

Lemma lead_contains x e : In x (prot_order m) -> In e (peptides_of m x) -> In e (peptides_of m (lead x)).
Proof.
  intros Hx He. destruct (lead_spec x Hx) as [i [tl [_ [Hn [Hin _]]]]].
  exact (subset_leader_contains m m_keys (lead x :: tl) (lead x) tl x (nth_error_In _ _ Hn) eq_refl Hin e He).
Qed.

Lemma linked_leaders x y : linked m x y -> In x (prot_order m) -> In y (prot_order m) /\ lreach (lead x) (lead y).
Proof.
  induction 1 as [a b Hab | a | a b c H1 IH1 H2 IH2]; intros Ha.
  - destruct (adj_observed a b Hab) as [_ [Hb [e [Hea Heb]]]]. split; [exact Hb|].
    apply rt_step. split; [exact (lead_in_leaders a Ha)|]. split; [exact (lead_in_leaders b Hb)|].
    unfold share_peptide. apply existsb_exists. exists e. split; [apply lead_contains; assumption | apply mem_str_In; apply lead_contains; assumption].
  - split; [exact Ha | apply rt_refl].
  - destruct (IH1 Ha) as [Hb R1]. destruct (IH2 Hb) as [Hc R2]. split; [exact Hc | eapply rt_trans; eassumption].
Qed.

Lemma pseudo_groups_unfold : pseudo_gene_grouping m = filter nonempty (groups (fold_left step_u leaders s1)).
Proof. reflexivity. Qed.

Lemma final_inv : LInv (fold_left step_u leaders s1) (fun x => In x leaders).
Proof.
  eapply LInv_ext; [|apply (loop_inv leaders s1 (fun _ => False) leaders_NoDup)].
  - intros x. cbv beta. tauto.
  - intros u Hu. split; [exact Hu | tauto].
  - constructor; [reflexivity | intros w iw ic gw _ [] | reflexivity].
Qed.

(* C03: proteins linked by a chain of shared peptides end up in ONE pseudo-gene group *)
Theorem linked_proteins_share_a_group x y :
  In x (prot_order m) -> linked m x y -> exists g, In g (pseudo_gene_grouping m) /\ In x g /\ In y g.
Proof.
  intros Hx Hl. destruct (linked_leaders x y Hl Hx) as [Hy Hr].
  destruct (lead_spec x Hx) as [ixx [tlx [Hlx [Hnx [Hinx Hldx]]]]]. destruct (lead_spec y Hy) as [iy [tly [Hly [Hny [Hiny Hldy]]]]].
  assert (Hlix : lookup ix (lead x) = Some ixx) by (eapply s1_slot_lookup; [exact Hnx | left; reflexivity]).
  assert (Hliy : lookup ix (lead y) = Some iy) by (eapply s1_slot_lookup; [exact Hny | left; reflexivity]).
  assert (Hyc : In (lead y) (component m leaders (lead x))) by (apply comp_complete; assumption).
  assert (Hc : cmin (lead y) = cmin (lead x)) by (apply cmin_same; assumption).
  pose proof (cmin_leader (lead x) Hldx) as Hcl. destruct (leader_slot _ Hcl) as [ic [tlc [_ Hlc]]].
  destruct final_inv as [_ Hdone _].
  destruct (Hdone (lead x) ixx ic _ Hldx Hcl Hlix Hlc Hnx) as [gc [Hgc Hincx]].
  assert (Hlc' : lookup ix (cmin (lead y)) = Some ic) by (rewrite Hc; exact Hlc).
  assert (Hcl' : In (cmin (lead y)) leaders) by (rewrite Hc; exact Hcl).
  destruct (Hdone (lead y) iy ic _ Hldy Hcl' Hliy Hlc' Hny) as [gc' [Hgc' Hincy]].
  assert (gc' = gc) by congruence. subst gc'.
  exists gc. rewrite pseudo_groups_unfold. split.
  - apply filter_In. split; [eapply nth_error_In; exact Hgc|]. destruct gc; [exfalso; exact (Hincx _ Hinx) | reflexivity].
  - split; [apply Hincx; exact Hinx | apply Hincy; exact Hiny].
Qed.

(* the pseudo-gene groups are a regrouping of the first-pass groups: same proteins, each once, no empty group *)
Lemma step_u_perm s u : In u leaders -> index s = ix ->
  Permutation (concat (groups (step_u s u))) (concat (groups s)) /\ index (step_u s u) = ix.
Proof.
  intros Hu Hix. unfold step_u. destruct (isort str_leb (component m leaders u)) as [|l rest] eqn:Ec; [split; [apply Permutation_refl | exact Hix]|].
  destruct (str_eqb l u) eqn:El; [|split; [apply Permutation_refl | exact Hix]]. apply str_eqb_eq in El. subst l.
  assert (Hperm : Permutation (u :: rest) (component m leaders u)) by (rewrite <- Ec; apply isort_perm).
  assert (Hnd : NoDup (u :: rest)) by (eapply Permutation_NoDup; [apply Permutation_sym; exact Hperm | apply comp_NoDup]).
  change (fold_left (fun s' p => match merge_groups s' u p with Ok t => t | Raise _ => s' end) rest s) with (merge_all s (u :: rest)).
  destruct (merge_all_perm s (u :: rest)) as [Hp Hi]; [|split; [exact Hp | congruence]].
  cbn [head_distinct]. intros p Hp E. rewrite Hix in E.
  assert (Hpl : In p leaders).
  { apply (comp_sound u p Hu). eapply Permutation_in; [exact Hperm | right; exact Hp]. }
  assert (u = p) by (apply leader_slot_inj; assumption). subst p. inversion Hnd as [|? ? Hni _]; subst. contradiction.
Qed.

Lemma pseudo_perm : Permutation (concat (pseudo_gene_grouping m)) (concat (subset_grouping m)).
Proof.
  rewrite pseudo_groups_unfold. rewrite concat_filter_nonempty. change (subset_grouping m) with (groups s1).
  assert (G : forall us s, (forall u, In u us -> In u leaders) -> index s = ix ->
              Permutation (concat (groups (fold_left step_u us s))) (concat (groups s))).
  { induction us as [|u us IH]; intros s Hus Hix; cbn [fold_left]; [apply Permutation_refl|].
    destruct (step_u_perm s u (Hus u (or_introl eq_refl)) Hix) as [Hp Hi].
    eapply perm_trans; [apply IH; [intros v Hv; apply Hus; right; exact Hv | exact Hi] | exact Hp]. }
  apply G; [auto | reflexivity].
Qed.

Theorem pseudo_gene_partition :
  NoDup (concat (pseudo_gene_grouping m)) /\
  (forall p, In p (concat (pseudo_gene_grouping m)) <-> In p (prot_order m)) /\
  (forall g, In g (pseudo_gene_grouping m) -> g <> []).
Proof.
  split; [eapply Permutation_NoDup; [apply Permutation_sym; exact pseudo_perm | exact (subset_concat_NoDup m m_keys)]|]. split.
  - intros p. rewrite <- (subset_concat_In m m_keys). split; apply Permutation_in; [exact pseudo_perm | apply Permutation_sym; exact pseudo_perm].
  - intros g Hg. rewrite pseudo_groups_unfold in Hg. apply filter_In in Hg. destruct Hg as [_ Hg]. destruct g; [discriminate | discriminate].
Qed.

(* all clauses together: the pseudo-gene groups are exactly the connected components of the shares-a-peptide relation *)
Theorem pseudo_gene_groups_are_components :
  NoDup (concat (pseudo_gene_grouping m)) /\
  (forall p, In p (concat (pseudo_gene_grouping m)) <-> In p (prot_order m)) /\
  (forall x y, In x (prot_order m) -> In y (prot_order m) -> (same_group (pseudo_gene_grouping m) x y <-> linked m x y)).
Proof.
  destruct pseudo_gene_partition as [H1 [H2 _]]. split; [exact H1|]. split; [exact H2|].
  intros x y Hx Hy. split.
  - intros [g [Hg [Hxg Hyg]]]. exact (pseudo_gene_groups_are_linked g x y Hg Hxg Hyg).
  - intros Hl. destruct (linked_proteins_share_a_group x y Hx Hl) as [g [Hg [Hxg Hyg]]]. exists g. auto.
Qed.
End Pseudo.
