From PGF Require Import Base.Prelude Base.Csv.

Definition esc (f : str) : str := flat_map (fun c => if N.eqb c QT then [QT; QT] else [c]) f.

Lemma special_false c : special c = false -> N.eqb c TAB = false /\ N.eqb c QT = false /\ N.eqb c CR = false /\ N.eqb c LF = false.
Proof.
  unfold special. intros H. apply orb_false_elim in H. destruct H as [H H4]. apply orb_false_elim in H. destruct H as [H H3].
  apply orb_false_elim in H. destruct H as [H1 H2]. auto.
Qed.

(* ---- single steps of the reader (the tail is a variable, so nothing unfolds further) ---- *)
Section Steps.
Variables (R : list (list str)) (F : list str) (cur r : str).
Lemma SF_qt : csv_go StartField R F [] (QT :: r) = csv_go InQuoted R F [] r. Proof. reflexivity. Qed.
Lemma SF_tab : csv_go StartField R F [] (TAB :: r) = csv_go StartField R ([] :: F) [] r. Proof. reflexivity. Qed.
Lemma SF_cr : csv_go StartField R F [] (CR :: r) = csv_go EatLF (rev ([] :: F) :: R) [] [] r. Proof. reflexivity. Qed.
Lemma SF_plain c : special c = false -> csv_go StartField R F [] (c :: r) = csv_go InField R F [c] r.
Proof. intros H. destruct (special_false c H) as [H1 [H2 [H3 H4]]]. cbn [csv_go norm]. rewrite H3, H4, H2, H1. reflexivity. Qed.
Lemma IF_tab : csv_go InField R F cur (TAB :: r) = csv_go StartField R (rev cur :: F) [] r. Proof. reflexivity. Qed.
Lemma IF_cr : csv_go InField R F cur (CR :: r) = csv_go EatLF (rev (rev cur :: F) :: R) [] [] r. Proof. reflexivity. Qed.
Lemma IF_plain c : special c = false -> csv_go InField R F cur (c :: r) = csv_go InField R F (c :: cur) r.
Proof. intros H. destruct (special_false c H) as [H1 [H2 [H3 H4]]]. cbn [csv_go norm]. rewrite H1, H3, H4. reflexivity. Qed.
Lemma IQ_qt : csv_go InQuoted R F cur (QT :: r) = csv_go QuoteInQuoted R F cur r. Proof. reflexivity. Qed.
Lemma IQ_other c : N.eqb c QT = false -> csv_go InQuoted R F cur (c :: r) = csv_go InQuoted R F (c :: cur) r.
Proof. intros H. cbn [csv_go norm]. rewrite H. reflexivity. Qed.
Lemma QQ_qt : csv_go QuoteInQuoted R F cur (QT :: r) = csv_go InQuoted R F (QT :: cur) r. Proof. reflexivity. Qed.
Lemma QQ_tab : csv_go QuoteInQuoted R F cur (TAB :: r) = csv_go StartField R (rev cur :: F) [] r. Proof. reflexivity. Qed.
Lemma QQ_cr : csv_go QuoteInQuoted R F cur (CR :: r) = csv_go EatLF (rev (rev cur :: F) :: R) [] [] r. Proof. reflexivity. Qed.
Lemma EL_lf : csv_go EatLF R F cur (LF :: r) = csv_go StartRecord R [] [] r. Proof. reflexivity. Qed.
Lemma SR_cr : csv_go StartRecord R [] [] (CR :: r) = csv_go EatLF ([] :: R) [] [] r. Proof. reflexivity. Qed.
Lemma SR_as_field c : N.eqb c CR = false -> N.eqb c LF = false ->
  csv_go StartRecord R [] [] (c :: r) = csv_go StartField R [] [] (c :: r).
Proof. intros H1 H2. cbn [csv_go norm]. rewrite H1, H2. reflexivity. Qed.
End Steps.

(* unquoted characters accumulate *)
Lemma go_infield R F : forall g cur rest, (forall c, In c g -> special c = false) ->
  csv_go InField R F cur (g ++ rest) = csv_go InField R F (rev g ++ cur) rest.
Proof.
  induction g as [|c g IH]; intros cur rest H; [reflexivity|].
  cbn [app]. rewrite IF_plain by (apply H; left; reflexivity). rewrite IH by (intros x Hx; apply H; right; exact Hx).
  simpl. rewrite <- app_assoc. reflexivity.
Qed.

(* inside quotes everything accumulates; doubled quotes give one quote *)
Lemma go_inquoted R F : forall g cur rest,
  csv_go InQuoted R F cur (esc g ++ rest) = csv_go InQuoted R F (rev g ++ cur) rest.
Proof.
  induction g as [|c g IH]; intros cur rest; [reflexivity|].
  unfold esc. cbn [flat_map]. fold (esc g). rewrite <- app_assoc. destruct (N.eqb c QT) eqn:E.
  - apply N.eqb_eq in E. subst c. cbn [app]. rewrite IQ_qt, QQ_qt, IH. simpl. rewrite <- app_assoc. reflexivity.
  - cbn [app]. rewrite IQ_other by exact E. rewrite IH. simpl. rewrite <- app_assoc. reflexivity.
Qed.

Lemma plain_field f : needs_quote f = false -> forall x, In x f -> special x = false.
Proof.
  intros Eq x Hx. unfold needs_quote in Eq. destruct (special x) eqn:Es; [|reflexivity].
  assert (existsb special f = true) by (apply existsb_exists; exists x; split; assumption). congruence.
Qed.

(* reading one encoded field up to (not including) its separator *)
Lemma go_field R F f sep rest : (sep = TAB \/ sep = CR) ->
  csv_go StartField R F [] (enc_field f ++ sep :: rest) =
  match f with
  | [] => if needs_quote f then csv_go QuoteInQuoted R F [] (sep :: rest) else csv_go StartField R F [] (sep :: rest)
  | _ => if needs_quote f then csv_go QuoteInQuoted R F (rev f) (sep :: rest) else csv_go InField R F (rev f) (sep :: rest)
  end.
Proof.
  intros Hsep. unfold enc_field. destruct (needs_quote f) eqn:Eq.
  - cbn [app]. rewrite SF_qt. fold (esc f). rewrite <- app_assoc. rewrite go_inquoted. rewrite app_nil_r. cbn [app]. rewrite IQ_qt.
    destruct f; reflexivity.
  - destruct f as [|c f']; [reflexivity|]. cbn [app].
    rewrite SF_plain by (apply (plain_field _ Eq); left; reflexivity).
    rewrite go_infield by (intros x Hx; apply (plain_field _ Eq); right; exact Hx).
    reflexivity.
Qed.

(* one field followed by a TAB *)
Lemma go_field_tab R F f rest :
  csv_go StartField R F [] (enc_field f ++ TAB :: rest) = csv_go StartField R (f :: F) [] rest.
Proof.
  rewrite go_field by (left; reflexivity). destruct f as [|c f']; destruct (needs_quote _).
  - rewrite QQ_tab. reflexivity.
  - rewrite SF_tab. reflexivity.
  - rewrite QQ_tab, rev_involutive. reflexivity.
  - rewrite IF_tab, rev_involutive. reflexivity.
Qed.

(* one field followed by the line terminator *)
Lemma go_field_crlf R F f rest :
  csv_go StartField R F [] (enc_field f ++ CR :: LF :: rest) = csv_go StartRecord (rev (f :: F) :: R) [] [] rest.
Proof.
  rewrite go_field by (right; reflexivity). destruct f as [|c f']; destruct (needs_quote _).
  - rewrite QQ_cr, EL_lf. reflexivity.
  - rewrite SF_cr, EL_lf. reflexivity.
  - rewrite QQ_cr, EL_lf, rev_involutive. reflexivity.
  - rewrite IF_cr, EL_lf, rev_involutive. reflexivity.
Qed.

(* a non-empty field list followed by the line terminator *)
Lemma go_fields R rest : forall fs F, fs <> [] ->
  csv_go StartField R F [] (enc_fields fs ++ CR :: LF :: rest) = csv_go StartRecord ((rev F ++ fs) :: R) [] [] rest.
Proof.
  induction fs as [|f fs IH]; intros F Hne; [congruence|]. destruct fs as [|f2 fs'].
  - cbn [enc_fields]. rewrite go_field_crlf. simpl. reflexivity.
  - change (enc_fields (f :: f2 :: fs')) with (enc_field f ++ TAB :: enc_fields (f2 :: fs')).
    rewrite <- app_assoc. cbn [app]. rewrite go_field_tab. rewrite IH by discriminate.
    simpl. rewrite <- app_assoc. reflexivity.
Qed.

(* the first character of a non-empty row's encoding is neither CR nor LF *)
Lemma enc_fields_first fs : fs <> [] -> fs <> [[]] ->
  exists c r, enc_fields fs = c :: r /\ N.eqb c CR = false /\ N.eqb c LF = false.
Proof.
  intros H1 H2. destruct fs as [|f fs']; [congruence|].
  assert (Hf : forall tail, (f <> [] \/ tail <> []) -> exists c r, enc_field f ++ tail = c :: r /\
                 (N.eqb c CR = false /\ N.eqb c LF = false \/ (f = [] /\ exists t, tail = c :: t))).
  { intros tail Ht. unfold enc_field. destruct (needs_quote f) eqn:Eq.
    - eexists. eexists. split; [reflexivity|]. left. split; reflexivity.
    - destruct f as [|c f'].
      + destruct Ht as [Ht|Ht]; [congruence|]. destruct tail as [|c t]; [congruence|]. exists c, t. split; [reflexivity|]. right. split; [reflexivity|]. eauto.
      + exists c, (f' ++ tail). split; [reflexivity|]. left.
        destruct (special_false c (plain_field _ Eq c (or_introl eq_refl))) as [_ [_ [H3 H4]]]. auto. }
  destruct fs' as [|f2 fs''].
  - cbn [enc_fields]. destruct (Hf [] ) as [c [r [He Hc]]]; [left; intros ->; congruence|]. rewrite app_nil_r in He.
    exists c, r. split; [exact He|]. destruct Hc as [Hc|[_ [t Ht]]]; [exact Hc | discriminate].
  - change (enc_fields (f :: f2 :: fs'')) with (enc_field f ++ TAB :: enc_fields (f2 :: fs'')).
    destruct (Hf (TAB :: enc_fields (f2 :: fs''))) as [c [r [He Hc]]]; [right; discriminate|].
    exists c, r. split; [exact He|]. destruct Hc as [Hc|[_ [t Ht]]]; [exact Hc|]. inversion Ht; subst. split; reflexivity.
Qed.

(* one row *)
Lemma go_row_general R fs rest : fs <> [] -> fs <> [[]] ->
  csv_go StartRecord R [] [] ((enc_fields fs ++ [CR; LF]) ++ rest) = csv_go StartRecord (fs :: R) [] [] rest.
Proof.
  intros Hne Hne2. rewrite <- app_assoc. cbn [app].
  destruct (enc_fields_first fs Hne Hne2) as [c [r [He [H1 H2]]]].
  rewrite He. cbn [app]. rewrite SR_as_field by assumption.
  change (c :: r ++ CR :: LF :: rest) with ((c :: r) ++ CR :: LF :: rest). rewrite <- He.
  rewrite go_fields by exact Hne. reflexivity.
Qed.

Lemma go_row R fs rest : csv_go StartRecord R [] [] (enc_row fs ++ rest) = csv_go StartRecord (fs :: R) [] [] rest.
Proof.
  destruct fs as [|[|c f'] [|f2 fs'']].
  - unfold enc_row. cbn [enc_fields app]. rewrite SR_cr, EL_lf. reflexivity.
  - unfold enc_row. cbn [app]. rewrite SR_as_field by reflexivity. rewrite SF_qt, IQ_qt, QQ_cr, EL_lf. reflexivity.
  - change (enc_row ([] :: f2 :: fs'')) with (enc_fields ([] :: f2 :: fs'') ++ [CR; LF]).
    apply go_row_general; discriminate.
  - change (enc_row [c :: f']) with (enc_fields [c :: f'] ++ [CR; LF]).
    apply go_row_general; discriminate.
  - change (enc_row ((c :: f') :: f2 :: fs'')) with (enc_fields ((c :: f') :: f2 :: fs'') ++ [CR; LF]).
    apply go_row_general; discriminate.
Qed.

(* ---- C13: reading back what was written gives the same rows, for all cell contents ---- *)
Lemma go_rows : forall rows R, csv_go StartRecord R [] [] (csv_write rows) = rev R ++ rows.
Proof.
  induction rows as [|fs rows IH]; intros R.
  - simpl. rewrite app_nil_r. reflexivity.
  - unfold csv_write in *. cbn [flat_map]. rewrite go_row. rewrite IH. simpl. rewrite <- app_assoc. reflexivity.
Qed.

Theorem csv_roundtrip rows : csv_read (csv_write rows) = rows.
Proof. unfold csv_read. rewrite go_rows. reflexivity. Qed.
