From PGF Require Import Base.Prelude Base.PyStr Base.StableSort Model.Digest Model.Grouping Model.Fasta
  Proofs.GroupingProofs.
From Coq Require Import Permutation.

Lemma str_eqb_sym a b : str_eqb a b = str_eqb b a.
Proof.
  destruct (str_eqb a b) eqn:E1; destruct (str_eqb b a) eqn:E2; try reflexivity.
  - apply str_eqb_eq in E1. subst. rewrite str_eqb_refl in E2. discriminate.
  - apply str_eqb_eq in E2. subst. rewrite str_eqb_refl in E1. discriminate.
Qed.

(* ---------- the association list ---------- *)
Lemma map_get_append m k p k' :
  map_get (map_append m k p) k' = if str_eqb k k' then map_get m k' ++ [p] else map_get m k'.
Proof.
  induction m as [|[k0 v] m IH]; simpl.
  - destruct (str_eqb k k'); reflexivity.
  - destruct (str_eqb k0 k) eqn:E0; simpl.
    + apply str_eqb_eq in E0. subst k0. destruct (str_eqb k k'); reflexivity.
    + destruct (str_eqb k0 k') eqn:E1.
      * apply str_eqb_eq in E1. subst k0. rewrite str_eqb_sym, E0. reflexivity.
      * exact IH.
Qed.

Lemma fold_append_get p : forall ks m k, NoDup ks ->
  map_get (fold_left (fun m' k0 => map_append m' k0 p) ks m) k =
  map_get m k ++ (if mem_str k ks then [p] else []).
Proof.
  induction ks as [|k0 ks IH]; intros m k Hnd; simpl; [rewrite app_nil_r; reflexivity|].
  inversion Hnd as [|? ? Hni Hnd']; subst. rewrite IH by exact Hnd'. rewrite map_get_append.
  unfold mem_str at 2. simpl. fold (mem_str k ks). rewrite (str_eqb_sym k k0).
  destruct (str_eqb k0 k) eqn:E; simpl.
  - apply str_eqb_eq in E. subst k0.
    destruct (mem_str k ks) eqn:Em; [apply mem_str_In in Em; contradiction|]. rewrite app_nil_r. reflexivity.
  - reflexivity.
Qed.

Lemma dedup_mem l k : mem_str k (dedup [] l) = mem_str k l.
Proof.
  destruct (mem_str k l) eqn:E.
  - apply mem_str_In. apply dedup_In. split; [apply mem_str_In; exact E | intros []].
  - destruct (mem_str k (dedup [] l)) eqn:E2; [|reflexivity].
    apply mem_str_In in E2. apply dedup_In in E2. destruct E2 as [H _]. apply mem_str_In in H. congruence.
Qed.

Lemma add_protein_get dig key m rec k :
  map_get (add_protein dig key m rec) k =
  map_get m k ++ (if mem_str k (map key (dig (snd rec))) then [fst rec] else []).
Proof.
  unfold add_protein. rewrite fold_append_get by apply dedup_NoDup. rewrite dedup_mem. reflexivity.
Qed.

Lemma build_map_get_gen dig key : forall records m k,
  map_get (fold_left (add_protein dig key) records m) k =
  map_get m k ++ map fst (filter (fun r => mem_str k (map key (dig (snd r)))) records).
Proof.
  induction records as [|r records IH]; intros m k; simpl; [rewrite app_nil_r; reflexivity|].
  rewrite IH, add_protein_get, <- app_assoc. f_equal.
  destruct (mem_str k (map key (dig (snd r)))); reflexivity.
Qed.

(* ---- C09: the map lists for each peptide exactly the proteins whose digestion yields it, each once, in database order ---- *)
Lemma map_exact dig records pep :
  map_get (build_map dig (fun x => x) records) pep =
  map fst (filter (fun r => mem_str pep (dig (snd r))) records).
Proof.
  unfold build_map. rewrite build_map_get_gen. simpl. f_equal. apply filter_ext. intros r. rewrite map_id. reflexivity.
Qed.

Lemma map_exact_In dig records pep p :
  In p (map_get (build_map dig (fun x => x) records) pep) <->
  exists seq, In (p, seq) records /\ In pep (dig seq).
Proof.
  rewrite map_exact, in_map_iff. split.
  - intros [[p' seq] [E Hin]]. simpl in E. subst p'. apply filter_In in Hin. destruct Hin as [Hr Hm].
    exists seq. split; [exact Hr | apply mem_str_In; exact Hm].
  - intros [seq [Hr Hd]]. exists (p, seq). split; [reflexivity|]. apply filter_In. split; [exact Hr | apply mem_str_In; exact Hd].
Qed.

Lemma map_each_once dig records pep :
  NoDup (map fst records) -> NoDup (map_get (build_map dig (fun x => x) records) pep).
Proof.
  intros Hnd. rewrite map_exact. induction records as [|r records IH]; simpl; [constructor|].
  simpl in Hnd. inversion Hnd as [|? ? Hni Hnd']; subst.
  destruct (mem_str pep (dig (snd r))); simpl; [|apply IH; exact Hnd'].
  constructor; [|apply IH; exact Hnd']. intros Hin. apply Hni. apply in_map_iff in Hin.
  destruct Hin as [x [Ex Hx]]. apply filter_In in Hx. rewrite <- Ex. apply in_map. apply Hx.
Qed.

(* ---------- decoys ---------- *)
Lemma swap_loop_perm sp : forall rest prev, Permutation (swap_loop sp prev rest) (prev :: rest).
Proof.
  induction rest as [|c r IH]; intros prev; simpl; [apply Permutation_refl|].
  destruct (inl c sp).
  - eapply perm_trans; [apply perm_skip, IH | apply perm_swap].
  - apply perm_skip. apply IH.
Qed.

(* the swap only permutes residues: same multiset, same length *)
Lemma swap_permutes sp s : Permutation (swap_special_aas sp s) s.
Proof. destruct s as [|c r]; [apply perm_nil | apply swap_loop_perm]. Qed.

Lemma swap_length sp s : length (swap_special_aas sp s) = length s.
Proof. apply Permutation_length, swap_permutes. Qed.

(* a special residue that does not directly follow another special residue ends up one position earlier *)
Lemma swap_two sp a b r : inl b sp = true -> swap_special_aas sp (a :: b :: r) = b :: swap_special_aas sp (a :: r).
Proof. intros H. simpl. rewrite H. reflexivity. Qed.

Lemma swap_keep sp a b r : inl b sp = false -> swap_special_aas sp (a :: b :: r) = a :: swap_special_aas sp (b :: r).
Proof. intros H. simpl. rewrite H. reflexivity. Qed.

(* the decoy record generated for a target record *)
Lemma decoy_record sp name seq :
  emit DbConcat sp name seq =
  [(name, seq); (decoy_prefix ++ name, match sp with [] => rev seq | _ => swap_special_aas sp (rev seq) end)].
Proof. reflexivity. Qed.

Lemma decoy_same_length sp name seq d :
  In d (emit DbConcat sp name seq) -> length (snd d) = length seq.
Proof.
  rewrite decoy_record. intros [<-|[<-|[]]]; simpl; [reflexivity|].
  destruct sp; [apply rev_length | rewrite swap_length; apply rev_length].
Qed.

(* ---------- theoretical peptide numbers (iBAQ) ---------- *)
Definition keys (m : pp_map) : list str := map fst m.

Lemma map_append_keys m k p : keys (map_append m k p) = if mem_str k (keys m) then keys m else keys m ++ [k].
Proof.
  unfold keys. induction m as [|[k0 v] m IH]; simpl; [reflexivity|].
  unfold mem_str. simpl. rewrite (str_eqb_sym k k0). destruct (str_eqb k0 k) eqn:E; simpl; [reflexivity|].
  rewrite IH. fold (mem_str k (map fst m)). destruct (mem_str k (map fst m)); reflexivity.
Qed.

Lemma map_append_keys_NoDup m k p : NoDup (keys m) -> NoDup (keys (map_append m k p)).
Proof.
  intros H. rewrite map_append_keys. destruct (mem_str k (keys m)) eqn:E; [exact H|].
  apply nodup_app; [exact H | constructor; [intros [] | constructor]|].
  intros x Hx [<-|[]]. apply mem_str_In in Hx. congruence.
Qed.

Lemma map_append_keys_In m k p x : In x (keys (map_append m k p)) <-> In x (keys m) \/ x = k.
Proof.
  rewrite map_append_keys. destruct (mem_str k (keys m)) eqn:E.
  - apply mem_str_In in E. split; [auto | intros [H|H]; [exact H | rewrite H; exact E]].
  - rewrite in_app_iff. simpl. split; [intros [H|[H|[]]]; auto | intros [H|H]; auto].
Qed.

Lemma build_keys_NoDup dig key : forall records m, NoDup (keys m) -> NoDup (keys (fold_left (add_protein dig key) records m)).
Proof.
  induction records as [|r records IH]; intros m H; simpl; [exact H|]. apply IH.
  unfold add_protein. generalize (dedup [] (map key (dig (snd r)))). intros ks. revert m H.
  induction ks as [|k ks IHk]; intros m H; simpl; [exact H|]. apply IHk. apply map_append_keys_NoDup. exact H.
Qed.

Lemma build_keys_In dig key : forall records m x,
  In x (keys (fold_left (add_protein dig key) records m)) <->
  In x (keys m) \/ exists r, In r records /\ In x (map key (dig (snd r))).
Proof.
  induction records as [|r records IH]; intros m x; simpl.
  - split; [auto | intros [H|[r [[] _]]]; exact H].
  - rewrite IH. clear IH.
    assert (Hadd : forall ks m0, In x (keys (fold_left (fun m' k => map_append m' k (fst r)) ks m0)) <-> In x (keys m0) \/ In x ks).
    { induction ks as [|k ks IHk]; intros m0; simpl; [tauto|]. rewrite IHk, map_append_keys_In. split; intros H; tauto || (destruct H as [[H|H]|H]; auto) || (destruct H as [H|[H|H]]; auto). }
    unfold add_protein. rewrite Hadd. rewrite dedup_In. split.
    + intros [[H|[H _]]|[r' [Hr' Hx]]]; [left; exact H | right; exists r; split; [left; reflexivity | exact H] | right; exists r'; split; [right; exact Hr' | exact Hx]].
    + intros [H|[r' [[<-|Hr'] Hx]]]; [left; left; exact H | left; right; split; [exact Hx | intros []] | right; exists r'; split; assumption].
Qed.

(* with distinct keys, an entry's list is what the lookup returns *)
Lemma entry_is_get m k v : NoDup (keys m) -> In (k, v) m -> map_get m k = v.
Proof.
  unfold keys. induction m as [|[k0 v0] m IH]; intros Hnd Hin; [destruct Hin|].
  simpl in Hnd. inversion Hnd as [|? ? Hni Hnd']; subst. simpl. destruct Hin as [E|Hin].
  - inversion E; subst. rewrite str_eqb_refl. reflexivity.
  - destruct (str_eqb k0 k) eqn:E; [|apply IH; assumption].
    apply str_eqb_eq in E. subst. exfalso. apply Hni. apply in_map_iff. exists (k, v). split; [reflexivity | exact Hin].
Qed.

Lemma num_peptides_sum m p : NoDup (keys m) ->
  num_peptides m p = fold_right (fun k n => count_occ (list_eq_dec N.eq_dec) (map_get m k) p + n) 0 (keys m).
Proof.
  intros Hnd. unfold num_peptides.
  assert (Hgen : forall l acc, fold_left (fun n (kv : str * list str) => n + count_occ (list_eq_dec N.eq_dec) (snd kv) p) l acc =
                               acc + fold_right (fun kv n => count_occ (list_eq_dec N.eq_dec) (snd kv) p + n) 0 l).
  { induction l as [|kv l IHl]; intros acc; cbn [fold_left fold_right]; [symmetry; apply Nat.add_0_r | rewrite IHl; symmetry; apply Nat.add_assoc]. }
  rewrite Hgen. simpl.
  assert (Hl : forall l, incl l m ->
            fold_right (fun (kv : str * list str) n => count_occ (list_eq_dec N.eq_dec) (snd kv) p + n) 0 l =
            fold_right (fun k n => count_occ (list_eq_dec N.eq_dec) (map_get m k) p + n) 0 (map fst l)).
  { induction l as [|[k v] l IHl]; intros Hincl; cbn [fold_right map fst snd]; [reflexivity|].
    rewrite (entry_is_get m k v Hnd) by (apply Hincl; left; reflexivity).
    rewrite IHl by (intros x Hx; apply Hincl; right; exact Hx). reflexivity. }
  apply Hl. apply incl_refl.
Qed.

Lemma count_filter_NoDup (ks ds : list str) : NoDup ks -> NoDup ds -> incl ds ks ->
  length (filter (fun k => mem_str k ds) ks) = length ds.
Proof.
  intros Hk Hd Hincl. apply Permutation_length. apply NoDup_Permutation; [apply NoDup_filter; exact Hk | exact Hd|].
  intros x. rewrite filter_In, mem_str_In. split; [tauto | intros H; split; [apply Hincl; exact H | exact H]].
Qed.

(* ---- C09: the number used for iBAQ is the number of distinct peptides the digestion of that protein yields ---- *)
Lemma ibaq_number dig records p seq :
  NoDup (map fst records) -> In (p, seq) records ->
  num_peptides (build_map dig (fun x => x) records) p = length (dedup [] (dig seq)).
Proof.
  intros Hnd Hin. set (m := build_map dig (fun x => x) records).
  assert (Hk : NoDup (keys m)) by (apply build_keys_NoDup; constructor).
  rewrite (num_peptides_sum m p Hk).
  assert (Hcount : forall k, count_occ (list_eq_dec N.eq_dec) (map_get m k) p = if mem_str k (dig seq) then 1 else 0).
  { intros k. unfold m. rewrite map_exact. clear Hk m. induction records as [|[q s] records IH]; [destruct Hin|].
    simpl in Hnd. inversion Hnd as [|? ? Hni Hnd']; subst. simpl. destruct Hin as [E|Hin].
    - inversion E; subst q s. destruct (mem_str k (dig seq)) eqn:Em; simpl.
      + destruct (list_eq_dec N.eq_dec p p) as [_|Hne]; [|congruence]. f_equal.
        apply count_occ_not_In. intros Hc. apply Hni. apply in_map_iff in Hc. destruct Hc as [x [Ex Hx]].
        apply filter_In in Hx. rewrite <- Ex. apply in_map. apply Hx.
      + apply count_occ_not_In. intros Hc. apply Hni. apply in_map_iff in Hc. destruct Hc as [x [Ex Hx]].
        apply filter_In in Hx. rewrite <- Ex. apply in_map. apply Hx.
    - assert (Hqp : q <> p).
      { intros ->. apply Hni. apply in_map_iff. exists (p, seq). split; [reflexivity | exact Hin]. }
      destruct (mem_str k (dig s)); simpl; [destruct (list_eq_dec N.eq_dec q p); [contradiction|]|]; apply IH; assumption. }
  assert (Hsum : forall ks, fold_right (fun k n => count_occ (list_eq_dec N.eq_dec) (map_get m k) p + n) 0 ks =
                            length (filter (fun k => mem_str k (dedup [] (dig seq))) ks)).
  { induction ks as [|k ks IHk]; cbn [fold_right filter]; [reflexivity|]. rewrite Hcount, IHk, dedup_mem.
    destruct (mem_str k (dig seq)); reflexivity. }
  rewrite Hsum. apply count_filter_NoDup; [exact Hk | apply dedup_NoDup|].
  intros x Hx. apply dedup_In in Hx. destruct Hx as [Hx _]. unfold m, build_map.
  apply build_keys_In. right. exists (p, seq). split; [exact Hin|]. simpl. rewrite map_id. exact Hx.
Qed.

(* ---------- non-specific searches: the lookup returns exactly the proteins whose sequence contains the peptide ---------- *)
From PGF Require Import Proofs.DigestProofs.

Lemma seq_get_unique : forall recs p seq, NoDup (map fst recs) -> In (p, seq) recs -> seq_get recs p = seq.
Proof.
  unfold seq_get. intros recs p seq.
  assert (Hgen : forall recs acc, NoDup (map fst recs) ->
            (In (p, seq) recs -> fold_left (fun a (r : str * str) => if str_eqb (fst r) p then snd r else a) recs acc = seq) /\
            (~ In p (map fst recs) -> fold_left (fun a (r : str * str) => if str_eqb (fst r) p then snd r else a) recs acc = acc)).
  { induction recs0 as [|[q s] recs0 IH]; intros acc Hnd; simpl.
    - split; [intros [] | reflexivity].
    - simpl in Hnd. inversion Hnd as [|? ? Hni Hnd']; subst. destruct (IH (if str_eqb q p then s else acc) Hnd') as [H1 H2]. split.
      + intros [E|Hin]; [|apply H1; exact Hin]. inversion E; subst. rewrite str_eqb_refl.
        destruct (IH seq Hnd') as [_ H2']. apply H2'. exact Hni.
      + intros Hn. rewrite H2 by (intros Hc; apply Hn; right; exact Hc).
        destruct (str_eqb q p) eqn:E; [apply str_eqb_eq in E; subst; exfalso; apply Hn; left; reflexivity | reflexivity]. }
  intros Hnd Hin. apply (Hgen recs [] Hnd). exact Hin.
Qed.

Lemma slice_app_mid (u p v : str) : slice (u ++ p ++ v) (length u) (length u + length p) = p.
Proof.
  unfold slice. replace (length u + length p - length u) with (length p) by lia.
  rewrite skipn_app, skipn_all, Nat.sub_diag. simpl. rewrite firstn_app, firstn_all, Nat.sub_diag. simpl. apply app_nil_r.
Qed.

Lemma nonspecific_lookup recs mn mx pep p :
  NoDup (map fst recs) -> 1 <= mn -> mn <= length pep <= mx ->
  (In p (get_proteins_hashed (build_map (fun s => non_specific_digest s mn mx) hash_key recs) recs pep) <->
   exists seq, In (p, seq) recs /\ contains pep seq = true).
Proof.
  intros Hnd Hmn Hlen. unfold get_proteins_hashed. rewrite (isort_In str_leb), filter_In.
  unfold build_map. rewrite build_map_get_gen. simpl. rewrite in_map_iff. split.
  - intros [[[q seq] [E Hin]] Hc]. simpl in E. subst q. apply filter_In in Hin. destruct Hin as [Hr _].
    exists seq. split; [exact Hr|]. rewrite (seq_get_unique recs p seq Hnd Hr) in Hc. exact Hc.
  - intros [seq [Hr Hc]]. split.
    + exists (p, seq). split; [reflexivity|]. apply filter_In. split; [exact Hr|]. simpl.
      apply mem_str_In. apply in_map. apply contains_spec in Hc. destruct Hc as [u [v ->]].
      apply (non_specific_digest_spec {| pre := []; not_post := []; post := [] |} _ mn mx 0 false _ Hmn).
      apply spec_digest_In. exists (length u), (length u + length pep). split; [|symmetry; apply slice_app_mid].
      unfold spec_ok, in_window. rewrite !andb_true_iff, Nat.ltb_lt, !Nat.leb_le, !app_length. lia.
    + rewrite (seq_get_unique recs p seq Hnd Hr). exact Hc.
Qed.

Lemma nonspecific_lookup_sorted recs m pep :
  Sorted.StronglySorted (fun a b => str_leb a b = true) (get_proteins_hashed m recs pep).
Proof. unfold get_proteins_hashed. apply isort_sorted; [apply str_leb_total | apply str_leb_trans]. Qed.
