(* semi_specific_digest = the declarative cleavage rule (one admissible terminus suffices), for ALL sequences. *)
From PGF Require Import Base.Prelude Base.PyStr Model.Digest Proofs.DigestProofs.
From PGF Require Import Proofs.DigestFull.
From Coq Require Import Lia Sorted.

Lemma filter_none_on {A} (f : A -> bool) l : (forall x, In x l -> f x = false) -> filter f l = [].
Proof. induction l as [|x l IH]; intros H; simpl; [reflexivity|]. rewrite (H x (or_introl eq_refl)). apply IH. intros y Hy. apply H. right. exact Hy. Qed.

Lemma window0 mn mx : 1 <= mn -> in_window mn mx 0 = false.
Proof. intros H. unfold in_window. destruct (Nat.leb_spec mn 0); [lia | reflexivity]. Qed.

Lemma spec_single e c mn mx mc met0 :
  spec_digest e 1 [c] mn mx mc met0 = if in_window mn mx 1 then [[c]] else [].
Proof.
  unfold spec_digest, spec_ok, inner_sites, term, site. cbn.
  destruct (in_window mn mx 1); cbn; reflexivity.
Qed.

Lemma semi_single e c mn mx mc met0 p : 1 <= mn ->
  (In p (semi_specific_digest e [c] mn mx mc met0) <-> In p (if in_window mn mx 1 then [[c]] else [])).
Proof.
  intros Hmn. pose proof (window0 mn mx Hmn) as W0.
  unfold semi_specific_digest. cbn [length Nat.add seq semi_loop Nat.sub Nat.min Nat.eqb at_ nth orb andb hd app].
  set (g := is_enzymatic e c c). set (m := met0 && (c =? resM)%N).
  assert (S1 : slice [c] 0 1 = [c]) by reflexivity. assert (S2 : slice [c] 0 2 = [c]) by reflexivity.
  destruct g, m; cbn [andb orb negb];
    repeat match goal with |- context [Nat.ltb ?x 2] => destruct (Nat.ltb_spec x 2) end;
    cbn [orb skipn hd seq flat_map app existsb Nat.eqb negb andb]; rewrite ?W0, ?S1, ?S2;
    destruct (in_window mn mx 1); cbn [app In flat_map andb]; try tauto; try lia.
Qed.

Section Semi.
Variables (e : enzyme) (s : str) (mn mx mc : nat).
Let n := length s.

(* one step of the loop when no initiator-methionine site is (any longer) in play *)
Lemma semi_step_nomet i rest starts :
  semi_loop e s mn mx mc (i :: rest) false starts =
  (if Nat.eqb i n || is_enzymatic e (at_ s (Nat.min (n - 1) i)) (at_ s (Nat.min (n - 1) (i + 1))) then
     flat_map (fun j => if in_window mn mx (Nat.min i (n - 1) + 1 - j) then [slice s j (i + 1)] else [])
              (seq (hd 0 starts) (Nat.min (i + 1) n - hd 0 starts))
     ++ semi_loop e s mn mx mc rest false
          (if Nat.ltb (mc + 1) (length (starts ++ [i + 1])) || Nat.eqb i n then skipn 1 (starts ++ [i + 1]) else starts ++ [i + 1])
   else
     flat_map (fun st => if in_window mn mx (i + 1 - st) && negb (existsb (Nat.eqb (i + 1)) starts) then [slice s st (i + 1)] else []) starts
     ++ semi_loop e s mn mx mc rest false starts).
Proof.
  cbn [semi_loop]. fold n. rewrite !andb_false_r. cbn [andb]. rewrite !orb_false_r. rewrite !Nat.add_0_r. reflexivity.
Qed.

Hypothesis Hn : 1 <= n.
Hypothesis Hmn : 1 <= mn.

(* the enzymatic boundaries b = c+1 with c < i, in increasing order; Tl i puts the protein N-terminus in front *)
Definition Bd (i : nat) : list nat := map (fun c => c + 1) (filter (site_after e s) (seq 0 i)).
Definition Tl (i : nat) : list nat := 0 :: Bd i.

Lemma Bd_S i : Bd (S i) = Bd i ++ (if site_after e s i then [i + 1] else []).
Proof. unfold Bd. rewrite seq_S, filter_app, map_app. cbn [filter seq Nat.add]. destruct (site_after e s i); reflexivity. Qed.

Lemma Bd_In i c : In c (Bd i) <-> 1 <= c <= i /\ site_after e s (c - 1) = true.
Proof.
  unfold Bd. rewrite in_map_iff. split.
  - intros [z [<- Hz]]. apply filter_In in Hz. destruct Hz as [Hz Hs]. apply in_seq in Hz. replace (z + 1 - 1) with z by lia. split; [lia | exact Hs].
  - intros [Hc Hs]. exists (c - 1). split; [lia|]. apply filter_In. split; [apply in_seq; lia | exact Hs].
Qed.

Lemma Tl_incr i : incr (Tl i).
Proof.
  unfold Tl. constructor; [apply incr_map_succ, incr_filter_seq|]. apply Forall_forall. intros y Hy. apply Bd_In in Hy. lia.
Qed.

Lemma Bd_incr i : incr (Bd i).
Proof. apply incr_map_succ, incr_filter_seq. Qed.

Lemma site_after_site' c : c + 1 < n -> site_after e s c = site e s (c + 1).
Proof.
  intros H. unfold site_after, site. fold n. rewrite Nat.add_sub.
  assert (E1 : Nat.leb 1 (c + 1) = true) by (apply Nat.leb_le; lia).
  assert (E2 : Nat.ltb (c + 1) n = true) by (apply Nat.ltb_lt; exact H).
  rewrite E1, E2. reflexivity.
Qed.

Lemma site_lt b : site e s b = true -> 1 <= b < n.
Proof. unfold site. rewrite !andb_true_iff, Nat.leb_le, Nat.ltb_lt. fold n. lia. Qed.

(* the enzymatic sites strictly between a and b are the registered boundaries above a *)
Lemma inner_sites_Bd a b : 1 <= b <= n -> inner_sites e s a b = length (filter (fun y => Nat.ltb a y) (Bd (b - 1))).
Proof.
  intros Hb. unfold inner_sites. fold n.
  set (F := filter (fun c => Nat.ltb a c && Nat.ltb c b && site e s c) (seq 0 (n + 1))).
  set (G := filter (fun y => Nat.ltb a y) (Bd (b - 1))).
  assert (NF : NoDup F) by (apply NoDup_filter, seq_NoDup).
  assert (NG : NoDup G) by (apply NoDup_filter, incr_NoDup, Bd_incr).
  assert (FG : forall c, In c F <-> In c G).
  { intros c. unfold F, G. rewrite !filter_In, in_seq, !andb_true_iff, !Nat.ltb_lt, Bd_In. split.
    - intros [Hc [[Hac Hcb] Hs]]. pose proof (site_lt c Hs). split; [|exact Hac]. split; [lia|].
      rewrite site_after_site' by lia. replace (c - 1 + 1) with c by lia. exact Hs.
    - intros [[Hc Hs] Hac]. rewrite site_after_site' in Hs by lia. replace (c - 1 + 1) with c in Hs by lia.
      split; [lia|]. split; [split; lia | exact Hs]. }
  apply Nat.le_antisymm; apply NoDup_incl_length; try assumption; intros c Hc; apply FG; exact Hc.
Qed.

(* j is not left of the first open start iff at most mc registered boundaries lie above j *)
Lemma hd_keep_iff L j : incr (0 :: L) ->
  (hd 0 (keep (mc + 1) (0 :: L)) <= j <-> length (filter (fun y => Nat.ltb j y) L) <= mc).
Proof.
  intros HI. destruct (Nat.le_gt_cases (length (0 :: L)) (mc + 1)) as [Hs|Hl].
  - rewrite keep_all by exact Hs. cbn [hd]. split; [intros _|intros _; lia].
    pose proof (filter_len_le' (fun y => Nat.ltb j y) L). cbn [length] in Hs. lia.
  - assert (E : 0 :: L = firstn (length (0 :: L) - (mc + 1)) (0 :: L) ++ keep (mc + 1) (0 :: L)) by (unfold keep; symmetry; apply firstn_skipn).
    assert (Hk : length (keep (mc + 1) (0 :: L)) = mc + 1) by (rewrite keep_length; lia).
    destruct (keep (mc + 1) (0 :: L)) as [|h tl] eqn:Ek; [simpl in Hk; lia|]. cbn [hd].
    set (pre := firstn (length (0 :: L) - (mc + 1)) (0 :: L)) in E.
    assert (HI' := HI). rewrite E in HI'. destruct (incr_app_inv pre h tl HI') as [H1 [H2 _]].
    assert (Hf : filter (fun y => Nat.ltb j y) (0 :: L) = filter (fun y => Nat.ltb j y) L) by apply filter_gt_cons0.
    rewrite <- Hf, E, filter_app. cbn [filter]. simpl in Hk.
    split.
    + intros Hj. replace (filter (fun y => Nat.ltb j y) pre) with (@nil nat).
      * replace (Nat.ltb j h) with false by (symmetry; apply Nat.ltb_ge; exact Hj). cbn [app].
        pose proof (filter_len_le' (fun y => Nat.ltb j y) tl). lia.
      * symmetry. apply filter_none_on. intros y Hy. apply Nat.ltb_ge. specialize (H1 y Hy). lia.
    + intros Hc. destruct (Nat.le_gt_cases h j) as [Hle|Hgt]; [exact Hle|]. exfalso.
      assert (Eh : Nat.ltb j h = true) by (apply Nat.ltb_lt; exact Hgt). rewrite Eh in Hc.
      assert (Et : filter (fun y => Nat.ltb j y) tl = tl).
      { apply filter_all'. intros y Hy. apply Nat.ltb_lt. specialize (H2 y Hy). lia. }
      rewrite Et, app_length in Hc. cbn [length] in Hc. lia.
Qed.

Lemma incr_skipn k l : incr l -> incr (skipn k l).
Proof.
  revert l. induction k as [|k IH]; intros l H; [exact H|]. destruct l as [|x l]; [constructor|]. simpl. apply IH. inversion H; assumption.
Qed.

Lemma incr_hd_le l x : incr l -> In x l -> hd 0 l <= x.
Proof.
  intros H Hx. destruct l as [|y l]; [destruct Hx|]. cbn [hd]. destruct Hx as [<-|Hx]; [lia|].
  inversion H as [|? ? _ Hf]; subst. rewrite Forall_forall in Hf. specialize (Hf x Hx). lia.
Qed.

Lemma slice_over j : slice s j (n + 1) = slice s j n.
Proof.
  unfold slice. assert (Hl : length (skipn j s) = n - j) by (rewrite skipn_length; reflexivity).
  rewrite !firstn_all2 by lia. reflexivity.
Qed.

Variable met0 : bool.
Hypothesis Hm : met0 && N.eqb (at_ s 0) resM = false.

Lemma term_nomet b : term e s met0 b = true <-> b = 0 \/ b = n \/ site e s b = true.
Proof.
  unfold term, met_site. rewrite <- andb_assoc, Hm, andb_false_r, orb_false_r, !orb_true_iff, !Nat.eqb_eq. fold n. tauto.
Qed.

Definition Q (a b : nat) : Prop := spec_ok e 1 s mn mx mc met0 a b = true.

Lemma Q_iff a b : Q a b <->
  a < b /\ b <= n /\ in_window mn mx (b - a) = true /\ (term e s met0 a = true \/ term e s met0 b = true) /\ inner_sites e s a b <= mc.
Proof.
  unfold Q, spec_ok. rewrite !andb_true_iff, Nat.ltb_lt, !Nat.leb_le. fold n.
  destruct (term e s met0 a), (term e s met0 b); simpl; intuition (try lia; try discriminate).
Qed.

(* b is an admissible terminus: every start from the first open one on is allowed *)
Lemma emit_term b j : 1 <= b <= n -> term e s met0 b = true ->
  (hd 0 (keep (mc + 1) (Tl (b - 1))) <= j /\ j < b /\ in_window mn mx (b - j) = true <-> Q j b).
Proof.
  intros Hb Ht. rewrite Q_iff, (inner_sites_Bd j b Hb). unfold Tl. rewrite (hd_keep_iff (Bd (b - 1)) j (Tl_incr (b - 1))).
  intuition lia.
Qed.

(* b is no admissible terminus: exactly the open starts are allowed *)
Lemma emit_nonterm b a : 1 <= b < n -> term e s met0 b = false ->
  (In a (keep (mc + 1) (Tl (b - 1))) /\ in_window mn mx (b - a) = true <-> Q a b).
Proof.
  intros Hb Ht. rewrite Q_iff, (inner_sites_Bd a b) by lia. rewrite Ht. split.
  - intros [Hin Hw]. assert (Hin' : In a (Tl (b - 1))) by (eapply keep_incl; exact Hin).
    apply (keep_incr_iff (mc + 1) _ a (Tl_incr (b - 1)) Hin') in Hin. unfold Tl in Hin. rewrite filter_gt_cons0 in Hin.
    assert (Ha : a < b /\ term e s met0 a = true).
    { destruct Hin' as [<-|Hc]; [split; [lia | apply term_nomet; left; reflexivity]|].
      apply Bd_In in Hc. destruct Hc as [Hc Hs]. split; [lia|]. apply term_nomet. right. right.
      rewrite site_after_site' in Hs by lia. replace (a - 1 + 1) with a in Hs by lia. exact Hs. }
    destruct Ha as [Hab Hta]. repeat split; try lia; auto.
  - intros [Hab [Hbn [Hw [[Hta|Hf] Hc]]]]; [|discriminate]. split; [|exact Hw].
    assert (Hin' : In a (Tl (b - 1))).
    { apply term_nomet in Hta. destruct Hta as [->|[Ha|Ha]]; [left; reflexivity | lia | right].
      pose proof (site_lt a Ha). apply Bd_In. split; [lia|]. rewrite site_after_site' by lia. replace (a - 1 + 1) with a by lia. exact Ha. }
    apply (keep_incr_iff (mc + 1) _ a (Tl_incr (b - 1)) Hin'). unfold Tl. rewrite filter_gt_cons0. lia.
Qed.

Lemma starts_le i x : In x (keep (mc + 1) (Tl i)) -> x <= i.
Proof. intros H. apply keep_incl in H. destruct H as [<-|H]; [lia|]. apply Bd_In in H. lia. Qed.

Lemma not_in_starts i : existsb (Nat.eqb (i + 1)) (keep (mc + 1) (Tl i)) = false.
Proof.
  destruct (existsb (Nat.eqb (i + 1)) (keep (mc + 1) (Tl i))) eqn:E; [|reflexivity].
  apply existsb_exists in E. destruct E as [x [Hx E]]. apply Nat.eqb_eq in E. subst x. apply starts_le in Hx. lia.
Qed.

Lemma starts_len i : length (keep (mc + 1) (Tl i)) <= mc + 1.
Proof. rewrite keep_length. lia. Qed.

Lemma in_seq_window h b j : In j (seq h (b - h)) <-> h <= j /\ j < b.
Proof. rewrite in_seq. lia. Qed.

(* the loop from position i on, started with the last mc+1 boundaries: all rule-conforming pairs ending behind i *)
Lemma semi_nomet_from p : forall d i, i + d = n - 1 ->
  (In p (semi_loop e s mn mx mc (seq i (n + 1 - i)) false (keep (mc + 1) (Tl i))) <->
   exists a b, Q a b /\ i + 1 <= b /\ p = slice s a b).
Proof.
  induction d as [|d IH]; intros i Hi.
  - (* the last residue and the end position *)
    assert (Ei : i = n - 1) by lia. subst i. replace (n + 1 - (n - 1)) with 2 by lia. cbn [seq]. replace (S (n - 1)) with n by lia.
    rewrite semi_step_nomet.
    assert (E1 : Nat.eqb (n - 1) n = false) by (apply Nat.eqb_neq; lia). rewrite E1. cbn [orb].
    replace (Nat.min (n - 1) (n - 1)) with (n - 1) by lia. replace (Nat.min (n - 1) (n - 1 + 1)) with (n - 1) by lia.
    replace (n - 1 + 1) with n by lia. replace (Nat.min n n) with n by lia.
    assert (Htn : term e s met0 n = true) by (apply term_nomet; right; left; reflexivity).
    assert (Hnn : 1 <= n <= n) by lia.
    destruct (is_enzymatic e (at_ s (n - 1)) (at_ s (n - 1))) eqn:Eg.
    + rewrite in_app_iff. rewrite orb_false_r.
      rewrite (keep_step (mc + 1) _ n (starts_len (n - 1))).
      rewrite semi_step_nomet. rewrite Nat.eqb_refl. cbn [orb]. cbn [semi_loop]. rewrite app_nil_r.
      replace (Nat.min n (n - 1)) with (n - 1) by lia. replace (Nat.min (n + 1) n) with n by lia.
      split.
      * intros [H|H]; apply in_flat_map in H; destruct H as [j [Hj H]]; apply in_seq_window in Hj.
        -- destruct (in_window mn mx (n - j)) eqn:Ew; [|destruct H]. destruct H as [<-|[]].
           exists j, n. split; [|split; [lia | reflexivity]]. apply (emit_term n j Hnn Htn). tauto.
        -- destruct (in_window mn mx (n - 1 + 1 - j)) eqn:Ew; [|destruct H]. destruct H as [<-|[]].
           replace (n - 1 + 1 - j) with (n - j) in Ew by lia.
           exists j, n. split; [|split; [lia | apply slice_over]].
           apply (emit_term n j Hnn Htn). split; [|tauto].
           rewrite keep_keep_app in Hj. destruct Hj as [Hj _].
           change (Tl (n - 1) ++ [n]) with (0 :: (Bd (n - 1) ++ [n])) in Hj.
           assert (HI : incr (0 :: (Bd (n - 1) ++ [n]))).
           { change (0 :: Bd (n - 1) ++ [n]) with (Tl (n - 1) ++ [n]). apply incr_app_last; [apply Tl_incr|].
             intros y [<-|Hy]; [lia|]. apply Bd_In in Hy. lia. }
           apply (hd_keep_iff _ j HI) in Hj. unfold Tl. apply (hd_keep_iff _ j (Tl_incr (n - 1))).
           rewrite filter_app, app_length in Hj. lia.
      * intros [a [b [HQ [Hb Hp]]]]. assert (b = n) by (apply Q_iff in HQ; lia). subst b.
        left. apply (emit_term n a Hnn Htn) in HQ. apply in_flat_map. exists a. split; [apply in_seq_window; tauto|].
        destruct HQ as [_ [_ Hw]]. rewrite Hw. left. symmetry. exact Hp.
    + rewrite in_app_iff. rewrite semi_step_nomet. rewrite Nat.eqb_refl. cbn [orb]. cbn [semi_loop]. rewrite app_nil_r.
      replace (Nat.min n (n - 1)) with (n - 1) by lia. replace (Nat.min (n + 1) n) with n by lia.
      split.
      * intros [H|H]; apply in_flat_map in H.
        -- destruct H as [st [Hst H]]. destruct (in_window mn mx (n - st)) eqn:Ew; [|destruct H]. cbn [andb] in H.
           destruct (negb (existsb (Nat.eqb n) (keep (mc + 1) (Tl (n - 1))))); [|destruct H]. destruct H as [<-|[]].
           exists st, n. split; [|split; [lia | reflexivity]]. apply (emit_term n st Hnn Htn).
           pose proof (starts_le _ _ Hst). split; [|split; [lia | exact Ew]].
           apply incr_hd_le; [apply incr_skipn, Tl_incr | exact Hst].
        -- destruct H as [j [Hj H]]. apply in_seq_window in Hj.
           destruct (in_window mn mx (n - 1 + 1 - j)) eqn:Ew; [|destruct H]. destruct H as [<-|[]].
           replace (n - 1 + 1 - j) with (n - j) in Ew by lia. exists j, n. split; [|split; [lia | apply slice_over]].
           apply (emit_term n j Hnn Htn). tauto.
      * intros [a [b [HQ [Hb Hp]]]]. assert (b = n) by (apply Q_iff in HQ; lia). subst b.
        right. apply (emit_term n a Hnn Htn) in HQ. apply in_flat_map. exists a. split; [apply in_seq_window; tauto|].
        replace (n - 1 + 1 - a) with (n - a) by lia. destruct HQ as [_ [_ Hw]]. rewrite Hw. left. rewrite slice_over. symmetry. exact Hp.
  - (* an inner position *)
    assert (Hin : i + 1 < n) by lia.
    replace (n + 1 - i) with (S (n + 1 - S i)) by lia. cbn [seq]. rewrite semi_step_nomet.
    assert (E1 : Nat.eqb i n = false) by (apply Nat.eqb_neq; lia). rewrite E1. cbn [orb].
    replace (Nat.min (n - 1) i) with i by lia. replace (Nat.min (n - 1) (i + 1)) with (i + 1) by lia.
    replace (Nat.min i (n - 1)) with i by lia. replace (Nat.min (i + 1) n) with (i + 1) by lia.
    change (is_enzymatic e (at_ s i) (at_ s (i + 1))) with (site_after e s i).
    assert (Hb : 1 <= i + 1 <= n) by lia. assert (Hb' : 1 <= i + 1 < n) by lia.
    assert (Ebi : i + 1 - 1 = i) by lia.
    destruct (site_after e s i) eqn:Es.
    + assert (Ht : term e s met0 (i + 1) = true) by (apply term_nomet; right; right; rewrite <- site_after_site' by lia; exact Es).
      rewrite orb_false_r. rewrite (keep_step (mc + 1) _ (i + 1) (starts_len i)), keep_keep_app.
      assert (ET : Tl i ++ [i + 1] = Tl (S i)) by (unfold Tl; rewrite Bd_S, Es; reflexivity). rewrite ET.
      rewrite in_app_iff, (IH (S i)) by lia. split.
      * intros [H|H].
        -- apply in_flat_map in H. destruct H as [j [Hj H]]. apply in_seq_window in Hj.
           destruct (in_window mn mx (i + 1 - j)) eqn:Ew; [|destruct H]. destruct H as [<-|[]].
           exists j, (i + 1). split; [|split; [lia | reflexivity]]. apply (emit_term (i + 1) j Hb Ht). rewrite Ebi. tauto.
        -- destruct H as [a [b [HQ [Hbb Hp]]]]. exists a, b. split; [exact HQ|]. split; [lia | exact Hp].
      * intros [a [b [HQ [Hbb Hp]]]]. destruct (Nat.eq_dec b (i + 1)) as [->|Hne].
        -- left. apply (emit_term (i + 1) a Hb Ht) in HQ. rewrite Ebi in HQ. apply in_flat_map. exists a.
           split; [apply in_seq_window; tauto|]. destruct HQ as [_ [_ Hw]]. rewrite Hw. left. symmetry. exact Hp.
        -- right. exists a, b. split; [exact HQ|]. split; [lia | exact Hp].
    + assert (Ht : term e s met0 (i + 1) = false).
      { destruct (term e s met0 (i + 1)) eqn:Et; [|reflexivity]. apply term_nomet in Et. destruct Et as [Et|[Et|Et]]; try lia.
        rewrite <- site_after_site' in Et by lia. congruence. }
      assert (ET : Tl i = Tl (S i)) by (unfold Tl; rewrite Bd_S, Es, app_nil_r; reflexivity).
      rewrite in_app_iff. rewrite ET at 2. rewrite (IH (S i)) by lia. split.
      * intros [H|H].
        -- apply in_flat_map in H. destruct H as [st [Hst H]]. rewrite not_in_starts in H. cbn [negb] in H. rewrite andb_true_r in H.
           destruct (in_window mn mx (i + 1 - st)) eqn:Ew; [|destruct H]. destruct H as [<-|[]].
           exists st, (i + 1). split; [|split; [lia | reflexivity]]. apply (emit_nonterm (i + 1) st Hb' Ht). rewrite Ebi. tauto.
        -- destruct H as [a [b [HQ [Hbb Hp]]]]. exists a, b. split; [exact HQ|]. split; [lia | exact Hp].
      * intros [a [b [HQ [Hbb Hp]]]]. destruct (Nat.eq_dec b (i + 1)) as [->|Hne].
        -- left. apply (emit_nonterm (i + 1) a Hb' Ht) in HQ. rewrite Ebi in HQ. apply in_flat_map. exists a.
           split; [tauto|]. rewrite not_in_starts. cbn [negb]. rewrite andb_true_r. destruct HQ as [_ Hw]. rewrite Hw. left. symmetry. exact Hp.
        -- right. exists a, b. split; [exact HQ|]. split; [lia | exact Hp].
Qed.

Theorem semi_digest_spec_nomet p :
  In p (semi_specific_digest e s mn mx mc met0) <-> In p (spec_digest e 1 s mn mx mc met0).
Proof.
  unfold semi_specific_digest. rewrite Hm. fold n. rewrite spec_digest_In.
  assert (E0 : [0] = keep (mc + 1) (Tl 0)) by (unfold Tl, Bd; cbn [seq filter map]; rewrite keep_all by (simpl; lia); reflexivity).
  rewrite E0. replace (seq 0 (n + 1)) with (seq 0 (n + 1 - 0)) by (f_equal; lia).
  rewrite (semi_nomet_from p (n - 1) 0) by lia. split.
  - intros [a [b [HQ [_ Hp]]]]. exists a, b. split; [exact HQ | exact Hp].
  - intros [a [b [HQ Hp]]]. exists a, b. split; [exact HQ|]. split; [|exact Hp]. apply Q_iff in HQ. lia.
Qed.

(* ================= with the initiator-methionine site ================= *)
Variable met1 : bool.
Hypothesis Hm1 : met1 && N.eqb (at_ s 0) resM = true.

Lemma term_met b : term e s met1 b = true <-> b = 0 \/ b = n \/ site e s b = true \/ b = 1.
Proof.
  unfold term, met_site. rewrite <- andb_assoc, Hm1, andb_true_r, !orb_true_iff, !Nat.eqb_eq. fold n. tauto.
Qed.

Definition QM (a b : nat) : Prop := spec_ok e 1 s mn mx mc met1 a b = true.

Lemma QM_iff a b : QM a b <->
  a < b /\ b <= n /\ in_window mn mx (b - a) = true /\ (term e s met1 a = true \/ term e s met1 b = true) /\ inner_sites e s a b <= mc.
Proof.
  unfold QM, spec_ok. rewrite !andb_true_iff, Nat.ltb_lt, !Nat.leb_le. fold n.
  destruct (term e s met1 a), (term e s met1 b); simpl; intuition (try lia; try discriminate).
Qed.

(* --- (A) the residue behind the methionine is itself an enzymatic site: nothing special remains --- *)
Lemma semi_met_real_site : 2 <= n -> site_after e s 0 = true ->
  semi_specific_digest e s mn mx mc met1 = semi_specific_digest e s mn mx mc false.
Proof.
  intros H2 Hs. unfold semi_specific_digest. rewrite Hm1. cbn [andb]. fold n.
  replace (n + 1) with (S n) by lia. cbn [seq]. cbn [semi_loop]. fold n.
  replace (Nat.min (n - 1) 0) with 0 by lia. replace (Nat.min (n - 1) (0 + 1)) with 1 by lia.
  change (is_enzymatic e (at_ s 0) (at_ s 1)) with (site_after e s 0). rewrite Hs.
  assert (E0 : Nat.eqb 0 n = false) by (apply Nat.eqb_neq; lia). rewrite !E0.
  cbn [Nat.eqb andb orb]. reflexivity.
Qed.

Lemma term_met_real_site b : site e s 1 = true -> term e s met1 b = term e s false b.
Proof.
  intros Hs. unfold term, met_site. cbn [andb]. rewrite andb_false_r, orb_false_r.
  destruct (Nat.eqb_spec b 1) as [->|Hb]; [|cbn [andb]; rewrite orb_false_r; reflexivity].
  rewrite Hs. rewrite !orb_true_r. reflexivity.
Qed.

Lemma spec_met_real_site k : site e s 1 = true -> spec_digest e k s mn mx mc met1 = spec_digest e k s mn mx mc false.
Proof.
  intros Hs. unfold spec_digest. apply flat_map_ext. intros a. apply flat_map_ext. intros b.
  unfold spec_ok. rewrite !(term_met_real_site _ Hs). reflexivity.
Qed.

(* --- (B) the residue behind the methionine is no enzymatic site: the site 1 costs no missed cleavage --- *)
Lemma semi_step_met i rest starts : i <> 0 ->
  semi_loop e s mn mx mc (i :: rest) true starts =
  (if Nat.eqb i n || is_enzymatic e (at_ s (Nat.min (n - 1) i)) (at_ s (Nat.min (n - 1) (i + 1))) then
     flat_map (fun j => if in_window mn mx (Nat.min i (n - 1) + 1 - j) then [slice s j (i + 1)] else [])
              (seq (hd 0 starts) (Nat.min (i + 1) n - hd 0 starts))
     ++ semi_loop e s mn mx mc rest true
          (if Nat.ltb (mc + 1 + (if Nat.eqb (hd 1 (starts ++ [i + 1])) 0 && true then 1 else 0)) (length (starts ++ [i + 1])) || Nat.eqb i n
           then skipn (1 + (if Nat.eqb (hd 1 (starts ++ [i + 1])) 0 && true then 1 else 0)) (starts ++ [i + 1]) else starts ++ [i + 1])
   else
     flat_map (fun st => if in_window mn mx (i + 1 - st) && negb (existsb (Nat.eqb (i + 1)) starts) then [slice s st (i + 1)] else []) starts
     ++ semi_loop e s mn mx mc rest true starts).
Proof.
  intros Hi. cbn [semi_loop]. fold n. assert (E : Nat.eqb i 0 = false) by (apply Nat.eqb_neq; exact Hi). rewrite E.
  cbn [andb]. rewrite !orb_false_r. reflexivity.
Qed.

Hypothesis Hs0 : site_after e s 0 = false.

Definition TM (i : nat) : list nat := 0 :: 1 :: Bd i.

Lemma Bd_ge2 i c : In c (Bd i) -> 2 <= c.
Proof.
  intros H. apply Bd_In in H. destruct H as [Hc Hs]. destruct (Nat.eq_dec c 1) as [->|]; [|lia]. simpl in Hs. congruence.
Qed.

Lemma TM_incr i : incr (TM i).
Proof.
  unfold TM. constructor; [constructor; [apply Bd_incr|]|].
  - apply Forall_forall. intros y Hy. apply Bd_ge2 in Hy. lia.
  - constructor; [lia|]. apply Forall_forall. intros y Hy. apply Bd_ge2 in Hy. lia.
Qed.

Lemma TM_S i : TM (S i) = TM i ++ (if site_after e s i then [i + 1] else []).
Proof. unfold TM. rewrite Bd_S. reflexivity. Qed.

Lemma hd_gkeep_iff L j : incr (0 :: 1 :: L) ->
  (hd 0 (gkeep mc (0 :: 1 :: L)) <= j <-> length (filter (fun y => Nat.ltb j y) L) <= mc).
Proof.
  intros HI. unfold gkeep. cbn [length].
  assert (HI0 : incr (0 :: L)).
  { inversion HI as [|? ? HI1 HF]; subst. inversion HI1 as [|? ? HI2 HF1]; subst. constructor; [exact HI2|].
    inversion HF; assumption. }
  destruct (Nat.leb_spec (S (S (length L))) (mc + 2)) as [Hle|Hgt].
  - cbn [hd]. split; [intros _|intros _; lia]. pose proof (filter_len_le' (fun y => Nat.ltb j y) L). lia.
  - change (0 :: 1 :: L) with ([0; 1] ++ L). rewrite keep_app_drop by lia.
    rewrite <- (keep_app_drop (mc + 1) [0] L) by lia. cbn [app]. apply hd_keep_iff. exact HI0.
Qed.

Lemma emit_term_met b j : 2 <= b <= n -> term e s met1 b = true ->
  (hd 0 (gkeep mc (TM (b - 1))) <= j /\ j < b /\ in_window mn mx (b - j) = true <-> QM j b).
Proof.
  intros Hb Ht. rewrite QM_iff, (inner_sites_Bd j b) by lia. unfold TM. rewrite (hd_gkeep_iff (Bd (b - 1)) j (TM_incr (b - 1))).
  intuition lia.
Qed.

Lemma emit_nonterm_met b a : 2 <= b < n -> term e s met1 b = false ->
  (In a (gkeep mc (TM (b - 1))) /\ in_window mn mx (b - a) = true <-> QM a b).
Proof.
  intros Hb Ht. rewrite QM_iff, (inner_sites_Bd a b) by lia. rewrite Ht.
  unfold TM, Bd. rewrite (gkeep_In_iff s mc (filter (site_after e s) (seq 0 (b - 1))) a (incr_filter_seq _ _ _)). cbv zeta.
  fold (Bd (b - 1)). split.
  - intros [[Hin Hc] Hw].
    assert (Ha : a < b /\ term e s met1 a = true).
    { destruct Hin as [<-|[<-|Hc']]; [split; [lia | apply term_met; left; reflexivity] | split; [lia | apply term_met; right; right; right; reflexivity]|].
      pose proof (Bd_ge2 _ _ Hc'). apply Bd_In in Hc'. destruct Hc' as [Hc' Hs]. split; [lia|]. apply term_met. right. right. left.
      rewrite site_after_site' in Hs by lia. replace (a - 1 + 1) with a in Hs by lia. exact Hs. }
    destruct Ha as [Hab Hta]. repeat split; try lia; auto.
  - intros [Hab [Hbn [Hw [[Hta|Hf] Hc]]]]; [|discriminate]. split; [|exact Hw]. split; [|exact Hc].
    apply term_met in Hta. destruct Hta as [ -> | [Ha | [Ha | -> ] ] ]; [left; reflexivity | lia | right; right | right; left; reflexivity].
    pose proof (site_lt a Ha). apply Bd_In. split; [lia|]. rewrite site_after_site' by lia. replace (a - 1 + 1) with a by lia. exact Ha.
Qed.

Lemma gkeep_incl T x : In x (gkeep mc T) -> In x T.
Proof. unfold gkeep. destruct (Nat.leb (length T) (mc + 2)); [auto | apply keep_incl]. Qed.

Lemma gkeep_incr T : incr T -> incr (gkeep mc T).
Proof. intros H. unfold gkeep. destruct (Nat.leb (length T) (mc + 2)); [exact H | apply incr_skipn; exact H]. Qed.

Lemma startsM_le i x : 1 <= i -> In x (gkeep mc (TM i)) -> x <= i.
Proof. intros Hi H. apply gkeep_incl in H. destruct H as [<-|[<-|H]]; [lia | lia|]. apply Bd_In in H. lia. Qed.

Lemma not_in_startsM i : 1 <= i -> existsb (Nat.eqb (i + 1)) (gkeep mc (TM i)) = false.
Proof.
  intros Hi. destruct (existsb (Nat.eqb (i + 1)) (gkeep mc (TM i))) eqn:E; [|reflexivity].
  apply existsb_exists in E. destruct E as [x [Hx E]]. apply Nat.eqb_eq in E. subst x. apply (startsM_le i _ Hi) in Hx. lia.
Qed.

Lemma TM_tail_nonzero i : Forall (fun y => y <> 0) (1 :: Bd i).
Proof. constructor; [lia|]. apply Forall_forall. intros y Hy. apply Bd_ge2 in Hy. lia. Qed.

(* the step of the window when an enzymatic boundary is appended *)
Lemma startsM_step i :
  (if Nat.ltb (mc + 1 + (if Nat.eqb (hd 1 (gkeep mc (TM i) ++ [i + 1])) 0 && true then 1 else 0)) (length (gkeep mc (TM i) ++ [i + 1]))
   then skipn (1 + (if Nat.eqb (hd 1 (gkeep mc (TM i) ++ [i + 1])) 0 && true then 1 else 0)) (gkeep mc (TM i) ++ [i + 1])
   else gkeep mc (TM i) ++ [i + 1]) = gkeep mc (TM i ++ [i + 1]).
Proof. apply (gkeep_step s mc (1 :: Bd i) (i + 1) (TM_tail_nonzero i)). lia. Qed.

Lemma semi_met_from p : forall d i, 1 <= i -> i + d = n - 1 ->
  (In p (semi_loop e s mn mx mc (seq i (n + 1 - i)) true (gkeep mc (TM i))) <->
   exists a b, QM a b /\ i + 1 <= b /\ p = slice s a b).
Proof.
  induction d as [|d IH]; intros i Hi1 Hi.
  - assert (Ei : i = n - 1) by lia. subst i. replace (n + 1 - (n - 1)) with 2 by lia. cbn [seq]. replace (S (n - 1)) with n by lia.
    rewrite semi_step_met by lia.
    assert (E1 : Nat.eqb (n - 1) n = false) by (apply Nat.eqb_neq; lia). rewrite E1. cbn [orb].
    replace (Nat.min (n - 1) (n - 1)) with (n - 1) by lia. replace (Nat.min (n - 1) (n - 1 + 1)) with (n - 1) by lia.
    replace (n - 1 + 1) with n by lia. replace (Nat.min n n) with n by lia.
    assert (Htn : term e s met1 n = true) by (apply term_met; right; left; reflexivity).
    assert (Hnn : 2 <= n <= n) by lia.
    destruct (is_enzymatic e (at_ s (n - 1)) (at_ s (n - 1))) eqn:Eg.
    + rewrite in_app_iff. rewrite orb_false_r.
      pose proof (startsM_step (n - 1)) as Hstep. replace (n - 1 + 1) with n in Hstep by lia. rewrite Hstep.
      rewrite semi_step_met by lia. rewrite Nat.eqb_refl. cbn [orb]. cbn [semi_loop]. rewrite app_nil_r.
      replace (Nat.min n (n - 1)) with (n - 1) by lia. replace (Nat.min (n + 1) n) with n by lia.
      split.
      * intros [H|H]; apply in_flat_map in H; destruct H as [j [Hj H]]; apply in_seq_window in Hj.
        -- destruct (in_window mn mx (n - j)) eqn:Ew; [|destruct H]. destruct H as [<-|[]].
           exists j, n. split; [|split; [lia | reflexivity]]. apply (emit_term_met n j Hnn Htn). tauto.
        -- destruct (in_window mn mx (n - 1 + 1 - j)) eqn:Ew; [|destruct H]. destruct H as [<-|[]].
           replace (n - 1 + 1 - j) with (n - j) in Ew by lia.
           exists j, n. split; [|split; [lia | apply slice_over]].
           apply (emit_term_met n j Hnn Htn). split; [|tauto]. destruct Hj as [Hj _].
           change (TM (n - 1) ++ [n]) with (0 :: 1 :: (Bd (n - 1) ++ [n])) in Hj.
           assert (HI : incr (0 :: 1 :: (Bd (n - 1) ++ [n]))).
           { change (0 :: 1 :: Bd (n - 1) ++ [n]) with (TM (n - 1) ++ [n]). apply incr_app_last; [apply TM_incr|].
             intros y [<-|[<-|Hy]]; [lia | lia|]. apply Bd_In in Hy. lia. }
           apply (hd_gkeep_iff _ j HI) in Hj. unfold TM. apply (hd_gkeep_iff _ j (TM_incr (n - 1))).
           rewrite filter_app, app_length in Hj. lia.
      * intros [a [b [HQ [Hb Hp]]]]. assert (b = n) by (apply QM_iff in HQ; lia). subst b.
        left. apply (emit_term_met n a Hnn Htn) in HQ. apply in_flat_map. exists a. split; [apply in_seq_window; tauto|].
        destruct HQ as [_ [_ Hw]]. rewrite Hw. left. symmetry. exact Hp.
    + rewrite in_app_iff. rewrite semi_step_met by lia. rewrite Nat.eqb_refl. cbn [orb]. cbn [semi_loop]. rewrite app_nil_r.
      replace (Nat.min n (n - 1)) with (n - 1) by lia. replace (Nat.min (n + 1) n) with n by lia.
      split.
      * intros [H|H]; apply in_flat_map in H.
        -- destruct H as [st [Hst H]]. destruct (in_window mn mx (n - st)) eqn:Ew; [|destruct H]. cbn [andb] in H.
           destruct (negb (existsb (Nat.eqb n) (gkeep mc (TM (n - 1))))); [|destruct H]. destruct H as [<-|[]].
           exists st, n. split; [|split; [lia | reflexivity]]. apply (emit_term_met n st Hnn Htn).
           pose proof (startsM_le (n - 1) _ Hi1 Hst). split; [|split; [lia | exact Ew]].
           apply incr_hd_le; [apply gkeep_incr, TM_incr | exact Hst].
        -- destruct H as [j [Hj H]]. apply in_seq_window in Hj.
           destruct (in_window mn mx (n - 1 + 1 - j)) eqn:Ew; [|destruct H]. destruct H as [<-|[]].
           replace (n - 1 + 1 - j) with (n - j) in Ew by lia. exists j, n. split; [|split; [lia | apply slice_over]].
           apply (emit_term_met n j Hnn Htn). tauto.
      * intros [a [b [HQ [Hb Hp]]]]. assert (b = n) by (apply QM_iff in HQ; lia). subst b.
        right. apply (emit_term_met n a Hnn Htn) in HQ. apply in_flat_map. exists a. split; [apply in_seq_window; tauto|].
        replace (n - 1 + 1 - a) with (n - a) by lia. destruct HQ as [_ [_ Hw]]. rewrite Hw. left. rewrite slice_over. symmetry. exact Hp.
  - assert (Hin : i + 1 < n) by lia.
    replace (n + 1 - i) with (S (n + 1 - S i)) by lia. cbn [seq]. rewrite semi_step_met by lia.
    assert (E1 : Nat.eqb i n = false) by (apply Nat.eqb_neq; lia). rewrite E1. cbn [orb].
    replace (Nat.min (n - 1) i) with i by lia. replace (Nat.min (n - 1) (i + 1)) with (i + 1) by lia.
    replace (Nat.min i (n - 1)) with i by lia. replace (Nat.min (i + 1) n) with (i + 1) by lia.
    change (is_enzymatic e (at_ s i) (at_ s (i + 1))) with (site_after e s i).
    assert (Hb : 2 <= i + 1 <= n) by lia. assert (Hb' : 2 <= i + 1 < n) by lia.
    assert (Ebi : i + 1 - 1 = i) by lia.
    destruct (site_after e s i) eqn:Es.
    + assert (Ht : term e s met1 (i + 1) = true) by (apply term_met; right; right; left; rewrite <- site_after_site' by lia; exact Es).
      rewrite orb_false_r. rewrite (startsM_step i).
      assert (ET : TM i ++ [i + 1] = TM (S i)) by (rewrite TM_S, Es; reflexivity). rewrite ET.
      rewrite in_app_iff, (IH (S i)) by lia. split.
      * intros [H|H].
        -- apply in_flat_map in H. destruct H as [j [Hj H]]. apply in_seq_window in Hj.
           destruct (in_window mn mx (i + 1 - j)) eqn:Ew; [|destruct H]. destruct H as [<-|[]].
           exists j, (i + 1). split; [|split; [lia | reflexivity]]. apply (emit_term_met (i + 1) j Hb Ht). rewrite Ebi. tauto.
        -- destruct H as [a [b [HQ [Hbb Hp]]]]. exists a, b. split; [exact HQ|]. split; [lia | exact Hp].
      * intros [a [b [HQ [Hbb Hp]]]]. destruct (Nat.eq_dec b (i + 1)) as [->|Hne].
        -- left. apply (emit_term_met (i + 1) a Hb Ht) in HQ. rewrite Ebi in HQ. apply in_flat_map. exists a.
           split; [apply in_seq_window; tauto|]. destruct HQ as [_ [_ Hw]]. rewrite Hw. left. symmetry. exact Hp.
        -- right. exists a, b. split; [exact HQ|]. split; [lia | exact Hp].
    + assert (Ht : term e s met1 (i + 1) = false).
      { destruct (term e s met1 (i + 1)) eqn:Et; [|reflexivity]. apply term_met in Et. destruct Et as [Et|[Et|[Et|Et]]]; try lia.
        rewrite <- site_after_site' in Et by lia. congruence. }
      assert (ET : TM i = TM (S i)) by (rewrite TM_S, Es, app_nil_r; reflexivity).
      rewrite in_app_iff. rewrite ET at 2. rewrite (IH (S i)) by lia. split.
      * intros [H|H].
        -- apply in_flat_map in H. destruct H as [st [Hst H]]. rewrite (not_in_startsM i Hi1) in H. cbn [negb] in H. rewrite andb_true_r in H.
           destruct (in_window mn mx (i + 1 - st)) eqn:Ew; [|destruct H]. destruct H as [<-|[]].
           exists st, (i + 1). split; [|split; [lia | reflexivity]]. apply (emit_nonterm_met (i + 1) st Hb' Ht). rewrite Ebi. tauto.
        -- destruct H as [a [b [HQ [Hbb Hp]]]]. exists a, b. split; [exact HQ|]. split; [lia | exact Hp].
      * intros [a [b [HQ [Hbb Hp]]]]. destruct (Nat.eq_dec b (i + 1)) as [->|Hne].
        -- left. apply (emit_nonterm_met (i + 1) a Hb' Ht) in HQ. rewrite Ebi in HQ. apply in_flat_map. exists a.
           split; [tauto|]. rewrite (not_in_startsM i Hi1). cbn [negb]. rewrite andb_true_r. destruct HQ as [_ Hw]. rewrite Hw. left. symmetry. exact Hp.
        -- right. exists a, b. split; [exact HQ|]. split; [lia | exact Hp].
Qed.

Lemma inner_sites_0_1 : inner_sites e s 0 1 = 0.
Proof.
  unfold inner_sites. rewrite filter_none'; [reflexivity|]. intros c.
  destruct (Nat.ltb_spec 0 c), (Nat.ltb_spec c 1); simpl; try reflexivity. lia.
Qed.

Lemma QM_0_1 : QM 0 1 <-> in_window mn mx 1 = true.
Proof.
  rewrite QM_iff, inner_sites_0_1. assert (Ht : term e s met1 0 = true) by (apply term_met; left; reflexivity).
  rewrite Ht. replace (1 - 0) with 1 by lia. intuition lia.
Qed.

Theorem semi_digest_spec_met_B2 p : 2 <= n ->
  (In p (semi_specific_digest e s mn mx mc met1) <-> In p (spec_digest e 1 s mn mx mc met1)).
Proof.
  intros H2. unfold semi_specific_digest. rewrite Hm1. fold n. rewrite spec_digest_In.
  replace (n + 1) with (S n) by lia. cbn [seq]. cbn [semi_loop]. fold n.
  replace (Nat.min (n - 1) 0) with 0 by lia. replace (Nat.min (n - 1) (0 + 1)) with 1 by lia.
  change (is_enzymatic e (at_ s 0) (at_ s 1)) with (site_after e s 0). rewrite Hs0.
  assert (E0 : Nat.eqb 0 n = false) by (apply Nat.eqb_neq; lia). rewrite !E0.
  cbn [Nat.eqb andb orb hd app length]. replace (Nat.min (0 + 1) n - 0) with 1 by lia. replace (Nat.min 0 (n - 1) + 1 - 0) with 1 by lia.
  cbn [seq flat_map]. replace (0 + 1) with 1 by reflexivity. replace (Nat.min 0 (n - 1) + 1 - 0) with 1 by lia.
  assert (Et : Nat.ltb (mc + 1 + 1) 2 = false) by (apply Nat.ltb_ge; lia). rewrite Et. cbn [orb].
  assert (E1 : [0; 1] = gkeep mc (TM 1)).
  { unfold TM, Bd. cbn [seq filter]. rewrite Hs0. cbn [map]. unfold gkeep. cbn [length]. destruct (Nat.leb_spec 2 (mc + 2)); [reflexivity | lia]. }
  rewrite E1. replace (seq 1 n) with (seq 1 (n + 1 - 1)) by (f_equal; lia).
  rewrite app_nil_r, in_app_iff, (semi_met_from p (n - 2) 1) by lia. split.
  - intros [H|H].
    + destruct (in_window mn mx 1) eqn:Ew; [|destruct H]. destruct H as [<-|[]]. exists 0, 1. split; [apply QM_0_1; exact Ew | reflexivity].
    + destruct H as [a [b [HQ [_ Hp]]]]. exists a, b. split; [exact HQ | exact Hp].
  - intros [a [b [HQ Hp]]]. destruct (Nat.eq_dec b 1) as [->|Hb].
    + left. assert (a = 0) by (apply QM_iff in HQ; lia). subst a. apply QM_0_1 in HQ. rewrite HQ. left. symmetry. exact Hp.
    + right. exists a, b. split; [exact HQ|]. split; [|exact Hp]. apply QM_iff in HQ. lia.
Qed.
End Semi.

(* semi-specific digestion = the cleavage rule with one admissible terminus, for every non-empty sequence, every enzyme,
   window (min_len >= 1), missed-cleavage budget and methionine setting *)
Theorem semi_digest_spec e s mn mx mc met0 p :
  1 <= length s -> 1 <= mn ->
  (In p (semi_specific_digest e s mn mx mc met0) <-> In p (spec_digest e 1 s mn mx mc met0)).
Proof.
  intros Hn Hmn. destruct (met0 && N.eqb (at_ s 0) resM) eqn:Hm.
  - destruct s as [|c [|c2 t]]; [simpl in Hn; lia | rewrite spec_single; apply semi_single; exact Hmn |].
    set (s := c :: c2 :: t) in *. assert (H2 : 2 <= length s) by (simpl; lia).
    destruct (site_after e s 0) eqn:Hs.
    + rewrite (semi_met_real_site e s mn mx mc Hn Hmn met0 Hm H2 Hs).
      assert (Hs1 : site e s 1 = true).
      { pose proof (site_after_site' e s mn Hn Hmn 0) as Hq. cbn [Nat.add] in Hq. rewrite <- Hq by lia. exact Hs. }
      rewrite (spec_met_real_site e s mn mx mc met0 1 Hs1).
      apply semi_digest_spec_nomet; [exact Hn | exact Hmn | reflexivity].
    + apply (semi_digest_spec_met_B2 e s mn mx mc Hn Hmn met0 Hm Hs p H2).
  - apply semi_digest_spec_nomet; assumption.
Qed.
