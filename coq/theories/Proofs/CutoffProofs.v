From PGF Require Import Base.Prelude Base.StableSort Model.Cutoff.
From Coq Require Import Permutation Sorted.
Open Scope Z_scope.

Definition zsum (l : list Z) : Z := fold_right Z.add 0 l.
Definition sorted_fin (l : list (option Z)) : list Z := isort Z.leb (finite l).

(* mean of the first k sorted values exceeds the level *)
Definition crosses D ln ld (s : list Z) (k : nat) : Prop :=
  ln * Zpos D * Z.of_nat k < zsum (firstn k s) * Zpos ld.

Lemma zsum_app a b : zsum (a ++ b) = zsum a + zsum b.
Proof. induction a as [|x a IH]; simpl; [reflexivity | rewrite IH; lia]. Qed.

Lemma zleb_total x y : Z.leb x y = true \/ Z.leb y x = true.
Proof. destruct (Z.leb_spec x y); [left; reflexivity | right; apply Z.leb_le; lia]. Qed.
Lemma zleb_trans x y z : Z.leb x y = true -> Z.leb y z = true -> Z.leb x z = true.
Proof. rewrite !Z.leb_le. lia. Qed.

Lemma firstn_snoc {A} (pre : list A) p r :
  firstn (S (length pre)) (pre ++ p :: r) = pre ++ [p].
Proof.
  induction pre as [|x pre IH]; [reflexivity|].
  change (x :: firstn (S (length pre)) (pre ++ p :: r) = x :: pre ++ [p]). rewrite IH. reflexivity.
Qed.

(* generalised scan: [pre] already consumed *)
Lemma scan_spec D ln ld : forall r pre,
  (forall j, (1 <= j <= length pre)%nat -> ~ crosses D ln ld (pre ++ r) j) ->
  match scan D ln ld (zsum pre) (Z.of_nat (length pre)) r with
  | Some p => exists k, (length pre < k <= length (pre ++ r))%nat /\
                        nth (k - 1) (pre ++ r) 0 = p /\
                        crosses D ln ld (pre ++ r) k /\
                        (forall j, (1 <= j < k)%nat -> ~ crosses D ln ld (pre ++ r) j)
  | None => forall j, (1 <= j <= length (pre ++ r))%nat -> ~ crosses D ln ld (pre ++ r) j
  end.
Proof.
  induction r as [|p r IH]; intros pre Hpre; simpl.
  - rewrite app_nil_r in *. exact Hpre.
  - assert (Hc : crosses D ln ld (pre ++ p :: r) (S (length pre)) <->
                 exceeds D ln ld (zsum pre + p) (Z.of_nat (length pre) + 1) = true).
    { unfold crosses, exceeds. rewrite firstn_snoc, zsum_app. simpl zsum.
      rewrite Z.ltb_lt, Nat2Z.inj_succ. replace (zsum pre + (p + 0)) with (zsum pre + p) by lia.
      unfold Z.succ. reflexivity. }
    destruct (exceeds D ln ld (zsum pre + p) (Z.of_nat (length pre) + 1)) eqn:E.
    + exists (S (length pre)). repeat split.
      * lia.
      * rewrite app_length. simpl. lia.
      * replace (S (length pre) - 1)%nat with (length pre) by lia.
        rewrite app_nth2 by lia. rewrite Nat.sub_diag. reflexivity.
      * apply Hc. reflexivity.
      * intros j Hj. apply Hpre. lia.
    + specialize (IH (pre ++ [p])).
      assert (Heq : (pre ++ [p]) ++ r = pre ++ p :: r) by (rewrite <- app_assoc; reflexivity).
      rewrite Heq in IH. rewrite zsum_app in IH. simpl zsum in IH.
      rewrite app_length in IH. simpl length in IH.
      replace (zsum pre + (p + 0)) with (zsum pre + p) in IH by lia.
      replace (Z.of_nat (length pre + 1)) with (Z.of_nat (length pre) + 1) in IH by lia.
      assert (Hpre' : forall j, (1 <= j <= length pre + 1)%nat -> ~ crosses D ln ld (pre ++ p :: r) j).
      { intros j Hj. destruct (Nat.eq_dec j (S (length pre))) as [->|Hne].
        - intros Hx. apply Hc in Hx. congruence.
        - apply Hpre. lia. }
      specialize (IH Hpre').
      destruct (scan D ln ld (zsum pre + p) (Z.of_nat (length pre) + 1) r) as [q|].
      * destruct IH as [k [Hk [Hn [Hx Hm]]]]. exists k. repeat split; try assumption; lia.
      * exact IH.
Qed.

(* ---- C17 clause 1: the cutoff is the first crossing, or 1.0 ---- *)
Lemma cutoff_first_crossing D ln ld l :
  let s := sorted_fin l in
  (exists k, (1 <= k <= length s)%nat /\ cutoff D ln ld l = nth (k - 1) s 0 /\
             crosses D ln ld s k /\ (forall j, (1 <= j < k)%nat -> ~ crosses D ln ld s j))
  \/ (cutoff D ln ld l = Zpos D /\ forall j, (1 <= j <= length s)%nat -> ~ crosses D ln ld s j).
Proof.
  intros s. unfold cutoff. fold (sorted_fin l). fold s.
  pose proof (scan_spec D ln ld s []) as H. simpl in H.
  assert (H0 : forall j, (1 <= j <= 0)%nat -> ~ crosses D ln ld s j) by (intros; lia).
  specialize (H H0). destruct (scan D ln ld 0 0 s) as [p|].
  - left. destruct H as [k [Hk [Hn [Hx Hm]]]]. exists k. repeat split; auto; lia.
  - right. split; [reflexivity | exact H].
Qed.

(* sortedness facts *)
Lemma sorted_fin_sorted l : StronglySorted (fun x y => Z.leb x y = true) (sorted_fin l).
Proof. apply (isort_sorted Z.leb zleb_total zleb_trans). Qed.

Lemma sorted_nth_le s : StronglySorted (fun x y => Z.leb x y = true) s ->
  forall i j, (i <= j < length s)%nat -> nth i s 0 <= nth j s 0.
Proof.
  induction 1 as [|x s Hs IH Hall]; intros i j Hij; simpl in *; [lia|].
  destruct i as [|i], j as [|j]; try lia.
  - rewrite Forall_forall in Hall. apply Z.leb_le. apply Hall. apply nth_In. lia.
  - apply IH. lia.
Qed.

Lemma filter_none {A} (f : A -> bool) l : (forall x, In x l -> f x = false) -> filter f l = [].
Proof.
  induction l as [|x l IH]; intros H; simpl; [reflexivity|].
  rewrite (H x) by (left; reflexivity). apply IH. intros y Hy. apply H. right. exact Hy.
Qed.

(* values strictly below the m-th sorted value form a prefix of the sorted list *)
Lemma filter_lt_prefix s c : StronglySorted (fun x y => Z.leb x y = true) s ->
  exists m, (m <= length s)%nat /\ filter (fun p => p <? c) s = firstn m s /\
            (forall i, (i < m)%nat -> nth i s 0 < c) /\
            (forall i, (m <= i < length s)%nat -> c <= nth i s 0).
Proof.
  induction 1 as [|x s Hs IH Hall]; simpl.
  - exists 0%nat. repeat split; simpl; intros; lia.
  - destruct IH as [m [Hm [Hf [Hlt Hge]]]]. destruct (Z.ltb_spec x c) as [Hxc|Hxc].
    + exists (S m). simpl. repeat split; try lia.
      * rewrite Hf. reflexivity.
      * intros [|i] Hi; [exact Hxc | apply Hlt; lia].
      * intros [|i] Hi; [lia | apply Hge; lia].
    + (* x >= c, so everything after is >= c as well: nothing is selected *)
      exists 0%nat. simpl. repeat split; try lia.
      * rewrite Forall_forall in Hall.
        rewrite filter_none; [reflexivity|].
        intros y Hy. specialize (Hall y Hy). apply Z.leb_le in Hall. apply Z.ltb_ge. lia.
      * intros [|i] Hi; [exact Hxc|]. rewrite Forall_forall in Hall.
        assert (In (nth i s 0) s) by (apply nth_In; lia).
        specialize (Hall _ H). apply Z.leb_le in Hall. lia.
Qed.

Lemma zsum_perm a b : Permutation a b -> zsum a = zsum b.
Proof. induction 1; simpl; lia. Qed.

Lemma firstn_length_le {A} m (s : list A) : (m <= length s)%nat -> length (firstn m s) = m.
Proof. intros H. rewrite firstn_length. lia. Qed.

(* ---- C17 clause 2: the PEPs strictly below the cutoff have a mean of at most the level ---- *)
Lemma below_cutoff_mean_le_level D ln ld l :
  let below := filter (fun p => p <? cutoff D ln ld l) (finite l) in
  below <> [] ->
  zsum below * Zpos ld <= ln * Zpos D * Z.of_nat (length below).
Proof.
  intros below Hne. set (c := cutoff D ln ld l) in *. set (s := sorted_fin l).
  assert (Hperm : Permutation below (filter (fun p => p <? c) s)).
  { unfold below, s, sorted_fin. rewrite (filter_isort Z.leb _ zleb_total zleb_trans).
    apply Permutation_sym, isort_perm. }
  rewrite (zsum_perm _ _ Hperm), (Permutation_length Hperm).
  destruct (filter_lt_prefix s c (sorted_fin_sorted l)) as [m [Hm [Hf [Hlt Hge]]]].
  rewrite Hf. rewrite firstn_length_le by exact Hm.
  assert (Hm1 : (1 <= m)%nat).
  { destruct m; [|lia]. exfalso. apply Hne. apply Permutation_nil.
    apply Permutation_sym. rewrite Hf in Hperm. exact Hperm. }
  assert (Hnc : ~ crosses D ln ld s m).
  { pose proof (cutoff_first_crossing D ln ld l) as Hfc; cbv zeta in Hfc;
      change (sorted_fin l) with s in Hfc; change (cutoff D ln ld l) with c in Hfc.
    destruct Hfc as [[k [Hk [Hc [Hx Hmin]]]] | [Hc Hno]].
    - apply Hmin. split; [exact Hm1|].
      destruct (Nat.lt_ge_cases (k - 1) m) as [Hlt'|Hge']; [|lia].
      specialize (Hlt _ Hlt'). lia.
    - apply Hno. lia. }
  unfold crosses in Hnc. lia.
Qed.

(* ---- C17 clause 3: the cutoff does not decrease when the level is raised ---- *)
Lemma cutoff_le_D D ln ld l :
  (forall v, In v (finite l) -> v <= Zpos D) -> cutoff D ln ld l <= Zpos D.
Proof.
  intros Hb. destruct (cutoff_first_crossing D ln ld l) as [[k [Hk [Hc _]]] | [Hc _]].
  - rewrite Hc. apply Hb. unfold sorted_fin in *. apply (isort_In Z.leb). apply nth_In. lia.
  - lia.
Qed.

Lemma cutoff_monotone_in_level D ln ld ln' ld' l :
  (forall v, In v (finite l) -> v <= Zpos D) ->
  ln * Zpos ld' <= ln' * Zpos ld ->
  cutoff D ln ld l <= cutoff D ln' ld' l.
Proof.
  intros Hb Hle. set (s := sorted_fin l).
  pose proof (cutoff_first_crossing D ln' ld' l) as Hfc'; cbv zeta in Hfc';
    change (sorted_fin l) with s in Hfc'.
  destruct Hfc' as [[k' [Hk' [Hc' [Hx' _]]]] | [Hc' _]].
  - assert (Hx : crosses D ln ld s k').
    { unfold crosses in *. set (S := zsum (firstn k' s)) in *.
      assert (Hpos : 0 < Zpos D * Z.of_nat k') by lia.
      assert (H1 : ln * Zpos ld' * (Zpos D * Z.of_nat k') <= ln' * Zpos ld * (Zpos D * Z.of_nat k'))
        by (apply Z.mul_le_mono_nonneg_r; lia).
      assert (H2 : ln' * Zpos D * Z.of_nat k' * Zpos ld < S * Zpos ld' * Zpos ld)
        by (apply Z.mul_lt_mono_pos_r; lia).
      assert (H3 : ln * Zpos D * Z.of_nat k' * Zpos ld' < S * Zpos ld * Zpos ld') by lia.
      apply Z.mul_lt_mono_pos_r in H3; lia. }
    pose proof (cutoff_first_crossing D ln ld l) as Hfc; cbv zeta in Hfc;
      change (sorted_fin l) with s in Hfc.
    destruct Hfc as [[k [Hk [Hc [_ Hmin]]]] | [_ Hno]].
    + rewrite Hc, Hc'. apply sorted_nth_le; [apply sorted_fin_sorted|].
      destruct (Nat.le_gt_cases k k') as [Hkk|Hkk]; [lia|].
      exfalso. apply (Hmin k'); [lia | exact Hx].
    + exfalso. apply (Hno k'); [lia | exact Hx].
  - rewrite Hc'. apply cutoff_le_D. exact Hb.
Qed.

(* ---- C17 clause 4: the order of the list has no influence ---- *)
Lemma finite_perm l l' : Permutation l l' -> Permutation (finite l) (finite l').
Proof.
  unfold finite. induction 1; simpl.
  - apply perm_nil.
  - apply Permutation_app_head. assumption.
  - rewrite !app_assoc. apply Permutation_app_tail. apply Permutation_app_comm.
  - eapply perm_trans; eassumption.
Qed.

Lemma sorted_perm_eq a : forall b,
  StronglySorted (fun x y => Z.leb x y = true) a ->
  StronglySorted (fun x y => Z.leb x y = true) b ->
  Permutation a b -> a = b.
Proof.
  induction a as [|x a IH]; intros b Ha Hb Hp.
  - apply Permutation_nil in Hp. subst. reflexivity.
  - destruct b as [|y b]; [apply Permutation_sym, Permutation_nil in Hp; discriminate|].
    inversion Ha as [|? ? Ha' Hxa]; subst. inversion Hb as [|? ? Hb' Hyb]; subst.
    assert (Hxy : x = y).
    { rewrite Forall_forall in Hxa, Hyb.
      assert (Hx : In x (y :: b)) by (eapply Permutation_in; [exact Hp | left; reflexivity]).
      assert (Hy : In y (x :: a)) by (eapply Permutation_in; [apply Permutation_sym; exact Hp | left; reflexivity]).
      destruct Hx as [Hx|Hx]; [congruence|]. destruct Hy as [Hy|Hy]; [congruence|].
      specialize (Hxa _ Hy). specialize (Hyb _ Hx). apply Z.leb_le in Hxa, Hyb. lia. }
    subst y. f_equal. apply IH; try assumption. eapply Permutation_cons_inv. exact Hp.
Qed.

Lemma sorted_fin_perm l l' : Permutation l l' -> sorted_fin l = sorted_fin l'.
Proof.
  intros Hp. apply sorted_perm_eq; try apply sorted_fin_sorted.
  unfold sorted_fin. eapply perm_trans; [apply isort_perm|].
  eapply perm_trans; [apply finite_perm; exact Hp | apply Permutation_sym, isort_perm].
Qed.

Lemma cutoff_order_independent D ln ld l l' :
  Permutation l l' -> cutoff D ln ld l = cutoff D ln ld l'.
Proof.
  intros Hp. unfold cutoff. fold (sorted_fin l). fold (sorted_fin l').
  rewrite (sorted_fin_perm _ _ Hp). reflexivity.
Qed.

(* ---- C17 clause 5: non-finite entries have no influence ---- *)
Lemma cutoff_ignores_nonfinite D ln ld l1 l2 :
  cutoff D ln ld (l1 ++ None :: l2) = cutoff D ln ld (l1 ++ l2).
Proof.
  unfold cutoff, finite. rewrite !flat_map_app. simpl. reflexivity.
Qed.

Lemma cutoff_only_finite D ln ld l :
  cutoff D ln ld l = cutoff D ln ld (map Some (finite l)).
Proof.
  assert (H : finite l = finite (map Some (finite l))).
  { unfold finite. induction l as [|[v|] l IH]; simpl; [reflexivity | f_equal; exact IH | exact IH]. }
  unfold cutoff. rewrite <- H. reflexivity.
Qed.

(* The declarative statement of C17's first sentence, as a predicate on a candidate result. *)
Definition first_crossing_spec D ln ld (l : list (option Z)) (c : Z) : Prop :=
  let s := sorted_fin l in
  (exists k, (1 <= k <= length s)%nat /\ c = nth (k - 1) s 0 /\
             crosses D ln ld s k /\ (forall j, (1 <= j < k)%nat -> ~ crosses D ln ld s j))
  \/ (c = Zpos D /\ forall j, (1 <= j <= length s)%nat -> ~ crosses D ln ld s j).

Lemma cutoff_meets_spec D ln ld l : first_crossing_spec D ln ld l (cutoff D ln ld l).
Proof. apply cutoff_first_crossing. Qed.

(* The spec determines the result: any other value returned by an implementation violates it.
   This is what lets the correspondence check turn a disagreement into a failing input. *)
Lemma first_crossing_spec_unique D ln ld l c c' :
  first_crossing_spec D ln ld l c -> first_crossing_spec D ln ld l c' -> c = c'.
Proof.
  unfold first_crossing_spec. cbv zeta.
  intros [[k [Hk [Hc [Hx Hm]]]] | [Hc Hno]] [[k' [Hk' [Hc' [Hx' Hm']]]] | [Hc' Hno']].
  - assert (k = k').
    { destruct (Nat.lt_trichotomy k k') as [H|[H|H]]; [|exact H|].
      - exfalso. apply (Hm' k); [lia | exact Hx].
      - exfalso. apply (Hm k'); [lia | exact Hx']. }
    subst. reflexivity.
  - exfalso. apply (Hno' k); [lia | exact Hx].
  - exfalso. apply (Hno k'); [lia | exact Hx'].
  - congruence.
Qed.
