From PGF Require Import Base.Prelude Base.PyStr Base.StableSort Model.Fdr Model.ProteinGroups Model.Grouping Model.Scoring Model.Quant
  Proofs.ProteinGroupsProofs Proofs.ScoringProofs Proofs.GroupingProofs.
From Coq Require Import Permutation Sorted Lia.

(* ---------- attachment ---------- *)
Lemma target_group_iff s r g :
  target_group s r = Some g <->
  valid s = true /\ p_proteins r <> [] /\ forall p, In p (p_proteins r) -> lookup (index s) p = Some g.
Proof.
  rewrite <- idxs_singleton_iff. unfold target_group.
  destruct (get_protein_group_idxs s (p_proteins r)) as [l|e]; [|split; discriminate].
  destruct l as [|i [|j l']]; try (split; discriminate).
  destruct (Z.ltb_spec i 0).
  - split; [discriminate|]. intros H'. inversion H'. lia.
  - split; intros H'.
    + inversion H'. subst g. rewrite Z2Nat.id by lia. reflexivity.
    + inversion H'. rewrite Nat2Z.id. reflexivity.
Qed.

Lemma attached_iff s rows g r : In r (attached s rows g) <-> In r rows /\ target_group s r = Some g.
Proof.
  unfold attached. rewrite filter_In. split; intros [H1 H2]; (split; [exact H1|]).
  - destruct (target_group s r) as [i|]; [|discriminate]. apply Nat.eqb_eq in H2. subst. reflexivity.
  - rewrite H2. apply Nat.eqb_refl.
Qed.

(* a row goes to at most one group *)
Lemma attached_unique s rows g g' r : In r (attached s rows g) -> In r (attached s rows g') -> g = g'.
Proof. rewrite !attached_iff. intros [_ H1] [_ H2]. congruence. Qed.

(* counting with multiplicity: over all groups, no more precursors than evidence rows *)
Lemma ind_sum_le1 (t : option nat) : forall l, NoDup l ->
  list_sum (map (fun g => if match t with Some i => Nat.eqb i g | None => false end then 1 else 0) l) <= 1.
Proof.
  induction l as [|g l IH]; intros Hnd; simpl; [lia|]. inversion Hnd as [|? ? Hni Hnd']; subst.
  specialize (IH Hnd'). destruct t as [i|]; [|exact IH].
  destruct (Nat.eqb_spec i g); [|exact IH]. subst i.
  assert (Hz : list_sum (map (fun g0 => if Nat.eqb g g0 then 1 else 0) l) = 0).
  { clear IH Hnd Hnd'. induction l as [|h l IHl]; simpl; [reflexivity|].
    destruct (Nat.eqb_spec g h); [subst; exfalso; apply Hni; left; reflexivity|].
    apply IHl. intros Hin. apply Hni. right. exact Hin. }
  rewrite Hz. lia.
Qed.

Lemma list_sum_map_add {A} (f h : A -> nat) l :
  list_sum (map (fun x => f x + h x) l) = list_sum (map f l) + list_sum (map h l).
Proof. induction l as [|x l IH]; simpl; [reflexivity|]. rewrite IH. lia. Qed.

Lemma no_row_twice s rows : forall gs, NoDup gs ->
  list_sum (map (fun g => length (attached s rows g)) gs) <= length rows.
Proof.
  induction rows as [|r rows IH]; intros gs Hnd.
  - unfold attached. simpl. clear Hnd. induction gs as [|g gs IHg]; simpl; [lia | exact IHg].
  - specialize (IH gs Hnd).
    assert (E : forall g, length (attached s (r :: rows) g) =
              (if match target_group s r with Some i => Nat.eqb i g | None => false end then 1 else 0) + length (attached s rows g)).
    { intros g. unfold attached. simpl. destruct (match target_group s r with Some i => Nat.eqb i g | None => false end); reflexivity. }
    rewrite (map_ext _ _ E), list_sum_map_add. pose proof (ind_sum_le1 (target_group s r) gs Hnd). simpl. lia.
Qed.

(* ---------- identified-precursor filter ---------- *)
Lemma retain_iff cut l r :
  In r (retain cut l) <->
  In r l /\ exists r', In r' l /\ passes cut r' = true /\ p_peptide r' = p_peptide r /\ p_charge r' = p_charge r.
Proof.
  unfold retain. rewrite filter_In, existsb_exists. split; intros [H1 [r' [H2 H3]]]; (split; [exact H1|]); exists r'.
  - apply andb_true_iff in H3. destruct H3 as [Hp Hs]. unfold same_precursor in Hs. apply andb_true_iff in Hs.
    destruct Hs as [Hs Hc]. apply str_eqb_eq in Hs. apply Z.eqb_eq in Hc. auto.
  - destruct H3 as [Hp [Hs Hc]]. split; [exact H2|]. rewrite Hp. unfold same_precursor. rewrite Hs, Hc, str_eqb_refl, Z.eqb_refl. reflexivity.
Qed.

(* a counted row of the retained list: an MBR row riding along, or a row passing the cutoff itself *)
Lemma counts_cases cut r : counts cut r = true <-> p_pep r = None \/ passes cut r = true.
Proof.
  unfold counts, passes. destruct (p_pep r); split; intros H; auto; try (destruct H as [H|H]; [discriminate | exact H]).
Qed.

(* ---------- identification type ---------- *)
Definition is_mbr (r : prec) : bool := match p_pep r with None => true | Some _ => false end.
Definition MSMS := s2l "By MS/MS".
Definition MATCHING := s2l "By matching".

Lemma id_fold_spec cut : forall l cur, cur = [] \/ cur = MATCHING \/ cur = MSMS ->
  fold_left (id_step cut) l cur =
  if existsb (passes cut) l then MSMS
  else if str_eqb cur MSMS then MSMS
  else if existsb is_mbr l then MATCHING else cur.
Proof.
  induction l as [|r l IH]; intros cur Hc.
  - simpl. destruct (str_eqb cur MSMS) eqn:E; [apply str_eqb_eq in E; exact E | reflexivity].
  - cbn [fold_left existsb]. unfold id_step at 2, passes at 1, is_mbr at 1. destruct (p_pep r) as [p|].
    + destruct (Qle_bool p cut).
      * rewrite IH by (right; right; reflexivity). simpl. destruct (existsb (passes cut) l); reflexivity.
      * simpl. apply IH. exact Hc.
    + fold MSMS MATCHING. simpl orb. destruct (str_eqb cur MSMS) eqn:E.
      * rewrite IH by exact Hc. rewrite E. reflexivity.
      * rewrite IH by (right; left; reflexivity).
        replace (str_eqb MATCHING MSMS) with false by reflexivity.
        destruct (existsb (passes cut) l); [reflexivity|]. destruct (existsb is_mbr l); reflexivity.
Qed.

Lemma id_type_spec cut l :
  fold_left (id_step cut) l [] =
  if existsb (passes cut) l then MSMS else if existsb is_mbr l then MATCHING else [].
Proof. rewrite id_fold_spec by (left; reflexivity). reflexivity. Qed.

(* ---------- intensities ---------- *)
Definition exp_rows (cut : Q) (e : str) (l : list prec) : list prec :=
  filter (fun r => counts cut r && in_exp e r && match p_intensity r with Some _ => true | None => false end) l.
Definition exp_intensity (cut : Q) (e : str) (l : list prec) : Q :=
  qsum (map (fun r => match p_intensity r with Some x => x | None => (0#1)%Q end) (exp_rows cut e l)).

Lemma intensities_label_free cut exps l : intensities cut exps 0 l = map (fun e => exp_intensity cut e l) exps.
Proof. unfold intensities. induction exps as [|e exps IH]; simpl; [reflexivity|]. f_equal; try exact IH. Qed.

Lemma every_blocks {E} (f : E -> Q) (g : E -> list Q) ns : (forall e, length (g e) = ns) ->
  forall exps fuel, length exps <= fuel -> every (S ns) (flat_map (fun e => f e :: g e) exps) fuel = map f exps.
Proof.
  intros Hg. induction exps as [|e exps IH]; intros fuel Hf.
  - destruct fuel; reflexivity.
  - destruct fuel as [|fuel]; [simpl in Hf; lia|]. cbn [flat_map map]. cbn [app every]. f_equal.
    replace (skipn (S ns) (f e :: g e ++ flat_map (fun e0 => f e0 :: g e0) exps)) with (flat_map (fun e0 => f e0 :: g e0) exps).
    + apply IH. simpl in Hf. lia.
    + cbn [skipn]. rewrite <- (Hg e). rewrite skipn_app, skipn_all, Nat.sub_diag. reflexivity.
Qed.

Lemma flat_map_length_blocks {E} (h : E -> list Q) n : (forall e, length (h e) = n) -> forall l, length (flat_map h l) = length l * n.
Proof. intros H. induction l as [|e l IH]; simpl; [reflexivity|]. rewrite app_length, H, IH. reflexivity. Qed.

(* the total is the sum over experiments of the per-experiment summed intensity, whatever the number of SILAC channels *)
Lemma total_is_sum_over_experiments cut exps ns l :
  total_intensity ns (intensities cut exps ns l) = qsum (map (fun e => exp_intensity cut e l) exps).
Proof.
  unfold total_intensity, intensities.
  rewrite (every_blocks (fun e => exp_intensity cut e l)
            (fun e => map (fun k => qsum (map (fun r => nth k (p_silac r) (0#1)%Q) (exp_rows cut e l))) (seq 0 ns)) ns).
  - reflexivity.
  - intros e. rewrite map_length, seq_length. reflexivity.
  - rewrite (flat_map_length_blocks _ (S ns)).
    + nia.
    + intros e. simpl. rewrite map_length, seq_length. reflexivity.
Qed.

(* ---------- unique peptides, evidence ids ---------- *)
Lemma unique_count_spec (l : list str) :
  NoDup (dedup [] l) /\ forall x, In x (dedup [] l) <-> In x l.
Proof. split; [apply dedup_NoDup|]. intros x. rewrite dedup_In. tauto. Qed.

Lemma evidence_ids_spec cut l :
  Permutation (evidence_ids cut l) (map p_id (filter (counts cut) l)) /\ StronglySorted Z.le (evidence_ids cut l).
Proof.
  split; [apply isort_perm|]. unfold evidence_ids.
  apply (isort_sorted_rel Z.leb Z.le).
  - intros x y H. apply Z.leb_le. exact H.
  - intros x y H. apply Z.leb_gt in H. lia.
  - intros x y z. lia.
Qed.

(* ---------- the row ---------- *)
Lemma quant_row_spec ibaq cut exps ns ids l0 r :
  quant_row ibaq cut exps ns ids l0 = Ok r ->
  let l := retain cut l0 in
  q_ids r = ids /\
  q_unique r = unique_peptides cut exps l /\
  q_idtype r = map (fun e => let le := filter (in_exp e) l in
                     if existsb (passes cut) le then MSMS else if existsb is_mbr le then MATCHING else []) exps /\
  q_ints r = intensities cut exps ns l /\
  q_total r = qsum (map (fun e => exp_intensity cut e l) exps) /\
  q_evidence r = evidence_ids cut l /\
  (forall k p, nth_error ids k = Some p -> exists n, tab_nat ibaq p = Some n /\ nth_error (q_ntheo r) k = Some n) /\
  length (q_ntheo r) = length ids /\
  let lead := inject_Z (Z.of_nat (Nat.max 1 (hd 0 (q_ntheo r)))) in
  q_ibaq_total r = (q_total r / lead)%Q /\ q_ibaq r = map (fun x => (x / lead)%Q) (q_ints r).
Proof.
  unfold quant_row.
  set (F := fold_right _ _ ids).
  assert (HF : forall nt, F = Some nt -> length nt = length ids /\
            forall k p, nth_error ids k = Some p -> exists n, tab_nat ibaq p = Some n /\ nth_error nt k = Some n).
  { unfold F. clear F. induction ids as [|p ids IH]; intros nt H.
    - simpl in H. inversion H. split; [reflexivity|]. intros [|k] q Hq; discriminate.
    - simpl in H. destruct (tab_nat ibaq p) as [n|] eqn:Ep; [|discriminate].
      destruct (fold_right _ _ ids) as [a|]; [|discriminate]. inversion H. subst nt.
      destruct (IH a eq_refl) as [Hl Hk]. split; [simpl; congruence|].
      intros [|k] q Hq; simpl in *.
      + inversion Hq. subst q. exists n. auto.
      + apply Hk. exact Hq. }
  destruct F as [nt|]; [|discriminate]. intros H. inversion H. subst r. clear H. cbn [q_ids q_unique q_idtype q_total q_ints q_ntheo q_ibaq_total q_ibaq q_evidence].
  destruct (HF nt eq_refl) as [Hl Hk].
  split; [reflexivity|]. split; [reflexivity|]. split.
  { unfold id_types. apply map_ext. intros e. apply id_type_spec. }
  split; [reflexivity|]. split; [apply total_is_sum_over_experiments|]. split; [reflexivity|].
  split; [exact Hk|]. split; [exact Hl|]. split; reflexivity.
Qed.

(* quantify: each output row is the row of one group with precursors; groups appear in their reported order *)
Lemma quantify_rows ibaq cutoff_of ns groups rows exps out :
  quantify ibaq cutoff_of ns groups rows = Ok (exps, out) ->
  let s := create_index (of_list groups) in
  let cut := cutoff_of (cutoff_peps s rows) in
  exps = experiments rows /\
  Forall2 (fun ig r => quant_row ibaq cut exps ns (snd ig) (attached s rows (fst ig)) = Ok r)
          (filter (fun ig => nonempty (attached s rows (fst ig))) (combine (seq 0 (length groups)) groups)) out.
Proof.
  unfold quantify. cbv zeta.
  set (s := create_index (of_list groups)). set (cut := cutoff_of (cutoff_peps s rows)).
  set (wp := filter _ _). clearbody wp.
  destruct (fold_right _ _ wp) as [l|e] eqn:EF; [|discriminate]. intros H. inversion H. subst. split; [reflexivity|].
  clear H. revert out EF. induction wp as [|ig wp IH]; intros out EF; simpl in EF.
  - inversion EF. constructor.
  - destruct (quant_row ibaq cut (experiments rows) ns (snd ig) (attached s rows (fst ig))) as [r|e] eqn:ER.
    + destruct (fold_right _ _ wp) as [a|e']; [|discriminate]. inversion EF. subst out. constructor; [exact ER | apply IH; reflexivity].
    + discriminate.
Qed.

(* the same with an experimental design: the columns follow the design's order of experiments *)
Lemma quantify_design_rows ibaq cutoff_of ns groups rows dexps exps out :
  quantify_design ibaq cutoff_of ns groups rows dexps = Ok (exps, out) ->
  let s := create_index (of_list groups) in
  let cut := cutoff_of (cutoff_peps s rows) in
  exps = dexps /\
  Forall2 (fun ig r => quant_row ibaq cut dexps ns (snd ig) (attached s rows (fst ig)) = Ok r)
          (filter (fun ig => nonempty (attached s rows (fst ig))) (combine (seq 0 (length groups)) groups)) out.
Proof.
  unfold quantify_design. cbv zeta.
  set (s := create_index (of_list groups)). set (cut := cutoff_of (cutoff_peps s rows)).
  set (wp := filter _ _). clearbody wp.
  destruct (fold_right _ _ wp) as [l|e] eqn:EF; [|discriminate]. intros H. inversion H. subst. split; [reflexivity|].
  clear H. revert out EF. induction wp as [|ig wp IH]; intros out EF; simpl in EF.
  - inversion EF. constructor.
  - destruct (quant_row ibaq cut _ ns (snd ig) (attached s rows (fst ig))) as [r|e] eqn:ER.
    + destruct (fold_right _ _ wp) as [a|e']; [|discriminate]. inversion EF. subst out. constructor; [exact ER | apply IH; reflexivity].
    + discriminate.
Qed.

Lemma attached_iff_groups groups rows g r :
  let s := create_index (of_list groups) in
  In r (attached s rows g) <->
  In r rows /\ p_proteins r <> [] /\ forall p, In p (p_proteins r) -> lookup (index s) p = Some g.
Proof.
  cbv zeta. rewrite attached_iff, target_group_iff. unfold create_index at 1. cbn [valid]. tauto.
Qed.

Lemma no_row_twice_groups groups rows :
  let s := create_index (of_list groups) in
  list_sum (map (fun g => length (attached s rows g)) (seq 0 (length groups))) <= length rows.
Proof. cbv zeta. apply no_row_twice. apply seq_NoDup. Qed.

(* ---------- TMT reporter cells ---------- *)
Lemma nth_flat_map_blocks {E} (h : E -> list Q) (w : nat) (d : E) : (forall e, length (h e) = w) ->
  forall l i k, i < length l -> k < w -> nth (i * w + k) (flat_map h l) (0#1)%Q = nth k (h (nth i l d)) (0#1)%Q.
Proof.
  intros Hw. induction l as [|x l IH]; intros i k Hi Hk; simpl in Hi; [lia|]. cbn [flat_map].
  destruct i as [|i].
  - cbn [Nat.mul Nat.add nth]. rewrite app_nth1 by (rewrite Hw; exact Hk). reflexivity.
  - rewrite app_nth2 by (rewrite Hw; lia). rewrite Hw. replace (S i * w + k - w) with (i * w + k) by lia.
    cbn [nth]. apply IH; [lia | exact Hk].
Qed.

(* the cell of experiment number i and reporter column k is the sum of that column over the counted rows of that experiment *)
Lemma tmt_cell_spec cut exps width l i k : i < length exps -> k < width ->
  nth (i * width + k) (tmt_intensities cut exps width l) (0#1)%Q =
  qsum (map (fun r => nth k (p_tmt r) (0#1)%Q) (filter (fun r => counts cut r && in_exp (nth i exps []) r) l)).
Proof.
  intros Hi Hk. unfold tmt_intensities.
  set (h := fun e : str => map (fun k0 => qsum (map (fun r => nth k0 (p_tmt r) (0#1)%Q) (filter (fun r => counts cut r && in_exp e r) l)))
                               (seq 0 width)).
  change (nth (i * width + k) (flat_map h exps) (0#1)%Q =
          qsum (map (fun r => nth k (p_tmt r) (0#1)%Q) (filter (fun r => counts cut r && in_exp (nth i exps []) r) l))).
  assert (Hw : forall e, length (h e) = width) by (intros e; unfold h; rewrite map_length, seq_length; reflexivity).
  rewrite (nth_flat_map_blocks h width [] Hw exps i k Hi Hk). unfold h.
  set (f := fun k0 => qsum (map (fun r => nth k0 (p_tmt r) (0#1)%Q) (filter (fun r => counts cut r && in_exp (nth i exps []) r) l))).
  rewrite (nth_indep _ (0#1)%Q (f 0)) by (rewrite map_length, seq_length; exact Hk).
  rewrite (map_nth f (seq 0 width) 0 k). rewrite seq_nth by exact Hk. reflexivity.
Qed.

Lemma tmt_length cut exps width l : length (tmt_intensities cut exps width l) = length exps * width.
Proof.
  unfold tmt_intensities. apply flat_map_length_blocks. intros e. rewrite map_length, seq_length. reflexivity.
Qed.
