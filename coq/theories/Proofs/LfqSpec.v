(* Specification layer of MaxLFQ over the real numbers: the least-squares problem of _buildLinearSystem /
   _solveLinearSystem and the rescaling of _scaleEqualSum.  Not executable.  Sample vectors are functions nat -> R,
   of which only the first n values matter. *)
From Coq Require Import Reals Lra List Arith Lia.
Import ListNotations.
Local Open Scope R_scope.

Definition redge := (nat * nat * R)%type.        (* (i, j, r): the log median ratio of sample i over sample j *)

Fixpoint sumN (n : nat) (f : nat -> R) : R := match n with O => 0 | S k => sumN k f + f k end.
Fixpoint sumL {A} (f : A -> R) (l : list A) : R := match l with [] => 0 | x :: r => f x + sumL f r end.

Definition resid (x : nat -> R) (e : redge) : R := let '(i, j, r) := e in x i - x j - r.
(* the part of the least-squares objective that involves the ratios (the anchor row only picks one representative of
   the solutions, which differ by a constant that the final rescaling removes) *)
Definition lsq (E : list redge) (x : nat -> R) : R := sumL (fun e => (resid x e)²) E.

(* gradient / 2 at sample k: what the correspondence check evaluates on the implementation's answer *)
Definition grad (E : list redge) (x : nat -> R) (k : nat) : R :=
  sumL (fun e => let '(i, j, _) := e in
          (if Nat.eqb i k then resid x e else 0) - (if Nat.eqb j k then resid x e else 0)) E.

Definition in_range (n : nat) (E : list redge) : Prop := forall i j r, In (i, j, r) E -> (i < n)%nat /\ (j < n)%nat.

Lemma sumN_ext n f g : (forall k, (k < n)%nat -> f k = g k) -> sumN n f = sumN n g.
Proof. induction n as [|n IH]; intros H; simpl; [reflexivity|]. rewrite IH by (intros; apply H; lia). rewrite H by lia. reflexivity. Qed.

Lemma sumN_plus n f g : sumN n (fun k => f k + g k) = sumN n f + sumN n g.
Proof. induction n as [|n IH]; simpl; [lra|]. rewrite IH. lra. Qed.

Lemma sumN_zero n : sumN n (fun _ => 0) = 0.
Proof. induction n as [|n IH]; simpl; [reflexivity|]. rewrite IH. lra. Qed.

Lemma sumN_delta n i (c : R) (h : nat -> R) : (i < n)%nat ->
  sumN n (fun k => h k * (if Nat.eqb i k then c else 0)) = h i * c.
Proof.
  induction n as [|n IH]; intros Hi; [lia|]. simpl. destruct (Nat.eqb_spec i n) as [->|Hne].
  - rewrite (sumN_ext n _ (fun _ => 0)); [rewrite sumN_zero; lra|].
    intros k Hk. destruct (Nat.eqb_spec n k); [lia | lra].
  - rewrite IH by lia. lra.
Qed.

(* exchange of the two sums: sum over edges of rho_e * (h i - h j) = sum over samples of h k * grad k *)
Lemma cross_exchange n E x h : in_range n E ->
  sumL (fun e => let '(i, j, _) := e in resid x e * (h i - h j)) E = sumN n (fun k => h k * grad E x k).
Proof.
  induction E as [|[[i j] r] E IH]; intros Hr.
  - simpl. unfold grad. simpl. rewrite (sumN_ext n _ (fun _ => 0)) by (intros; lra). rewrite sumN_zero. reflexivity.
  - destruct (Hr i j r (or_introl eq_refl)) as [Hi Hj].
    assert (Hrhs : sumN n (fun k => h k * grad ((i, j, r) :: E) x k) =
                   h i * resid x (i, j, r) + h j * - resid x (i, j, r) + sumN n (fun k => h k * grad E x k)).
    { rewrite (sumN_ext n _ (fun k => (h k * (if Nat.eqb i k then resid x (i, j, r) else 0)
                                       + h k * (if Nat.eqb j k then - resid x (i, j, r) else 0)) + h k * grad E x k)).
      - rewrite !sumN_plus, !sumN_delta by assumption. reflexivity.
      - intros k _. unfold grad. cbn [sumL]. destruct (Nat.eqb i k), (Nat.eqb j k); ring. }
    etransitivity; [|symmetry; exact Hrhs]. rewrite <- IH by (intros a b c Hin; apply (Hr a b c); right; exact Hin). cbn [sumL]. ring.
Qed.

Lemma sumL_sq_expand (E : list redge) (x h : nat -> R) :
  lsq E (fun k => x k + h k) =
  lsq E x + 2 * sumL (fun e => let '(i, j, _) := e in resid x e * (h i - h j)) E
  + sumL (fun e => let '(i, j, _) := e in (h i - h j)²) E.
Proof.
  unfold lsq. induction E as [|[[i j] r] E IH]; cbn [sumL]; [lra|]. rewrite IH. unfold resid, Rsqr. lra.
Qed.

Lemma sumL_sq_nonneg (E : list redge) (h : nat -> R) : 0 <= sumL (fun e => let '(i, j, _) := e in (h i - h j)²) E.
Proof. induction E as [|[[i j] r] E IH]; cbn [sumL]; [lra|]. pose proof (Rle_0_sqr (h i - h j)). lra. Qed.

(* vanishing gradient => global minimiser of the least-squares objective *)
Theorem normal_equations_minimise n E x :
  in_range n E -> (forall k, (k < n)%nat -> grad E x k = 0) -> forall y, lsq E x <= lsq E y.
Proof.
  intros Hr Hg y.
  assert (Ey : lsq E y = lsq E (fun k => x k + (y k - x k))).
  { unfold lsq. clear Hg Hr. induction E as [|[[i j] r] E IH]; cbn [sumL]; [reflexivity|]. rewrite IH. unfold resid.
    replace (x i + (y i - x i)) with (y i) by lra. replace (x j + (y j - x j)) with (y j) by lra. reflexivity. }
  rewrite Ey, sumL_sq_expand, (cross_exchange n) by exact Hr.
  rewrite (sumN_ext n _ (fun _ => 0)) by (intros k Hk; rewrite Hg by exact Hk; lra).
  rewrite sumN_zero. pose proof (sumL_sq_nonneg E (fun k => y k - x k)). lra.
Qed.

(* ---------- consistent data ---------- *)
Lemma sumL_sq_zero {A} (f : A -> R) l : sumL (fun e => (f e)²) l <= 0 -> forall e, In e l -> f e = 0.
Proof.
  induction l as [|a l IH]; intros H e He; [destruct He|]. cbn [sumL] in H.
  assert (Hn : 0 <= sumL (fun e0 => (f e0)²) l).
  { clear. induction l as [|b l IHl]; cbn [sumL]; [lra|]. pose proof (Rle_0_sqr (f b)). lra. }
  pose proof (Rle_0_sqr (f a)) as Ha.
  destruct He as [<-|He].
  - apply Rsqr_0_uniq. lra.
  - apply IH; [lra | exact He].
Qed.

(* samples linked by a chain of ratio edges *)
Inductive linked (E : list redge) : nat -> nat -> Prop :=
| linked_refl i : linked E i i
| linked_fwd i j k r : In (i, j, r) E -> linked E j k -> linked E i k
| linked_bwd i j k r : In (j, i, r) E -> linked E j k -> linked E i k.

(* if all ratios come from one abundance per sample (r_ij = beta_i - beta_j), every least-squares solution reproduces
   those abundances' ratios between all linked samples *)
Theorem consistent_ratios_recovered E (beta : nat -> R) :
  (forall i j r, In (i, j, r) E -> r = beta i - beta j) ->
  lsq E beta = 0 /\
  forall x, (forall y, lsq E x <= lsq E y) ->
    forall i j, linked E i j -> exp (x i) / exp (x j) = exp (beta i) / exp (beta j).
Proof.
  intros Hc.
  assert (H0 : lsq E beta = 0).
  { unfold lsq. clear -Hc. induction E as [|[[i j] r] E IH]; cbn [sumL]; [reflexivity|].
    rewrite IH by (intros a b c Hin; apply Hc; right; exact Hin).
    unfold resid. rewrite (Hc i j r (or_introl eq_refl)). unfold Rsqr. lra. }
  split; [exact H0|]. intros x Hmin.
  assert (Hres : forall e, In e E -> resid x e = 0).
  { apply sumL_sq_zero. fold (lsq E x). rewrite <- H0. apply Hmin. }
  assert (Hd : forall i j, linked E i j -> x i - x j = beta i - beta j).
  { intros i j Hl. induction Hl as [i | i j k r Hin _ IH | i j k r Hin _ IH]; [lra | |].
    - pose proof (Hres _ Hin) as Hr. unfold resid in Hr. rewrite (Hc _ _ _ Hin) in Hr. lra.
    - pose proof (Hres _ Hin) as Hr. unfold resid in Hr. rewrite (Hc _ _ _ Hin) in Hr. lra. }
  intros i j Hl. specialize (Hd i j Hl).
  unfold Rdiv. rewrite <- !exp_Ropp, <- !exp_plus. f_equal. lra.
Qed.

(* ---------- rescaling ---------- *)
Lemma sumN_scal n c f : sumN n (fun k => c * f k) = c * sumN n f.
Proof. induction n as [|n IH]; simpl; [lra|]. rewrite IH. lra. Qed.

(* the LFQ intensities: 0 for unlinked samples, otherwise exp(x) rescaled to the total *)
Definition lfq_final (n : nat) (is_seen : nat -> bool) (x : nat -> R) (total : R) (k : nat) : R :=
  let raw k := if is_seen k then exp (x k) else 0 in
  total / sumN n raw * raw k.

Theorem scale_preserves_total n is_seen x total :
  (exists k, (k < n)%nat /\ is_seen k = true) -> sumN n (lfq_final n is_seen x total) = total.
Proof.
  intros [k0 [Hk0 Hs0]]. unfold lfq_final. rewrite sumN_scal.
  set (raw := fun k => if is_seen k then exp (x k) else 0).
  assert (Hpos : 0 < sumN n raw).
  { assert (Hnn : forall m, 0 <= sumN m raw).
    { induction m as [|m IHm]; simpl; [lra|]. unfold raw at 2. destruct (is_seen m); [pose proof (exp_pos (x m)); lra | lra]. }
    clear -Hk0 Hs0 Hnn. induction n as [|n IH]; [lia|]. simpl.
    destruct (Nat.eq_dec k0 n) as [->|Hne].
    - unfold raw at 2. rewrite Hs0. pose proof (exp_pos (x n)). pose proof (Hnn n). lra.
    - assert (0 < sumN n raw) by (apply IH; lia). unfold raw at 2. destruct (is_seen n); [pose proof (exp_pos (x n)); lra | lra]. }
  field. lra.
Qed.

Theorem unlinked_samples_zero n is_seen x total k : is_seen k = false -> lfq_final n is_seen x total k = 0.
Proof. intros H. unfold lfq_final. rewrite H. lra. Qed.

(* proportionality survives the rescaling *)
Theorem final_ratio n is_seen x total i j :
  is_seen i = true -> is_seen j = true -> total <> 0 -> sumN n (fun k => if is_seen k then exp (x k) else 0) <> 0 ->
  lfq_final n is_seen x total i / lfq_final n is_seen x total j = exp (x i) / exp (x j).
Proof.
  intros Hi Hj Ht Hs. unfold lfq_final. rewrite Hi, Hj. field. repeat split; try assumption. pose proof (exp_pos (x j)). lra.
Qed.
