(* Facts about the exact (rational) layer of the MaxLFQ model. *)
From PGF Require Import Base.Prelude Base.PyStr Base.StableSort Model.Fdr Model.Grouping Model.Quant Model.Lfq.
From Coq Require Import Permutation Lia QArith Qfield.
Local Open Scope Q_scope.

(* ---------- median ---------- *)
Lemma median_const (l : list Q) (c : Q) : l <> [] -> (forall x, In x l -> x == c) -> median l == c.
Proof.
  intros Hne Hall. unfold median.
  set (s := isort Qle_bool l).
  assert (Hs : forall x, In x s -> x == c).
  { intros x Hx. apply Hall. eapply Permutation_in; [apply isort_perm | exact Hx]. }
  assert (Hlen : length s = length l) by (apply Permutation_length, isort_perm).
  assert (Hpos : (0 < length s)%nat) by (rewrite Hlen; destruct l; [congruence | simpl; lia]).
  assert (Hnth : forall k, (k < length s)%nat -> nth k s 0 == c) by (intros k Hk; apply Hs, nth_In; exact Hk).
  assert (Hhalf : (length s / 2 < length s)%nat) by (apply Nat.div_lt; lia).
  destruct (Nat.even (length s)).
  - rewrite (Hnth (length s / 2 - 1)%nat) by lia. rewrite (Hnth (length s / 2)%nat) by exact Hhalf. field.
  - apply Hnth. exact Hhalf.
Qed.

Lemma both_ratios_all (ci cj : list Q) (c : Q) :
  (forall a b, In (a, b) (combine ci cj) -> nonzero a = true -> nonzero b = true -> a / b == c) ->
  forall r, In r (both_ratios ci cj) -> r == c.
Proof.
  intros H r Hr. unfold both_ratios in Hr. apply in_flat_map in Hr. destruct Hr as [[a b] [Hin Hr]]. cbn [fst snd] in Hr.
  destruct (nonzero a) eqn:Ea; [|destruct Hr]. destruct (nonzero b) eqn:Eb; [|destruct Hr].
  destruct Hr as [<-|[]]. apply H; assumption.
Qed.

Lemma nonzero_neq x : nonzero x = true -> ~ x == 0.
Proof. unfold nonzero. intros H E. apply Qeq_bool_iff in E. rewrite E in H. discriminate. Qed.

(* consistent data: every observed intensity is peptide factor x sample factor; then every ratio of samples i, j
   is b_i / b_j, and so is the median *)
Lemma median_of_consistent (ci cj : list Q) (bi bj : Q) :
  ~ bj == 0 ->
  (forall x y, In (x, y) (combine ci cj) -> nonzero x = true -> nonzero y = true -> exists a, x == a * bi /\ y == a * bj) ->
  both_ratios ci cj <> [] ->
  median (both_ratios ci cj) == bi / bj.
Proof.
  intros Hbj Hc Hne. apply median_const; [exact Hne|]. apply both_ratios_all. intros x y Hin Hx Hy.
  destruct (Hc x y Hin Hx Hy) as [a [Ex Ey]].
  assert (Ha : ~ a == 0). { intros E. apply (nonzero_neq y Hy). rewrite Ey, E. ring. }
  rewrite Ex, Ey. field. split; assumption.
Qed.

(* ---------- which sample pairs get a ratio ---------- *)
Lemma pairs_In {A} (l : list A) x y : In (x, y) (pairs l) -> In x l /\ In y l.
Proof.
  induction l as [|a l IH]; simpl; [tauto|]. rewrite in_app_iff, in_map_iff. intros [[z [E Hz]]|H].
  - inversion E; subst. auto.
  - destruct (IH H). auto.
Qed.

Lemma ratio_edge_valid M ncols minr graph ms i j m :
  In ((i, j), m) (median_ratios M ncols minr graph ms) ->
  (minr <= count_nonzero (col M i))%nat /\ (minr <= count_nonzero (col M j))%nat /\
  (minr <= length (both_ratios (col M i) (col M j)))%nat /\ m = median (both_ratios (col M i) (col M j)) /\
  (i < ncols)%nat /\ (j < ncols)%nat.
Proof.
  unfold median_ratios. intros H. apply in_flat_map in H. destruct H as [[i' j'] [Hp H]].
  apply pairs_In in Hp. destruct Hp as [Hi Hj]. apply filter_In in Hi, Hj. destruct Hi as [Hi1 Hi2], Hj as [Hj1 Hj2].
  apply in_seq in Hi1, Hj1. apply Nat.leb_le in Hi2, Hj2.
  destruct (match graph with Some g => _ | None => false end); [destruct H|].
  destruct (Nat.ltb_spec (length (both_ratios (col M i') (col M j'))) minr); [destruct H|].
  destruct H as [E|[]]. inversion E; subst. repeat split; try assumption; lia.
Qed.

(* with FastLFQ active, only pairs that are edges of the sample graph get a ratio *)
Lemma ratio_edge_in_graph M ncols minr g ms i j m :
  In ((i, j), m) (median_ratios M ncols minr (Some g) ms) ->
  (ms <= length (filter (fun k => (minr <=? count_nonzero (col M k))%nat) (seq 0 ncols)))%nat ->
  has_edge g i j = true.
Proof.
  unfold median_ratios. intros H Hms. apply in_flat_map in H. destruct H as [[i' j'] [_ H]].
  apply Nat.leb_le in Hms. rewrite Hms in H. simpl in H.
  destruct (has_edge g i' j') eqn:Eg; simpl in H; [|destruct H].
  destruct (Nat.ltb _ _); [destruct H|]. destruct H as [E|[]]. inversion E; subst. exact Eg.
Qed.

Lemma seen_iff edges k : seen edges k = true <-> exists e, In e edges /\ (fst e = k \/ snd e = k).
Proof.
  unfold seen. rewrite existsb_exists. split; intros [e [He H]]; exists e; (split; [exact He|]).
  - apply orb_true_iff in H. destruct H as [H|H]; apply Nat.eqb_eq in H; auto.
  - apply orb_true_iff. destruct H as [H|H]; [left | right]; apply Nat.eqb_eq; exact H.
Qed.

(* ---------- large-ratio stabilisation: the three regimes ---------- *)
Definition count_ratio (pc1 pc2 : nat) : Q :=
  let a := inject_Z (Z.of_nat pc1) in let b := inject_Z (Z.of_nat pc2) in if Qlt_bool a b then b / a else a / b.

Lemma stab_regimes pc1 pc2 si1 si2 med :
  let r := count_ratio pc1 pc2 in
  (Qlt_bool 5 r = true -> stab_value pc1 pc2 si1 si2 med = [(1, si1 / si2)]) /\
  (Qlt_bool 5 r = false -> Qlt_bool (5 # 2) r = true ->
     stab_value pc1 pc2 si1 si2 med = [((r - (5 # 2)) / (5 # 2), si1 / si2); (1 - (r - (5 # 2)) / (5 # 2), med)]) /\
  (Qlt_bool 5 r = false -> Qlt_bool (5 # 2) r = false -> stab_value pc1 pc2 si1 si2 med = [(1, med)]).
Proof.
  cbv zeta. unfold stab_value, count_ratio.
  destruct (Qlt_bool (inject_Z (Z.of_nat pc1)) (inject_Z (Z.of_nat pc2)));
  (split; [intros ->; reflexivity|]; split; [intros -> ->; reflexivity | intros -> ->; reflexivity]).
Qed.

(* ---------- rescaling over Q ---------- *)
Lemma qsum_acc (l : list Q) : forall a, fold_left Qplus l a == a + fold_left Qplus l 0.
Proof.
  induction l as [|x l IH]; intros a; simpl; [ring|].
  rewrite (IH (a + x)), (IH (0 + x)). ring.
Qed.

Lemma qsum_scal c (l : list Q) : qsum (map (fun x => c * x) l) == c * qsum l.
Proof.
  unfold qsum. induction l as [|x l IH]; simpl; [ring|].
  rewrite (qsum_acc (map (fun x0 => c * x0) l) (0 + c * x)), (qsum_acc l (0 + x)), IH. ring.
Qed.

Lemma scale_equal_sum_total v total : 0 < qsum v -> qsum (scale_equal_sum v total) == total.
Proof.
  intros Hpos. unfold scale_equal_sum.
  assert (E : Qlt_bool 0 (qsum v) = true).
  { unfold Qlt_bool. destruct (Qle_bool (qsum v) 0) eqn:El; [|reflexivity]. apply Qle_bool_iff in El.
    exfalso. apply (Qlt_not_le _ _ Hpos El). }
  rewrite E, qsum_scal. field. intros E0. rewrite E0 in Hpos. apply (Qlt_irrefl 0 Hpos).
Qed.

(* ---------- the arithmetic median of ratios is not reciprocal: sample order matters (finding D13) ---------- *)
Definition M_witness : list (list Q) := [[1; 1]; [2; 1]].
Lemma median_not_reciprocal :
  median_ratios M_witness 2 1 None 0 = [((0%nat, 1%nat), 3 # 2)] /\
  median_ratios (map (@rev Q) M_witness) 2 1 None 0 = [((0%nat, 1%nat), 3 # 4)] /\
  ~ (3 # 4) == / (3 # 2).
Proof. split; [vm_compute; reflexivity|]. split; [vm_compute; reflexivity|]. intros H. vm_compute in H. discriminate. Qed.
