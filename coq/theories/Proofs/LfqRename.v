(* C11: the exact layer of MaxLFQ is unaffected by an ORDER-PRESERVING renaming of the experiments.
   (A renaming that changes the sort order of the names is not covered - and not invariant: finding D13.) *)
From PGF Require Import Base.Prelude Base.PyStr Base.StableSort Model.Fdr Model.Grouping Model.Quant Model.Lfq.
From Coq Require Import Lia.

Local Open Scope Q_scope.

(* ---------- sorting commutes with a map that preserves the comparison ---------- *)
Lemma insert_map {A B} (g : A -> B) (leA : A -> A -> bool) (leB : B -> B -> bool) :
  (forall a b, leB (g a) (g b) = leA a b) -> forall x l, insert leB (g x) (map g l) = map g (insert leA x l).
Proof.
  intros H x l. induction l as [|y r IH]; [reflexivity|]. cbn [map insert]. rewrite H. destruct (leA x y); [reflexivity|].
  cbn [map]. rewrite IH. reflexivity.
Qed.

Lemma isort_map {A B} (g : A -> B) (leA : A -> A -> bool) (leB : B -> B -> bool) :
  (forall a b, leB (g a) (g b) = leA a b) -> forall l, isort leB (map g l) = map g (isort leA l).
Proof.
  intros H l. induction l as [|x r IH]; [reflexivity|]. cbn [map isort]. rewrite IH. apply insert_map. exact H.
Qed.

Lemma filter_map_same {A B} (g : A -> B) (P : B -> bool) (Q : A -> bool) :
  (forall a, P (g a) = Q a) -> forall l, filter P (map g l) = map g (filter Q l).
Proof.
  intros H l. induction l as [|x r IH]; [reflexivity|]. cbn [map filter]. rewrite H. destruct (Q x); cbn [map]; rewrite IH; reflexivity.
Qed.

Section Rename.
Variable f : str -> str.
Hypothesis f_order : forall a b, str_compare (f a) (f b) = str_compare a b.

Lemma f_eqb a b : str_eqb (f a) (f b) = str_eqb a b.
Proof.
  destruct (str_eqb a b) eqn:E.
  - apply str_eqb_eq in E. subst. apply str_eqb_refl.
  - apply str_eqb_neq. intros H. apply str_eqb_neq in E. apply E. apply str_compare_eq. rewrite <- f_order, H. apply str_compare_refl.
Qed.

Definition rename (p : lprec) : lprec :=
  {| l_peptide := l_peptide p; l_charge := l_charge p; l_exp := l_exp p; l_expname := f (l_expname p); l_fraction := l_fraction p;
     l_intensity := l_intensity p; l_pep := l_pep p; l_silac := l_silac p |}.

Lemma key_leb_rename a b : key_leb (rename a) (rename b) = key_leb a b.
Proof. unfold key_leb, rename, the_intensity. cbn. rewrite f_order. reflexivity. Qed.

Lemma l_used_rename cut p : l_used cut (rename p) = l_used cut p.
Proof. reflexivity. Qed.

Definition rename_block (b : block_key) : block_key := let '(e, fr, p, c) := b in (f e, fr, p, c).

Lemma block_of_rename p : block_of (rename p) = rename_block (block_of p).
Proof. reflexivity. Qed.

Lemma block_eqb_rename a b : block_eqb (rename_block a) (rename_block b) = block_eqb a b.
Proof. destruct a as [[[e1 f1] p1] c1], b as [[[e2 f2] p2] c2]. cbn. rewrite f_eqb. reflexivity. Qed.

Definition rename_state (st : pi_state) : pi_state := let '(m, tot, prev) := st in (m, tot, option_map rename_block prev).

Lemma pi_step_rename ns ncols st p : pi_step ns ncols (rename_state st) (rename p) = rename_state (pi_step ns ncols st p).
Proof.
  destruct st as [[m tot] prev]. unfold pi_step, rename_state. rewrite block_of_rename.
  destruct prev as [b|]; cbn [option_map].
  - rewrite block_eqb_rename. destruct (block_eqb b (block_of p)); [reflexivity|].
    destruct (0 <? ns)%nat; reflexivity.
  - destruct (0 <? ns)%nat; reflexivity.
Qed.

Lemma fold_pi_rename ns ncols : forall l st,
  fold_left (pi_step ns ncols) (map rename l) (rename_state st) = rename_state (fold_left (pi_step ns ncols) l st).
Proof.
  induction l as [|p l IH]; intros st; [reflexivity|]. cbn [map fold_left]. rewrite pi_step_rename. apply IH.
Qed.

(* the peptide-intensity matrix and the total *)
Lemma peptide_intensities_rename cut ns ncols l :
  peptide_intensities cut ns ncols (map rename l) = peptide_intensities cut ns ncols l.
Proof.
  unfold peptide_intensities.
  rewrite (filter_map_same rename (l_used cut) (l_used cut)) by (intros a; apply l_used_rename).
  rewrite (isort_map rename key_leb key_leb) by (intros a b; apply key_leb_rename).
  set (L := isort key_leb (filter (l_used cut) l)).
  assert (E : fold_left (pi_step ns ncols) (map rename L) ([], 0 # 1, None) =
              rename_state (fold_left (pi_step ns ncols) L ([], 0 # 1, None))) by exact (fold_pi_rename ns ncols L ([], 0 # 1, None)).
  rewrite E. destruct (fold_left (pi_step ns ncols) L ([], 0 # 1, None)) as [[m tot] prev]. reflexivity.
Qed.

(* summed intensities and peptide counts per experiment (the inputs of the large-ratio stabilisation) *)
Lemma to_prec_rename p : to_prec (rename p) =
  {| p_peptide := l_peptide p; p_proteins := []; p_charge := l_charge p; p_exp := f (l_expname p);
     p_intensity := l_intensity p; p_pep := l_pep p; p_silac := l_silac p; p_tmt := []; p_id := 0%Z |}.
Proof. reflexivity. Qed.

Definition rename_prec (r : prec) : prec :=
  {| p_peptide := p_peptide r; p_proteins := p_proteins r; p_charge := p_charge r; p_exp := f (p_exp r);
     p_intensity := p_intensity r; p_pep := p_pep r; p_silac := p_silac r; p_tmt := p_tmt r; p_id := p_id r |}.

Lemma map_to_prec_rename l : map to_prec (map rename l) = map rename_prec (map to_prec l).
Proof. rewrite !map_map. apply map_ext. intros p. reflexivity. Qed.

Lemma in_exp_rename e r : in_exp (f e) (rename_prec r) = in_exp e r.
Proof. unfold in_exp, rename_prec. cbn. apply f_eqb. Qed.

Lemma intensities_rename cut exps ns pl :
  intensities cut (map f exps) ns (map rename_prec pl) = intensities cut exps ns pl.
Proof.
  unfold intensities. induction exps as [|e exps IH]; [reflexivity|]. cbn [map flat_map]. rewrite IH. f_equal.
  rewrite (filter_map_same rename_prec _ (fun r => counts cut r && in_exp e r && match p_intensity r with Some _ => true | None => false end))
    by (intros a; rewrite in_exp_rename; reflexivity).
  rewrite !map_map. f_equal. apply map_ext. intros k. rewrite map_map. reflexivity.
Qed.

Lemma unique_peptides_rename cut exps pl :
  unique_peptides cut (map f exps) (map rename_prec pl) = unique_peptides cut exps pl.
Proof.
  unfold unique_peptides. cbv zeta.
  rewrite (filter_map_same rename_prec (counts cut) (counts cut)) by reflexivity.
  f_equal.
  - rewrite map_map. reflexivity.
  - rewrite map_map. apply map_ext. intros e.
    rewrite (filter_map_same rename_prec (in_exp (f e)) (in_exp e)) by (intros a; apply in_exp_rename).
    rewrite map_map. reflexivity.
Qed.

Lemma summed_and_counts_rename cut exps ns l :
  summed_and_counts cut (map f exps) ns (map rename l) = summed_and_counts cut exps ns l.
Proof.
  unfold summed_and_counts. rewrite map_to_prec_rename, intensities_rename, unique_peptides_rename. reflexivity.
Qed.

(* C11: every exact stage (matrix, total, median ratios, stabilised log-ratio expressions) is the same *)
Theorem lfq_exact_rename cut exps ns minr stab graph ms l :
  lfq_exact cut (map f exps) ns minr stab graph ms (map rename l) = lfq_exact cut exps ns minr stab graph ms l.
Proof.
  unfold lfq_exact. rewrite map_length, peptide_intensities_rename.
  destruct (peptide_intensities cut ns (length exps * Nat.max 1 ns) l) as [m tot].
  unfold stabilize. rewrite summed_and_counts_rename. reflexivity.
Qed.
End Rename.
