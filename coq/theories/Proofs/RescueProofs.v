From PGF Require Import Base.Prelude Base.PyStr Base.StableSort Model.Fdr Model.Results Model.ProteinGroups
  Model.Grouping Model.Scoring Model.Rescue Proofs.ProteinGroupsProofs Proofs.GroupingProofs.
From Coq Require Import Permutation.

(* ================= add_unseen_protein_groups ================= *)
Definition remnant (seen : list str) (g : list str) : list str := filter (fun p => negb (mem_str p seen)) g.
Definition remnants (seen : list str) (old : list (list str)) : list (list str) :=
  flat_map (fun g => match remnant seen g with [] => [] | n => [n] end) old.
Definition absorbed (seen : list str) (old : list (list str)) : list (list str) :=
  flat_map (fun g => match remnant seen g with [] => [map (fun x => obsolete_prefix ++ x) g] | _ => [] end) old.

Lemma add_unseen_loop_spec seen : forall old acc obs oi i,
  fst (fst (add_unseen_loop seen old acc obs oi i)) = acc ++ remnants seen old /\
  snd (fst (add_unseen_loop seen old acc obs oi i)) = obs ++ absorbed seen old.
Proof.
  induction old as [|g old IH]; intros acc obs oi i.
  - simpl. rewrite !app_nil_r. split; reflexivity.
  - cbn [add_unseen_loop]. change (filter (fun p => negb (mem_str p seen)) g) with (remnant seen g).
    unfold remnants, absorbed. cbn [flat_map]. fold (remnants seen old). fold (absorbed seen old).
    destruct (remnant seen g) as [|x r] eqn:E.
    + destruct (IH acc (obs ++ [map (fun x => obsolete_prefix ++ x) g]) (oi ++ [i]) (S i)) as [H1 H2].
      rewrite H1, H2. split; [reflexivity|]. rewrite <- app_assoc. reflexivity.
    + destruct (IH (acc ++ [x :: r]) obs oi (S i)) as [H1 H2].
      rewrite H1, H2. split; [|reflexivity]. rewrite <- app_assoc. reflexivity.
Qed.

Lemma add_unseen_groups s old :
  groups (fst (fst (add_unseen s old))) = groups s ++ remnants (all_proteins s) old /\
  snd (fst (add_unseen s old)) = absorbed (all_proteins s) old.
Proof.
  unfold add_unseen.
  destruct (add_unseen_loop_spec (all_proteins s) old (groups s) [] [] 0) as [H1 H2].
  destruct (add_unseen_loop (all_proteins s) old (groups s) [] [] 0) as [[gs obs] oi]. simpl in *.
  split; assumption.
Qed.

Lemma remnant_In seen g p : In p (remnant seen g) <-> In p g /\ ~ In p seen.
Proof.
  unfold remnant. rewrite filter_In, negb_true_iff. split; intros [H1 H2]; split; try exact H1.
  - intros H. apply mem_str_In in H. congruence.
  - destruct (mem_str p seen) eqn:E; [apply mem_str_In in E; contradiction | reflexivity].
Qed.

Lemma concat_remnants_In seen old p :
  In p (concat (remnants seen old)) <-> In p (concat old) /\ ~ In p seen.
Proof.
  induction old as [|g old IH]; simpl; [tauto|].
  unfold remnants in *. cbn [flat_map]. rewrite concat_app, !in_app_iff, IH.
  pose proof (remnant_In seen g p) as Hr.
  destruct (remnant seen g) as [|x r] eqn:E.
  - simpl in *. tauto.
  - cbn [concat]. rewrite app_nil_r. tauto.
Qed.

Lemma NoDup_filter {A} (f : A -> bool) l : NoDup l -> NoDup (filter f l).
Proof.
  induction 1 as [|x l Hn Hd IH]; simpl; [constructor|].
  destruct (f x); [constructor; [rewrite filter_In; tauto | exact IH] | exact IH].
Qed.

Lemma concat_remnants_NoDup seen old : NoDup (concat old) -> NoDup (concat (remnants seen old)).
Proof.
  induction old as [|g old IH]; simpl; intros H; [constructor|].
  unfold remnants in *. cbn [flat_map]. rewrite concat_app.
  assert (Hg : NoDup g /\ NoDup (concat old) /\ forall x, In x g -> In x (concat old) -> False).
  { clear IH. induction g as [|y g IHg]; simpl in *; [split; [constructor | split; [exact H | intros x []]]|].
    inversion H as [|? ? Hni Hnd]; subst. destruct (IHg Hnd) as [H1 [H2 H3]]. split; [|split; [exact H2|]].
    - constructor; [intros Hy; apply Hni; apply in_or_app; left; exact Hy | exact H1].
    - intros x [<-|Hx] Hc; [apply Hni; apply in_or_app; right; exact Hc | apply (H3 x Hx Hc)]. }
  destruct Hg as [Hg [Ho Hdisj]].
  apply nodup_app.
  - assert (Hr : NoDup (remnant seen g)) by (apply NoDup_filter; exact Hg).
    destruct (remnant seen g) as [|a r]; cbn [concat]; [constructor|]. rewrite app_nil_r. exact Hr.
  - apply IH. exact Ho.
  - intros x Hx Hy. apply concat_remnants_In in Hy. destruct Hy as [Hy _].
    assert (Hxg : In x g).
    { assert (Hr : In x (remnant seen g)).
      { destruct (remnant seen g) as [|a r]; cbn [concat] in Hx; [destruct Hx|]. rewrite app_nil_r in Hx. exact Hx. }
      apply remnant_In in Hr. apply Hr. }
    apply (Hdisj x Hxg Hy).
Qed.

(* ---- C04: the result is again a partition of exactly the first-pass proteins ---- *)
Lemma add_unseen_partition s old :
  NoDup (concat (groups s)) -> NoDup (concat old) -> incl (concat (groups s)) (concat old) ->
  let s' := fst (fst (add_unseen s old)) in
  NoDup (concat (groups s')) /\ (forall p, In p (concat (groups s')) <-> In p (concat old)).
Proof.
  intros Hn Ho Hincl s'. destruct (add_unseen_groups s old) as [Hg _]. fold s' in Hg. rewrite Hg.
  rewrite concat_app. split.
  - apply nodup_app; [exact Hn | apply concat_remnants_NoDup; exact Ho|].
    intros x Hx Hy. apply concat_remnants_In in Hy. destruct Hy as [_ Hy]. apply Hy. exact Hx.
  - intros p. rewrite in_app_iff, concat_remnants_In. unfold all_proteins. split.
    + intros [H|[H _]]; [apply Hincl; exact H | exact H].
    + intros H. destruct (in_dec (list_eq_dec N.eq_dec) p (concat (groups s))) as [Hi|Hi]; [left; exact Hi | right; split; assumption].
Qed.

(* no empty group is added *)
Lemma remnants_nonempty seen old g : In g (remnants seen old) -> g <> [].
Proof.
  unfold remnants. rewrite in_flat_map. intros [g0 [_ H]].
  destruct (remnant seen g0) eqn:E; [destruct H | destruct H as [<-|[]]; discriminate].
Qed.

(* proteins that kept no peptide stay together with exactly those former group-mates that also kept none *)
Lemma remnants_spec seen old r :
  In r (remnants seen old) <-> exists g, In g old /\ r = remnant seen g /\ r <> [].
Proof.
  unfold remnants. rewrite in_flat_map. split.
  - intros [g [Hg H]]. exists g. split; [exact Hg|].
    destruct (remnant seen g) eqn:E; [destruct H | destruct H as [<-|[]]; split; [reflexivity | discriminate]].
  - intros [g [Hg [-> Hne]]]. exists g. split; [exact Hg|].
    destruct (remnant seen g); [congruence | left; reflexivity].
Qed.

(* a placeholder exists exactly for every completely absorbed first-pass group *)
Lemma absorbed_spec seen old o :
  In o (absorbed seen old) <->
  exists g, In g old /\ o = map (fun x => obsolete_prefix ++ x) g /\ forall p, In p g -> In p seen.
Proof.
  unfold absorbed. rewrite in_flat_map. split.
  - intros [g [Hg H]]. exists g. split; [exact Hg|].
    destruct (remnant seen g) eqn:E; [|destruct H]. destruct H as [<-|[]]. split; [reflexivity|].
    intros p Hp. destruct (in_dec (list_eq_dec N.eq_dec) p seen) as [Hi|Hi]; [exact Hi|].
    exfalso. assert (In p (remnant seen g)) by (apply remnant_In; split; assumption). rewrite E in H. destruct H.
  - intros [g [Hg [-> Hall]]]. exists g. split; [exact Hg|].
    destruct (remnant seen g) as [|x r] eqn:E; [left; reflexivity|].
    exfalso. assert (Hx : In x (remnant seen g)) by (rewrite E; left; reflexivity).
    apply remnant_In in Hx. destruct Hx as [Hx Hn]. apply Hn, Hall, Hx.
Qed.

(* placeholders carry the marker, hence are never reported (is_obsolete is what from_protein_groups tests) *)
Lemma absorbed_is_obsolete seen old o : In o (absorbed seen old) -> is_obsolete o = true.
Proof.
  intros H. apply absorbed_spec in H. destruct H as [g [_ [-> _]]].
  unfold is_obsolete, all_contain. apply forallb_forall. intros x Hx. apply in_map_iff in Hx.
  destruct Hx as [y [<- _]]. apply contains_spec. exists [], y. reflexivity.
Qed.

(* ================= merging only moves proteins ================= *)
Lemma set_nth_empty_perm : forall (l : list (list str)) j gj,
  nth_error l j = Some gj -> Permutation (concat (set_nth l j []) ++ gj) (concat l).
Proof.
  induction l as [|x l IH]; intros [|j] gj H; simpl in *; try discriminate.
  - inversion H; subst. apply Permutation_app_comm.
  - rewrite <- app_assoc. apply Permutation_app_head. apply IH. exact H.
Qed.

Lemma set_nth_extend_perm : forall (l : list (list str)) i gi x,
  nth_error l i = Some gi -> Permutation (concat (set_nth l i (gi ++ x))) (concat l ++ x).
Proof.
  induction l as [|y l IH]; intros [|i] gi x H; simpl in *; try discriminate.
  - inversion H; subst. rewrite <- !app_assoc. apply Permutation_app_head. apply Permutation_app_comm.
  - rewrite <- app_assoc. apply Permutation_app_head. apply IH. exact H.
Qed.

Lemma nth_error_set_nth_other {A} : forall (l : list A) i j v, i <> j -> nth_error (set_nth l i v) j = nth_error l j.
Proof.
  induction l as [|x l IH]; intros [|i] [|j] v H; simpl; try reflexivity; try congruence.
  apply IH. lia.
Qed.

Lemma set_nth_concat_perm (l : list (list str)) i j gi gj :
  i <> j -> nth_error l i = Some gi -> nth_error l j = Some gj ->
  Permutation (concat (set_nth (set_nth l i (gi ++ gj)) j [])) (concat l).
Proof.
  intros Hij Hi Hj.
  apply Permutation_app_inv_r with (l := gj).
  eapply perm_trans; [apply set_nth_empty_perm; rewrite nth_error_set_nth_other by exact Hij; exact Hj|].
  apply set_nth_extend_perm. exact Hi.
Qed.

Lemma merge_groups_perm s l p s' :
  merge_groups s l p = Ok s' -> lookup (index s) l <> lookup (index s) p ->
  Permutation (concat (groups s')) (concat (groups s)) /\ index s' = index s.
Proof.
  unfold merge_groups. destruct (lookup (index s) l) as [i|] eqn:El; [|discriminate].
  destruct (lookup (index s) p) as [j|] eqn:Ep; [|discriminate].
  destruct (nth_error (groups s) i) as [gi|] eqn:Ei; [|discriminate].
  destruct (nth_error (groups s) j) as [gj|] eqn:Ej; [|discriminate].
  intros H Hne. inversion H; subst; simpl. split; [|reflexivity].
  apply set_nth_concat_perm; [congruence | exact Ei | exact Ej].
Qed.

Definition head_distinct (ix : list (str * nat)) (ps : list str) : Prop :=
  match ps with
  | [] => True
  | l :: rest => forall p, In p rest -> lookup ix l <> lookup ix p
  end.

Lemma merge_all_perm s ps :
  head_distinct (index s) ps ->
  Permutation (concat (groups (merge_all s ps))) (concat (groups s)) /\ index (merge_all s ps) = index s.
Proof.
  destruct ps as [|l rest]; simpl; [intros _; split; [apply Permutation_refl | reflexivity]|].
  revert s. induction rest as [|p rest IH]; intros s H; simpl; [split; [apply Permutation_refl | reflexivity]|].
  destruct (merge_groups s l p) as [t|] eqn:Em.
  - destruct (merge_groups_perm s l p t Em (H p (or_introl eq_refl))) as [Hp Hix].
    destruct (IH t) as [Hp2 Hix2]; [intros q Hq; rewrite Hix; apply H; right; exact Hq|].
    split; [eapply perm_trans; eassumption | congruence].
  - apply IH. intros q Hq. apply H. right. exact Hq.
Qed.

Lemma inj_head_distinct ix ps : NoDup (map (lookup ix) ps) -> head_distinct ix ps.
Proof.
  destruct ps as [|l rest]; simpl; [auto|]. intros H p Hp. inversion H as [|? ? Hni _]; subst.
  intros E. apply Hni. rewrite E. apply in_map. exact Hp.
Qed.

Lemma NoDup_map_incl {A B} (f : A -> B) (l l' : list A) :
  NoDup (map f l) -> NoDup l' -> incl l' l -> NoDup (map f l').
Proof.
  intros Hf. induction l' as [|x l' IH]; intros Hnd Hincl; simpl; [constructor|].
  inversion Hnd as [|? ? Hni Hnd']; subst. constructor.
  - intros Hin. apply in_map_iff in Hin. destruct Hin as [y [Hy Hyl]].
    assert (x = y); [|subst; contradiction].
    assert (Hinj : forall a b, In a l -> In b l -> f a = f b -> a = b).
    { clear -Hf. induction l as [|c l IHl]; intros a b Ha Hb E; [destruct Ha|].
      simpl in Hf. inversion Hf as [|? ? Hn Hf']; subst. destruct Ha as [<-|Ha], Hb as [<-|Hb]; auto.
      - exfalso. apply Hn. rewrite E. apply in_map. exact Hb.
      - exfalso. apply Hn. rewrite <- E. apply in_map. exact Ha. }
    symmetry. apply Hinj; [apply Hincl; right; exact Hyl | apply Hincl; left; reflexivity | exact Hy].
  - apply IH; [exact Hnd' | intros y Hy; apply Hincl; right; exact Hy].
Qed.

(* the splitter contract needed for "merging only moves proteins": every part's proteins are a duplicate-free
   subset of the component's proteins *)
Definition split_ok (split : graph -> list graph) : Prop :=
  forall c part, In part (split c) -> NoDup (g_prots part) /\ incl (g_prots part) (g_prots c).

Lemma decouple_perm split : split_ok split -> forall fuel work s s',
  (forall c, In c work -> NoDup (map (lookup (index s)) (g_prots c))) ->
  decouple fuel split work s = Ok s' ->
  Permutation (concat (groups s')) (concat (groups s)).
Proof.
  intros Hsplit. induction fuel as [|f IH]; intros work s s' Hw H; simpl in H; [discriminate|].
  destruct work as [|c rest].
  - inversion H; subst. simpl. rewrite concat_filter_nonempty. apply Permutation_refl.
  - set (parts := if Nat.ltb 1 (length (g_prots c)) then split c else []) in H.
    destruct parts as [|x xs] eqn:Ep.
    + destruct (merge_all_perm s (g_prots c)) as [Hp Hix]; [apply inj_head_distinct, Hw; left; reflexivity|].
      eapply perm_trans; [|exact Hp]. apply (IH rest _ _); [|exact H].
      intros c' Hc'. rewrite Hix. apply Hw. right. exact Hc'.
    + apply (IH (rest ++ x :: xs) s s'); [|exact H].
      intros c' Hc'. apply in_app_or in Hc'. destruct Hc' as [Hc'|Hc']; [apply Hw; right; exact Hc'|].
      assert (Hin : In c' (split c)).
      { unfold parts in Ep. destruct (Nat.ltb 1 (length (g_prots c))); [rewrite Ep; exact Hc' | discriminate]. }
      destruct (Hsplit c c' Hin) as [Hnd Hincl].
      eapply NoDup_map_incl; [apply Hw; left; reflexivity | exact Hnd | exact Hincl].
Qed.

Lemma decouple_no_empty split : forall fuel work s s' g,
  decouple fuel split work s = Ok s' -> In g (groups s') -> g <> [].
Proof.
  induction fuel as [|f IH]; intros work s s' g Ed Hg; simpl in Ed; [discriminate|].
  destruct work as [|c rest].
  - inversion Ed; subst. simpl in Hg. apply filter_In in Hg. destruct Hg as [_ Hg]. destruct g; discriminate.
  - destruct (if Nat.ltb 1 (length (g_prots c)) then split c else []); eapply IH; eassumption.
Qed.

(* ---- C04, composed: the rescue result is a partition of exactly the first-pass proteins ---- *)
Section Partition.
Variable split : graph -> list graph.
Hypothesis Hsplit : split_ok split.
Variable l : pil.
Hypothesis l_keys : NoDup (map fst (pmap_of l)).
Variable old : list (list str).
Hypothesis old_partition : NoDup (concat old).
Hypothesis kept_are_first_pass : forall p, In p (prot_order (pmap_of l)) -> In p (concat old).

Let m := pmap_of l.
Let s1 := generate_protein_groups m.
Let comps0 := let adj := build_adj s1 m (unique_idxs s1 m) in
              components (S (length (map fst adj))) adj (map fst adj) (map fst adj) [].
(* the initial components consist of leading proteins of distinct groups (checked at run time by the
   correspondence; stated as a hypothesis here - see DESIGN.md, C04 "partial") *)
Hypothesis comps_distinct : forall c, In c comps0 -> NoDup (map (lookup (index s1)) (g_prots c)).

Lemma rescue_partition s obs oi :
  merge_with_rescued split l old = Ok (s, obs, oi) ->
  NoDup (concat (groups s)) /\ (forall p, In p (concat (groups s)) <-> In p (concat old)) /\
  (forall g, In g (groups s) -> g <> []).
Proof.
  unfold merge_with_rescued, rescued_groups. fold m. fold s1. fold comps0.
  destruct (decouple _ split comps0 s1) as [s2|] eqn:Ed; [|discriminate].
  intros H. inversion H as [H1]; clear H.
  assert (Hs : s = fst (fst (add_unseen s2 old))) by (rewrite H1; reflexivity). rewrite Hs. clear Hs H1.
  pose proof (decouple_perm split Hsplit _ _ _ _ comps_distinct Ed) as Hperm.
  assert (Hs1 : groups s1 = subset_grouping m) by reflexivity.
  assert (Hnd2 : NoDup (concat (groups s2))).
  { eapply Permutation_NoDup; [apply Permutation_sym; exact Hperm|]. rewrite Hs1. apply subset_concat_NoDup. exact l_keys. }
  assert (Hin2 : forall p, In p (concat (groups s2)) <-> In p (prot_order m)).
  { intros p. rewrite <- (subset_concat_In m l_keys p), <- Hs1. split; apply Permutation_in; [exact Hperm | apply Permutation_sym; exact Hperm]. }
  destruct (add_unseen_partition s2 old Hnd2 old_partition) as [Hn Hi].
  { intros p Hp. apply kept_are_first_pass. apply Hin2. exact Hp. }
  split; [exact Hn|]. split; [exact Hi|].
  intros g Hg. destruct (add_unseen_groups s2 old) as [Hgs _]. rewrite Hgs in Hg.
  apply in_app_or in Hg. destruct Hg as [Hg|Hg]; [|eapply remnants_nonempty; exact Hg].
  eapply decouple_no_empty; eassumption.
Qed.
End Partition.

(* ================= groups that are no node of the graph are never touched ================= *)
Lemma merge_groups_keeps s l p s' k :
  merge_groups s l p = Ok s' -> lookup (index s) l <> Some k -> lookup (index s) p <> Some k ->
  nth_error (groups s') k = nth_error (groups s) k /\ index s' = index s.
Proof.
  unfold merge_groups. destruct (lookup (index s) l) as [i|] eqn:El; [|discriminate].
  destruct (lookup (index s) p) as [j|] eqn:Ep; [|discriminate].
  destruct (nth_error (groups s) i) as [gi|]; [|discriminate].
  destruct (nth_error (groups s) j) as [gj|]; [|discriminate].
  intros H Hl Hp. inversion H; subst; simpl. split; [|reflexivity].
  rewrite !nth_error_set_nth_other by congruence. reflexivity.
Qed.

Lemma merge_all_keeps s ps k :
  (forall p, In p ps -> lookup (index s) p <> Some k) ->
  nth_error (groups (merge_all s ps)) k = nth_error (groups s) k /\ index (merge_all s ps) = index s.
Proof.
  destruct ps as [|l rest]; simpl; [intros _; split; reflexivity|].
  revert s. induction rest as [|p rest IH]; intros s H; simpl; [split; reflexivity|].
  destruct (merge_groups s l p) as [t|] eqn:Em.
  - destruct (merge_groups_keeps s l p t k Em (H l (or_introl eq_refl)) (H p (or_intror (or_introl eq_refl)))) as [Hk Hix].
    destruct (IH t) as [Hk2 Hix2].
    { intros q [<-|Hq]; rewrite Hix; apply H; [left; reflexivity | right; right; exact Hq]. }
    split; congruence.
  - apply IH. intros q [<-|Hq]; apply H; [left; reflexivity | right; right; exact Hq].
Qed.

(* a non-empty group at a position that no protein node of the work list is indexed to survives the
   whole decoupling unchanged: in particular every group with a peptide of its own (never a node) *)
Lemma decouple_keeps split : split_ok split -> forall fuel work s s' k g,
  nth_error (groups s) k = Some g -> g <> [] ->
  (forall c p, In c work -> In p (g_prots c) -> lookup (index s) p <> Some k) ->
  decouple fuel split work s = Ok s' -> In g (groups s').
Proof.
  intros Hsplit. induction fuel as [|f IH]; intros work s s' k g Hk Hne Hw H; simpl in H; [discriminate|].
  destruct work as [|c rest].
  - inversion H; subst. simpl. apply filter_In. split; [eapply nth_error_In; exact Hk | destruct g; [congruence | reflexivity]].
  - set (parts := if Nat.ltb 1 (length (g_prots c)) then split c else []) in H.
    destruct parts as [|x xs] eqn:Ep.
    + destruct (merge_all_keeps s (g_prots c) k) as [Hk' Hix]; [intros p Hp; apply (Hw c p); [left; reflexivity | exact Hp]|].
      apply (IH rest (merge_all s (g_prots c)) s' k g); [congruence | exact Hne | | exact H].
      intros c' p Hc' Hp. rewrite Hix. apply (Hw c' p); [right; exact Hc' | exact Hp].
    + apply (IH (rest ++ x :: xs) s s' k g); [exact Hk | exact Hne | | exact H].
      intros c' p Hc' Hp. apply in_app_or in Hc'. destruct Hc' as [Hc'|Hc']; [apply (Hw c' p); [right; exact Hc' | exact Hp]|].
      assert (Hin : In c' (split c)).
      { unfold parts in Ep. destruct (Nat.ltb 1 (length (g_prots c))); [rewrite Ep; exact Hc' | discriminate]. }
      destruct (Hsplit c c' Hin) as [_ Hincl]. apply (Hw c p); [left; reflexivity | apply Hincl; exact Hp].
Qed.

(* groups with a peptide of their own are no nodes of the graph *)
Lemma enum_from_nth {A} : forall (gs : list A) k i g,
  In (i, g) (enum_from k gs) -> k <= i /\ nth_error gs (i - k) = Some g.
Proof.
  induction gs as [|x gs IH]; intros k i g H; simpl in H; [destruct H|].
  destruct H as [H|H].
  - inversion H; subst. split; [lia|]. rewrite Nat.sub_diag. reflexivity.
  - destruct (IH _ _ _ H) as [Hle Hn]. split; [lia|].
    replace (i - k) with (S (i - S k)) by lia. exact Hn.
Qed.

Lemma build_adj_skips_identified s m ident p ns :
  In (p, ns) (build_adj s m ident) ->
  exists i g, nth_error (groups s) i = Some g /\ hd_error g = Some p /\ ~ In (Z.of_nat i) ident.
Proof.
  unfold build_adj. rewrite in_flat_map. intros [[i g] [Hig H]]. simpl in H.
  destruct (existsb (Z.eqb (Z.of_nat i)) ident) eqn:Ee; [destruct H|].
  destruct g as [|q g']; [destruct H|]. destruct H as [H|[]]. inversion H; subst.
  exists i, (p :: g'). split; [|split; [reflexivity|]].
  - destruct (enum_from_nth _ _ _ _ Hig) as [_ Hn]. rewrite Nat.sub_0_r in Hn. exact Hn.
  - intros Hin. assert (existsb (Z.eqb (Z.of_nat i)) ident = true); [|congruence].
    apply existsb_exists. exists (Z.of_nat i). split; [exact Hin | apply Z.eqb_refl].
Qed.

(* when no group lacks a peptide of its own the rescue grouping is plain subset grouping of the kept peptides *)
Lemma no_unidentified_same_as_subset split l :
  build_adj (generate_protein_groups (pmap_of l)) (pmap_of l)
            (unique_idxs (generate_protein_groups (pmap_of l)) (pmap_of l)) = [] ->
  exists s, rescued_groups split l = Ok s /\ groups s = subset_grouping (pmap_of l).
Proof.
  intros H. unfold rescued_groups. rewrite H. simpl.
  eexists. split; [reflexivity|]. simpl. unfold subset_grouping, generate_protein_groups. simpl.
  generalize (groups (fold_left (group_step (pmap_of l)) (prot_order (pmap_of l))
     (create_index (of_list (map (fun p => [p]) (prot_order (pmap_of l))))))) as gs.
  induction gs as [|x gs IH]; simpl; [reflexivity|]. destruct x; simpl; [exact IH | f_equal; exact IH].
Qed.
