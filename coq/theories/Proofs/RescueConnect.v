(* C04: the rescue pass merges first-pass groups only along chains of shared peptides. *)
From PGF Require Import Base.Prelude Base.PyStr Base.StableSort Model.Fdr Model.Results Model.ProteinGroups Model.Grouping
  Model.Scoring Model.Rescue Proofs.ProteinGroupsProofs Proofs.GroupingProofs Proofs.RescueProofs.
From Coq Require Import Relations Lia Permutation.

(* ---------- generic part: slots of the first-pass grouping and an equivalence on them ---------- *)
Section Slots.
Variable ix : list (str * nat).
Variable L : nat -> nat -> Prop.
Hypothesis L_refl : forall i, L i i.
Hypothesis L_sym : forall i j, L i j -> L j i.
Hypothesis L_trans : forall i j k, L i j -> L j k -> L i k.

(* every protein now sitting in slot i comes from a first-pass slot j related to i *)
Definition slots_ok (gs : list (list str)) : Prop :=
  forall i g x, nth_error gs i = Some g -> In x g -> exists j, lookup ix x = Some j /\ L i j.

(* the proteins of a work item (leading proteins of first-pass groups) sit in pairwise related slots *)
Definition related (ps : list str) : Prop :=
  forall a b, In a ps -> In b ps -> exists i j, lookup ix a = Some i /\ lookup ix b = Some j /\ L i j.

Lemma nth_error_set_nth {A} : forall (l : list A) i v k g,
  nth_error (set_nth l i v) k = Some g -> (k = i /\ g = v) \/ (k <> i /\ nth_error l k = Some g).
Proof.
  induction l as [|x l IH]; intros [|i] v [|k] g H; simpl in H; try discriminate.
  - inversion H; subst. left. split; reflexivity.
  - right. split; [discriminate | exact H].
  - right. split; [discriminate | exact H].
  - apply IH in H. destruct H as [[-> ->]|[Hne H]]; [left; split; reflexivity | right; split; [congruence | exact H]].
Qed.

Lemma merge_groups_slots s l p s' i j :
  index s = ix -> lookup ix l = Some i -> lookup ix p = Some j -> L i j ->
  merge_groups s l p = Ok s' -> slots_ok (groups s) -> slots_ok (groups s') /\ index s' = ix.
Proof.
  intros Hix Hl Hp Hij Hm Hok. unfold merge_groups in Hm. rewrite Hix, Hl, Hp in Hm.
  destruct (nth_error (groups s) i) as [gi|] eqn:Ei; [|discriminate].
  destruct (nth_error (groups s) j) as [gj|] eqn:Ej; [|discriminate].
  inversion Hm; subst s'; clear Hm. cbn [groups index]. split; [|first [exact Hix | reflexivity]].
  intros k g x Hk Hx. apply nth_error_set_nth in Hk. destruct Hk as [[-> ->]|[Hkj Hk]]; [destruct Hx|].
  apply nth_error_set_nth in Hk. destruct Hk as [[-> ->]|[Hki Hk]].
  - apply in_app_or in Hx. destruct Hx as [Hx|Hx].
    + exact (Hok i gi x Ei Hx).
    + destruct (Hok j gj x Ej Hx) as [j' [Hlk Hj']]. exists j'. split; [exact Hlk | eapply L_trans; eassumption].
  - exact (Hok k g x Hk Hx).
Qed.

Lemma merge_all_slots s ps :
  index s = ix -> related ps -> slots_ok (groups s) -> slots_ok (groups (merge_all s ps)) /\ index (merge_all s ps) = ix.
Proof.
  destruct ps as [|l rest]; simpl; [auto|]. intros Hix Hrel Hok.
  assert (Hl : forall p, In p rest -> exists i j, lookup ix l = Some i /\ lookup ix p = Some j /\ L i j).
  { intros p Hp. apply Hrel; [left; reflexivity | right; exact Hp]. }
  clear Hrel. revert s Hix Hok. induction rest as [|p rest IH]; intros s Hix Hok; simpl; [auto|].
  destruct (Hl p (or_introl eq_refl)) as [i [j [Hli [Hpj Hij]]]].
  destruct (merge_groups s l p) as [t|] eqn:Em.
  - destruct (merge_groups_slots s l p t i j Hix Hli Hpj Hij Em Hok) as [Hok' Hix'].
    apply IH; [intros q Hq; apply Hl; right; exact Hq | exact Hix' | exact Hok'].
  - apply IH; [intros q Hq; apply Hl; right; exact Hq | exact Hix | exact Hok].
Qed.

Lemma related_incl ps qs : related ps -> incl qs ps -> related qs.
Proof. intros H Hi a b Ha Hb. apply H; apply Hi; assumption. Qed.

Lemma filter_nonempty_slots gs : slots_ok gs ->
  forall g x y, In g (filter nonempty gs) -> In x g -> In y g ->
  exists i j, lookup ix x = Some i /\ lookup ix y = Some j /\ L i j.
Proof.
  intros Hok g x y Hg Hx Hy. apply filter_In in Hg. destruct Hg as [Hg _].
  apply In_nth_error in Hg. destruct Hg as [k Hk].
  destruct (Hok k g x Hk Hx) as [i [Hi Hki]]. destruct (Hok k g y Hk Hy) as [j [Hj Hkj]].
  exists i, j. split; [exact Hi|]. split; [exact Hj|]. eapply L_trans; [apply L_sym; exact Hki | exact Hkj].
Qed.

Lemma decouple_slots split : split_ok split -> forall fuel work s s',
  index s = ix -> (forall c, In c work -> related (g_prots c)) -> slots_ok (groups s) ->
  decouple fuel split work s = Ok s' ->
  forall g x y, In g (groups s') -> In x g -> In y g -> exists i j, lookup ix x = Some i /\ lookup ix y = Some j /\ L i j.
Proof.
  intros Hsplit. induction fuel as [|f IH]; intros work s s' Hix Hw Hok H; simpl in H; [discriminate|].
  destruct work as [|c rest].
  - inversion H; subst. cbn [remove_empty_groups create_index groups]. apply filter_nonempty_slots. exact Hok.
  - set (parts := if Nat.ltb 1 (length (g_prots c)) then split c else []) in H.
    destruct parts as [|x0 xs] eqn:Ep.
    + destruct (merge_all_slots s (g_prots c) Hix (Hw c (or_introl eq_refl)) Hok) as [Hok' Hix'].
      apply (IH rest _ _ Hix'); [intros c' Hc'; apply Hw; right; exact Hc' | exact Hok' | exact H].
    + apply (IH (rest ++ x0 :: xs) s s' Hix); [|exact Hok | exact H].
      intros c' Hc'. apply in_app_or in Hc'. destruct Hc' as [Hc'|Hc']; [apply Hw; right; exact Hc'|].
      assert (Hin : In c' (split c)).
      { unfold parts in Ep. destruct (Nat.ltb 1 (length (g_prots c))); [rewrite Ep; exact Hc' | discriminate]. }
      destruct (Hsplit c c' Hin) as [_ Hincl].
      eapply related_incl; [apply Hw; left; reflexivity | exact Hincl].
Qed.
End Slots.

(* ---------- the fuel-bounded closure stays inside any predicate closed under the adjacency ---------- *)
Lemma closure_pred (R : str -> str -> bool) (Q : str -> Prop) nodes :
  (forall r n, Q r -> R r n = true -> In n nodes -> Q n) ->
  forall fuel reach, (forall r, In r reach -> Q r) -> forall x, In x (closure fuel R nodes reach) -> Q x.
Proof.
  intros Hstep. induction fuel as [|f IH]; intros reach Hr x Hx; simpl in Hx; [apply Hr; exact Hx|].
  destruct (filter (fun n => negb (mem_str n reach) && existsb (fun r => R r n) reach) nodes) as [|n0 next] eqn:En;
    [apply Hr; exact Hx|].
  apply (IH (reach ++ n0 :: next)); [|exact Hx].
  intros r Hin. apply in_app_or in Hin. destruct Hin as [Hin|Hin]; [apply Hr; exact Hin|].
  rewrite <- En in Hin. apply filter_In in Hin. destruct Hin as [Hn Hb]. apply andb_true_iff in Hb. destruct Hb as [_ Hb].
  apply existsb_exists in Hb. destruct Hb as [r0 [Hr0 Ha]]. eapply Hstep; [apply Hr; exact Hr0 | exact Ha | exact Hn].
Qed.

Lemma components_shape adj nodes : forall fuel todo seen c,
  incl todo nodes -> In c (components fuel adj nodes todo seen) ->
  exists u, In u nodes /\ c = mk_graph adj (closure (length nodes) (share_node adj) nodes [u]).
Proof.
  induction fuel as [|f IH]; intros todo seen c Hincl Hc; simpl in Hc; [destruct Hc|].
  destruct todo as [|u r]; [destruct Hc|].
  assert (Hr : incl r nodes) by (intros z Hz; apply Hincl; right; exact Hz).
  destruct (mem_str u seen).
  - eapply IH; eassumption.
  - destruct Hc as [<-|Hc]; [exists u; split; [apply Hincl; left; reflexivity | reflexivity] | eapply IH; eassumption].
Qed.

Lemma NoDup_app_inv {A} (a b : list A) : NoDup (a ++ b) -> NoDup b /\ forall x, In x a -> In x b -> False.
Proof.
  induction a as [|y a IH]; simpl; intros H; [split; [exact H | intros x []]|].
  inversion H as [|? ? Hni Hnd]; subst. destruct (IH Hnd) as [Hb Hd]. split; [exact Hb|].
  intros x [<-|Hx] Hxb; [apply Hni; apply in_or_app; right; exact Hxb | exact (Hd x Hx Hxb)].
Qed.

Lemma unique_slot : forall (gs : list (list str)) i k g g' x,
  NoDup (concat gs) -> nth_error gs i = Some g -> nth_error gs k = Some g' -> In x g -> In x g' -> i = k.
Proof.
  induction gs as [|h gs IH]; intros [|i] [|k] g g' x Hnd Hi Hk Hx Hx'; simpl in *; try discriminate; try reflexivity.
  - inversion Hi; subst. exfalso. destruct (NoDup_app_inv _ _ Hnd) as [_ Hd]. apply (Hd x Hx).
    apply in_concat. exists g'. split; [eapply nth_error_In; exact Hk | exact Hx'].
  - inversion Hk; subst. exfalso. destruct (NoDup_app_inv _ _ Hnd) as [_ Hd]. apply (Hd x Hx').
    apply in_concat. exists g. split; [eapply nth_error_In; exact Hi | exact Hx].
  - f_equal. apply (IH i k g g' x); try assumption. destruct (NoDup_app_inv _ _ Hnd) as [Hb _]. exact Hb.
Qed.

(* ---------- the rescue pass ---------- *)
Section Rescue.
Variable l : pil.
Hypothesis l_keys : NoDup (map fst (pmap_of l)).
Let m := pmap_of l.
Let s1 := generate_protein_groups m.
Let ix := index s1.
Let adj := build_adj s1 m (unique_idxs s1 m).

(* two first-pass slots are directly linked when a protein of the one and a protein of the other are leaders of groups without a
   peptide of their own that share a (pseudo-)peptide node of the graph; linked = the equivalence generated by that *)
Definition slot_step (i j : nat) : Prop :=
  exists a b, lookup ix a = Some i /\ lookup ix b = Some j /\ share_node adj a b = true.
Definition slot_linked : nat -> nat -> Prop := clos_refl_sym_trans nat slot_step.

Lemma sl_refl i : slot_linked i i. Proof. apply rst_refl. Qed.
Lemma sl_sym i j : slot_linked i j -> slot_linked j i. Proof. apply rst_sym. Qed.
Lemma sl_trans i j k : slot_linked i j -> slot_linked j k -> slot_linked i k. Proof. apply rst_trans. Qed.

Lemma ix_is_built : ix = build_index (groups s1) 0 [].
Proof. reflexivity. Qed.

Lemma groups_s1_nodup : NoDup (concat (groups s1)).
Proof. exact (subset_concat_NoDup m l_keys). Qed.

Lemma slot_lookup i g x : nth_error (groups s1) i = Some g -> In x g -> lookup ix x = Some i.
Proof.
  intros Hn Hx. rewrite ix_is_built.
  destruct (lookup (build_index (groups s1) 0 []) x) as [k|] eqn:El.
  - apply lookup_build in El. destruct El as [[g' [_ [Hk Hx']]]|El]; [|discriminate].
    rewrite Nat.sub_0_r in Hk. f_equal. symmetry. exact (unique_slot _ _ _ _ _ _ groups_s1_nodup Hn Hk Hx Hx').
  - exfalso. revert El. apply lookup_build_some. right. exists g. split; [eapply nth_error_In; exact Hn | exact Hx].
Qed.

Lemma initial_slots_ok : slots_ok ix slot_linked (groups s1).
Proof. intros i g x Hn Hx. exists i. split; [eapply slot_lookup; eassumption | apply sl_refl]. Qed.

(* every graph node is the leading protein of a first-pass group, hence has a slot *)
Lemma node_has_slot n : In n (map fst adj) -> exists k, lookup ix n = Some k.
Proof.
  unfold adj, build_adj. rewrite in_map_iff. intros [[p ns] [Hp Hin]]. cbn [fst] in Hp. subst p.
  apply in_flat_map in Hin. destruct Hin as [[k g] [Hkg Hin]]. cbn [fst snd] in Hin.
  destruct (existsb _ _); [destruct Hin|]. destruct g as [|p0 g']; [destruct Hin|].
  destruct Hin as [Hin|[]]. inversion Hin; subst.
  assert (Hg : In (n :: g') (groups s1)).
  { clear -Hkg. revert Hkg. generalize 0. generalize (groups s1). induction l0 as [|h t IH]; intros i H; simpl in H; [destruct H|].
    destruct H as [H|H]; [inversion H; subst; left; reflexivity | right; eapply IH; exact H]. }
  apply In_nth_error in Hg. destruct Hg as [j Hj]. exists j. eapply slot_lookup; [exact Hj | left; reflexivity].
Qed.

Lemma initial_components_related c :
  In c (components (S (length (map fst adj))) adj (map fst adj) (map fst adj) []) -> related ix slot_linked (g_prots c).
Proof.
  intros Hc. apply components_shape in Hc; [|apply incl_refl]. destruct Hc as [u [Hu ->]].
  destruct (node_has_slot u Hu) as [iu Hiu].
  set (Q := fun x => exists j, lookup ix x = Some j /\ slot_linked iu j).
  assert (HQ : forall x, In x (closure (length (map fst adj)) (share_node adj) (map fst adj) [u]) -> Q x).
  { apply (closure_pred (share_node adj) Q (map fst adj)).
    - intros r n [j [Hj Hl]] HR Hn. destruct (node_has_slot n Hn) as [k Hk]. exists k. split; [exact Hk|].
      eapply sl_trans; [exact Hl|]. apply rst_step. exists r, n. auto.
    - intros r [<-|[]]. exists iu. split; [exact Hiu | apply sl_refl]. }
  intros a b Ha Hb. cbn [mk_graph g_prots] in Ha, Hb. unfold sort_strs in Ha, Hb. rewrite isort_In in Ha, Hb.
  destruct (HQ a Ha) as [ja [Hja Hla]]. destruct (HQ b Hb) as [jb [Hjb Hlb]].
  exists ja, jb. split; [exact Hja|]. split; [exact Hjb|]. eapply sl_trans; [apply sl_sym; exact Hla | exact Hlb].
Qed.

(* C04: after the rescue regrouping two proteins share a group only if their first-pass groups are the same or are linked by a
   chain of first-pass groups without own peptides whose leaders share peptides - for EVERY splitter oracle that returns sub-lists
   of the component it was given; never across unconnected groups *)
Theorem rescue_merges_only_connected split s' :
  split_ok split -> rescued_groups split l = Ok s' ->
  forall g x y, In g (groups s') -> In x g -> In y g ->
  exists i j, lookup ix x = Some i /\ lookup ix y = Some j /\ slot_linked i j.
Proof.
  intros Hsplit Hr. unfold rescued_groups in Hr. fold m in Hr. fold s1 in Hr. fold adj in Hr.
  eapply (decouple_slots ix slot_linked sl_sym sl_trans split Hsplit); [reflexivity | | exact initial_slots_ok | exact Hr].
  intros c Hc. apply initial_components_related. exact Hc.
Qed.
End Rescue.
