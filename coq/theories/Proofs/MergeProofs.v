From PGF Require Import Base.Prelude Base.PyStr Base.StableSort Model.ProteinGroups Model.Ingest Model.Merge
  Proofs.GroupingProofs.

(* ---- only the score and the PEP cell of a matched row change ---- *)
Lemma only_two_cells_change fmt d sc ec rc nc pc row row' :
  update_row fmt d (sc, ec, rc, nc, pc) row = Ok (Some row') ->
  length row' = length row /\ forall i, i <> sc -> i <> ec -> nth i row' [] = nth i row [].
Proof.
  unfold update_row.
  assert (Hcore : forall n, (if Nat.eqb (length d) 0 || Z.eqb n (-1) then Ok (Some row)
                             else match rd_get d (cell row rc) with
                                  | [] => Ok None
                                  | _ :: _ => match inner_get (rd_get d (cell row rc)) (n, drop_ends (cell row pc)) with
                                              | Some (s, e) => Ok (Some (set_nth_str (set_nth_str row sc (fmt s)) ec (fmt e)))
                                              | None => Ok None
                                              end
                                  end) = Ok (Some row') ->
            length row' = length row /\ forall i, i <> sc -> i <> ec -> nth i row' [] = nth i row []).
  { intros n. destruct (Nat.eqb (length d) 0 || Z.eqb n (-1)).
    - intros H. inversion H; subst. split; reflexivity.
    - destruct (rd_get d (cell row rc)) as [|x l]; [discriminate|].
      destruct (inner_get (x :: l) (n, drop_ends (cell row pc))) as [[s e]|]; [|discriminate].
      intros H. inversion H; subst. unfold set_nth_str. split.
      + rewrite !set_nth_length. reflexivity.
      + intros i Hs He. rewrite !nth_set_nth.
        destruct (Nat.eqb_spec i ec); [contradiction|]. destruct (Nat.eqb_spec i sc); [contradiction | reflexivity]. }
  destruct (cell row nc) as [|c0 r0].
  - intros H. apply (Hcore (-1)%Z). destruct (rd_get d (cell row rc)); exact H.
  - destruct (parse_nat_cell (c0 :: r0)) as [n|]; [|discriminate]. intros H. apply (Hcore n).
    destruct (rd_get d (cell row rc)); exact H.
Qed.

(* match-between-runs rows (no scan number) pass through unchanged *)
Lemma mbr_pass_through fmt d sc ec rc nc pc row :
  cell row nc = [] -> update_row fmt d (sc, ec, rc, nc, pc) row = Ok (Some row).
Proof. intros H. unfold update_row. rewrite H. rewrite orb_true_r. reflexivity. Qed.

(* an MS/MS row is dropped exactly when its raw file is absent from the results or it has no matching PSM *)
Lemma msms_row_outcome fmt d sc ec rc nc pc row n :
  cell row nc <> [] -> parse_nat_cell (cell row nc) = Some n -> n <> (-1)%Z -> d <> [] ->
  update_row fmt d (sc, ec, rc, nc, pc) row =
  match inner_get (rd_get d (cell row rc)) (n, drop_ends (cell row pc)) with
  | Some (s, e) => Ok (Some (set_nth_str (set_nth_str row sc (fmt s)) ec (fmt e)))
  | None => Ok None
  end.
Proof.
  intros Hne Hp Hn Hd. unfold update_row. destruct (cell row nc) as [|c0 r0] eqn:Ec; [congruence|].
  rewrite Hp. destruct d as [|x d']; [congruence|]. simpl length. simpl Nat.eqb.
  destruct (Z.eqb_spec n (-1)); [contradiction|]. simpl orb.
  destruct (rd_get (x :: d') (cell row rc)) as [|y l] eqn:Er; [reflexivity|].
  destruct (inner_get (y :: l) (n, drop_ends (cell row pc))) as [[s e]|]; reflexivity.
Qed.

(* without rescoring results the evidence rows are simply concatenated *)
Lemma no_results_rows fmt c : forall rows,
  (forall r, In r rows -> let '(_, _, _, nc, _) := c in cell r nc = [] \/ parse_nat_cell (cell r nc) <> None) ->
  update_rows fmt [] c rows = Ok rows.
Proof.
  destruct c as [[[[sc ec] rc] nc] pc]. induction rows as [|r rows IH]; intros H; [reflexivity|].
  assert (Hr : update_row fmt [] (sc, ec, rc, nc, pc) r = Ok (Some r)).
  { unfold update_row. destruct (H r (or_introl eq_refl)) as [E|E].
    - rewrite E. reflexivity.
    - destruct (cell r nc) as [|c0 r0]; [reflexivity|]. destruct (parse_nat_cell (c0 :: r0)); [reflexivity | congruence]. }
  cbn [update_rows]. rewrite Hr. rewrite IH by (intros r' Hr'; apply H; right; exact Hr'). reflexivity.
Qed.

Lemma no_results_is_concatenation fmt h files :
  (forall c rows r, In (c, rows) files -> In r rows -> let '(_, _, _, nc, _) := c in cell r nc = [] \/ parse_nat_cell (cell r nc) <> None) ->
  merge_evidence fmt [] h files = Ok (h :: concat (map snd files)).
Proof.
  intros H. unfold merge_evidence. simpl.
  assert (Hf : update_files fmt [] files = Ok (concat (map snd files))).
  { induction files as [|[c rows] files IH]; [reflexivity|]. simpl.
    rewrite (no_results_rows fmt c rows) by (intros r Hr; apply (H c rows r); [left; reflexivity | exact Hr]).
    rewrite IH by (intros c' rows' r' Hin Hr'; apply (H c' rows' r'); [right; exact Hin | exact Hr']). reflexivity. }
  rewrite Hf. reflexivity.
Qed.

(* the header is the first evidence file's header *)
Lemma header_is_first fmt pouts h files out : merge_evidence fmt pouts h files = Ok out -> hd [] out = h.
Proof.
  unfold merge_evidence. destruct (add_pouts pouts []) as [d|]; [|discriminate]. destruct (update_files fmt d files); [|discriminate].
  intros H. inversion H. reflexivity.
Qed.

(* ---- PSM identifiers: raw-file names may themselves contain underscores ---- *)
Lemma split_chr_nonempty c s : split_chr c s <> [].
Proof. induction s as [|x s IH]; simpl; [discriminate|]. destruct (N.eqb x c); [discriminate|]. destruct (split_chr c s); [congruence | discriminate]. Qed.

Lemma split_chr_app c a b : split_chr c (a ++ c :: b) = split_chr c a ++ split_chr c b.
Proof.
  induction a as [|x a IH]; simpl.
  - rewrite N.eqb_refl. reflexivity.
  - destruct (N.eqb x c); [rewrite IH; reflexivity|]. rewrite IH.
    destruct (split_chr c a) as [|w ws] eqn:E; [exfalso; eapply split_chr_nonempty; exact E | reflexivity].
Qed.

Lemma split_chr_none c s : ~ In c s -> split_chr c s = [s].
Proof.
  induction s as [|x s IH]; intros H; simpl; [reflexivity|].
  destruct (N.eqb x c) eqn:E; [apply N.eqb_eq in E; subst; exfalso; apply H; left; reflexivity|].
  rewrite IH by (intros Hi; apply H; right; exact Hi). reflexivity.
Qed.

Lemma join_split_chr c s : join [c] (split_chr c s) = s.
Proof.
  induction s as [|x s IH]; simpl; [reflexivity|].
  destruct (N.eqb x c) eqn:E.
  - apply N.eqb_eq in E. subst x. destruct (split_chr c s) as [|w ws] eqn:Es; [exfalso; eapply split_chr_nonempty; exact Es|].
    change (join [c] ([] :: w :: ws)) with ([] ++ [c] ++ join [c] (w :: ws)). rewrite IH. reflexivity.
  - destruct (split_chr c s) as [|w ws] eqn:Es; [exfalso; eapply split_chr_nonempty; exact Es|].
    destruct ws as [|w2 ws]; simpl in *; rewrite <- IH; reflexivity.
Qed.

Lemma psmid_roundtrip file scan charge rank n :
  ~ In us scan -> ~ In us charge -> ~ In us rank -> parse_nat_cell scan = Some n ->
  parse_psmid (file ++ us :: scan ++ us :: charge ++ us :: rank) = Ok (file, n).
Proof.
  intros Hs Hc Hr Hn. unfold parse_psmid. cbv zeta.
  rewrite split_chr_app, split_chr_app, split_chr_app.
  rewrite (split_chr_none us scan Hs), (split_chr_none us charge Hc), (split_chr_none us rank Hr).
  set (fp := split_chr us file).
  match goal with |- context [Nat.ltb (length ?l) 3] => set (parts := l) end.
  assert (Hparts : parts = fp ++ [scan; charge; rank]) by reflexivity.
  assert (Hlen : length parts = length fp + 3) by (rewrite Hparts, app_length; simpl; lia).
  destruct (Nat.ltb_spec (length parts) 3) as [Hlt|_]; [lia|].
  unfold third_last, drop_last3. rewrite Hlen. replace (length fp + 3 - 3) with (length fp) by lia.
  rewrite Hparts. rewrite app_nth2 by lia. rewrite Nat.sub_diag. cbn [nth]. rewrite Hn.
  rewrite firstn_app, firstn_all, Nat.sub_diag. cbn [firstn]. rewrite app_nil_r.
  unfold fp. rewrite join_split_chr. reflexivity.
Qed.
