(* C09: merging the peptide-to-protein maps of several parameter sets, and the map file round trip. *)
From PGF Require Import Base.Prelude Base.PyStr Base.StableSort Model.Digest Model.Grouping Model.Annotation Model.Fasta
  Proofs.GroupingProofs Proofs.FastaProofs Proofs.AnnotationProofs.
From Coq Require Import Lia.

Definition once_into (cur ps : list str) : list str := fold_left (fun a x => add_once x a) ps cur.

Lemma inner_merge_get k : forall ps m k',
  map_get (fold_left (fun m'' p => if mem_str p (map_get m'' k) then m'' else map_append m'' k p) ps m) k' =
  if str_eqb k k' then once_into (map_get m k') ps else map_get m k'.
Proof.
  induction ps as [|p ps IH]; intros m k'; simpl.
  - destruct (str_eqb k k'); reflexivity.
  - rewrite IH. destruct (mem_str p (map_get m k)) eqn:Em.
    + destruct (str_eqb k k') eqn:E; [|reflexivity]. apply str_eqb_eq in E. subst k'.
      assert (Ea : add_once p (map_get m k) = map_get m k) by (unfold add_once; rewrite Em; reflexivity).
      unfold once_into. cbn [fold_left]. rewrite Ea. reflexivity.
    + rewrite map_get_append. destruct (str_eqb k k') eqn:E; [|reflexivity]. apply str_eqb_eq in E. subst k'.
      assert (Ea : add_once p (map_get m k) = map_get m k ++ [p]) by (unfold add_once; rewrite Em; reflexivity).
      unfold once_into. cbn [fold_left]. rewrite Ea. reflexivity.
Qed.

Lemma once_into_nil cur : once_into cur [] = cur.
Proof. reflexivity. Qed.

Lemma outer_merge_get : forall tmp m k', NoDup (keys tmp) ->
  map_get (fold_left (fun m' kv => fold_left (fun m'' p => if mem_str p (map_get m'' (fst kv)) then m'' else map_append m'' (fst kv) p) (snd kv) m') tmp m) k' =
  once_into (map_get m k') (map_get tmp k').
Proof.
  induction tmp as [|[k ps] tmp IH]; intros m k' Hnd; [reflexivity|].
  simpl in Hnd. inversion Hnd as [|? ? Hni Hnd']; subst. cbn [fold_left fst snd]. rewrite IH by exact Hnd'.
  rewrite inner_merge_get. cbn [map_get]. destruct (str_eqb k k') eqn:E; [|reflexivity].
  apply str_eqb_eq in E. subst k'.
  assert (Hg : map_get tmp k = []).
  { clear -Hni. induction tmp as [|[k0 v0] tmp IHt]; [reflexivity|]. simpl. destruct (str_eqb k0 k) eqn:E0.
    - apply str_eqb_eq in E0. subst. exfalso. apply Hni. left. reflexivity.
    - apply IHt. intros H. apply Hni. right. exact H. }
  rewrite Hg. reflexivity.
Qed.

(* a well-formed map: distinct keys, no protein twice under one key *)
Definition map_wf (m : pp_map) : Prop := NoDup (keys m) /\ forall k, NoDup (map_get m k).

Lemma dedup_nodup_id : forall l seen, NoDup l -> (forall x, In x l -> ~ In x seen) -> dedup seen l = l.
Proof.
  induction l as [|x l IH]; intros seen Hnd Hs; [reflexivity|]. simpl. inversion Hnd as [|? ? Hni Hnd']; subst.
  destruct (mem_str x seen) eqn:E; [apply mem_str_In in E; exfalso; apply (Hs x); [left; reflexivity | exact E]|].
  f_equal. apply IH; [exact Hnd'|]. intros y Hy [<-|Hin]; [contradiction | apply (Hs y); [right; exact Hy | exact Hin]].
Qed.

Lemma merge_into_get m tmp k : map_wf tmp ->
  map_get (merge_into m tmp) k = once_into (map_get m k) (map_get tmp k).
Proof.
  intros [Hk Hv]. unfold merge_into. destruct m as [|e m'].
  - cbn [map_get]. unfold once_into. rewrite once_fold_gen. cbn [app]. symmetry. apply dedup_nodup_id; [apply Hv | intros x _ []].
  - apply outer_merge_get. exact Hk.
Qed.

Lemma once_into_app cur a b : once_into (once_into cur a) b = once_into cur (a ++ b).
Proof. unfold once_into. rewrite fold_left_app. reflexivity. Qed.

(* the merged map lists, per peptide, every protein of any of the maps exactly once, in first-seen order *)
Theorem merge_maps_get ms k : Forall map_wf ms ->
  map_get (merge_maps ms) k = dedup [] (concat (map (fun m => map_get m k) ms)).
Proof.
  intros Hwf. unfold merge_maps.
  assert (G : forall ms acc, Forall map_wf ms ->
            map_get (fold_left merge_into ms acc) k = once_into (map_get acc k) (concat (map (fun m => map_get m k) ms))).
  { clear. induction ms as [|m ms IH]; intros acc Hwf; [reflexivity|]. inversion Hwf as [|? ? Hm Hms]; subst.
    cbn [fold_left map concat]. rewrite IH by exact Hms. rewrite merge_into_get by exact Hm. apply once_into_app. }
  rewrite G by exact Hwf. cbn [map_get]. unfold once_into. rewrite once_fold_gen. reflexivity.
Qed.

Corollary merge_maps_each_once ms k : Forall map_wf ms -> NoDup (map_get (merge_maps ms) k).
Proof. intros H. rewrite merge_maps_get by exact H. apply dedup_NoDup. Qed.

Corollary merge_maps_membership ms k p : Forall map_wf ms ->
  (In p (map_get (merge_maps ms) k) <-> exists m, In m ms /\ In p (map_get m k)).
Proof.
  intros H. rewrite merge_maps_get by exact H. rewrite dedup_In, in_concat. split.
  - intros [[l [Hl Hp]] _]. apply in_map_iff in Hl. destruct Hl as [m [<- Hm]]. exists m. auto.
  - intros [m [Hm Hp]]. split; [|intros []]. exists (map_get m k). split; [apply in_map_iff; exists m; auto | exact Hp].
Qed.

(* ---------- the map file ---------- *)
Lemma split_chr_none c : forall a, ~ In c a -> split_chr c a = [a].
Proof.
  induction a as [|x a IH]; intros H; simpl; [reflexivity|].
  destruct (N.eqb_spec x c) as [->|Hne]; [exfalso; apply H; left; reflexivity|].
  rewrite IH by (intros Hin; apply H; right; exact Hin). reflexivity.
Qed.

Lemma split_join_ids : forall ps, ps <> [] -> (forall p, In p ps -> ~ In semicolon_chr p) ->
  split_chr semicolon_chr (join [semicolon_chr] ps) = ps.
Proof.
  induction ps as [|p ps IH]; intros Hne Hc; [congruence|]. destruct ps as [|q ps].
  - simpl. apply split_chr_none. apply Hc. left. reflexivity.
  - rewrite join_cons_nonempty by discriminate. cbn [app]. rewrite split_chr_first by (apply Hc; left; reflexivity).
    f_equal. apply IH; [discriminate|]. intros x Hx. apply Hc. right. exact Hx.
Qed.

Lemma append_fresh_key k : forall ps acc p0, ~ In k (keys acc) ->
  fold_left (fun m' p => map_append m' k p) ps (acc ++ [(k, p0)]) = acc ++ [(k, p0 ++ ps)].
Proof.
  induction ps as [|p ps IH]; intros acc p0 Hk; simpl; [rewrite app_nil_r; reflexivity|].
  assert (E : map_append (acc ++ [(k, p0)]) k p = acc ++ [(k, p0 ++ [p])]).
  { clear IH. induction acc as [|[k0 v0] acc IHa]; simpl; [rewrite str_eqb_refl; reflexivity|].
    destruct (str_eqb k0 k) eqn:E0; [apply str_eqb_eq in E0; subst; exfalso; apply Hk; left; reflexivity|].
    f_equal. apply IHa. intros H. apply Hk. right. exact H. }
  rewrite E, IH by exact Hk. rewrite <- app_assoc. reflexivity.
Qed.

Lemma append_new_key k p : forall acc, ~ In k (keys acc) -> map_append acc k p = acc ++ [(k, [p])].
Proof.
  induction acc as [|[k0 v0] acc IH]; intros Hk; simpl; [reflexivity|].
  destruct (str_eqb k0 k) eqn:E0; [apply str_eqb_eq in E0; subst; exfalso; apply Hk; left; reflexivity|].
  f_equal. apply IH. intros H. apply Hk. right. exact H.
Qed.

(* reading the written map file gives the map back: distinct peptides, non-empty protein lists, no ';' inside an identifier *)
Theorem map_file_roundtrip m :
  NoDup (keys m) -> (forall k v, In (k, v) m -> v <> [] /\ forall p, In p v -> ~ In semicolon_chr p) ->
  read_rows (write_rows m) = m.
Proof.
  intros Hnd Hv. unfold read_rows, write_rows.
  assert (G : forall rest acc, NoDup (keys (acc ++ rest)) -> (forall k v, In (k, v) rest -> v <> [] /\ forall p, In p v -> ~ In semicolon_chr p) ->
            fold_left (fun m0 r => fold_left (fun m' p => map_append m' (fst r) p) (split_chr semicolon_chr (snd r)) m0)
                      (map (fun kv => (fst kv, join [semicolon_chr] (snd kv))) rest) acc = acc ++ rest).
  { induction rest as [|[k v] rest IH]; intros acc Hn Hw; [rewrite app_nil_r; reflexivity|].
    cbn [map fold_left fst snd]. destruct (Hw k v (or_introl eq_refl)) as [Hne Hc].
    rewrite split_join_ids by assumption.
    assert (Hk : ~ In k (keys acc)).
    { unfold keys in Hn. rewrite map_app in Hn. apply NoDup_remove_2 in Hn. intros H. apply Hn. apply in_or_app. left. exact H. }
    destruct v as [|p v]; [congruence|]. cbn [fold_left]. rewrite append_new_key by exact Hk.
    rewrite (append_fresh_key k v acc [p] Hk). cbn [app].
    rewrite IH.
    - rewrite <- app_assoc. reflexivity.
    - rewrite <- app_assoc. exact Hn.
    - intros k' v' H'. apply (Hw k' v'). right. exact H'. }
  apply (G m []); assumption.
Qed.
