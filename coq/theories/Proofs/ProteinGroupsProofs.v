From PGF Require Import Base.Prelude Base.PyStr Base.StableSort Model.ProteinGroups.

(* The index invariant: when the index is marked valid, every entry points at a group that
   currently contains the protein, and every protein of every group has an entry. *)
Definition index_sound (gs : list (list str)) (ix : list (str * nat)) : Prop :=
  forall p i, lookup ix p = Some i -> exists g, nth_error gs i = Some g /\ In p g.
Definition index_complete (gs : list (list str)) (ix : list (str * nat)) : Prop :=
  forall p g, In g gs -> In p g -> lookup ix p <> None.
Definition Inv (s : pgs) : Prop :=
  valid s = true -> index_sound (groups s) (index s) /\ index_complete (groups s) (index s).

Lemma lookup_fold_cons g i : forall acc p,
  lookup (fold_left (fun a q => (q, i) :: a) g acc) p =
  if mem_str p g then Some i else lookup acc p.
Proof.
  induction g as [|x g IH]; intros acc p; [reflexivity|].
  cbn [fold_left]. rewrite IH.
  change (mem_str p (x :: g)) with (str_eqb p x || mem_str p g).
  cbn [lookup].
  assert (Hsym : str_eqb x p = str_eqb p x).
  { destruct (str_eqb x p) eqn:E1; destruct (str_eqb p x) eqn:E2; try reflexivity.
    - apply str_eqb_eq in E1. subst. rewrite str_eqb_refl in E2. discriminate.
    - apply str_eqb_eq in E2. subst. rewrite str_eqb_refl in E1. discriminate. }
  rewrite Hsym. destruct (mem_str p g); [rewrite orb_true_r; reflexivity|].
  rewrite orb_false_r. reflexivity.
Qed.

Lemma lookup_build : forall gs i acc p k,
  lookup (build_index gs i acc) p = Some k ->
  (exists g, i <= k /\ nth_error gs (k - i) = Some g /\ In p g) \/ lookup acc p = Some k.
Proof.
  induction gs as [|g gs IH]; intros i acc p k H; simpl in H; [right; exact H|].
  apply IH in H. destruct H as [[g' [Hik [Hn Hin]]]|H].
  - left. exists g'. split; [lia|]. split; [|exact Hin].
    replace (k - i) with (S (k - S i)) by lia. exact Hn.
  - rewrite lookup_fold_cons in H. destruct (mem_str p g) eqn:Em.
    + inversion H; subst. left. exists g. split; [lia|]. rewrite Nat.sub_diag. split; [reflexivity|].
      apply mem_str_In. exact Em.
    + right. exact H.
Qed.

Lemma lookup_build_some : forall gs i acc p,
  (lookup acc p <> None \/ exists g, In g gs /\ In p g) -> lookup (build_index gs i acc) p <> None.
Proof.
  induction gs as [|g gs IH]; intros i acc p H; simpl.
  - destruct H as [H|[g [[] _]]]. exact H.
  - apply IH. rewrite lookup_fold_cons. destruct (mem_str p g) eqn:Em.
    + left. discriminate.
    + destruct H as [H|[g' [[->|Hg] Hp]]].
      * left. exact H.
      * apply mem_str_In in Hp. congruence.
      * right. exists g'. split; assumption.
Qed.

Lemma create_index_inv s : Inv (create_index s).
Proof.
  intros _. simpl. split.
  - intros p i H. apply lookup_build in H. destruct H as [[g [_ [Hn Hin]]]|H]; [|discriminate].
    rewrite Nat.sub_0_r in Hn. exists g. split; assumption.
  - intros p g Hg Hp. apply lookup_build_some. right. exists g. split; assumption.
Qed.

Lemma inv_init gs : Inv (create_index (of_list gs)).
Proof. apply create_index_inv. Qed.

(* every operation preserves the invariant (mutators simply mark the index stale) *)
Lemma inv_step s o : Inv s -> Inv (step s o).
Proof.
  intros HI. destruct o as [g|gs|a b| | |other|gs]; simpl.
  - intros H. discriminate.
  - intros H. discriminate.
  - unfold merge_groups. destruct (lookup (index s) a); [|exact HI].
    destruct (lookup (index s) b); [|exact HI].
    destruct (nth_error (groups s) n); [|exact HI].
    destruct (nth_error (groups s) n0); [|exact HI].
    intros H. discriminate.
  - apply create_index_inv.
  - apply create_index_inv.
  - unfold add_unseen. destruct (add_unseen_loop _ _ _ _ _ _) as [[gs obs] oi]. simpl.
    apply create_index_inv.
  - apply create_index_inv.
Qed.

Lemma inv_reachable init ops : Inv (run_ops init ops).
Proof.
  unfold run_ops. generalize (inv_init init). generalize (create_index (of_list init)).
  induction ops as [|o ops IH]; intros s HI; simpl; [exact HI|].
  apply IH. apply inv_step. exact HI.
Qed.

(* ---- lookups in a state satisfying the invariant ---- *)
Lemma get_protein_group_sound s p g :
  Inv s -> get_protein_group s p = Ok g -> In g (groups s) /\ In p g.
Proof.
  intros HI. unfold get_protein_group. destruct (valid s) eqn:Ev; simpl; [|discriminate].
  destruct (lookup (index s) p) as [i|] eqn:El; [|discriminate].
  destruct (HI Ev) as [Hs _]. destruct (Hs p i El) as [g' [Hn Hin]].
  rewrite Hn. intros H. inversion H; subst. split; [eapply nth_error_In; exact Hn | exact Hin].
Qed.

Lemma get_protein_group_stale s p : valid s = false -> get_protein_group s p = Raise StaleIndex.
Proof. intros H. unfold get_protein_group. rewrite H. reflexivity. Qed.

Definition in_no_group (s : pgs) (p : str) : Prop := forall g, In g (groups s) -> ~ In p g.

Lemma unknown_lookup_none s p : Inv s -> valid s = true -> in_no_group s p -> lookup (index s) p = None.
Proof.
  intros HI Hv Hno. destruct (lookup (index s) p) as [i|] eqn:El; [|reflexivity].
  destruct (HI Hv) as [Hs _]. destruct (Hs p i El) as [g [Hn Hin]].
  exfalso. apply (Hno g); [eapply nth_error_In; exact Hn | exact Hin].
Qed.

Lemma get_protein_group_unknown s p :
  Inv s -> in_no_group s p ->
  get_protein_group s p = Raise StaleIndex \/ get_protein_group s p = Raise KeyError.
Proof.
  intros HI Hno. unfold get_protein_group. destruct (valid s) eqn:Ev; simpl; [|left; reflexivity].
  rewrite (unknown_lookup_none s p HI Ev Hno). right. reflexivity.
Qed.

(* group positions *)
Lemma zinsert_In x y l : In y (zinsert x l) <-> y = x \/ In y l.
Proof.
  induction l as [|z l IH]; simpl; [intuition|].
  destruct (x <? z)%Z; simpl; [intuition|].
  destruct (x =? z)%Z eqn:E; simpl.
  - apply Z.eqb_eq in E. subst. intuition.
  - rewrite IH. intuition.
Qed.

Lemma idxs_fold_In s : forall ps acc y,
  In y (fold_left (fun a p => zinsert (idx_of s p) a) ps acc) <->
  In y acc \/ exists p, In p ps /\ y = idx_of s p.
Proof.
  induction ps as [|p ps IH]; intros acc y; simpl.
  - split; [auto | intros [H|[p [[] _]]]; exact H].
  - rewrite IH, zinsert_In. split.
    + intros [[->|H]|[q [Hq ->]]]; [right; exists p; auto | auto | right; exists q; auto].
    + intros [H|[q [[->|Hq] ->]]]; [left; right; exact H | left; left; reflexivity | right; exists q; auto].
Qed.

Lemma get_protein_group_idxs_sound s ps idxs i :
  Inv s -> get_protein_group_idxs s ps = Ok idxs -> In i idxs ->
  (i = (-1)%Z /\ exists p, In p ps /\ lookup (index s) p = None) \/
  (exists p g, In p ps /\ (0 <= i)%Z /\ nth_error (groups s) (Z.to_nat i) = Some g /\ In p g).
Proof.
  intros HI. unfold get_protein_group_idxs. destruct (valid s) eqn:Ev; simpl; [|discriminate].
  intros H Hi. inversion H; subst; clear H.
  apply idxs_fold_In in Hi. destruct Hi as [[]|[p [Hp ->]]].
  unfold idx_of. destruct (lookup (index s) p) as [k|] eqn:El.
  - right. destruct (HI Ev) as [Hs _]. destruct (Hs p k El) as [g [Hn Hin]].
    exists p, g. rewrite Nat2Z.id. repeat split; try assumption. lia.
  - left. split; [reflexivity|]. exists p. split; assumption.
Qed.

Lemma get_protein_group_idxs_unknown s p :
  Inv s -> valid s = true -> in_no_group s p -> get_protein_group_idxs s [p] = Ok [(-1)%Z].
Proof.
  intros HI Hv Hno. unfold get_protein_group_idxs. rewrite Hv. simpl.
  unfold idx_of. rewrite (unknown_lookup_none s p HI Hv Hno). reflexivity.
Qed.

(* get_protein_groups: only groups that contain one of the queried proteins, never a foreign one *)
Lemma groups_at_In gs : forall idxs l g,
  groups_at gs idxs = Ok l -> In g l -> exists i, In i idxs /\ (0 <= i)%Z /\ nth_error gs (Z.to_nat i) = Some g.
Proof.
  induction idxs as [|i r IH]; intros l g H Hg; simpl in H.
  - inversion H; subst. destruct Hg.
  - destruct (i <? 0)%Z eqn:Ei.
    + destruct (IH _ _ H Hg) as [j [Hj Hx]]. exists j. split; [right; exact Hj | exact Hx].
    + destruct (nth_error gs (Z.to_nat i)) as [gi|] eqn:En; [|discriminate].
      destruct (groups_at gs r) as [l'|] eqn:Er; [|discriminate].
      inversion H; subst. destruct Hg as [<-|Hg].
      * exists i. split; [left; reflexivity|]. split; [apply Z.ltb_ge in Ei; exact Ei | exact En].
      * destruct (IH _ _ eq_refl Hg) as [j [Hj Hx]]. exists j. split; [right; exact Hj | exact Hx].
Qed.

Lemma get_protein_groups_sound s ps l g :
  Inv s -> get_protein_groups s ps = Ok l -> In g l ->
  In g (groups s) /\ exists p, In p ps /\ In p g.
Proof.
  intros HI. unfold get_protein_groups.
  destruct (get_protein_group_idxs s ps) as [idxs|] eqn:Ei; [|discriminate].
  intros H Hg. destruct (groups_at_In _ _ _ _ H Hg) as [i [Hi [Hpos Hn]]].
  split; [eapply nth_error_In; exact Hn|].
  destruct (get_protein_group_idxs_sound s ps idxs i HI Ei Hi) as [[-> _]|[p [g' [Hp [_ [Hn' Hin]]]]]]; [lia|].
  rewrite Hn in Hn'. inversion Hn'; subst. exists p. split; assumption.
Qed.

Lemma get_protein_groups_unknown s p :
  Inv s -> valid s = true -> in_no_group s p -> get_protein_groups s [p] = Ok [].
Proof.
  intros HI Hv Hno. unfold get_protein_groups.
  rewrite (get_protein_group_idxs_unknown s p HI Hv Hno). reflexivity.
Qed.

(* get_leading_proteins *)
Lemma sinsert_In x y l : In y (sinsert x l) -> y = x \/ In y l.
Proof.
  induction l as [|z l IH]; simpl; [intuition|].
  destruct (str_compare x z) eqn:E; simpl; intuition.
Qed.

Lemma leading_loop_sound s : Inv s -> forall ps acc l x,
  leading_loop s ps acc = Ok l -> In x l ->
  In x acc \/ exists p g, In p ps /\ In g (groups s) /\ In p g /\ hd_error g = Some x.
Proof.
  intros HI. induction ps as [|p ps IH]; intros acc l x H Hx; simpl in H.
  - inversion H; subst. left. exact Hx.
  - destruct (get_protein_group s p) as [[|y g]|] eqn:Eg; try discriminate.
    destruct (IH _ _ _ H Hx) as [Ha|[q [g' [Hq Hr]]]].
    + apply sinsert_In in Ha. destruct Ha as [->|Ha]; [|left; exact Ha].
      right. destruct (get_protein_group_sound s p _ HI Eg) as [Hg Hp].
      exists p, (y :: g). repeat split; auto. left. reflexivity.
    + right. exists q, g'. split; [right; exact Hq | exact Hr].
Qed.

Lemma get_leading_proteins_sound s ps l x :
  Inv s -> get_leading_proteins s ps = Ok l -> In x l ->
  exists p g, In p ps /\ In g (groups s) /\ In p g /\ hd_error g = Some x.
Proof.
  intros HI H Hx. destruct (leading_loop_sound s HI ps [] l x H Hx) as [[]|Hr]. exact Hr.
Qed.

(* a re-index after an outside edit of the group list forgets every protein that left the collection *)
Lemma reindex_forgets_departed s gs p :
  (forall g, In g gs -> ~ In p g) ->
  get_protein_group_idxs (step s (OReplace gs)) [p] = Ok [(-1)%Z] /\
  get_protein_groups (step s (OReplace gs)) [p] = Ok [].
Proof.
  intros H. split; [apply get_protein_group_idxs_unknown | apply get_protein_groups_unknown];
    try apply inv_init; try reflexivity; exact H.
Qed.

