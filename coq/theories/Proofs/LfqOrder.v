(* C11: "the result does not depend on precursor order".
   The exact layer of MaxLFQ (peptide-by-sample matrix, total, median ratios, stabilised log expressions) is the same for every
   permutation of the precursor list, PROVIDED the sort key (peptide, charge, experiment, fraction, -intensity, PEP) separates the
   precursors that are used: no two distinct used precursors compare equal both ways, and the comparison is transitive on them
   (it always is when every used precursor carries a PEP, or none does: NaN compares "not less" both ways, as in Python).
   Without that proviso the claim is false of the model AND of the code: of two rows that tie on the whole key the first one
   in file order is the one whose SILAC channels are taken (witness below). *)
From PGF Require Import Base.Prelude Base.PyStr Base.StableSort Model.Fdr Model.Grouping Model.Quant Model.Lfq Proofs.GroupingProofs.
From Coq Require Import Lia Permutation Sorted.

Local Open Scope Q_scope.

(* ---------- a sort by a comparison that is a linear order ON THE ELEMENTS PRESENT is canonical ---------- *)
Section SortOn.
Context {A : Type}.
Variable leb : A -> A -> bool.
Variable P : A -> Prop.
Hypothesis total : forall x y, leb x y = true \/ leb y x = true.
Hypothesis trans : forall x y z, P x -> P y -> P z -> leb x y = true -> leb y z = true -> leb x z = true.
Hypothesis antisym : forall x y, P x -> P y -> leb x y = true -> leb y x = true -> x = y.

Lemma insert_sorted_on x l : P x -> Forall P l -> StronglySorted (le leb) l -> StronglySorted (le leb) (insert leb x l).
Proof.
  intros Px. induction l as [|y r IH]; simpl; intros HP Hs.
  - constructor; [constructor | constructor].
  - inversion Hs as [|? ? Hr Hall]; subst. inversion HP as [|? ? Py HPr]; subst. destruct (leb x y) eqn:E.
    + constructor; [exact Hs|]. constructor; [exact E|].
      rewrite Forall_forall in *. intros a Ha. apply (trans x y a); [exact Px | exact Py | apply HPr; exact Ha | exact E | apply Hall; exact Ha].
    + constructor; [apply IH; assumption|].
      assert (Hyx : leb y x = true) by (destruct (total x y); congruence).
      eapply Permutation_Forall; [apply Permutation_sym, insert_perm|].
      constructor; [exact Hyx | exact Hall].
Qed.

Lemma isort_sorted_on l : Forall P l -> StronglySorted (le leb) (isort leb l).
Proof.
  induction l as [|x r IH]; simpl; intros HP; [constructor|]. inversion HP; subst.
  apply insert_sorted_on; [assumption | | apply IH; assumption].
  eapply Permutation_Forall; [apply Permutation_sym, isort_perm | assumption].
Qed.

Lemma sorted_perm_eq : forall l1 l2, Forall P l1 -> StronglySorted (le leb) l1 -> StronglySorted (le leb) l2 ->
  Permutation l1 l2 -> l1 = l2.
Proof.
  induction l1 as [|x r IH]; intros l2 HP H1 H2 Hp.
  - apply Permutation_nil in Hp. subst. reflexivity.
  - destruct l2 as [|y r2]; [apply Permutation_sym, Permutation_nil in Hp; discriminate|].
    assert (HP2 : Forall P (y :: r2)) by (eapply Permutation_Forall; eassumption).
    inversion HP as [|? ? Px HPr]; subst. inversion HP2 as [|? ? Py HPr2]; subst.
    inversion H1 as [|? ? Hs1 Ha1]; subst. inversion H2 as [|? ? Hs2 Ha2]; subst.
    assert (Exy : x = y).
    { assert (Hx : In x (y :: r2)) by (eapply Permutation_in; [exact Hp | left; reflexivity]).
      assert (Hy : In y (x :: r)) by (eapply Permutation_in; [apply Permutation_sym; exact Hp | left; reflexivity]).
      destruct Hx as [Hx|Hx]; [symmetry; exact Hx|]. destruct Hy as [Hy|Hy]; [exact Hy|].
      rewrite Forall_forall in Ha1, Ha2. apply antisym; auto; [apply Ha1 | apply Ha2]; assumption. }
    subst y. f_equal. apply IH; try assumption. eapply Permutation_cons_inv. exact Hp.
Qed.

Lemma isort_perm_eq l l' : Forall P l -> Permutation l l' -> isort leb l = isort leb l'.
Proof.
  intros HP Hp. assert (HP' : Forall P l') by (eapply Permutation_Forall; eassumption).
  apply sorted_perm_eq.
  - eapply Permutation_Forall; [apply Permutation_sym, isort_perm | exact HP].
  - apply isort_sorted_on; exact HP.
  - apply isort_sorted_on; exact HP'.
  - eapply perm_trans; [apply isort_perm|]. eapply perm_trans; [exact Hp | apply Permutation_sym, isort_perm].
Qed.
End SortOn.

Lemma filter_perm {A} (f : A -> bool) l l' : Permutation l l' -> Permutation (filter f l) (filter f l').
Proof.
  induction 1 as [|x l l' _ IH|x y l|l l' l'' _ IH1 _ IH2]; simpl.
  - constructor.
  - destruct (f x); [apply perm_skip|]; exact IH.
  - destruct (f x), (f y); try apply Permutation_refl. apply perm_swap.
  - eapply perm_trans; eassumption.
Qed.

(* ---------- the key is total ---------- *)
Lemma key_leb_total a b : key_leb a b = true \/ key_leb b a = true.
Proof.
  unfold key_leb.
  rewrite (str_compare_antisym (l_peptide a) (l_peptide b)).
  destruct (str_compare (l_peptide a) (l_peptide b)); cbn [CompOpp]; auto.
  rewrite (Z.compare_antisym (l_charge a) (l_charge b)).
  destruct (Z.compare (l_charge a) (l_charge b)); cbn [CompOpp]; auto.
  rewrite (str_compare_antisym (l_expname a) (l_expname b)).
  destruct (str_compare (l_expname a) (l_expname b)); cbn [CompOpp]; auto.
  rewrite (str_compare_antisym (l_fraction a) (l_fraction b)).
  destruct (str_compare (l_fraction a) (l_fraction b)); cbn [CompOpp]; auto.
  rewrite <- (Qcompare_antisym (the_intensity b) (the_intensity a)).
  destruct (Qcompare (the_intensity b) (the_intensity a)); cbn [CompOpp]; auto.
  destruct (l_pep a) as [x|], (l_pep b) as [y|]; auto.
  destruct (Qle_bool x y) eqn:E; [left; reflexivity | right].
  apply Qle_bool_iff. destruct (Qlt_le_dec y x) as [H|H]; [apply Qlt_le_weak; exact H|].
  apply Qle_bool_iff in H. congruence.
Qed.

(* the proviso: on the precursors that are used the key is a linear order *)
Definition key_separates (U : list lprec) : Prop :=
  (forall x y z, In x U -> In y U -> In z U -> key_leb x y = true -> key_leb y z = true -> key_leb x z = true) /\
  (forall x y, In x U -> In y U -> key_leb x y = true -> key_leb y x = true -> x = y).

Lemma used_sorted_perm cut l l' :
  Permutation l l' -> key_separates (filter (l_used cut) l) ->
  isort key_leb (filter (l_used cut) l) = isort key_leb (filter (l_used cut) l').
Proof.
  intros Hp [Ht Ha].
  apply (isort_perm_eq key_leb (fun x => In x (filter (l_used cut) l))).
  - exact key_leb_total.
  - exact Ht.
  - exact Ha.
  - apply Forall_forall. auto.
  - apply filter_perm. exact Hp.
Qed.

Theorem peptide_intensities_perm cut ns ncols l l' :
  Permutation l l' -> key_separates (filter (l_used cut) l) ->
  peptide_intensities cut ns ncols l = peptide_intensities cut ns ncols l'.
Proof. intros Hp Hk. unfold peptide_intensities. rewrite (used_sorted_perm cut l l' Hp Hk). reflexivity. Qed.

(* ---------- the stabilisation inputs: sums and distinct counts do not see the order either ---------- *)
Lemma Qplus_swap_r (x a b : Q) : Qplus (Qplus x a) b = Qplus (Qplus x b) a.
Proof.
  destruct x as [xn xd], a as [an ad], b as [bn bd]. unfold Qplus. cbn [Qnum Qden]. f_equal.
  - rewrite !Pos2Z.inj_mul. ring.
  - apply Pos2Z.inj. rewrite !Pos2Z.inj_mul. ring.
Qed.

Lemma fold_plus_perm l l' : Permutation l l' -> forall x, fold_left Qplus l x = fold_left Qplus l' x.
Proof.
  induction 1 as [|a l l' _ IH|a b l|l l' l'' _ IH1 _ IH2]; intros x; cbn [fold_left].
  - reflexivity.
  - apply IH.
  - rewrite Qplus_swap_r. reflexivity.
  - rewrite IH1. apply IH2.
Qed.

Lemma qsum_perm l l' : Permutation l l' -> qsum l = qsum l'.
Proof. intros H. unfold qsum. apply fold_plus_perm. exact H. Qed.

Lemma intensities_perm cut exps ns l l' : Permutation l l' -> intensities cut exps ns l = intensities cut exps ns l'.
Proof.
  intros Hp. unfold intensities. induction exps as [|e r IH]; [reflexivity|]. cbn [flat_map]. rewrite IH. f_equal.
  set (f := fun r0 : prec => counts cut r0 && in_exp e r0 && match p_intensity r0 with Some _ => true | None => false end).
  assert (Hf : Permutation (filter f l) (filter f l')) by (apply filter_perm; exact Hp).
  f_equal.
  - apply qsum_perm. apply Permutation_map. exact Hf.
  - apply map_ext. intros k. apply qsum_perm. apply Permutation_map. exact Hf.
Qed.

Lemma dedup_length_perm l l' : Permutation l l' -> length (dedup [] l) = length (dedup [] l').
Proof.
  intros Hp. apply Permutation_length. apply NoDup_Permutation; try apply dedup_NoDup.
  intros x. rewrite !dedup_In. split; intros [H Hn]; (split; [|exact Hn]).
  - eapply Permutation_in; eassumption.
  - eapply Permutation_in; [apply Permutation_sym|]; eassumption.
Qed.

Lemma unique_peptides_perm cut exps l l' : Permutation l l' -> unique_peptides cut exps l = unique_peptides cut exps l'.
Proof.
  intros Hp. unfold unique_peptides.
  assert (Hu : Permutation (filter (counts cut) l) (filter (counts cut) l')) by (apply filter_perm; exact Hp).
  f_equal.
  - apply dedup_length_perm. apply Permutation_map. exact Hu.
  - apply map_ext. intros e. apply dedup_length_perm. apply Permutation_map. apply filter_perm. exact Hu.
Qed.

Lemma summed_and_counts_perm cut exps ns l l' : Permutation l l' -> summed_and_counts cut exps ns l = summed_and_counts cut exps ns l'.
Proof.
  intros Hp. unfold summed_and_counts.
  assert (Hm : Permutation (map to_prec l) (map to_prec l')) by (apply Permutation_map; exact Hp).
  rewrite (intensities_perm cut exps ns _ _ Hm), (unique_peptides_perm cut exps _ _ Hm). reflexivity.
Qed.

(* ---------- every exact stage ---------- *)
Theorem lfq_exact_perm cut exps ns minr stab graph ms l l' :
  Permutation l l' -> key_separates (filter (l_used cut) l) ->
  lfq_exact cut exps ns minr stab graph ms l = lfq_exact cut exps ns minr stab graph ms l'.
Proof.
  intros Hp Hk. unfold lfq_exact. rewrite (peptide_intensities_perm cut ns _ l l' Hp Hk).
  destruct (peptide_intensities cut ns (length exps * Nat.max 1 ns) l') as [m tot].
  unfold stabilize. rewrite (summed_and_counts_perm cut exps ns l l' Hp). reflexivity.
Qed.

(* ---------- the proviso is met: when every used precursor has a PEP and no two agree on the whole key ---------- *)
(* lexicographic levels *)
Section Lex.
Context {A : Type}.
Variable cmp : A -> A -> comparison.
Variable next : A -> A -> bool.
Definition lexle (a b : A) : bool := match cmp a b with Lt => true | Gt => false | Eq => next a b end.
Hypothesis cmp_eq_l : forall a b c, cmp a b = Eq -> cmp a c = cmp b c.
Hypothesis cmp_eq_r : forall a b c, cmp b c = Eq -> cmp a c = cmp a b.
Hypothesis cmp_lt_trans : forall a b c, cmp a b = Lt -> cmp b c = Lt -> cmp a c = Lt.
Variable P : A -> Prop.
Hypothesis next_trans : forall a b c, P a -> P b -> P c -> next a b = true -> next b c = true -> next a c = true.

Lemma lexle_trans a b c : P a -> P b -> P c -> lexle a b = true -> lexle b c = true -> lexle a c = true.
Proof.
  unfold lexle. intros Pa Pb Pc H1 H2.
  destruct (cmp a b) eqn:E1; [| |discriminate].
  - rewrite (cmp_eq_l a b c E1). destruct (cmp b c) eqn:E2; [|reflexivity|discriminate]. apply (next_trans a b c); assumption.
  - destruct (cmp b c) eqn:E2; [| |discriminate].
    + rewrite (cmp_eq_r a b c E2), E1. reflexivity.
    + rewrite (cmp_lt_trans a b c E1 E2). reflexivity.
Qed.
End Lex.

Lemma str_cmp_eq_l (f : lprec -> str) a b c : str_compare (f a) (f b) = Eq -> str_compare (f a) (f c) = str_compare (f b) (f c).
Proof. intros H. apply str_compare_eq in H. rewrite H. reflexivity. Qed.
Lemma str_cmp_eq_r (f : lprec -> str) a b c : str_compare (f b) (f c) = Eq -> str_compare (f a) (f c) = str_compare (f a) (f b).
Proof. intros H. apply str_compare_eq in H. rewrite H. reflexivity. Qed.

Definition has_pep (p : lprec) : Prop := exists x, l_pep p = Some x.

Lemma pep_level_trans a b c : has_pep a -> has_pep b -> has_pep c ->
  (match l_pep a, l_pep b with Some x, Some y => Qle_bool x y | _, _ => true end) = true ->
  (match l_pep b, l_pep c with Some x, Some y => Qle_bool x y | _, _ => true end) = true ->
  (match l_pep a, l_pep c with Some x, Some y => Qle_bool x y | _, _ => true end) = true.
Proof.
  intros [x Hx] [y Hy] [z Hz]. rewrite Hx, Hy, Hz. rewrite !Qle_bool_iff. intros H1 H2. eapply Qle_trans; eassumption.
Qed.

Lemma key_leb_trans_with_peps a b c : has_pep a -> has_pep b -> has_pep c ->
  key_leb a b = true -> key_leb b c = true -> key_leb a c = true.
Proof.
  change key_leb with
    (lexle (fun a b => str_compare (l_peptide a) (l_peptide b))
    (lexle (fun a b => Z.compare (l_charge a) (l_charge b))
    (lexle (fun a b => str_compare (l_expname a) (l_expname b))
    (lexle (fun a b => str_compare (l_fraction a) (l_fraction b))
    (lexle (fun a b => Qcompare (the_intensity b) (the_intensity a))
           (fun a b => match l_pep a, l_pep b with Some x, Some y => Qle_bool x y | _, _ => true end)))))).
  apply (lexle_trans _ _ (str_cmp_eq_l l_peptide) (str_cmp_eq_r l_peptide)
           (fun a b c => str_compare_trans_lt (l_peptide a) (l_peptide b) (l_peptide c)) has_pep).
  apply (lexle_trans (fun a b => Z.compare (l_charge a) (l_charge b))).
  { intros x y z H. apply Z.compare_eq in H. rewrite H. reflexivity. }
  { intros x y z H. apply Z.compare_eq in H. rewrite H. reflexivity. }
  { intros x y z H1 H2. rewrite Z.compare_lt_iff in *. lia. }
  apply (lexle_trans _ _ (str_cmp_eq_l l_expname) (str_cmp_eq_r l_expname)
           (fun a b c => str_compare_trans_lt (l_expname a) (l_expname b) (l_expname c)) has_pep).
  apply (lexle_trans _ _ (str_cmp_eq_l l_fraction) (str_cmp_eq_r l_fraction)
           (fun a b c => str_compare_trans_lt (l_fraction a) (l_fraction b) (l_fraction c)) has_pep).
  apply (lexle_trans (fun a b => Qcompare (the_intensity b) (the_intensity a))).
  { intros x y z H. apply Qeq_alt in H. rewrite H. reflexivity. }
  { intros x y z H. apply Qeq_alt in H. rewrite H. reflexivity. }
  { intros x y z H1 H2. rewrite <- Qlt_alt in *. eapply Qlt_trans; eassumption. }
  exact pep_level_trans.
Qed.

Theorem key_separates_sufficient U :
  (forall p, In p U -> has_pep p) ->
  (forall x y, In x U -> In y U -> key_leb x y = true -> key_leb y x = true -> x = y) ->
  key_separates U.
Proof.
  intros Hp Ha. split; [|exact Ha]. intros x y z Hx Hy Hz. apply key_leb_trans_with_peps; auto.
Qed.

(* ---------- without the proviso the claim is false: two rows tying on the whole key, different SILAC channels ---------- *)
Definition tie_a : lprec := {| l_peptide := s2l "PEPA"; l_charge := 2; l_exp := 0; l_expname := s2l "E1"; l_fraction := s2l "1";
                               l_intensity := Some (3#1); l_pep := Some (1#100); l_silac := [1#1; 2#1] |}.
Definition tie_b : lprec := {| l_peptide := s2l "PEPA"; l_charge := 2; l_exp := 0; l_expname := s2l "E1"; l_fraction := s2l "1";
                               l_intensity := Some (3#1); l_pep := Some (1#100); l_silac := [2#1; 1#1] |}.

Theorem precursor_order_matters_on_full_key_ties :
  Permutation [tie_a; tie_b] [tie_b; tie_a] /\
  peptide_intensities (1#1) 2 2 [tie_a; tie_b] <> peptide_intensities (1#1) 2 2 [tie_b; tie_a].
Proof. split; [apply perm_swap | vm_compute; discriminate]. Qed.

(* non-vacuity: a list with two charge states, two experiments, a match-between-runs-free block with two candidates *)
Definition ov1 : lprec := {| l_peptide := s2l "PEPA"; l_charge := 2; l_exp := 0; l_expname := s2l "E1"; l_fraction := s2l "1";
                             l_intensity := Some (3#1); l_pep := Some (1#100); l_silac := [] |}.
Definition ov2 : lprec := {| l_peptide := s2l "PEPA"; l_charge := 2; l_exp := 0; l_expname := s2l "E1"; l_fraction := s2l "1";
                             l_intensity := Some (5#1); l_pep := Some (1#50); l_silac := [] |}.
Definition ov3 : lprec := {| l_peptide := s2l "PEPA"; l_charge := 3; l_exp := 1; l_expname := s2l "E2"; l_fraction := s2l "1";
                             l_intensity := Some (7#1); l_pep := Some (1#100); l_silac := [] |}.

Example order_witness :
  key_separates (filter (l_used (1#1)) [ov1; ov2; ov3]) /\
  lfq_exact (1#1) [s2l "E1"; s2l "E2"] 0 1 false None 0 [ov1; ov2; ov3] =
  lfq_exact (1#1) [s2l "E1"; s2l "E2"] 0 1 false None 0 [ov3; ov1; ov2] /\
  st_matrix (lfq_exact (1#1) [s2l "E1"; s2l "E2"] 0 1 false None 0 [ov1; ov2; ov3]) <> [].
Proof.
  assert (Hk : key_separates (filter (l_used (1#1)) [ov1; ov2; ov3])).
  { apply key_separates_sufficient.
    - intros p Hp. vm_compute in Hp. destruct Hp as [<-|[<-|[<-|[]]]]; eexists; reflexivity.
    - intros x y Hx Hy. vm_compute in Hx, Hy.
      destruct Hx as [<-|[<-|[<-|[]]]]; destruct Hy as [<-|[<-|[<-|[]]]]; vm_compute; intros; try reflexivity; discriminate. }
  split; [exact Hk|]. split.
  - apply lfq_exact_perm; [|exact Hk].
    apply Permutation_sym. apply (Permutation_cons_app [ov1; ov2] [] ov3). apply Permutation_refl.
  - vm_compute. discriminate.
Qed.

(* why the proviso speaks of PEPs: with a match-between-runs row (no PEP) among rows that tie on the rest of the key, the comparison is
   not transitive - a NaN compares "not less" both ways, exactly as Python's tuple comparison does *)
Definition nt_a : lprec := {| l_peptide := s2l "PEPA"; l_charge := 2; l_exp := 0; l_expname := s2l "E1"; l_fraction := s2l "1";
                              l_intensity := Some (3#1); l_pep := Some (1#50); l_silac := [] |}.
Definition nt_b : lprec := {| l_peptide := s2l "PEPA"; l_charge := 2; l_exp := 0; l_expname := s2l "E1"; l_fraction := s2l "1";
                              l_intensity := Some (3#1); l_pep := None; l_silac := [] |}.
Definition nt_c : lprec := {| l_peptide := s2l "PEPA"; l_charge := 2; l_exp := 0; l_expname := s2l "E1"; l_fraction := s2l "1";
                              l_intensity := Some (3#1); l_pep := Some (1#100); l_silac := [] |}.
Lemma key_not_transitive_with_mbr : key_leb nt_a nt_b = true /\ key_leb nt_b nt_c = true /\ key_leb nt_a nt_c = false.
Proof. vm_compute. repeat split; reflexivity. Qed.

