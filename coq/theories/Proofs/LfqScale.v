(* C11: multiplying all intensities by a constant leaves every median peptide ratio unchanged (exact layer). *)
From PGF Require Import Base.Prelude Base.PyStr Base.StableSort Model.Fdr Model.Grouping Model.Quant Model.Lfq Proofs.LfqProofs.
From Coq Require Import Lia QArith Qfield.
Local Open Scope Q_scope.

Definition Qeqs (a b : list Q) : Prop := Forall2 Qeq a b.

Lemma Qle_bool_compat a a' b b' : a == a' -> b == b' -> Qle_bool a b = Qle_bool a' b'.
Proof.
  intros Ha Hb. destruct (Qle_bool a b) eqn:E1, (Qle_bool a' b') eqn:E2; try reflexivity.
  - apply Qle_bool_iff in E1. rewrite Ha, Hb in E1. apply Qle_bool_iff in E1. congruence.
  - apply Qle_bool_iff in E2. rewrite <- Ha, <- Hb in E2. apply Qle_bool_iff in E2. congruence.
Qed.

Lemma insert_Qeqs x x' l l' : x == x' -> Qeqs l l' -> Qeqs (insert Qle_bool x l) (insert Qle_bool x' l').
Proof.
  intros Hx H. induction H as [|y y' l l' Hy Hl IH]; simpl; [constructor; [exact Hx | constructor]|].
  rewrite (Qle_bool_compat x x' y y' Hx Hy). destruct (Qle_bool x' y').
  - constructor; [exact Hx|]. constructor; assumption.
  - constructor; [exact Hy | exact IH].
Qed.

Lemma isort_Qeqs l l' : Qeqs l l' -> Qeqs (isort Qle_bool l) (isort Qle_bool l').
Proof. intros H. induction H as [|x x' l l' Hx Hl IH]; simpl; [constructor|]. apply insert_Qeqs; assumption. Qed.

Lemma nth_Qeqs l l' : Qeqs l l' -> forall k, nth k l 0 == nth k l' 0.
Proof.
  intros H. induction H as [|x x' l l' Hx Hl IH]; intros [|k]; simpl; try reflexivity; [exact Hx | apply IH].
Qed.

Lemma Qeqs_length l l' : Qeqs l l' -> length l = length l'.
Proof. intros H. induction H; simpl; congruence. Qed.

Lemma median_Qeqs l l' : Qeqs l l' -> median l == median l'.
Proof.
  intros H. unfold median. pose proof (isort_Qeqs l l' H) as Hs. rewrite (Qeqs_length _ _ Hs).
  destruct (Nat.even (length (isort Qle_bool l'))).
  - rewrite (nth_Qeqs _ _ Hs (length (isort Qle_bool l') / 2 - 1)), (nth_Qeqs _ _ Hs (length (isort Qle_bool l') / 2)). reflexivity.
  - apply nth_Qeqs. exact Hs.
Qed.

Lemma nonzero_scale c x : ~ c == 0 -> nonzero (c * x) = nonzero x.
Proof.
  intros Hc. unfold nonzero. f_equal. destruct (Qeq_bool x 0) eqn:E.
  - apply Qeq_bool_iff in E. apply Qeq_bool_iff. rewrite E. ring.
  - destruct (Qeq_bool (c * x) 0) eqn:E2; [|reflexivity]. apply Qeq_bool_iff in E2.
    assert (Hx : x == 0). { apply Qmult_integral in E2. destruct E2 as [E2|E2]; [contradiction | exact E2]. }
    apply Qeq_bool_iff in Hx. congruence.
Qed.

Lemma both_ratios_scale c : ~ c == 0 -> forall ci cj,
  Qeqs (both_ratios (map (Qmult c) ci) (map (Qmult c) cj)) (both_ratios ci cj).
Proof.
  intros Hc. induction ci as [|a ci IH]; intros cj; [constructor|]. destruct cj as [|b cj]; [constructor|].
  unfold both_ratios. cbn [map combine flat_map fst snd]. rewrite !(nonzero_scale c _ Hc).
  destruct (nonzero a && nonzero b) eqn:E.
  - cbn [app]. constructor; [|apply IH].
    apply andb_true_iff in E. destruct E as [_ Eb]. apply nonzero_neq in Eb. field. split; assumption.
  - apply IH.
Qed.

(* scaling every intensity of two samples by the same non-zero factor leaves their median peptide ratio unchanged *)
Theorem median_ratio_scale_invariant c ci cj : ~ c == 0 ->
  median (both_ratios (map (Qmult c) ci) (map (Qmult c) cj)) == median (both_ratios ci cj).
Proof. intros Hc. apply median_Qeqs, both_ratios_scale. exact Hc. Qed.

(* ... and the number of shared peptides, which decides whether the pair gets a ratio at all *)
Theorem shared_count_scale_invariant c ci cj : ~ c == 0 ->
  length (both_ratios (map (Qmult c) ci) (map (Qmult c) cj)) = length (both_ratios ci cj).
Proof. intros Hc. apply Qeqs_length, both_ratios_scale. exact Hc. Qed.

Theorem count_nonzero_scale_invariant c col : ~ c == 0 -> count_nonzero (map (Qmult c) col) = count_nonzero col.
Proof.
  intros Hc. unfold count_nonzero. induction col as [|x col IH]; [reflexivity|]. cbn [map filter].
  rewrite (nonzero_scale c x Hc). destruct (nonzero x); simpl; congruence.
Qed.
