From PGF Require Import Base.Prelude Base.PyStr Base.StableSort Model.Fdr Model.Results Proofs.FdrProofs.

Fixpoint zip4 {A B C D} (a : list A) (b : list B) (c : list C) (d : list D) : list (A * B * C * D) :=
  match a, b, c, d with
  | x :: a', y :: b', z :: c', w :: d' => (x, y, z, w) :: zip4 a' b' c' d'
  | _, _, _, _ => []
  end.

Lemma from_protein_group_q_score g i q s cut ka r :
  from_protein_group g i q s cut ka = Ok (Some r) -> r_q r = q /\ r_score r = s.
Proof.
  unfold from_protein_group.
  destruct (_ && _); [discriminate|].
  destruct (filter _ _); [discriminate|].
  destruct (best_peptide i); [|discriminate].
  intros H. inversion H; subst; simpl. split; reflexivity.
Qed.

(* a ranked group is reported iff it is not a placeholder and its row constructor yields a row *)
Definition reported (cut : option Q) (ka : bool) (t : list str * list pinfo * Q * Q) : bool :=
  let '(g, i, s, q) := t in
  negb (is_obsolete g) &&
  match from_protein_group g i q s cut ka with Ok (Some _) => true | _ => false end.

(* ---- C01 clause 4: reported rows carry exactly the score and q-value computed on the ranking,
        in the same relative order, even when other ranked groups are withheld ---- *)
Lemma rows_aligned cut ka : forall gs is ss qs rows,
  from_protein_groups gs is ss qs cut ka = Ok rows ->
  map (fun r => (r_score r, r_q r)) rows =
  map (fun t : list str * list pinfo * Q * Q => (snd (fst t), snd t))
      (filter (reported cut ka) (zip4 gs is ss qs)).
Proof.
  induction gs as [|g gs IH]; intros is ss qs rows H; simpl in H.
  - inversion H; reflexivity.
  - destruct is as [|i is]; [inversion H; reflexivity|].
    destruct ss as [|s ss]; [inversion H; reflexivity|].
    destruct qs as [|q qs]; [inversion H; reflexivity|].
    cbn [zip4 filter reported].
    destruct (is_obsolete g) eqn:Eo; cbn [negb andb].
    + apply IH. exact H.
    + destruct (from_protein_group g i q s cut ka) as [[r|]|e] eqn:Er; [| |discriminate].
      * destruct (from_protein_groups gs is ss qs cut ka) as [rs|e] eqn:Ers; [|discriminate].
        inversion H; subst. cbn [map fst snd].
        destruct (from_protein_group_q_score _ _ _ _ _ _ _ Er) as [-> ->].
        f_equal. apply IH. exact Ers.
      * apply IH. exact H.
Qed.

(* placeholders are never reported *)
Lemma placeholders_never_reported cut ka : forall gs is ss qs rows,
  from_protein_groups gs is ss qs cut ka = Ok rows ->
  length rows = length (filter (reported cut ka) (zip4 gs is ss qs)).
Proof.
  intros gs is ss qs rows H. apply rows_aligned in H.
  apply (f_equal (@length _)) in H. rewrite !map_length in H. exact H.
Qed.

(* ================= C06: rows are consistent with the group's evidence ================= *)
From Coq Require Import Permutation Sorted.

(* declarative count: distinct evidence peptides at or below the cutoff that list protein p *)
Definition passes (cut : option Q) (i : pinfo) : bool := negb (above cut (pi_pep i)).
Definition cnt (infos : list pinfo) (cut : option Q) (p : str) : nat :=
  length (filter (fun i => passes cut i && mem_str p (pi_prots i)) infos).

Definition pep_le (a b : pinfo) : Prop := (pi_pep a <= pi_pep b)%Q.

Lemma pinfo_leb_pep a b : pinfo_leb a b = true -> pep_le a b.
Proof.
  unfold pinfo_leb, pep_le. destruct (Qcompare (pi_pep a) (pi_pep b)) eqn:E; intros H.
  - apply Qeq_alt in E. rewrite E. apply Qle_refl.
  - apply Qlt_alt in E. apply Qlt_le_weak. exact E.
  - discriminate.
Qed.

Lemma pinfo_nleb_pep a b : pinfo_leb a b = false -> pep_le b a.
Proof.
  unfold pinfo_leb, pep_le. destruct (Qcompare (pi_pep a) (pi_pep b)) eqn:E; intros H.
  - apply Qeq_alt in E. rewrite E. apply Qle_refl.
  - discriminate.
  - apply Qgt_alt in E. apply Qlt_le_weak. exact E.
Qed.

Lemma pep_le_trans a b c : pep_le a b -> pep_le b c -> pep_le a c.
Proof. unfold pep_le. apply Qle_trans. Qed.

Lemma sorted_infos_pep infos : StronglySorted pep_le (isort pinfo_leb infos).
Proof. apply (isort_sorted_rel pinfo_leb pep_le pinfo_leb_pep pinfo_nleb_pep pep_le_trans). Qed.

Lemma above_mono cut a b : pep_le a b -> above cut (pi_pep a) = true -> above cut (pi_pep b) = true.
Proof.
  unfold above, pep_le. destruct cut as [c|]; [|discriminate].
  rewrite !negb_true_iff. intros Hab Ha.
  destruct (Qle_bool (pi_pep b) c) eqn:Eb; [|reflexivity].
  apply Qle_bool_iff in Eb. assert (H : (pi_pep a <= c)%Q) by (eapply Qle_trans; eassumption).
  apply Qle_bool_iff in H. congruence.
Qed.

Lemma count_loop_spec cut p : forall l seen,
  StronglySorted pep_le l ->
  NoDup (map pi_peptide l) ->
  (forall i, In i l -> ~ In (pi_peptide i) seen) ->
  count_loop l cut seen p = length (filter (fun i => passes cut i && mem_str p (pi_prots i)) l).
Proof.
  induction l as [|i r IH]; intros seen Hs Hnd Hseen; [reflexivity|].
  inversion Hs as [|? ? Hs' Hall]; subst. inversion Hnd as [|? ? Hni Hnd']; subst.
  cbn [count_loop filter]. unfold passes at 1.
  destruct (above cut (pi_pep i)) eqn:Ea; cbn [negb andb].
  - (* break: everything after is above the cutoff as well *)
    symmetry. rewrite (proj2 (length_zero_iff_nil _)); [reflexivity|].
    apply filter_noneQ. intros j Hj. rewrite Forall_forall in Hall.
    unfold passes. rewrite (above_mono cut i j (Hall j Hj) Ea). reflexivity.
  - assert (Hm : mem_str (pi_peptide i) seen = false).
    { destruct (mem_str (pi_peptide i) seen) eqn:E; [|reflexivity].
      apply mem_str_In in E. exfalso. apply (Hseen i); [left; reflexivity | exact E]. }
    rewrite Hm.
    rewrite IH; try assumption.
    + destruct (mem_str p (pi_prots i)); reflexivity.
    + intros j Hj [Hin|Hin].
      * apply Hni. rewrite Hin. apply in_map. exact Hj.
      * apply (Hseen j); [right; exact Hj | exact Hin].
Qed.

Lemma NoDup_map_perm {A B} (f : A -> B) l l' : Permutation l l' -> NoDup (map f l) -> NoDup (map f l').
Proof. intros Hp. apply Permutation_NoDup. apply Permutation_map. exact Hp. Qed.

Lemma filter_perm_length {A} (f : A -> bool) l l' :
  Permutation l l' -> length (filter f l) = length (filter f l').
Proof.
  induction 1; simpl; auto.
  - destruct (f x); simpl; auto.
  - destruct (f x), (f y); simpl; auto.
  - congruence.
Qed.

(* ---- each protein's count is the number of distinct evidence peptides at or below the cutoff
        that list it: once per peptide, whatever the multiplicity of the protein in the list ---- *)
Lemma peptide_count_spec infos cut p :
  NoDup (map pi_peptide infos) -> peptide_count infos cut p = cnt infos cut p.
Proof.
  intros Hnd. unfold peptide_count, cnt.
  rewrite count_loop_spec.
  - apply filter_perm_length. apply isort_perm.
  - apply sorted_infos_pep.
  - eapply NoDup_map_perm; [apply Permutation_sym, isort_perm | exact Hnd].
  - intros i _ [].
Qed.

(* the full row specification *)
Definition listed (g : list str) (infos : list pinfo) (cut : option Q) (ka : bool) : list (str * nat) :=
  filter (fun pc => negb (Nat.eqb (snd pc) 0) || ka) (combine g (map (cnt infos cut) g)).

Definition row_spec (g : list str) (infos : list pinfo) (q s : Q) (cut : option Q) (ka : bool) (r : row) : Prop :=
  let L := listed g infos cut ka in
  r_ids r = join semicolon (map fst L) /\
  r_counts r = map snd L /\
  r_majority r = join semicolon (map fst (filter (fun pc => Nat.leb (list_max (map snd L)) (2 * snd pc)) L)) /\
  r_nprot r = length L /\
  r_rev r = is_decoy (map fst L) /\
  r_con r = is_contaminant (map fst L) /\
  r_q r = q /\ r_score r = s /\
  (exists i, In i infos /\ pi_peptide i = r_best r /\
             forall j, In j infos -> (pi_pep i < pi_pep j)%Q \/
                                     ((pi_pep i == pi_pep j)%Q /\ str_leb (pi_peptide i) (pi_peptide j) = true)).

Lemma counts_eq g infos cut :
  NoDup (map pi_peptide infos) -> map (peptide_count infos cut) g = map (cnt infos cut) g.
Proof. intros H. apply map_ext. intros p. apply peptide_count_spec. exact H. Qed.

Definition pe_leb (a b : Q * str) : bool :=
  match Qcompare (fst a) (fst b) with
  | Lt => true | Gt => false
  | Eq => str_leb (snd a) (snd b)
  end.
Definition pe_le (a b : Q * str) : Prop :=
  (fst a < fst b)%Q \/ ((fst a == fst b)%Q /\ str_leb (snd a) (snd b) = true).

Lemma pe_leb_le a b : pe_leb a b = true -> pe_le a b.
Proof.
  unfold pe_leb, pe_le. destruct (Qcompare (fst a) (fst b)) eqn:E; intros H; try discriminate.
  - right. split; [apply Qeq_alt; exact E | exact H].
  - left. apply Qlt_alt. exact E.
Qed.
Lemma pe_nleb_le a b : pe_leb a b = false -> pe_le b a.
Proof.
  unfold pe_leb, pe_le. destruct (Qcompare (fst a) (fst b)) eqn:E; intros H; try discriminate.
  - right. split; [symmetry; apply Qeq_alt; exact E|].
    destruct (str_leb_total (snd a) (snd b)); congruence.
  - left. apply Qgt_alt in E. exact E.
Qed.
Lemma pe_le_trans a b c : pe_le a b -> pe_le b c -> pe_le a c.
Proof.
  unfold pe_le. intros [H1|[H1 S1]] [H2|[H2 S2]].
  - left. eapply Qlt_trans; eassumption.
  - left. rewrite <- H2. exact H1.
  - left. rewrite H1. exact H2.
  - right. split; [rewrite H1; exact H2 | eapply str_leb_trans; eassumption].
Qed.
Lemma pe_le_refl a : pe_le a a.
Proof. right. split; [reflexivity|]. unfold str_leb. rewrite str_compare_refl. reflexivity. Qed.

Lemma best_peptide_spec infos e :
  best_peptide infos = Ok e ->
  exists i, In i infos /\ pi_peptide i = e /\
            forall j, In j infos -> pe_le (pi_pep i, pi_peptide i) (pi_pep j, pi_peptide j).
Proof.
  unfold best_peptide. fold pe_leb.
  set (l := map (fun i => (pi_pep i, pi_peptide i)) infos).
  pose proof (isort_sorted_rel pe_leb pe_le pe_leb_le pe_nleb_le pe_le_trans l) as Hs.
  pose proof (isort_perm pe_leb l) as Hp.
  destruct (isort pe_leb l) as [|[q0 e0] r] eqn:E; [discriminate|].
  intros H. inversion H; subst e0.
  assert (Hin : In (q0, e) l) by (eapply Permutation_in; [exact Hp | left; reflexivity]).
  unfold l in Hin. apply in_map_iff in Hin. destruct Hin as [i [Hi Hin]].
  exists i. inversion Hi; subst. split; [exact Hin|]. split; [reflexivity|].
  intros j Hj. inversion Hs as [|? ? _ Hall]; subst.
  assert (Hjl : In (pi_pep j, pi_peptide j) ((pi_pep i, pi_peptide i) :: r)).
  { eapply Permutation_in; [apply Permutation_sym; exact Hp|]. unfold l.
    apply in_map_iff. exists j. split; [reflexivity | exact Hj]. }
  destruct Hjl as [Hjl|Hjl]; [rewrite <- Hjl; apply pe_le_refl|].
  rewrite Forall_forall in Hall. apply Hall. exact Hjl.
Qed.

Lemma from_protein_group_spec g infos q s cut ka r :
  NoDup (map pi_peptide infos) ->
  from_protein_group g infos q s cut ka = Ok (Some r) ->
  row_spec g infos q s cut ka r.
Proof.
  intros Hnd. unfold from_protein_group. rewrite (counts_eq g infos cut Hnd).
  destruct (_ && _); [discriminate|].
  fold (listed g infos cut ka).
  destruct (listed g infos cut ka) as [|x L] eqn:EL; [discriminate|].
  destruct (best_peptide infos) as [e|] eqn:Eb; [|discriminate].
  intros H. inversion H; subst; clear H. unfold row_spec. cbv zeta. rewrite EL. cbn [r_ids r_counts r_majority r_nprot r_rev r_con r_q r_score r_best].
  split; [reflexivity|]. split; [reflexivity|]. split; [reflexivity|].
  split; [rewrite map_length; reflexivity|].
  split; [reflexivity|]. split; [reflexivity|]. split; [reflexivity|]. split; [reflexivity|].
  destruct (best_peptide_spec _ _ Eb) as [i [Hi [He Hmin]]]. exists i.
  split; [exact Hi|]. split; [exact He|].
  intros j Hj. apply (Hmin j Hj).
Qed.

(* a group has no row iff keep-all is off and none of its proteins has a peptide at or below the cutoff *)
Lemma from_protein_group_none g infos q s cut ka :
  NoDup (map pi_peptide infos) ->
  (from_protein_group g infos q s cut ka = Ok None <->
   ka = false /\ forall p, In p g -> cnt infos cut p = 0).
Proof.
  intros Hnd. unfold from_protein_group. rewrite (counts_eq g infos cut Hnd).
  assert (Hsum : Nat.eqb (fold_right Nat.add 0 (map (cnt infos cut) g)) 0 = true <->
                 forall p, In p g -> cnt infos cut p = 0).
  { rewrite Nat.eqb_eq. induction g as [|p g IH]; simpl.
    - split; [intros _ p [] | reflexivity].
    - split.
      + intros H p' [<-|Hp]; [lia | apply IH; [lia | exact Hp]].
      + intros H. rewrite (H p) by (left; reflexivity). simpl. apply IH. intros p' Hp. apply H. right. exact Hp. }
  destruct (Nat.eqb _ 0) eqn:E0; destruct ka; cbn [negb andb].
  - split; [|intros [? _]; discriminate].
    destruct (filter _ _); [discriminate|]. destruct (best_peptide infos); discriminate.
  - split; [intros _; split; [reflexivity | apply Hsum; reflexivity] | reflexivity].
  - split; [|intros [? _]; discriminate].
    destruct (filter _ _); [discriminate|]. destruct (best_peptide infos); discriminate.
  - split.
    + destruct (filter _ _); [discriminate|]. destruct (best_peptide infos); discriminate.
    + intros [_ H]. apply Hsum in H. discriminate.
Qed.

Lemma listed_subset g infos cut ka p c : In (p, c) (listed g infos cut ka) -> In p g /\ c = cnt infos cut p.
Proof.
  unfold listed. rewrite filter_In. intros [H _].
  revert H. generalize (cnt infos cut). intros f. induction g as [|x g IH]; simpl; [intros []|].
  intros [H|H]; [inversion H; subst; auto | destruct (IH H); auto].
Qed.

Lemma listed_complete g infos cut ka p :
  In p g -> (cnt infos cut p > 0 \/ ka = true) -> In (p, cnt infos cut p) (listed g infos cut ka).
Proof.
  intros Hp Hc. unfold listed. rewrite filter_In. split.
  - generalize (cnt infos cut). intros f. induction g as [|x g IH]; simpl in *; [contradiction|].
    destruct Hp as [->|Hp]; [left; reflexivity | right; apply IH; exact Hp].
  - cbn [snd]. destruct Hc as [Hc|Hc]; [|rewrite Hc; apply orb_true_r].
    destruct (Nat.eqb_spec (cnt infos cut p) 0); [lia | reflexivity].
Qed.

(* rows of a non-increasing ranking are in non-increasing score order *)
Lemma rows_scores_sublist cut ka : forall gs is ss qs rows,
  from_protein_groups gs is ss qs cut ka = Ok rows ->
  forall b, Forall (fun s => (s <= b)%Q) ss -> Forall (fun r => (r_score r <= b)%Q) rows.
Proof.
  induction gs as [|g gs IH]; intros is ss qs rows H b Hb; simpl in H.
  - inversion H; constructor.
  - destruct is as [|i is]; [inversion H; constructor|].
    destruct ss as [|s ss]; [inversion H; constructor|].
    destruct qs as [|q qs]; [inversion H; constructor|].
    inversion Hb as [|? ? Hs Hb']; subst.
    destruct (is_obsolete g); [eapply IH; eassumption|].
    destruct (from_protein_group g i q s cut ka) as [[r|]|e] eqn:Er; [| |discriminate].
    + destruct (from_protein_groups gs is ss qs cut ka) as [rs|e] eqn:Ers; [|discriminate].
      inversion H; subst. constructor.
      * destruct (from_protein_group_q_score _ _ _ _ _ _ _ Er) as [_ ->]. exact Hs.
      * eapply IH; eassumption.
    + eapply IH; eassumption.
Qed.

Lemma rows_sorted cut ka : forall gs is ss qs rows,
  from_protein_groups gs is ss qs cut ka = Ok rows ->
  StronglySorted (fun a b => (b <= a)%Q) ss ->
  StronglySorted (fun a b => (r_score b <= r_score a)%Q) rows.
Proof.
  induction gs as [|g gs IH]; intros is ss qs rows H Hs; simpl in H.
  - inversion H; constructor.
  - destruct is as [|i is]; [inversion H; constructor|].
    destruct ss as [|s ss]; [inversion H; constructor|].
    destruct qs as [|q qs]; [inversion H; constructor|].
    inversion Hs as [|? ? Hs' Hall]; subst.
    destruct (is_obsolete g); [eapply IH; eassumption|].
    destruct (from_protein_group g i q s cut ka) as [[r|]|e] eqn:Er; [| |discriminate].
    + destruct (from_protein_groups gs is ss qs cut ka) as [rs|e] eqn:Ers; [|discriminate].
      inversion H; subst. constructor; [eapply IH; eassumption|].
      destruct (from_protein_group_q_score _ _ _ _ _ _ _ Er) as [_ ->].
      eapply rows_scores_sublist; eassumption.
    + eapply IH; eassumption.
Qed.
