From PGF Require Import Base.Prelude Base.PyStr Model.Fdr.
From Coq Require Import Qminmax.
Local Open Scope Q_scope.

Lemma qvals_length l : length (qvals l) = length l.
Proof. induction l as [|x r IH]; simpl; auto. destruct (qvals r) eqn:E; simpl in *; lia. Qed.

Lemma qvals_cons_tl x r : tl (qvals (x :: r)) = qvals r.
Proof. simpl. destruct (qvals r) eqn:E; simpl; [|reflexivity].
  destruct r; [reflexivity|]. simpl in E. destruct (qvals r); discriminate. Qed.

Lemma skipn_S_tl {A} i (l : list A) : skipn (S i) l = skipn i (tl l).
Proof. destruct l; [destruct i; reflexivity | reflexivity]. Qed.

Lemma qvals_skipn i : forall l, skipn i (qvals l) = qvals (skipn i l).
Proof.
  induction i as [|i IH]; intros l; [reflexivity|].
  destruct l as [|x r]; [reflexivity|].
  rewrite skipn_S_tl, qvals_cons_tl. simpl. apply IH.
Qed.

Definition Qle_all (x : Q) (l : list Q) := Forall (fun y => x <= y) l.

(* the head of qvals is a lower bound of every fdr at or below, and is attained *)
Lemma qvals_head_spec : forall l q qs, qvals l = q :: qs ->
  Qle_all q l /\ Exists (fun y => q == y) l.
Proof.
  induction l as [|x r IH]; intros q qs H; simpl in H; [discriminate|].
  destruct (qvals r) as [|y ys] eqn:E.
  - inversion H; subst. destruct r; [|simpl in E; destruct (qvals r); discriminate].
    split; [constructor; [apply Qle_refl|constructor]| left; reflexivity].
  - inversion H; subst. destruct (IH y ys eq_refl) as [Hall Hex]. split.
    + constructor; [apply Q.le_min_l|].
      eapply Forall_impl; [|exact Hall]. intros a Ha. eapply Qle_trans; [apply Q.le_min_r|exact Ha].
    + destruct (Q.min_dec x y) as [Hm|Hm].
      * left. exact Hm.
      * right. eapply Exists_impl; [|exact Hex]. intros a Ha. rewrite Hm. exact Ha.
Qed.

Lemma nth_skipn_hd {A} (d : A) i : forall l, nth i l d = hd d (skipn i l).
Proof. induction i as [|i IH]; intros [|x l]; simpl; auto. Qed.

Lemma nth_skipn {A} (d : A) i j : forall l, nth j (skipn i l) d = nth (i + j) l d.
Proof. induction i as [|i IH]; intros l; simpl; [reflexivity|]. destruct l; [destruct j; reflexivity | apply IH]. Qed.

(* ---- C01 clause 1: q_i is the minimum of fdr_j over j >= i ---- *)
Lemma qval_suffix_min f i : (i < length f)%nat ->
  (forall j, (i <= j < length f)%nat -> nth i (qvals f) 0 <= nth j f 0) /\
  (exists j, (i <= j < length f)%nat /\ nth i (qvals f) 0 == nth j f 0).
Proof.
  intros Hi. rewrite (nth_skipn_hd 0 i (qvals f)), qvals_skipn.
  destruct (qvals (skipn i f)) as [|q qs] eqn:E.
  - exfalso. assert (H := qvals_length (skipn i f)). rewrite E, skipn_length in H. simpl in H. lia.
  - simpl. destruct (qvals_head_spec _ _ _ E) as [Hall Hex]. split.
    + intros j Hj. unfold Qle_all in Hall. rewrite Forall_forall in Hall.
      replace j with (i + (j - i))%nat by lia. rewrite <- nth_skipn. apply Hall.
      apply nth_In. rewrite skipn_length. lia.
    + apply Exists_exists in Hex. destruct Hex as [y [Hy Hq]].
      destruct (In_nth _ _ 0 Hy) as [k [Hk Hn]]. rewrite skipn_length in Hk.
      exists (i + k)%nat. split; [lia|]. rewrite <- nth_skipn, Hn. exact Hq.
Qed.

(* ---- C01 clause 2: q-values never decrease down the ranking ---- *)
Lemma qval_monotone f i j : (i <= j < length f)%nat -> nth i (qvals f) 0 <= nth j (qvals f) 0.
Proof.
  intros Hij.
  destruct (qval_suffix_min f j) as [_ [k [Hk Hq]]]; [lia|].
  rewrite Hq. apply (proj1 (qval_suffix_min f i ltac:(lia))). lia.
Qed.

Lemma qval_le_fdr f i : (i < length f)%nat -> nth i (qvals f) 0 <= nth i f 0.
Proof. intros Hi. apply (proj1 (qval_suffix_min f i Hi)). lia. Qed.

(* ---- C01 clause 3: for every threshold the accepted set is a prefix whose own
        (decoys+1)/(targets+1) is at most the threshold ---- *)
Definition accepted (t : Q) (f : list Q) : nat := length (filter (fun q => Qle_bool q t) (qvals f)).

Lemma filter_noneQ {A} (f : A -> bool) l : (forall x, In x l -> f x = false) -> filter f l = [].
Proof.
  induction l as [|x l IH]; intros H; simpl; [reflexivity|].
  rewrite (H x) by (left; reflexivity). apply IH. intros y Hy. apply H. right. exact Hy.
Qed.

Lemma filter_len_le {A} (f : A -> bool) l : (length (filter f l) <= length l)%nat.
Proof. induction l as [|x l IH]; simpl; [lia|]. destruct (f x); simpl; lia. Qed.

Lemma filter_prefix_mono (t : Q) : forall l : list Q,
  (forall i j, (i <= j < length l)%nat -> nth i l 0 <= nth j l 0) ->
  forall i, (i < length l)%nat ->
    ((i < length (filter (fun q => Qle_bool q t) l))%nat <-> nth i l 0 <= t).
Proof.
  induction l as [|x l IH]; intros Hm i Hi; simpl in *; [lia|].
  assert (Hm' : forall i j, (i <= j < length l)%nat -> nth i l 0 <= nth j l 0).
  { intros a b Hab. apply (Hm (S a) (S b)). lia. }
  destruct (Qle_bool x t) eqn:E.
  - simpl. destruct i as [|i].
    + split; [intros _; apply Qle_bool_iff; exact E | lia].
    + rewrite <- (IH Hm' i) by lia. lia.
  - (* x > t: nothing below is accepted either *)
    assert (Hnone : filter (fun q => Qle_bool q t) l = []).
    { apply filter_noneQ. intros y Hy. destruct (In_nth _ _ 0 Hy) as [k [Hk Hn]].
      destruct (Qle_bool y t) eqn:Ey; [|reflexivity]. exfalso.
      apply Qle_bool_iff in Ey. assert (Hxy : x <= y) by (rewrite <- Hn; apply (Hm 0%nat (S k)); lia).
      assert (Hxt : x <= t) by (eapply Qle_trans; eassumption).
      apply Qle_bool_iff in Hxt. congruence. }
    rewrite Hnone. simpl. split; [lia|]. intros Hle. exfalso.
    assert (Hxi : x <= nth i (x :: l) 0) by (apply (Hm 0%nat i); lia).
    assert (Hxt : x <= t) by (eapply Qle_trans; [exact Hxi | exact Hle]).
    apply Qle_bool_iff in Hxt. congruence.
Qed.

Lemma qval_threshold f t :
  let k := accepted t f in
  (k <= length f)%nat /\
  (forall i, (i < length f)%nat -> ((i < k)%nat <-> nth i (qvals f) 0 <= t)) /\
  ((0 < k)%nat -> nth (k - 1) f 0 <= t).
Proof.
  intros k. unfold accepted in k.
  assert (Hlen : length (qvals f) = length f) by apply qvals_length.
  assert (Hmono : forall i j, (i <= j < length (qvals f))%nat -> nth i (qvals f) 0 <= nth j (qvals f) 0).
  { intros i j Hij. apply qval_monotone. lia. }
  assert (Hk : (k <= length f)%nat).
  { unfold k. rewrite <- Hlen. apply filter_len_le. }
  split; [exact Hk|]. split.
  - intros i Hi. apply (filter_prefix_mono t (qvals f) Hmono). lia.
  - intros Hpos.
    assert (Hacc : nth (k - 1) (qvals f) 0 <= t).
    { apply (filter_prefix_mono t (qvals f) Hmono (k - 1)%nat); fold k; lia. }
    destruct (qval_suffix_min f (k - 1)) as [_ [j [Hj Hq]]]; [lia|].
    (* the attaining index j is itself accepted, hence j <= k-1, hence j = k-1 *)
    assert (Hqj : nth j (qvals f) 0 <= t).
    { eapply Qle_trans; [apply qval_le_fdr; lia|]. rewrite <- Hq. exact Hacc. }
    assert (Hjk : (j < k)%nat).
    { apply (filter_prefix_mono t (qvals f) Hmono j); [lia | exact Hqj]. }
    assert (j = k - 1)%nat by lia. subst j. rewrite <- Hq. exact Hacc.
Qed.

(* ---- fdr_i is (decoys+1)/(targets+1) over ranks 0..i ---- *)
Definition ndecoy (l : list (list str * Q)) : Z :=
  Z.of_nat (length (filter (fun p => is_decoy (fst p)) l)).
Definition ntarget (l : list (list str * Q)) : Z :=
  Z.of_nat (length (filter (fun p => negb (is_decoy (fst p))) l)).
Definition no_sentinel (l : list (list str * Q)) : Prop :=
  forall p, In p l -> Qeq_bool (snd p) sentinel = false.

Lemma fdrs_length d t l : no_sentinel l -> length (fdrs d t l) = length l.
Proof.
  revert d t. induction l as [|[g sc] r IH]; intros d t Hns; simpl; [reflexivity|].
  pose proof (Hns (g, sc) (or_introl eq_refl)) as Hs. cbn [snd] in Hs. rewrite Hs.
  simpl. f_equal. apply IH.
  intros p Hp. apply Hns. right. exact Hp.
Qed.

Lemma fdrs_nth_gen : forall l d t i, no_sentinel l -> (i < length l)%nat ->
  nth i (fdrs d t l) 0 =
  ((d + ndecoy (firstn (S i) l) + 1)%Z # Z.to_pos (t + ntarget (firstn (S i) l) + 1)).
Proof.
  induction l as [|[g sc] r IH]; intros d t i Hns Hi; simpl in Hi; [lia|].
  assert (Hns' : no_sentinel r) by (intros p Hp; apply Hns; right; exact Hp).
  pose proof (Hns (g, sc) (or_introl eq_refl)) as Hs. cbn [snd] in Hs.
  cbn [fdrs]. rewrite Hs.
  destruct i as [|i].
  - cbn [nth firstn]. unfold ndecoy, ntarget. cbn [filter fst].
    destruct (is_decoy g); cbn [negb length]; f_equal; f_equal; lia.
  - cbn [nth]. rewrite IH by (try assumption; lia).
    change (firstn (S (S i)) ((g, sc) :: r)) with ((g, sc) :: firstn (S i) r).
    unfold ndecoy, ntarget. cbn [filter fst].
    destruct (is_decoy g); cbn [negb length]; rewrite ?Nat2Z.inj_succ; f_equal; f_equal; lia.
Qed.

Lemma fdrs_nth l i : no_sentinel l -> (i < length l)%nat ->
  nth i (fdrs 0 0 l) 0 =
  ((ndecoy (firstn (S i) l) + 1)%Z # Z.to_pos (ntarget (firstn (S i) l) + 1)).
Proof. intros Hns Hi. rewrite fdrs_nth_gen by assumption. f_equal. Qed.

(* ---- a group counts as decoy only if all of its proteins carry a decoy marker ---- *)
Lemma all_contain_spec g pat :
  all_contain g pat = true <-> forall p, In p g -> exists u v, p = u ++ pat ++ v.
Proof.
  unfold all_contain. rewrite forallb_forall. split; intros H p Hp; apply contains_spec, H, Hp.
Qed.

Lemma decoy_iff_all_marked g :
  is_decoy g = true <->
  (forall p, In p g -> exists u v, p = u ++ s2l "REV__" ++ v) \/
  (forall p, In p g -> exists u v, p = u ++ s2l "rev_" ++ v).
Proof. unfold is_decoy. rewrite orb_true_iff, !all_contain_spec. reflexivity. Qed.

Lemma calculate_ok l :
  fdrs 0 0 l <> [] -> calculate_protein_fdrs l = Ok (qvals (fdrs 0 0 l)).
Proof. unfold calculate_protein_fdrs. destruct (fdrs 0 0 l); [congruence | reflexivity]. Qed.
