(* Model of helpers.remove_modifications / remove_decoy_proteins_from_target_peptides, the peptide-to-protein
   mapper of parsers/psm.py, the per-format row decoders and parsers.evidence.parse_evidence_files.
   Cells are the strings the csv reader delivers; float(cell) (and the FragPipe / Sage transformations of it) is a
   tabulated oracle [num : str -> option Q] (None = NaN or not a number). *)
From PGF Require Import Base.Prelude Base.PyStr Base.StableSort Model.Fdr Model.Fasta Model.Annotation Model.Scoring.

(* ---- re.sub(open [^close]* close, "", s): leftmost, an opener without a later closer stays ---- *)
Fixpoint find_chr (c : N) (s : str) : option nat :=
  match s with
  | [] => None
  | x :: r => if N.eqb x c then Some 0 else match find_chr c r with Some n => Some (S n) | None => None end
  end.

(* a two-state scanner: an opener starts a dropped stretch only if a closer follows somewhere; once an opener has no
   closer after it, no later opener has one either, so the rest is kept verbatim *)
Fixpoint strip_go (op cl : N) (inside : bool) (s : str) : str :=
  match s with
  | [] => []
  | x :: r =>
    if inside then (if N.eqb x cl then strip_go op cl false r else strip_go op cl true r)
    else if N.eqb x op then (match find_chr cl r with Some _ => strip_go op cl true r | None => x :: r end)
    else x :: strip_go op cl false r
  end.
Definition strip_delim (op cl : N) (s : str) : str := strip_go op cl false s.

Definition lpar := 40%N. Definition rpar := 41%N. Definition lbr := 91%N. Definition rbr := 93%N.

(* str.strip("-"): the hyphen that attaches a terminal modification in ProForma notation ([UNIMOD:1]-PEPTIDE, PEPTIDE-[..]) *)
Definition dash := 45%N.
Fixpoint lstrip_chr (c : N) (s : str) : str :=
  match s with [] => [] | x :: r => if N.eqb x c then lstrip_chr c r else s end.
Definition strip_chr (c : N) (s : str) : str := rev (lstrip_chr c (rev (lstrip_chr c s))).

Definition strip_brackets (s : str) : str :=
  filter (fun c => negb (N.eqb c rpar)) (strip_delim lbr rbr (strip_delim lpar rpar s)).
Definition remove_modifications (s : str) : str := strip_chr dash (strip_brackets s).

(* ---- targets lose their decoy entries ---- *)
Definition is_decoy_id (p : str) : bool := startswith (s2l "REV__") p || startswith (s2l "rev_") p.
Definition remove_decoy_proteins_from_target_peptides (ps : list str) : list str :=
  if is_decoy ps then ps else filter (fun p => negb (is_decoy_id p)) ps.

(* ---- the mapper ---- *)
(* remap = Some map : proteins are looked up in the in-silico digest; None : taken from the file *)
Definition map_proteins (remap : option pp_map) (cfg : scfg) (md5 : str -> str) (modpep : str) (tmp : list str)
  : res (option (list str)) :=
  let prots := match remap with
               | Some m => map_get m (remove_modifications modpep)
               | None => tmp
               end in
  match remap, prots with
  | Some _, [] => Ok None                          (* peptide unknown to the digest: skipped *)
  | _, _ =>
    match filter_proteins cfg md5 prots with
    | Raise e => Raise e
    | Ok ps => Ok (Some (remove_decoy_proteins_from_target_peptides ps))
    end
  end.

(* ---- parse_evidence_files: best (strictly lowest) score per stripped peptide, first attaining row's proteins ---- *)
Definition pil_get (l : pil) (k : str) : option (Q * list str) :=
  match find (fun en => str_eqb (fst en) k) l with Some en => Some (snd en) | None => None end.
Fixpoint pil_set (l : pil) (k : str) (v : Q * list str) : pil :=
  match l with
  | [] => [(k, v)]
  | (k', v') :: r => if str_eqb k' k then (k', v) :: r else (k', v') :: pil_set r k v
  end.

(* a decoded row: (modified peptide, proteins after the mapper, score); score None = NaN *)
Definition drow := (str * list str * option Q)%type.

Definition ingest_step (acc : pil) (r : drow) : pil :=
  let '(modpep, prots, sc) := r in
  match sc with
  | None => acc
  | Some s =>
    let pep := remove_modifications modpep in
    match pil_get acc pep with
    | Some (cur, _) => if Qle_bool cur s then acc else pil_set acc pep (s, prots)     (* score >= current: skip *)
    | None => pil_set acc pep (s, prots)
    end
  end.
Definition ingest (rows : list drow) : pil := fold_left ingest_step rows [].

(* ---- per-format row decoders (cells -> raw (modified peptide, proteins from the file, score)) ---- *)
Fixpoint index_of (h : str) (hs : list str) : option nat :=
  match hs with [] => None | x :: r => if str_eqb x h then Some 0 else match index_of h r with Some n => Some (S n) | None => None end end.
Definition cell (row : list str) (i : nat) : str := nth i row [].
Definition lower_chr (c : N) : N := if N.leb 65 c && N.leb c 90 then (c + 32)%N else c.
Definition lower (s : str) : str := map lower_chr s.

Inductive fmt := FMaxQuant | FPercNative | FMokapot | FFragPipe | FSage | FDiann.
Definition rawrow := (str * list str * option Q)%type.

Definition drop_ends (s : str) : str := removelast (tl s).      (* s[1:-1] *)
(* flanking residues as Percolator writes them: "-.PEPTIDE.-", "K.PEPTIDE.A" - the second and the second-last character are dots
   and there are at least four characters (the form with two hyphens only was recognised before the repair D17) *)
Definition second_is_dot (s : str) : bool := match s with _ :: c :: _ => N.eqb c 46%N | _ => false end.
Definition has_flanks (s : str) : bool := (4 <=? length s)%nat && second_is_dot s && second_is_dot (rev s).
Definition strip_flanks (s : str) : str := firstn (length s - 4) (skipn 2 s).    (* s[2:-2] *)

(* [num] turns a score cell into the PEP the parser computes from it *)
Definition decode_rows (f : fmt) (razor : bool) (num : str -> option Q) (header : list str) (rows : list (list str))
  : res (list rawrow) :=
  match f with
  | FMaxQuant =>
    let h := map lower header in
    match index_of (s2l "modified sequence") h, index_of (s2l (if razor then "leading razor protein" else "leading proteins")) h,
          index_of (s2l "pep") h, index_of (s2l "leading proteins") h with
    | Some pc, Some prc, Some sc, Some _ =>
      Ok (map (fun r => (drop_ends (cell r pc), split_chr 59%N (cell r prc),
                         match cell r sc with [] => None | c => num c end)) rows)
    | _, _, _, _ => Raise ValueError
    end
  | FPercNative =>
    let h := map lower header in
    match index_of (s2l "psmid") h, index_of (s2l "peptide") h, index_of (s2l "score") h, index_of (s2l "q-value") h,
          index_of (s2l "posterior_error_prob") h, index_of (s2l "proteinids") h with
    | Some _, Some pc, Some _, Some _, Some sc, Some prc =>
      let flanks := match rows with r0 :: _ => has_flanks (cell r0 pc) | [] => false end in
      Ok (map (fun r => ((if flanks then strip_flanks (cell r pc) else cell r pc), skipn prc r, num (cell r sc))) rows)
    | _, _, _, _, _, _ => Raise ValueError
    end
  | FMokapot =>
    let h := map lower header in
    match index_of (s2l "specid") h, index_of (s2l "peptide") h, index_of (s2l "mokapot score") h,
          index_of (s2l "mokapot q-value") h, index_of (s2l "mokapot pep") h, index_of (s2l "proteins") h with
    | Some _, Some pc, Some _, Some _, Some sc, Some prc =>
      let flanks := match rows with r0 :: _ => has_flanks (cell r0 pc) | [] => false end in
      Ok (map (fun r => ((if flanks then strip_flanks (cell r pc) else cell r pc), split_chr 9%N (cell r prc), num (cell r sc))) rows)
    | _, _, _, _, _, _ => Raise ValueError
    end
  | FFragPipe =>
    match index_of (s2l "Peptide") header, index_of (s2l "Modified Peptide") header, index_of (s2l "SpectralSim") header,
          index_of (s2l "PeptideProphet Probability") header, index_of (s2l "Protein") header, index_of (s2l "Mapped Proteins") header with
    | Some pc, Some mc, Some _, Some sc, Some prc, Some oc =>
      Ok (map (fun r => ((match cell r mc with [] => cell r pc | m => m end),
                         cell r prc :: (match cell r oc with [] => [] | o => Annotation.split_on (s2l ", ") o end),
                         num (cell r sc))) rows)
    | _, _, _, _, _, _ => Raise ValueError
    end
  | FSage =>
    match index_of (s2l "peptide") header, index_of (s2l "charge") header, index_of (s2l "sage_discriminant_score") header,
          index_of (s2l "filename") header, index_of (s2l "posterior_error") header, index_of (s2l "proteins") header with
    | Some pc, Some _, Some _, Some _, Some sc, Some prc =>
      Ok (map (fun r => (cell r pc, split_chr 59%N (cell r prc), num (cell r sc))) rows)
    | _, _, _, _, _, _ => Raise ValueError
    end
  | FDiann =>
    match index_of (s2l "Modified.Sequence") header, index_of (s2l "Protein.Ids") header, index_of (s2l "Decoy") header,
          index_of (s2l "PEP") header with
    | Some pc, Some prc, Some dc, Some sc =>
      Ok (map (fun r => (cell r pc,
                         (let ps := split_chr 59%N (cell r prc) in
                          if str_eqb (cell r dc) (s2l "1") then map (fun p => s2l "REV__" ++ p) ps else ps),
                         num (cell r sc))) rows)
    | _, _, _, _ => Raise ValueError
    end
  end.

(* one file: decode, map, drop rows the mapper rejects *)
Fixpoint apply_mapper (remap : option pp_map) (cfg : scfg) (md5 : str -> str) (raw : list rawrow) : res (list drow) :=
  match raw with
  | [] => Ok []
  | (mp, tmp, sc) :: rest =>
    match map_proteins remap cfg md5 mp tmp with
    | Raise e => Raise e
    | Ok o =>
      match apply_mapper remap cfg md5 rest with
      | Raise e => Raise e
      | Ok l => Ok (match o with Some ((_ :: _) as ps) => (mp, ps, sc) :: l | _ => l end)
      end
    end
  end.

(* all files of one run, each with its own map *)
Fixpoint parse_files (f : fmt) (cfg : scfg) (md5 : str -> str) (num : str -> option Q)
         (files : list (option pp_map * list str * list (list str))) : res (list drow) :=
  match files with
  | [] => Ok []
  | (remap, header, rows) :: rest =>
    match decode_rows f (sc_razor cfg) num header rows with
    | Raise e => Raise e
    | Ok raw =>
      match apply_mapper remap cfg md5 raw, parse_files f cfg md5 num rest with
      | Ok a, Ok b => Ok (a ++ b)
      | Raise e, _ => Raise e
      | _, Raise e => Raise e
      end
    end
  end.

Definition parse_evidence_files (f : fmt) (cfg : scfg) (md5 : str -> str) (num : str -> option Q)
           (files : list (option pp_map * list str * list (list str))) : res pil :=
  match parse_files f cfg md5 num files with
  | Ok rows => Ok (ingest rows)
  | Raise e => Raise e
  end.
