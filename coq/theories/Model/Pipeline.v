(* Model of picked_group_fdr.get_protein_group_results: the composition of grouping, evidence collection,
   competition, FDR estimation and row construction, with the fields of the long-lived strategy objects
   threaded explicitly (so that history independence is a statement about the model). *)
From PGF Require Import Base.Prelude Base.PyStr Base.StableSort Model.Fdr Model.Results Model.ProteinGroups
  Model.Grouping Model.Scoring Model.Competition Model.Rescue.

Inductive grouping_kind := GNo | GSubset | GRescuedSubset | GPseudoGene | GMqNative | GRescuedMqNative.
Inductive score_kind := SBestPEP | SMultPEP | SAndromeda | SMQProtein.

Record method := {
  m_picked : strategy;
  m_grouping : grouping_kind;
  m_score : score_kind;
  m_razor : bool;
  m_shared : bool
}.

(* fields of the strategy objects that survive a call *)
Record pstate := {
  ps_seen : list str;                                          (* competition: seen proteins *)
  ps_counts : option pil;                                      (* scoring: razor tables (list they were built from) *)
  ps_pep_cutoff : option Q;                                    (* scoring: peptide_score_cutoff *)
  ps_rescue_cutoff : option Q;                                 (* grouping: score_cutoff *)
  ps_obsolete : option (list (list str) * list (list pinfo))   (* grouping: placeholder groups and their evidence *)
}.
Definition fresh : pstate :=
  {| ps_seen := []; ps_counts := None; ps_pep_cutoff := None; ps_rescue_cutoff := None; ps_obsolete := None |}.

(* everything the model takes from outside *)
Record oracles := {
  o_score : list pinfo -> Q;             (* ProteinScore.calculate_score, tabulated *)
  o_cutoff : list Q -> Q -> Q;           (* calc_post_err_prob_cutoff (PEPs, PSM-level FDR), tabulated (its own model: C17) *)
  o_pow10neg : Q -> Q;
  o_md5 : str -> str;
  o_split : graph -> list graph
}.

Definition can_rescue (k : score_kind) : bool :=
  match k with SBestPEP | SMultPEP => true | _ => false end.
Definition is_rescued (g : grouping_kind) : bool :=
  match g with GRescuedSubset | GRescuedMqNative => true | _ => false end.

Definition is_mult (k : score_kind) : bool := match k with SMultPEP => true | _ => false end.
Definition no_evidence (infos : list (list pinfo)) : bool :=
  forallb (fun i => match i with [] => true | _ => false end) infos.

Definition group_proteins (g : grouping_kind) (l : pil) : res pgs :=
  let m := pmap_of l in
  match g with
  | GNo => Ok (create_index (of_list (no_grouping m)))
  | GSubset | GRescuedSubset => Ok (generate_protein_groups m)
  | GPseudoGene => Ok (create_index (of_list (pseudo_gene_grouping m)))
  | GMqNative | GRescuedMqNative => Raise ValueError      (* needs a proteinGroups.txt file: not modelled *)
  end.

(* one pass (first pass or rescue pass) after the groups are fixed *)
Definition one_pass (me : method) (o : oracles) (st : pstate) (s : pgs) (l : pil) (rescue : bool)
           (keep_all : bool) (psm_cut : Q) (pi1 pi2 : list nat)
  : pstate * res (list (list pinfo) * list row) :=
  let cfg := {| sc_razor := m_razor me; sc_shared := m_shared me; sc_counts := ps_counts st |} in
  match collect cfg (o_md5 o) s rescue l with
  | Raise e => (st, Raise e)
  | Ok (infos, peps) =>
    let st1 := {| ps_seen := ps_seen st; ps_counts := ps_counts st; ps_pep_cutoff := Some (o_cutoff o peps psm_cut);
                  ps_rescue_cutoff := ps_rescue_cutoff st; ps_obsolete := ps_obsolete st |} in
    (* MultPEPScore.optimize_hyperparameters indexes an empty array when no group has any evidence *)
    if is_mult (m_score me) && no_evidence infos then (st1, Raise IndexError) else
    (* update_protein_groups: placeholders re-join the ranking for the picked-group strategy only *)
    let '(gs, is) :=
      match rescue, m_picked me, ps_obsolete st with
      | true, PickedGroup, Some (og, oi) => (groups s ++ og, infos ++ oi)
      | _, _, _ => (groups s, infos)
      end in
    let es := mk_entries gs is (map (o_score o) is) in
    (* the seen set is reset inside do_competition, before the loop (whatever an earlier, aborted competition left behind) and
       again behind it, before the final unpacking can fail *)
    let st2 := {| ps_seen := []; ps_counts := ps_counts st1; ps_pep_cutoff := ps_pep_cutoff st1;
                  ps_rescue_cutoff := ps_rescue_cutoff st1; ps_obsolete := ps_obsolete st1 |} in
    match do_competition (m_picked me) [] es pi1 pi2 with
    | Raise e => (st2, Raise e)
    | Ok ranked =>
      match calculate_protein_fdrs (map (fun e => (e_group e, e_score e)) ranked) with
      | Raise e => (st2, Raise e)
      | Ok qs =>
        let cut := if rescue then ps_pep_cutoff st2 else None in
        match from_protein_groups (map e_group ranked) (map e_infos ranked) (map e_score ranked) qs cut keep_all with
        | Raise e => (st2, Raise e)
        | Ok rows => (st2, Ok (infos, rows))
        end
      end
    end
  end.

Definition run (me : method) (o : oracles) (st : pstate) (l : pil) (keep_all : bool) (threshold psm_cut : Q)
           (pis : list (list nat)) : pstate * res (list row) :=
  match group_proteins (m_grouping me) l with
  | Raise e => (st, Raise e)
  | Ok s0 =>
    (* set_peptide_counts_per_protein *)
    let st0 := {| ps_seen := ps_seen st; ps_counts := if m_razor me then Some l else ps_counts st;
                  ps_pep_cutoff := ps_pep_cutoff st; ps_rescue_cutoff := ps_rescue_cutoff st;
                  ps_obsolete := ps_obsolete st |} in
    match one_pass me o st0 s0 l false keep_all psm_cut (nth 0 pis []) (nth 1 pis []) with
    | (st1, Raise e) => (st1, Raise e)
    | (st1, Ok (infos1, rows1)) =>
      if negb (is_rescued (m_grouping me)) then (st1, Ok rows1)
      else if negb (can_rescue (m_score me)) then (st1, Raise NotImplemented)
      else
        match rescue_score_cutoff (o_pow10neg o) (map (fun r => (r_score r, r_q r)) rows1) threshold with
        | Raise e => (st1, Raise e)
        | Ok rc =>
          let lf := filter_by_cutoff l rc in
          match merge_with_rescued (o_split o) lf (groups s0) with
          | Raise e => (st1, Raise e)
          | Ok (s2, og, oidx) =>
            let oi := map (fun i => nth i infos1 []) oidx in
            let st2 := {| ps_seen := ps_seen st1; ps_counts := ps_counts st1; ps_pep_cutoff := ps_pep_cutoff st1;
                          ps_rescue_cutoff := Some rc; ps_obsolete := Some (og, oi) |} in
            match one_pass me o st2 s2 l true keep_all psm_cut (nth 2 pis []) (nth 3 pis []) with
            | (st3, Raise e) => (st3, Raise e)
            | (st3, Ok (_, rows2)) => (st3, Ok rows2)
            end
          end
        end
    end
  end.
