(* Model of competition.ProteinCompetitionStrategy.do_competition and the three strategies. *)
From PGF Require Import Base.Prelude Base.PyStr Base.StableSort Model.Fdr Model.Results.

Definition clean_protein_id (p : str) : str :=
  replace_all (s2l "rev_") [] (replace_all (s2l "OBSOLETE__") [] (replace_all (s2l "REV__") [] p)).

Inductive strategy := Picked | PickedGroup | Classic.

(* one ranked entry: group, its evidence, its score, placeholder flag *)
Record entry := { e_group : list str; e_infos : list pinfo; e_score : Q; e_obs : bool }.

Definition group_string (g : list str) : str := join semicolon (map clean_protein_id g).

(* PickedGroupStrategy._select_proteins_for_picked with picking_strategy = "leading" *)
Definition leading_proteins (g : list str) (infos : list pinfo) : list str :=
  let cut := Some (101 # 100)%Q in
  let cnt := peptide_count infos cut in
  let mx := list_max (map cnt (g ++ concat (map pi_prots infos))) in
  filter (fun p => Nat.eqb (cnt p) mx) g.

(* identifiers a group is compared by ("member keys") and identifiers it blocks once kept ("lead keys") *)
Definition keys (st : strategy) (e : entry) : list str :=
  match st with
  | Picked => [group_string (e_group e)]
  | PickedGroup => map clean_protein_id (e_group e)
  | Classic => []
  end.
Definition picks (st : strategy) (e : entry) : list str :=
  match st with
  | Picked => [group_string (e_group e)]
  | PickedGroup => map clean_protein_id (leading_proteins (e_group e) (e_infos e))
  | Classic => []
  end.

Definition is_seen (st : strategy) (seen : list str) (e : entry) : bool :=
  existsb (fun k => mem_str k seen) (keys st e).

Definition dropped (st : strategy) (seen : list str) (e : entry) : bool :=
  is_seen st seen e || is_contaminant (e_group e).

Fixpoint greedy (st : strategy) (seen : list str) (l : list entry) : list entry :=
  match l with
  | [] => []
  | e :: r =>
    if dropped st seen e then greedy st seen r
    else e :: greedy st (picks st e ++ seen) r
  end.

(* sort keys.  First sort: (score, not obsolete) descending; second sort: score descending. *)
Definition key1_geb (a b : entry) : bool :=
  match Qcompare (e_score a) (e_score b) with
  | Gt => true
  | Lt => false
  | Eq => implb (e_obs a) (e_obs b)     (* not_obs a >= not_obs b *)
  end.
Definition key2_geb (a b : entry) : bool :=
  match Qcompare (e_score a) (e_score b) with Lt => false | _ => true end.

(* np.random.shuffle as an explicit permutation of positions *)
Definition apply_perm {A} (pi : list nat) (l : list A) : list A :=
  flat_map (fun i => match nth_error l i with Some x => [x] | None => [] end) pi.

Fixpoint mk_entries (gs : list (list str)) (is : list (list pinfo)) (ss : list Q) : list entry :=
  match gs, is, ss with
  | g :: gs', i :: is', s :: ss' =>
    {| e_group := g; e_infos := i; e_score := s; e_obs := is_obsolete g |} :: mk_entries gs' is' ss'
  | _, _, _ => []
  end.

Definition has_infos (e : entry) : bool := match e_infos e with [] => false | _ => true end.

Definition ranked (st : strategy) (seen0 : list str) (es : list entry) (pi1 : list nat) : list entry :=
  greedy st seen0 (isort key1_geb (apply_perm pi1 (filter has_infos es))).

Definition do_competition (st : strategy) (seen0 : list str) (es : list entry) (pi1 pi2 : list nat)
  : res (list entry) :=
  match isort key2_geb (apply_perm pi2 (ranked st seen0 es pi1)) with
  | [] => Raise ValueError      (* zip of nothing cannot be unpacked *)
  | l => Ok l
  end.
