(* Model of protein_groups.ProteinGroups as a state machine. *)
From PGF Require Import Base.Prelude Base.PyStr Base.StableSort.

Record pgs := {
  groups : list (list str);
  index : list (str * nat);      (* newest assignment first: lookup returns the last one written *)
  valid : bool
}.

Definition empty_pgs : pgs := {| groups := []; index := []; valid := false |}.
Definition of_list (gs : list (list str)) : pgs := {| groups := gs; index := []; valid := false |}.

Fixpoint lookup (ix : list (str * nat)) (p : str) : option nat :=
  match ix with
  | [] => None
  | (q, i) :: r => if str_eqb q p then Some i else lookup r p
  end.

(* create_index: for idx, group in enumerate(groups): for protein in group: map[protein] = idx *)
Fixpoint build_index (gs : list (list str)) (i : nat) (acc : list (str * nat)) : list (str * nat) :=
  match gs with
  | [] => acc
  | g :: r => build_index r (S i) (fold_left (fun a p => (p, i) :: a) g acc)
  end.

Definition create_index (s : pgs) : pgs :=
  {| groups := groups s; index := build_index (groups s) 0 []; valid := true |}.

Definition append (s : pgs) (g : list str) : pgs :=
  {| groups := groups s ++ [g]; index := index s; valid := false |}.

Definition extend (s : pgs) (gs : list (list str)) : pgs :=
  {| groups := groups s ++ gs; index := index s; valid := false |}.

Fixpoint set_nth {A} (l : list A) (i : nat) (x : A) : list A :=
  match l, i with
  | [], _ => []
  | _ :: r, O => x :: r
  | y :: r, S j => y :: set_nth r j x
  end.

(* merge_groups(superset_protein, protein): no validity check on the index *)
Definition merge_groups (s : pgs) (sup p : str) : res pgs :=
  match lookup (index s) sup with
  | None => Raise KeyError
  | Some si =>
    match lookup (index s) p with
    | None => Raise KeyError
    | Some pi =>
      match nth_error (groups s) si, nth_error (groups s) pi with
      | Some gsup, Some gp =>
        let gs1 := set_nth (groups s) si (gsup ++ gp) in
        Ok {| groups := set_nth gs1 pi []; index := index s; valid := false |}
      | _, _ => Raise IndexError
      end
    end
  end.

Definition nonempty {A} (l : list A) : bool := match l with [] => false | _ => true end.

Definition remove_empty_groups (s : pgs) : pgs :=
  create_index {| groups := filter nonempty (groups s); index := index s; valid := valid s |}.

Definition all_proteins (s : pgs) : list str := concat (groups s).

(* add_unseen_protein_groups: returns the new state and the obsolete (fully absorbed) groups with the
   positions they had in [other] *)
Definition obsolete_prefix : str := s2l "OBSOLETE__".

Fixpoint add_unseen_loop (seen : list str) (other : list (list str)) (acc : list (list str))
         (obs : list (list str)) (obs_idx : list nat) (i : nat)
  : list (list str) * list (list str) * list nat :=
  match other with
  | [] => (acc, obs, obs_idx)
  | g :: r =>
    let new := filter (fun p => negb (mem_str p seen)) g in
    match new with
    | [] => add_unseen_loop seen r acc (obs ++ [map (fun x => obsolete_prefix ++ x) g]) (obs_idx ++ [i]) (S i)
    | _ => add_unseen_loop seen r (acc ++ [new]) obs obs_idx (S i)
    end
  end.

Definition add_unseen (s : pgs) (other : list (list str)) : pgs * list (list str) * list nat :=
  let '(gs, obs, oi) := add_unseen_loop (all_proteins s) other (groups s) [] [] 0 in
  (create_index {| groups := gs; index := index s; valid := false |}, obs, oi).

(* ---------- lookups (default arguments: the index must be valid) ---------- *)
Definition get_protein_group (s : pgs) (p : str) : res (list str) :=
  if negb (valid s) then Raise StaleIndex
  else match lookup (index s) p with
       | None => Raise KeyError
       | Some i => match nth_error (groups s) i with
                   | Some g => Ok g
                   | None => Raise IndexError
                   end
       end.

(* set of indices, -1 for an unknown protein; returned as a duplicate-free ascending list *)
Fixpoint zinsert (x : Z) (l : list Z) : list Z :=
  match l with
  | [] => [x]
  | y :: r => if (x <? y)%Z then x :: l else if (x =? y)%Z then l else y :: zinsert x r
  end.

Definition idx_of (s : pgs) (p : str) : Z :=
  match lookup (index s) p with Some i => Z.of_nat i | None => (-1)%Z end.

Definition get_protein_group_idxs (s : pgs) (ps : list str) : res (list Z) :=
  if negb (valid s) then Raise StaleIndex
  else Ok (fold_left (fun acc p => zinsert (idx_of s p) acc) ps []).

(* get_protein_groups: the groups at the known indices (the missing marker -1 is not an index) *)
Fixpoint groups_at (gs : list (list str)) (idxs : list Z) : res (list (list str)) :=
  match idxs with
  | [] => Ok []
  | i :: r =>
    if (i <? 0)%Z then groups_at gs r
    else match nth_error gs (Z.to_nat i) with
         | None => Raise IndexError
         | Some g => match groups_at gs r with Ok l => Ok (g :: l) | Raise e => Raise e end
         end
  end.

Definition get_protein_groups (s : pgs) (ps : list str) : res (list (list str)) :=
  match get_protein_group_idxs s ps with
  | Raise e => Raise e
  | Ok idxs => groups_at (groups s) idxs
  end.

(* get_leading_proteins: set of the first protein of each protein's group (ascending list) *)
Fixpoint sinsert (x : str) (l : list str) : list str :=
  match l with
  | [] => [x]
  | y :: r => match str_compare x y with
              | Lt => x :: l
              | Eq => l
              | Gt => y :: sinsert x r
              end
  end.

Fixpoint leading_loop (s : pgs) (ps : list str) (acc : list str) : res (list str) :=
  match ps with
  | [] => Ok acc
  | p :: r =>
    match get_protein_group s p with
    | Raise e => Raise e
    | Ok [] => Raise IndexError
    | Ok (l :: _) => leading_loop s r (sinsert l acc)
    end
  end.
Definition get_leading_proteins (s : pgs) (ps : list str) : res (list str) := leading_loop s ps [].

(* ---------- operation language for the history theorems and the correspondence ---------- *)
Inductive op :=
  | OAppend (g : list str)
  | OExtend (gs : list (list str))
  | OMerge (sup p : str)
  | ORemoveEmpty
  | OCreateIndex
  | OAddUnseen (other : list (list str))
  | OReplace (gs : list (list str)).     (* the group list is edited from outside (groups dropped, proteins taken out) and re-indexed *)

(* a raising operation leaves the object unchanged (Python raises before mutating here) *)
Definition step (s : pgs) (o : op) : pgs :=
  match o with
  | OAppend g => append s g
  | OExtend gs => extend s gs
  | OMerge a b => match merge_groups s a b with Ok s' => s' | Raise _ => s end
  | ORemoveEmpty => remove_empty_groups s
  | OCreateIndex => create_index s
  | OAddUnseen other => fst (fst (add_unseen s other))
  | OReplace gs => create_index (of_list gs)
  end.

Definition run_ops (init : list (list str)) (ops : list op) : pgs :=
  fold_left step ops (create_index (of_list init)).
