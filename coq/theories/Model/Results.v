(* Model of results.ProteinGroupResult._get_peptide_counts / from_protein_group and
   ProteinGroupResults.from_protein_groups. *)
From PGF Require Import Base.Prelude Base.PyStr Base.StableSort Model.Fdr.

(* one evidence entry of a group: (PEP, peptide, proteins) *)
Definition pinfo := (Q * str * list str)%type.
Definition pi_pep (i : pinfo) : Q := fst (fst i).
Definition pi_peptide (i : pinfo) : str := snd (fst i).
Definition pi_prots (i : pinfo) : list str := snd i.

(* Python tuple comparison (PEP, peptide, proteins) *)
Definition pinfo_leb (a b : pinfo) : bool :=
  match Qcompare (pi_pep a) (pi_pep b) with
  | Lt => true
  | Gt => false
  | Eq => match str_compare (pi_peptide a) (pi_peptide b) with
          | Lt => true
          | Gt => false
          | Eq => match strs_compare (pi_prots a) (pi_prots b) with Gt => false | _ => true end
          end
  end.

(* score cutoff: None is +infinity (first pass) *)
Definition above (cut : option Q) (pep : Q) : bool :=
  match cut with None => false | Some c => negb (Qle_bool pep c) end.

(* the loop of _get_peptide_counts, specialised to one protein [p]:
   sorted entries, break above the cutoff, each peptide once, each protein once per peptide *)
Fixpoint count_loop (l : list pinfo) (cut : option Q) (seen : list str) (p : str) : nat :=
  match l with
  | [] => 0
  | i :: r =>
    if above cut (pi_pep i) then 0
    else if mem_str (pi_peptide i) seen then count_loop r cut seen p
    else (if mem_str p (pi_prots i) then 1 else 0) + count_loop r cut (pi_peptide i :: seen) p
  end.

Definition peptide_count (infos : list pinfo) (cut : option Q) (p : str) : nat :=
  count_loop (isort pinfo_leb infos) cut [] p.

Definition list_max (l : list nat) : nat := fold_right Nat.max 0 l.

Record row := {
  r_ids : str;                (* ";".join(listed proteins) *)
  r_majority : str;
  r_counts : list nat;        (* peptide counts (unique), one per listed protein *)
  r_best : str;
  r_nprot : nat;
  r_q : Q;
  r_score : Q;
  r_rev : bool;
  r_con : bool
}.

Definition semicolon : str := s2l ";".

Definition best_peptide (infos : list pinfo) : res str :=
  match isort (fun a b : Q * str =>
                 match Qcompare (fst a) (fst b) with
                 | Lt => true | Gt => false
                 | Eq => str_leb (snd a) (snd b)
                 end)
              (map (fun i => (pi_pep i, pi_peptide i)) infos) with
  | [] => Raise IndexError
  | (_, e) :: _ => Ok e
  end.

(* from_protein_group: None = the Python None (group filtered out) *)
Definition from_protein_group (g : list str) (infos : list pinfo) (q score : Q)
           (cut : option Q) (keep_all : bool) : res (option row) :=
  let counts := map (peptide_count infos cut) g in
  if (Nat.eqb (fold_right Nat.add 0 counts) 0) && negb keep_all then Ok None
  else
    let kept := filter (fun pc => negb (Nat.eqb (snd pc) 0) || keep_all) (combine g counts) in
    match kept with
    | [] => Raise ValueError          (* zip of an empty list cannot be unpacked into two names *)
    | _ =>
      match best_peptide infos with
      | Raise e => Raise e
      | Ok best =>
        let prots := map fst kept in
        let cs := map snd kept in
        let mx := list_max cs in
        let maj := map fst (filter (fun pc => Nat.leb mx (2 * snd pc)) kept) in
        Ok (Some {| r_ids := join semicolon prots;
                    r_majority := join semicolon maj;
                    r_counts := cs;
                    r_best := best;
                    r_nprot := length prots;
                    r_q := q; r_score := score;
                    r_rev := is_decoy prots;
                    r_con := is_contaminant prots |})
      end
    end.

(* from_protein_groups: positional zip of the four lists; placeholders and None rows skipped *)
Fixpoint from_protein_groups (gs : list (list str)) (is : list (list pinfo)) (scores qs : list Q)
         (cut : option Q) (keep_all : bool) : res (list row) :=
  match gs, is, scores, qs with
  | g :: gs', i :: is', s :: ss', q :: qs' =>
    if is_obsolete g then from_protein_groups gs' is' ss' qs' cut keep_all
    else
      match from_protein_group g i q s cut keep_all with
      | Raise e => Raise e
      | Ok None => from_protein_groups gs' is' ss' qs' cut keep_all
      | Ok (Some r) =>
        match from_protein_groups gs' is' ss' qs' cut keep_all with
        | Raise e => Raise e
        | Ok rs => Ok (r :: rs)
        end
      end
  | _, _, _, _ => Ok []
  end.
