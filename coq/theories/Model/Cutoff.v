(* Model of fdr.calc_post_err_prob_cutoff.
   A finite list of Python floats is a list of dyadic rationals; the harness puts them on a common
   denominator D, so a PEP is an integer v meaning v/D; None stands for NaN / +-inf.  The FDR level
   is the rational ln/ld.  The result is again in units of 1/D (so 1.0 is D). *)
From PGF Require Import Base.Prelude Base.StableSort.
Open Scope Z_scope.

Definition finite (l : list (option Z)) : list Z :=
  flat_map (fun o => match o with Some v => [v] | None => [] end) l.

(* mean of n values summing to [sum] exceeds the level:  sum/(D*n) > ln/ld *)
Definition exceeds (D : positive) (ln : Z) (ld : positive) (sum n : Z) : bool :=
  ln * Zpos D * n <? sum * Zpos ld.

Fixpoint scan (D : positive) (ln : Z) (ld : positive) (sum n : Z) (l : list Z) : option Z :=
  match l with
  | [] => None
  | p :: r =>
    let s := sum + p in
    let n' := n + 1 in
    if exceeds D ln ld s n' then Some p else scan D ln ld s n' r
  end.

Definition cutoff (D : positive) (ln : Z) (ld : positive) (l : list (option Z)) : Z :=
  match scan D ln ld 0 0 (isort Z.leb (finite l)) with
  | Some p => p
  | None => Zpos D
  end.
