(* Model of digest.read_fasta_maxquant, swap_special_aas, get_peptide_to_protein_map(_from_params),
   get_proteins, get_num_peptides_per_protein (iBAQ) and the peptide-to-protein map file. *)
From PGF Require Import Base.Prelude Base.PyStr Base.StableSort Model.Digest Model.Grouping.

(* ---- str.rstrip(): whitespace = space, \t, \n, \v, \f, \r (and the ASCII separators 28-31) ---- *)
Definition is_ws (c : N) : bool :=
  N.eqb c 32 || (N.leb 9 c && N.leb c 13) || (N.leb 28 c && N.leb c 31).
Fixpoint rstrip (s : str) : str :=
  match s with
  | [] => []
  | c :: r => match rstrip r with
              | [] => if is_ws c then [] else [c]
              | r' => c :: r'
              end
  end.

Definition gt : N := 62%N.     (* ">" *)
Definition space : N := 32%N.

Definition parse_until_first_space (h : str) : str := hd [] (split_chr space h).

(* swap_special_aas: left to right, a special residue is swapped with its (current) predecessor *)
Fixpoint swap_loop (special : list N) (prev : N) (rest : str) : str :=
  match rest with
  | [] => [prev]
  | c :: r => if inl c special then c :: swap_loop special prev r else prev :: swap_loop special c r
  end.
Definition swap_special_aas (special : list N) (s : str) : str :=
  match s with [] => [] | c :: r => swap_loop special c r end.

Inductive dbmode := DbTarget | DbDecoy | DbConcat.
Definition decoy_prefix : str := s2l "REV__".

Definition emit (db : dbmode) (special : list N) (name : str) (seq : str) : list (str * str) :=
  (match db with DbTarget | DbConcat => [(name, seq)] | DbDecoy => [] end) ++
  (match db with
   | DbDecoy | DbConcat =>
     let r := rev seq in
     [(decoy_prefix ++ name, match special with [] => r | _ => swap_special_aas special r end)]
   | DbTarget => []
   end).

(* the line loop; [name] = None before the first header *)
Fixpoint fasta_loop (parse_id : str -> str) (db : dbmode) (special : list N)
         (lines : list str) (name : option str) (seq : str) : list (str * str) :=
  match lines with
  | [] => match name with Some n => match n with [] => [] | _ => emit db special n seq end | None => [] end
  | l0 :: rest =>
    let l := rstrip l0 in
    match l with
    | c :: hdr =>
      if N.eqb c gt then
        (match name with Some n => match n with [] => [] | _ => emit db special n seq end | None => [] end) ++
        (match hdr with
         | [] => fasta_loop parse_id db special rest name seq      (* bare ">": nothing is reset (malformed input) *)
         | _ => fasta_loop parse_id db special rest (Some (parse_id hdr)) []
         end)
      else fasta_loop parse_id db special rest name (seq ++ l)
    | [] => fasta_loop parse_id db special rest name seq
    end
  end.

Definition read_fasta (parse_id : str -> str) (db : dbmode) (special : list N) (lines : list str) : list (str * str) :=
  fasta_loop parse_id db special lines None [].

(* ---- the map: ordered association list peptide(key) -> proteins ---- *)
Definition pp_map := list (str * list str).

Fixpoint map_get (m : pp_map) (k : str) : list str :=
  match m with [] => [] | (k', v) :: r => if str_eqb k' k then v else map_get r k end.

Fixpoint map_append (m : pp_map) (k : str) (p : str) : pp_map :=
  match m with
  | [] => [(k, [p])]
  | (k', v) :: r => if str_eqb k' k then (k', v ++ [p]) :: r else (k', v) :: map_append r k p
  end.

(* peptides of one protein, each key once, in generation order *)
Definition add_protein (dig : str -> list str) (key : str -> str) (m : pp_map) (rec : str * str) : pp_map :=
  fold_left (fun m' k => map_append m' k (fst rec)) (dedup [] (map key (dig (snd rec)))) m.

Definition build_map (dig : str -> list str) (key : str -> str) (records : list (str * str)) : pp_map :=
  fold_left (add_protein dig key) records [].

Definition hash_key (p : str) : str := firstn 6 p.

(* merging the maps of several parameter sets / files: proteins already listed for a peptide are not repeated *)
Definition merge_into (m : pp_map) (tmp : pp_map) : pp_map :=
  match m with
  | [] => tmp
  | _ => fold_left (fun m' kv =>
                      fold_left (fun m'' p => if mem_str p (map_get m'' (fst kv)) then m'' else map_append m'' (fst kv) p)
                                (snd kv) m') tmp m
  end.
Definition merge_maps (ms : list pp_map) : pp_map := fold_left merge_into ms [].

(* get_proteins on a (hash map, sequence map) pair: non-specific searches *)
Definition seq_get (sm : list (str * str)) (p : str) : str :=
  fold_left (fun acc r => if str_eqb (fst r) p then snd r else acc) sm [].   (* later records override *)

Definition get_proteins_hashed (m : pp_map) (sm : list (str * str)) (pep : str) : list str :=
  isort str_leb (filter (fun p => contains pep (seq_get sm p)) (map_get m (hash_key pep))).

(* get_num_peptides_per_protein *)
Definition num_peptides (m : pp_map) (p : str) : nat :=
  fold_left (fun n kv => n + count_occ (list_eq_dec N.eq_dec) (snd kv) p) m 0.

(* iBAQ parameter override *)
Definition ibaq_window (mn mx : nat) : nat * nat := (Nat.max 6 mn, Nat.min 30 mx).

(* the map file: one row [peptide, ";".join(proteins)] per key; reading splits on ";" and appends *)
Definition semicolon_chr : N := 59%N.
Definition write_rows (m : pp_map) : list (str * str) := map (fun kv => (fst kv, join [semicolon_chr] (snd kv))) m.
Definition read_rows (rows : list (str * str)) : pp_map :=
  fold_left (fun m r => fold_left (fun m' p => map_append m' (fst r) p) (split_chr semicolon_chr (snd r)) m) rows [].
