(* C03, pseudo-gene clause: a boolean checker of "the groups are exactly the connected components of the
   shares-a-peptide relation".  It is proved sound in Proofs/GroupingCheckProofs.v and evaluated by the kernel on
   the IMPLEMENTATION's groups in every pseudo-gene correspondence case. *)
From PGF Require Import Base.Prelude Base.PyStr Model.ProteinGroups Model.Grouping.

Section Check.
Variable m : pmap.

Definition adj (a b : str) : bool := share_peptide m a b.

Fixpoint nodupb (l : list str) : bool :=
  match l with [] => true | x :: r => negb (mem_str x r) && nodupb r end.

Definition group_connected (g : list str) : bool :=
  match g with
  | [] => false
  | u :: _ => forallb (fun x => mem_str x (closure (length g) adj g [u])) g
  end.

Definition closed_under_sharing (groups : list (list str)) : bool :=
  let all := concat groups in
  forallb (fun g => forallb (fun x => forallb (fun y => negb (adj x y) || mem_str y g) all) g) groups.

Definition components_ok (groups : list (list str)) : bool :=
  let all := concat groups in
  nodupb all && forallb (fun p => mem_str p all) (prot_order m) && forallb (fun p => mem_str p (prot_order m)) all &&
  forallb group_connected groups && closed_under_sharing groups.
End Check.
