(* Model of protein_annotation.py (header field parsers, annotation dictionaries, gene-level switch) and
   columns/protein_annotations.py. *)
From PGF Require Import Base.Prelude Base.PyStr Base.StableSort Model.Digest Model.Grouping Model.Fasta.

(* str.split(sep) for a non-empty multi-character separator: leftmost, non-overlapping *)
Fixpoint split_fuel (fuel : nat) (sep : str) (cur : str) (s : str) : list str :=
  match fuel with
  | O => [rev cur ++ s]
  | S f =>
    match s with
    | [] => [rev cur]
    | c :: s' =>
      if startswith sep s then rev cur :: split_fuel f sep [] (skipn (length sep) s)
      else split_fuel f sep (c :: cur) s'
    end
  end.
Definition split_on (sep s : str) : list str := split_fuel (S (length s)) sep [] s.

Definition nth_str (i : nat) (l : list str) : str := nth i l [].

Definition sp : str := [32%N].
Definition s_OS : str := s2l " OS=".
Definition s_GN : str := s2l " GN=".
Definition s_PE : str := s2l " PE=".
Definition bar : str := [124%N].

(* " ".join(header.split(" OS=")[0].split(" ")[1:]) *)
Definition parse_protein_name (h : str) : str := join sp (tl (split_on sp (nth_str 0 (split_on s_OS h)))).
Definition parse_organism (h : str) : option str :=
  if contains s_OS h then Some (nth_str 0 (split_on s_GN (nth_str 1 (split_on s_OS h)))) else None.
Definition parse_gene_name (h : str) : option str :=
  if contains s_GN h then Some (nth_str 0 (split_on sp (nth_str 1 (split_on s_GN h)))) else None.

(* int(...) of a decimal string; anything else is a ValueError *)
Definition digit (c : N) : bool := N.leb 48 c && N.leb c 57.
Definition parse_int (s : str) : res N :=
  match s with
  | [] => Raise ValueError
  | _ => if forallb digit s then Ok (fold_left (fun a c => (a * 10 + (c - 48))%N) s 0%N) else Raise ValueError
  end.
Definition parse_existence (h : str) : res (option N) :=
  if contains s_PE h then
    match parse_int (nth_str 0 (split_on sp (nth_str 1 (split_on s_PE h)))) with
    | Ok n => Ok (Some n) | Raise e => Raise e
    end
  else Ok None.

Definition count_sub1 (c : N) (s : str) : nat := length (filter (N.eqb c) s).
Definition parse_uniprot_id (h : str) : str :=
  let id := parse_until_first_space h in
  if contains bar id then nth_str 1 (split_on bar id) else id.
Definition parse_entry_name (h : str) : str :=
  let id := parse_until_first_space h in
  if contains bar id && Nat.leb 2 (count_sub1 124%N id) then nth_str 2 (split_on bar id) else id.

Record annot := {
  a_id : str; a_header : str; a_uniprot : str; a_entry : str; a_gene : option str;
  a_length : nat; a_organism : option str; a_description : str; a_existence : option N
}.

Inductive idrule := IdFull | IdUniprot | IdGene.
(* the identifier; None stands for Python's None (a header without GN= under the gene rule) *)
Definition id_of (r : idrule) (h : str) : option str :=
  match r with
  | IdFull => Some (parse_until_first_space h)
  | IdUniprot => Some (parse_uniprot_id h)
  | IdGene => parse_gene_name h
  end.

(* dictionary keyed by identifier (None is a legal Python dict key) *)
Definition okey := option str.
Definition okey_eqb (a b : okey) : bool :=
  match a, b with Some x, Some y => str_eqb x y | None, None => true | _, _ => false end.

Definition mk_annot (r : idrule) (rec : str * str) : res (okey * annot) :=
  let h := fst rec in
  match parse_existence h with
  | Raise e => Raise e
  | Ok ex =>
    Ok (id_of r h,
        {| a_id := match id_of r h with Some i => i | None => [] end; a_header := h; a_uniprot := parse_uniprot_id h;
           a_entry := parse_entry_name h; a_gene := parse_gene_name h; a_length := length (snd rec);
           a_organism := parse_organism h; a_description := parse_protein_name h; a_existence := ex |})
  end.

Definition adict := list (okey * annot).
Fixpoint ad_mem (d : adict) (k : okey) : bool :=
  match d with [] => false | (k', _) :: r => okey_eqb k' k || ad_mem r k end.
Fixpoint ad_get (d : adict) (k : okey) : option annot :=
  match d with [] => None | (k', v) :: r => if okey_eqb k' k then Some v else ad_get r k end.
(* dict assignment d[k] = v: an existing key keeps its position *)
Fixpoint ad_set (d : adict) (k : okey) (v : annot) : adict :=
  match d with
  | [] => [(k, v)]
  | (k', v') :: r => if okey_eqb k' k then (k', v) :: r else (k', v') :: ad_set r k v
  end.

(* get_protein_annotations_single: within a file the first record wins *)
Fixpoint single_loop (r : idrule) (recs : list (str * str)) (d : adict) : res adict :=
  match recs with
  | [] => Ok d
  | rec :: rest =>
    match mk_annot r rec with
    | Raise e => Raise e
    | Ok (k, a) => single_loop r rest (if ad_mem d k then d else d ++ [(k, a)])
    end
  end.

(* get_protein_annotations_multiple: {**old, **new} - across files the later file wins *)
Fixpoint multiple (r : idrule) (files : list (list (str * str))) (d : adict) : res adict :=
  match files with
  | [] => Ok d
  | f :: rest =>
    match single_loop r f [] with
    | Raise e => Raise e
    | Ok d1 => multiple r rest (fold_left (fun acc kv => ad_set acc (fst kv) (snd kv)) d1 d)
    end
  end.

Definition has_gene (a : annot) : bool := match a_gene a with Some (_ :: _) => true | _ => false end.
(* counts / len > 1/2 *)
Definition has_gene_names (d : adict) : res bool :=
  match d with
  | [] => Raise OtherError    (* ZeroDivisionError *)
  | _ => Ok (Nat.ltb (length d) (2 * length (filter (fun kv => has_gene (snd kv)) d)))
  end.

(* get_protein_annotations: (annotations, use_pseudo_genes); files are given as record lists (header, sequence) *)
Definition get_protein_annotations (files : list (list (str * str))) (gene_level use_uniprot : bool)
  : res (adict * bool) :=
  match multiple (if use_uniprot then IdUniprot else IdFull) files [] with
  | Raise e => Raise e
  | Ok d =>
    if gene_level then
      match has_gene_names d with
      | Raise e => Raise e
      | Ok true => match multiple IdGene files [] with Ok d2 => Ok (d2, false) | Raise e => Raise e end
      | Ok false => Ok (d, true)
      end
    else Ok (d, false)
  end.

(* ProteinAnnotationsColumns.append_columns for one row: (protein names, gene names, fasta headers) *)
Definition add_once (x : str) (l : list str) : list str := if mem_str x l then l else l ++ [x].
Definition found_annots (d : adict) (protein_ids : str) : list annot :=
  flat_map (fun p => match ad_get d (Some p) with Some a => [a] | None => [] end) (split_chr 59%N protein_ids).
Definition once_fold (l : list str) : list str := fold_left (fun acc x => add_once x acc) l [].
Definition annotation_columns (d : adict) (protein_ids : str) : str * str * str :=
  let f := found_annots d protein_ids in
  (join [59%N] (once_fold (map a_id f)),
   join [59%N] (once_fold (flat_map (fun a => match a_gene a with Some g => [g] | None => [] end) f)),
   join [59%N] (once_fold (map a_header f))).
