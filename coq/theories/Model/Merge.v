(* Model of pipeline/update_evidence_from_pout.py (Andromeda-style identifiers) with
   parsers.percolator.parse_percolator_out_file_to_dict / parse_andromeda_psmid_and_peptide and
   parsers.maxquant.parse_evidence_file_for_percolator_matching.  Cells are strings; the float round trip
   repr(float(cell)) of the two rewritten cells is a tabulated oracle [fmt]. *)
From PGF Require Import Base.Prelude Base.PyStr Base.StableSort Model.ProteinGroups Model.Ingest.

Definition us : N := 95%N.   (* "_" *)

(* int(cell): optional sign, decimal digits *)
Definition parse_nat_cell (s : str) : option Z :=
  match s with
  | [] => None
  | _ => if forallb (fun c => N.leb 48 c && N.leb c 57) s
         then Some (Z.of_N (fold_left (fun a c => (a * 10 + (c - 48))%N) s 0%N)) else None
  end.

(* parse_andromeda_psmid_and_peptide *)
Definition normalise_peptide (p : str) : str :=
  replace_all (s2l "M[16]") (s2l "M(ox)") (replace_all (s2l "[42]") (s2l "(ac)") p).

Definition drop_last3 {A} (l : list A) : list A := firstn (length l - 3) l.
Definition third_last (l : list str) : str := nth (length l - 3) l [].

Definition parse_psmid (psm_id : str) : res (str * Z) :=
  let parts := split_chr us psm_id in
  if Nat.ltb (length parts) 3 then Raise IndexError
  else match parse_nat_cell (third_last parts) with
       | Some n => Ok (join [us] (drop_last3 parts), n)
       | None => Raise ValueError
       end.

(* results: raw file -> (scan, peptide) -> (score cell, PEP cell); later rows override *)
Definition rkey := (Z * str)%type.
Definition rkey_eqb (a b : rkey) : bool := Z.eqb (fst a) (fst b) && str_eqb (snd a) (snd b).
Definition rdict := list (str * list (rkey * (str * str))).

Fixpoint inner_set (l : list (rkey * (str * str))) (k : rkey) (v : str * str) :=
  match l with
  | [] => [(k, v)]
  | (k', v') :: r => if rkey_eqb k' k then (k', v) :: r else (k', v') :: inner_set r k v
  end.
Fixpoint inner_get (l : list (rkey * (str * str))) (k : rkey) : option (str * str) :=
  match l with [] => None | (k', v) :: r => if rkey_eqb k' k then Some v else inner_get r k end.
Fixpoint rd_get (d : rdict) (raw : str) : list (rkey * (str * str)) :=
  match d with [] => [] | (r, l) :: rest => if str_eqb r raw then l else rd_get rest raw end.
Fixpoint rd_set (d : rdict) (raw : str) (k : rkey) (v : str * str) : rdict :=
  match d with
  | [] => [(raw, [(k, v)])]
  | (r, l) :: rest => if str_eqb r raw then (r, inner_set l k v) :: rest else (r, l) :: rd_set rest raw k v
  end.

(* one percolator result file: (id column, peptide column, score column, PEP column, rows) *)
Fixpoint add_pout (cols : nat * nat * nat * nat) (rows : list (list str)) (d : rdict) : res rdict :=
  match rows with
  | [] => Ok d
  | r :: rest =>
    let '(ic, pc, sc, ec) := cols in
    match parse_psmid (cell r ic) with
    | Raise e => Raise e
    | Ok (raw, scan) =>
      add_pout cols rest (rd_set d raw (scan, normalise_peptide (strip_flanks (cell r pc))) (cell r sc, cell r ec))
    end
  end.

Fixpoint add_pouts (files : list ((nat * nat * nat * nat) * list (list str))) (d : rdict) : res rdict :=
  match files with
  | [] => Ok d
  | (cols, rows) :: rest => match add_pout cols rows d with Ok d' => add_pouts rest d' | Raise e => Raise e end
  end.

(* evidence columns: (score, pep, raw file, scan number, modified sequence) *)
Definition ecols := (nat * nat * nat * nat * nat)%type.

Definition set_nth_str (l : list str) (i : nat) (v : str) : list str := PGF.Model.ProteinGroups.set_nth l i v.

Definition update_row (fmt : str -> str) (d : rdict) (c : ecols) (row : list str) : res (option (list str)) :=
  let '(sc, ec, rc, nc, pc) := c in
  let scan := match cell row nc with [] => Some (-1)%Z | s => parse_nat_cell s end in
  match scan with
  | None => Raise ValueError
  | Some n =>
    if Nat.eqb (length d) 0 || Z.eqb n (-1) then Ok (Some row)                 (* no results at all, or a match-between-runs row *)
    else
      match rd_get d (cell row rc) with
      | [] => Ok None                                                          (* raw file absent from the results *)
      | l =>
        match inner_get l (n, drop_ends (cell row pc)) with
        | None => Ok None                                                      (* no matching PSM *)
        | Some (s, e) => Ok (Some (set_nth_str (set_nth_str row sc (fmt s)) ec (fmt e)))
        end
      end
  end.

Fixpoint update_rows (fmt : str -> str) (d : rdict) (c : ecols) (rows : list (list str)) : res (list (list str)) :=
  match rows with
  | [] => Ok []
  | r :: rest =>
    match update_row fmt d c r, update_rows fmt d c rest with
    | Ok (Some r'), Ok l => Ok (r' :: l)
    | Ok None, Ok l => Ok l
    | Raise e, _ => Raise e
    | _, Raise e => Raise e
    end
  end.

(* all evidence files: header of the first, then the rows of all files in order *)
Fixpoint update_files (fmt : str -> str) (d : rdict) (files : list (ecols * list (list str))) : res (list (list str)) :=
  match files with
  | [] => Ok []
  | (c, rows) :: rest =>
    match update_rows fmt d c rows, update_files fmt d rest with
    | Ok a, Ok b => Ok (a ++ b)
    | Raise e, _ => Raise e
    | _, Raise e => Raise e
    end
  end.

Definition merge_evidence (fmt : str -> str) (pouts : list ((nat * nat * nat * nat) * list (list str)))
           (first_header : list str) (files : list (ecols * list (list str))) : res (list (list str)) :=
  match add_pouts pouts [] with
  | Raise e => Raise e
  | Ok d => match update_files fmt d files with Ok rows => Ok (first_header :: rows) | Raise e => Raise e end
  end.
