(* Model of observed_peptides.ObservedPeptides (create, _get_superset_proteins, generate_protein_groups)
   and grouping.NoGrouping / SubsetGrouping / PseudoGeneGrouping. *)
From PGF Require Import Base.Prelude Base.PyStr Base.StableSort Model.ProteinGroups.

(* ordered peptide -> proteins map (keys distinct: it is a Python dict) *)
Definition pmap := list (str * list str).

Fixpoint proteins_of (m : pmap) (e : str) : list str :=
  match m with
  | [] => []
  | (e', ps) :: r => if str_eqb e' e then ps else proteins_of r e
  end.

Fixpoint dedup (seen : list str) (l : list str) : list str :=
  match l with
  | [] => []
  | x :: r => if mem_str x seen then dedup seen r else x :: dedup (x :: seen) r
  end.

(* keys of protein_to_peptides_dict, in insertion order *)
Definition prot_order (m : pmap) : list str := dedup [] (concat (map snd m)).

Fixpoint count_str (p : str) (l : list str) : nat :=
  match l with [] => 0 | x :: r => (if str_eqb x p then 1 else 0) + count_str p r end.

(* protein_to_peptides_dict[p]: one entry per occurrence of p in a peptide's protein list *)
Definition peptides_of (m : pmap) (p : str) : list str :=
  flat_map (fun ep => repeat (fst ep) (count_str p (snd ep))) m.

(* _get_superset_proteins, with its early exit *)
Fixpoint narrow (m : pmap) (cands : list str) (peps : list str) : list str :=
  match peps with
  | [] => cands
  | e :: r =>
    let c := filter (fun p => mem_str p (proteins_of m e)) cands in
    if Nat.eqb (length c) 1 then c else narrow m c r
  end.

Definition superset_proteins (m : pmap) (peps : list str) : list str :=
  match peps with
  | [] => []            (* never called with an empty list: every dict key has a peptide *)
  | e0 :: r => narrow m (proteins_of m e0) r
  end.

Definition npep_geb (m : pmap) (a b : str) : bool :=
  Nat.leb (length (peptides_of m b)) (length (peptides_of m a)).

(* slot lookup without validity check: groups[index[p]] *)
Definition slot (s : pgs) (p : str) : list str :=
  match lookup (index s) p with
  | Some i => nth i (groups s) []
  | None => []
  end.

Definition group_step (m : pmap) (s : pgs) (p : str) : pgs :=
  let cands := isort (npep_geb m) (superset_proteins m (peptides_of m p)) in
  match find (fun q => nonempty (slot s q) && negb (str_eqb p q)) cands with
  | None => s
  | Some q => match merge_groups s q p with Ok s' => s' | Raise _ => s end
  end.

Definition generate_protein_groups (m : pmap) : pgs :=
  let prots := prot_order m in
  let s0 := create_index (of_list (map (fun p => [p]) prots)) in
  remove_empty_groups (fold_left (group_step m) prots s0).

Definition subset_grouping (m : pmap) : list (list str) := groups (generate_protein_groups m).

Definition no_grouping (m : pmap) : list (list str) := map (fun p => [p]) (prot_order m).

(* ---------- pseudo-gene grouping ---------- *)
Definition share_peptide (m : pmap) (a b : str) : bool :=
  existsb (fun e => mem_str e (peptides_of m b)) (peptides_of m a).

(* reachability by fuel-bounded closure over the leading proteins *)
Fixpoint closure (fuel : nat) (adj : str -> str -> bool) (nodes : list str) (reach : list str) : list str :=
  match fuel with
  | O => reach
  | S f =>
    let next := filter (fun n => negb (mem_str n reach) && existsb (fun r => adj r n) reach) nodes in
    match next with
    | [] => reach
    | _ => closure f adj nodes (reach ++ next)
    end
  end.

Definition component (m : pmap) (leaders : list str) (u : str) : list str :=
  closure (length leaders) (share_peptide m) leaders [u].

Definition str_min (l : list str) (d : str) : str :=
  fold_left (fun a x => if str_ltb x a then x else a) l d.

(* get_connected_proteins: every component is merged into its smallest protein, the others in sorted order *)
Definition pseudo_gene_grouping (m : pmap) : list (list str) :=
  let s1 := generate_protein_groups m in
  let leaders := flat_map (fun g => match g with [] => [] | x :: _ => [x] end) (groups s1) in
  let s2 := fold_left
    (fun s u =>
       let comp := isort str_leb (component m leaders u) in
       match comp with
       | l :: rest => if str_eqb l u
                      then fold_left (fun s' p => match merge_groups s' l p with Ok t => t | Raise _ => s' end) rest s
                      else s
       | [] => s
       end)
    leaders s1 in
  groups (remove_empty_groups s2).
