(* Model of the skip-if-present publication protocol of update_evidence_from_pout and andromeda2pin:
   if the final path exists do nothing; otherwise write everything to <final>.tmp, close it, rename it. *)
From PGF Require Import Base.Prelude.

Record fs := { f_out : option (list N); f_tmp : option (list N) }.

Inductive fop := OpenTrunc | Write (bs : list N) | Close | Rename.

Definition exec (s : fs) (o : fop) : fs :=
  match o with
  | OpenTrunc => {| f_out := f_out s; f_tmp := Some [] |}
  | Write bs => {| f_out := f_out s; f_tmp := match f_tmp s with Some c => Some (c ++ bs) | None => None end |}
  | Close => s
  | Rename => match f_tmp s with
              | Some c => {| f_out := Some c; f_tmp := None |}
              | None => s                                      (* rename of a missing file fails; never happens in prog *)
              end
  end.

Definition run_fs (ops : list fop) (s : fs) : fs := fold_left exec ops s.

(* the operations one invocation of the step performs on the two paths, for output chunks [chunks] *)
Definition prog (s : fs) (chunks : list (list N)) : list fop :=
  match f_out s with
  | Some _ => []
  | None => OpenTrunc :: map Write chunks ++ [Close; Rename]
  end.

(* the state found on disk if the process is killed after its first k operations: buffered data may be lost,
   so an unclosed temporary file holds some prefix [p] of what was written to it *)
Definition is_prefix (p c : list N) : Prop := exists r, c = p ++ r.
Definition crash_states (s0 : fs) (chunks : list (list N)) (k : nat) (s : fs) : Prop :=
  let s' := run_fs (firstn k (prog s0 chunks)) s0 in
  f_out s = f_out s' /\
  match f_tmp s' with
  | Some c => exists p, is_prefix p c /\ f_tmp s = Some p
  | None => f_tmp s = None
  end.

(* n further invocations of the step *)
Fixpoint reruns (chunks : list (list N)) (n : nat) (s : fs) : fs :=
  match n with
  | O => s
  | S m => let t := reruns chunks m s in run_fs (prog t chunks) t
  end.
