(* Model of helpers._all_contain / is_decoy / is_obsolete / is_contaminant and of
   fdr.calculate_protein_fdrs + fdr.fdrs_to_qvals (reported q-values). *)
From PGF Require Import Base.Prelude Base.PyStr.
From Coq Require Import Qminmax.
Local Open Scope Q_scope.

Definition all_contain (g : list str) (pat : str) : bool := forallb (contains pat) g.
Definition is_contaminant (g : list str) : bool := all_contain g (s2l "CON__").
Definition is_decoy (g : list str) : bool :=
  all_contain g (s2l "REV__") || all_contain g (s2l "rev_").
Definition is_obsolete (g : list str) : bool := all_contain g (s2l "OBSOLETE__").

Definition sentinel : Q := (-100)#1.

(* the running (decoys+1)/(targets+1); stops at the first score equal to -100.0 *)
Fixpoint fdrs (d t : Z) (l : list (list str * Q)) : list Q :=
  match l with
  | [] => []
  | (g, sc) :: r =>
    if Qeq_bool sc sentinel then []
    else
      let d' := if is_decoy g then (d + 1)%Z else d in
      let t' := if is_decoy g then t else (t + 1)%Z in
      ((d' + 1)%Z # Z.to_pos (t' + 1)) :: fdrs d' t' r
  end.

(* np.minimum.accumulate(fdrs[::-1])[::-1] *)
Fixpoint qvals (l : list Q) : list Q :=
  match l with
  | [] => []
  | x :: r => match qvals r with
              | [] => [x]
              | (y :: _) as qr => Qmin x y :: qr
              end
  end.

Definition calculate_protein_fdrs (l : list (list str * Q)) : res (list Q) :=
  match fdrs 0 0 l with
  | [] => Raise NoScores
  | f => Ok (qvals f)
  end.
