(* Model of ProteinGroupResults as a table (headers + rows of extra columns), the column generators of the
   writers (header lists and number of cells per row), ProteinGroupResults.write with and without a header
   dictionary, and pipeline.filter_fdr_maxquant.filterProteinGroupsAtFDR. *)
From PGF Require Import Base.Prelude Base.PyStr Base.Csv.
From Coq Require Import DecimalString.

Definition dec (n : nat) : str := s2l (NilEmpty.string_of_uint (Nat.to_uint n)).

Definition base_headers : list str :=
  map s2l ["Protein IDs"; "Majority protein IDs"; "Peptide counts (unique)"; "Best peptide"; "Number of proteins";
           "Q-value"; "Score"; "Reverse"; "Potential contaminant"]%string.

(* what the generators depend on *)
Record tstate := { t_exps : list str; t_silac : nat; t_tmt : nat }.

Definition silac_channels (n : nat) : list str :=
  match n with 3 => map s2l ["L"; "M"; "H"]%string | 2 => map s2l ["L"; "H"]%string | _ => [] end.

Inductive gen := GAnnot | GDiannAnnot | GUniquePep | GIdType | GSumIbaq | GLfq | GSeqCov | GTmt | GEvidenceIds.

Definition gen_valid (st : tstate) (g : gen) : bool :=
  match g with
  | GLfq => Nat.ltb 1 (length (t_exps st)) && Nat.eqb (t_tmt st) 0
  | GTmt => Nat.ltb 0 (t_tmt st)
  | _ => true
  end.

Definition pre (p : string) (e : str) : str := s2l p ++ e.

Definition gen_headers (st : tstate) (g : gen) : list str :=
  let E := t_exps st in
  let S := silac_channels (t_silac st) in
  match g with
  | GAnnot => map s2l ["Protein names"; "Gene names"; "Fasta headers"]%string
  | GDiannAnnot => map s2l ["Protein.Group"; "Protein.Names"; "Genes"; "First.Protein.Description"]%string
  | GUniquePep => s2l "Combined Total Peptides" :: map (pre "Unique peptides ") E
  | GIdType => map (pre "Identification type ") E
  | GSumIbaq =>
    (s2l "Intensity" :: flat_map (fun e => pre "Intensity " e :: map (fun c => s2l "Intensity " ++ c ++ s2l " " ++ e) S) E) ++
    (s2l "Number of theoretical peptides iBAQ" :: s2l "iBAQ" ::
     flat_map (fun e => pre "iBAQ " e :: map (fun c => s2l "iBAQ " ++ c ++ s2l " " ++ e) S) E)
  | GLfq =>
    flat_map (fun e => match t_silac st with
                       | O => [pre "LFQ Intensity " e]
                       | _ => map (fun c => s2l "LFQ Intensity " ++ c ++ s2l " " ++ e) S
                       end) E
  | GSeqCov =>
    map s2l ["Sequence coverage [%]"; "Unique + razor sequence coverage [%]"; "Unique sequence coverage [%]"]%string ++
    map (pre "Sequence coverage [%] ") E
  | GTmt =>
    flat_map (fun e =>
      map (fun i => s2l "Reporter intensity corrected " ++ dec i ++ s2l " " ++ e) (seq 1 (t_tmt st)) ++
      map (fun i => s2l "Reporter intensity " ++ dec i ++ s2l " " ++ e) (seq 1 (t_tmt st)) ++
      map (fun i => s2l "Reporter intensity count " ++ dec i ++ s2l " " ++ e) (seq 1 (t_tmt st))) E
  | GEvidenceIds => [s2l "Evidence IDs"]
  end.

(* number of cells each generator appends to every row *)
Definition gen_ncols (st : tstate) (g : gen) : nat :=
  let E := length (t_exps st) in
  let S := length (silac_channels (t_silac st)) in
  match g with
  | GAnnot => 3
  | GDiannAnnot => 4
  | GUniquePep => 1 + E
  | GIdType => E
  | GSumIbaq => 1 + E * (1 + S) + 1 + 1 + E * (1 + S)
  | GLfq => match t_silac st with O => E | _ => E * S end
  | GSeqCov => 3 + E
  | GTmt => E * (3 * t_tmt st)
  | GEvidenceIds => 1
  end.

Record table := { headers : list str; extra : list (list str) }.   (* one list of extra cells per row *)

Definition init_table (n_rows : nat) : table := {| headers := base_headers; extra := repeat [] n_rows |}.

(* append_header raises on a duplicate column name *)
Fixpoint append_headers (hs : list str) (new : list str) : res (list str) :=
  match new with
  | [] => Ok hs
  | h :: r => if mem_str h hs then Raise ValueError else append_headers (hs ++ [h]) r
  end.

(* ProteinGroupColumns.append: the cells come from [cells g i] (row index i); their values are C12's subject *)
Definition gen_append (st : tstate) (cells : gen -> nat -> list str) (g : gen) (t : table) : res table :=
  if negb (gen_valid st g) then Ok t
  else match append_headers (headers t) (gen_headers st g) with
       | Raise e => Raise e
       | Ok hs => Ok {| headers := hs; extra := map (fun ir => snd ir ++ cells g (fst ir)) (combine (seq 0 (length (extra t))) (extra t)) |}
       end.

Fixpoint gens_append (st : tstate) (cells : gen -> nat -> list str) (gs : list gen) (t : table) : res table :=
  match gs with
  | [] => Ok t
  | g :: r => match gen_append st cells g t with Ok t' => gens_append st cells r t' | Raise e => Raise e end
  end.

Definition maxquant_gens (skip_lfq : bool) : list gen :=
  [GAnnot; GUniquePep; GIdType; GSumIbaq] ++ (if skip_lfq then [] else [GLfq]) ++ [GSeqCov; GTmt; GEvidenceIds].
Definition diann_gens : list gen := [GDiannAnnot; GUniquePep; GLfq].
Definition minimal_gens : list gen := [GAnnot].

(* ---- writing ---- *)
Fixpoint index_str (h : str) (hs : list str) : option nat :=
  match hs with [] => None | x :: r => if str_eqb x h then Some 0 else match index_str h r with Some n => Some (S n) | None => None end end.

(* rows as full cell lists: 9 base cells ++ extra cells *)
Definition write_plain (hs : list str) (rows : list (list str)) : list (list str) := hs :: rows.

(* with a header dictionary (output name -> table column): list.index raises ValueError for an unknown column *)
Fixpoint pick (hs : list str) (row : list str) (cols : list str) : res (list str) :=
  match cols with
  | [] => Ok []
  | c :: r => match index_str c hs with
              | None => Raise ValueError
              | Some i => match pick hs row r with Ok l => Ok (nth i row [] :: l) | Raise e => Raise e end
              end
  end.
Fixpoint write_dict_rows (hs : list str) (rows : list (list str)) (cols : list str) : res (list (list str)) :=
  match rows with
  | [] => Ok []
  | r :: rest => match pick hs r cols, write_dict_rows hs rest cols with
                 | Ok a, Ok b => Ok (a :: b) | Raise e, _ => Raise e | _, Raise e => Raise e end
  end.
Definition write_dict (hs : list str) (rows : list (list str)) (d : list (str * str)) : res (list (list str)) :=
  match write_dict_rows hs rows (map snd d) with Ok l => Ok (map fst d :: l) | Raise e => Raise e end.

(* DIA-NN writer's header dictionary *)
Definition diann_dict (exps : list str) : list (str * str) :=
  [(s2l "Protein.Group", s2l "Protein.Group"); (s2l "Protein.Names", s2l "Protein.Names"); (s2l "Genes", s2l "Genes");
   (s2l "First.Protein.Description", s2l "First.Protein.Description");
   (s2l "N.Sequences", s2l "Combined Total Peptides"); (s2l "N.Proteotypic.Sequences", s2l "Combined Total Peptides")] ++
  (if Nat.ltb 1 (length exps) then map (fun e => (e, s2l "LFQ Intensity " ++ e)) exps else []).

(* ---- the FDR filter: header plus the rows whose q-value is at most the cutoff; [qle] = float(cell) <= cutoff, tabulated ---- *)
Definition filter_fdr (qle : str -> bool) (file : list (list str)) : res (list (list str)) :=
  match file with
  | [] => Raise OtherError        (* StopIteration on an empty file *)
  | h :: rows =>
    match index_str (s2l "Q-value") h with
    | None => Raise ValueError
    | Some qc => Ok (h :: filter (fun r => qle (nth qc r [])) rows)
    end
  end.
