(* Model of digest.is_enzymatic, non_specific_digest, semi_specific_digest, full_digest,
   get_digested_peptides.  Residues are code points; an enzyme is three residue lists. *)
From PGF Require Import Base.Prelude Base.PyStr.

Definition inl (c : N) (l : list N) : bool := existsb (N.eqb c) l.

Record enzyme := { pre : list N; not_post : list N; post : list N }.

Definition is_enzymatic (e : enzyme) (aa1 aa2 : N) : bool :=
  (inl aa1 (pre e) && negb (inl aa2 (not_post e))) || inl aa2 (post e).

Definition slice (s : str) (a b : nat) : str := firstn (b - a) (skipn a s).   (* s[a:b] *)
Definition at_ (s : str) (i : nat) : N := nth i s 0%N.
Definition resM : N := 77%N.   (* "M" *)

Definition in_window (mn mx l : nat) : bool := Nat.leb mn l && Nat.leb l mx.

(* ---------- non-specific ---------- *)
Definition non_specific_digest (s : str) (mn mx : nat) : list str :=
  flat_map (fun i =>
              flat_map (fun j => if Nat.leb j (length s) then [slice s i j] else [])
                       (seq (i + mn) (Nat.min (length s + 1) (i + mx + 1) - (i + mn))))
           (seq 0 (length s + 1)).

(* ---------- full ---------- *)
(* cut after index i (between i and i+1), i in [0, n-2] *)
Definition site_after (e : enzyme) (s : str) (i : nat) : bool := is_enzymatic e (at_ s i) (at_ s (i + 1)).

Definition full_sites (e : enzyme) (s : str) (met : bool) : list nat :=
  (if met then [0] else []) ++ filter (site_after e s) (seq 0 (length s - 1)) ++ [length s - 1].

Fixpoint full_loop (s : str) (mn mx mc : nat) (met : bool) (sites : list nat) (starts : list nat) : list str :=
  match sites with
  | [] => []
  | i :: rest =>
    let out := flat_map (fun st => if in_window mn mx (i + 1 - st) then [slice s st (i + 1)] else []) starts in
    let starts1 := starts ++ [i + 1] in
    let mcl := if Nat.eqb (hd 1 starts1) 0 && met then 1 else 0 in
    let starts2 := if Nat.ltb (mc + 1 + mcl) (length starts1) then skipn (1 + mcl) starts1 else starts1 in
    out ++ full_loop s mn mx mc met rest starts2
  end.

Definition full_digest (e : enzyme) (s : str) (mn mx mc : nat) (met0 : bool) : list str :=
  let met := met0 && N.eqb (at_ s 0) resM in
  full_loop s mn mx mc met (full_sites e s met) [0].

(* ---------- semi-specific ---------- *)
Fixpoint semi_loop (e : enzyme) (s : str) (mn mx mc : nat) (is : list nat) (met : bool) (starts : list nat) : list str :=
  match is with
  | [] => []
  | i :: rest =>
    let n := length s in
    let cleav := is_enzymatic e (at_ s (Nat.min (n - 1) i)) (at_ s (Nat.min (n - 1) (i + 1))) in
    let met_site := Nat.eqb i 0 && met in
    let met' := if met_site && cleav then false else met in
    if Nat.eqb i n || cleav || met_site then
      let st := hd 0 starts in
      let out := flat_map (fun j => if in_window mn mx (Nat.min i (n - 1) + 1 - j) then [slice s j (i + 1)] else [])
                          (seq st (Nat.min (i + 1) n - st)) in
      let starts1 := starts ++ [i + 1] in
      let mcl := if Nat.eqb (hd 1 starts1) 0 && met' then 1 else 0 in
      let starts2 := if Nat.ltb (mc + 1 + mcl) (length starts1) || Nat.eqb i n then skipn (1 + mcl) starts1 else starts1 in
      out ++ semi_loop e s mn mx mc rest met' starts2
    else
      let out := flat_map (fun st => if in_window mn mx (i + 1 - st) && negb (existsb (Nat.eqb (i + 1)) starts)
                                     then [slice s st (i + 1)] else []) starts in
      out ++ semi_loop e s mn mx mc rest met' starts
  end.

Definition semi_specific_digest (e : enzyme) (s : str) (mn mx mc : nat) (met0 : bool) : list str :=
  let met := met0 && N.eqb (at_ s 0) resM in
  semi_loop e s mn mx mc (seq 0 (length s + 1)) met [0].

Inductive digestion := DFull | DSemi | DNone.

Definition get_digested_peptides (e : enzyme) (d : digestion) (s : str) (mn mx mc : nat) (met : bool) : list str :=
  match d with
  | DNone => non_specific_digest s mn mx
  | DSemi => semi_specific_digest e s mn mx mc met
  | DFull => full_digest e s mn mx mc met
  end.

(* ================= the declarative cleavage rule ================= *)
(* b in [1, n-1] is an enzymatic site: after a 'pre' residue not followed by a 'not_post' residue, or before a 'post' residue *)
Definition site (e : enzyme) (s : str) (b : nat) : bool :=
  Nat.leb 1 b && Nat.ltb b (length s) && is_enzymatic e (at_ s (b - 1)) (at_ s b).

Definition met_site (s : str) (met0 : bool) (b : nat) : bool :=
  Nat.eqb b 1 && met0 && N.eqb (at_ s 0) resM.

(* b is an admissible peptide terminus *)
Definition term (e : enzyme) (s : str) (met0 : bool) (b : nat) : bool :=
  Nat.eqb b 0 || Nat.eqb b (length s) || site e s b || met_site s met0 b.

Definition inner_sites (e : enzyme) (s : str) (a b : nat) : nat :=
  length (filter (fun c => Nat.ltb a c && Nat.ltb c b && site e s c) (seq 0 (length s + 1))).

(* number of admissible termini required: 2 = full, 1 = semi, 0 = none *)
Definition spec_ok (e : enzyme) (k : nat) (s : str) (mn mx mc : nat) (met0 : bool) (a b : nat) : bool :=
  Nat.ltb a b && Nat.leb b (length s) && in_window mn mx (b - a) &&
  match k with
  | 0 => true
  | _ => Nat.leb k ((if term e s met0 a then 1 else 0) + (if term e s met0 b then 1 else 0)) &&
         Nat.leb (inner_sites e s a b) mc
  end.

Definition spec_digest (e : enzyme) (k : nat) (s : str) (mn mx mc : nat) (met0 : bool) : list str :=
  flat_map (fun a => flat_map (fun b => if spec_ok e k s mn mx mc met0 a b then [slice s a b] else [])
                              (seq 0 (length s + 1)))
           (seq 0 (length s + 1)).

Definition k_of (d : digestion) : nat := match d with DFull => 2 | DSemi => 1 | DNone => 0 end.

(* set equality of peptide lists *)
Definition subset_strs (x y : list str) : bool := forallb (fun p => mem_str p y) x.
Definition same_set (x y : list str) : bool := subset_strs x y && subset_strs y x.
