(* Model of columns/lfq.py (MaxLFQ): the exact, executable layer over Q.
   _getPeptideIntensities, the validity structure and medians of _getLogMedianPeptideRatios,
   _applyLargeRatioStabilization (log values kept symbolic: a list of (coefficient, argument) meaning
   sum coef * ln(arg)), the edge set / zero columns of _buildLinearSystem and _scaleEqualSum.
   The least-squares solve itself is specified over R in Proofs/LfqSpec.v. *)
From PGF Require Import Base.Prelude Base.PyStr Base.StableSort Model.Fdr Model.Grouping Model.Quant.

Local Open Scope Q_scope.

Definition Qlt_bool (a b : Q) : bool := negb (Qle_bool b a).

Record lprec := {
  l_peptide : str; l_charge : Z; l_exp : nat; l_expname : str; l_fraction : str;
  l_intensity : option Q;        (* None = NaN *)
  l_pep : option Q;              (* None = NaN: match-between-runs *)
  l_silac : list Q
}.

Definition to_prec (p : lprec) : prec :=
  {| p_peptide := l_peptide p; p_proteins := []; p_charge := l_charge p; p_exp := l_expname p;
     p_intensity := l_intensity p; p_pep := l_pep p; p_silac := l_silac p; p_tmt := []; p_id := 0%Z |}.

(* ---------------- _getPeptideIntensities ---------------- *)
Definition l_used (cut : Q) (p : lprec) : bool :=
  match l_intensity p with Some x => Qlt_bool (0#1) x | None => false end && counts cut (to_prec p).

Definition the_intensity (p : lprec) : Q := match l_intensity p with Some x => x | None => 0#1 end.

(* sort key (peptide, charge, experiment, fraction, -intensity, PEP); a NaN PEP compares "not less" both ways *)
Definition key_leb (a b : lprec) : bool :=
  match str_compare (l_peptide a) (l_peptide b) with Lt => true | Gt => false | Eq =>
  match Z.compare (l_charge a) (l_charge b) with Lt => true | Gt => false | Eq =>
  match str_compare (l_expname a) (l_expname b) with Lt => true | Gt => false | Eq =>
  match str_compare (l_fraction a) (l_fraction b) with Lt => true | Gt => false | Eq =>
  match Qcompare (the_intensity b) (the_intensity a) with Lt => true | Gt => false | Eq =>
  match l_pep a, l_pep b with Some x, Some y => Qle_bool x y | _, _ => true end
  end end end end end.

Definition pkey := (str * Z)%type.
Definition pkey_eqb (a b : pkey) : bool := str_eqb (fst a) (fst b) && Z.eqb (snd a) (snd b).

Fixpoint add_at (v : list Q) (k : nat) (x : Q) : list Q :=
  match v, k with
  | [], _ => []
  | y :: r, O => (y + x)%Q :: r
  | y :: r, S k' => y :: add_at r k' x
  end.

Fixpoint upd (m : list (pkey * list Q)) (k : pkey) (f : list Q -> list Q) (zero : list Q) : list (pkey * list Q) :=
  match m with
  | [] => [(k, f zero)]
  | (k', v) :: r => if pkey_eqb k k' then (k', f v) :: r else (k', v) :: upd r k f zero
  end.

Definition zeros (n : nat) : list Q := repeat (0#1)%Q n.

Definition block_key := (str * str * str * Z)%type.      (* experiment, fraction, peptide, charge *)
Definition block_of (p : lprec) : block_key := (l_expname p, l_fraction p, l_peptide p, l_charge p).
Definition block_eqb (a b : block_key) : bool :=
  let '(e1, f1, p1, c1) := a in let '(e2, f2, p2, c2) := b in
  str_eqb e1 e2 && str_eqb f1 f2 && str_eqb p1 p2 && Z.eqb c1 c2.

Definition pi_state := (list (pkey * list Q) * Q * option block_key)%type.

Fixpoint enum_from {A} (k : nat) (l : list A) : list (nat * A) :=
  match l with [] => [] | x :: r => (k, x) :: enum_from (S k) r end.

Definition pi_step (ns ncols : nat) (st : pi_state) (p : lprec) : pi_state :=
  let '(m, tot, prev) := st in
  let cur := block_of p in
  if match prev with Some b => block_eqb b cur | None => false end then st
  else
    let k := (l_peptide p, l_charge p) in
    if (0 <? ns)%nat then
      let m' := fold_left (fun mm ix => upd mm k (fun v => add_at v (l_exp p * ns + fst ix) (snd ix)) (zeros ncols))
                          (enum_from 0 (l_silac p)) m in
      (m', fold_left Qplus (l_silac p) tot, Some cur)
    else (upd m k (fun v => add_at v (l_exp p) (the_intensity p)) (zeros ncols), (tot + the_intensity p)%Q, Some cur).

Definition peptide_intensities (cut : Q) (ns ncols : nat) (l : list lprec) : list (pkey * list Q) * Q :=
  let sorted := isort key_leb (filter (l_used cut) l) in
  let '(m, tot, _) := fold_left (pi_step ns ncols) sorted ([], 0#1, None) in (m, tot).

(* ---------------- _getLogMedianPeptideRatios ---------------- *)
Definition col (M : list (list Q)) (k : nat) : list Q := map (fun row => nth k row (0#1)) M.
Definition nonzero (x : Q) : bool := negb (Qeq_bool x (0#1)).
Definition count_nonzero (c : list Q) : nat := length (filter nonzero c).

Definition median (l : list Q) : Q :=
  let s := isort Qle_bool l in
  let n := length s in
  if Nat.even n then ((nth (n / 2 - 1) s (0#1) + nth (n / 2) s (0#1)) / (2#1))%Q else nth (n / 2) s (0#1).

Fixpoint pairs {A} (l : list A) : list (A * A) :=       (* itertools.combinations(l, 2) *)
  match l with [] => [] | x :: r => map (fun y => (x, y)) r ++ pairs r end.

Definition has_edge (g : list (nat * nat)) (i j : nat) : bool :=
  existsb (fun e => (Nat.eqb (fst e) i && Nat.eqb (snd e) j) || (Nat.eqb (fst e) j && Nat.eqb (snd e) i)) g.

Definition both_ratios (ci cj : list Q) : list Q :=
  flat_map (fun ab => if nonzero (fst ab) && nonzero (snd ab) then [(fst ab / snd ab)%Q] else []) (combine ci cj).

Definition edge := (nat * nat)%type.

Definition median_ratios (M : list (list Q)) (ncols minr : nat) (graph : option (list edge)) (min_samples : nat)
  : list (edge * Q) :=
  let valid := filter (fun k => minr <=? count_nonzero (col M k))%nat (seq 0 ncols) in
  flat_map (fun ij =>
    let '(i, j) := ij in
    if match graph with Some g => (min_samples <=? length valid)%nat && negb (has_edge g i j) | None => false end then []
    else
      let rs := both_ratios (col M i) (col M j) in
      if (length rs <? minr)%nat then [] else [((i, j), median rs)]) (pairs valid).

(* ---------------- _applyLargeRatioStabilization ---------------- *)
Definition logexpr := list (Q * Q).      (* sum of coef * ln(arg) *)

Fixpoint drop_every (step : nat) (l : list Q) (fuel : nat) : list Q :=      (* del l[::step] *)
  match fuel, l with
  | S f, _ :: r => firstn (step - 1) r ++ drop_every step (skipn (step - 1) r) f
  | _, _ => []
  end.

Definition lookup_edge {V} (m : list (edge * V)) (i j : nat) : option V :=
  match filter (fun kv => Nat.eqb (fst (fst kv)) i && Nat.eqb (snd (fst kv)) j) m with
  | (_, v) :: _ => Some v | [] => None end.

Definition stab_value (pc1 pc2 : nat) (si1 si2 med : Q) : logexpr :=
  let a := inject_Z (Z.of_nat pc1) in let b := inject_Z (Z.of_nat pc2) in
  let r := if Qlt_bool a b then (b / a)%Q else (a / b)%Q in
  if Qlt_bool (5#1) r then [(1#1, si1 / si2)]%Q
  else if Qlt_bool (5#2) r then
    let w := ((r - (5#2)) / (5#2))%Q in [(w, si1 / si2); ((1#1) - w, med)]%Q
  else [(1#1, med)]%Q.

Definition summed_and_counts (cut : Q) (exps : list str) (ns : nat) (l : list lprec) : list Q * list nat :=
  let pl := map to_prec l in
  let ints := intensities cut exps ns pl in
  let summed := if (0 <? ns)%nat then drop_every (S ns) ints (length ints) else ints in
  let cnt := tl (unique_peptides cut exps pl) in
  (summed, flat_map (fun c => repeat c (Nat.max 1 ns)) cnt).

Definition stabilize (cut : Q) (exps : list str) (ns : nat) (l : list lprec) (ratios : list (edge * Q))
  : list (edge * logexpr) :=
  let '(summed, cnt) := summed_and_counts cut exps ns l in
  map (fun kv =>
    let '((i, j), med) := kv in
    let pc1 := nth i cnt 0%nat in let pc2 := nth j cnt 0%nat in
    if (Nat.eqb pc1 0%nat || Nat.eqb pc2 0%nat || negb (i <? length summed)%nat || negb (j <? length summed)%nat
        || negb (i <? length cnt)%nat || negb (j <? length cnt)%nat)
    then ((i, j), [(1#1, med)]%Q)
    else ((i, j), stab_value pc1 pc2 (nth i summed (0#1)) (nth j summed (0#1)) med)) ratios.

Definition no_stabilize (ratios : list (edge * Q)) : list (edge * logexpr) :=
  map (fun kv => (fst kv, [(1#1, snd kv)]%Q)) ratios.

(* ---------------- linear system: which samples are linked ---------------- *)
Definition seen (edges : list edge) (k : nat) : bool := existsb (fun e => Nat.eqb (fst e) k || Nat.eqb (snd e) k) edges.

(* ---------------- _scaleEqualSum ---------------- *)
Definition scale_equal_sum (v : list Q) (total : Q) : list Q :=
  let s := qsum v in if Qlt_bool (0#1) s then map (fun x => (total / s * x)%Q) v else v.

(* the exact part of _getLFQIntensities: everything up to the linear system *)
Record lfq_stage := { st_matrix : list (pkey * list Q); st_total : Q; st_ratios : list (edge * Q); st_logs : list (edge * logexpr) }.

Definition lfq_exact (cut : Q) (exps : list str) (ns minr : nat) (stab : bool) (graph : option (list edge)) (min_samples : nat)
  (l : list lprec) : lfq_stage :=
  let ncols := (length exps * Nat.max 1 ns)%nat in
  let '(m, tot) := peptide_intensities cut ns ncols l in
  let ratios := match m with [] => [] | _ => median_ratios (map snd m) ncols minr graph min_samples end in
  let logs := match ratios with [] => [] | _ => if stab then stabilize cut exps ns l ratios else no_stabilize ratios end in
  {| st_matrix := m; st_total := tot; st_ratios := ratios; st_logs := logs |}.

(* ---------------- fastlfq.build_graph / prune_graph ---------------- *)
(* samples: the peptide set of every sample, in sample-index order.  Edge weights are 1 / (overlap + 1e-6): ascending weight
   is descending overlap, and only that order is used. *)
Definition overlap (a b : list str) : nat := length (filter (fun p => mem_str p b) (dedup [] a)).

Definition wedge := (nat * nat * nat)%type.     (* i, j, overlap; i < j *)
Definition all_edges (samples : list (list str)) : list wedge :=
  map (fun ij => (fst ij, snd ij, overlap (nth (fst ij) samples []) (nth (snd ij) samples []))) (pairs (seq 0 (length samples))).

Definition by_overlap_desc (a b : wedge) : bool := (snd b <=? snd a)%nat.

Definition norm_edge (i j : nat) : edge := if (i <=? j)%nat then (i, j) else (j, i).
Definition add_edge (g : list edge) (i j : nat) : list edge := if has_edge g i j then g else g ++ [norm_edge i j].

Definition knn_edges (samples : list (list str)) (min_neighbors : nat) : list edge :=
  let n := length samples in
  fold_left (fun g node =>
    let nb := map (fun k => (k, overlap (nth node samples []) (nth k samples [])))
                  (filter (fun k => negb (Nat.eqb k node)) (seq 0 n)) in
    let sorted := isort (fun a b => (snd b <=? snd a)%nat) nb in
    fold_left (fun g' kv => add_edge g' node (fst kv)) (firstn min_neighbors sorted) g) (seq 0 n) [].

(* add edges in sorted order until the average degree reaches avg (checked after each addition) *)
Fixpoint add_until_avg (n avg : nat) (es : list wedge) (g : list edge) : list edge :=
  match es with
  | [] => g
  | (i, j, _) :: r =>
    if has_edge g i j then add_until_avg n avg r g
    else let g' := add_edge g i j in
         if (avg * n <=? 2 * length g')%nat then g' else add_until_avg n avg r g'
  end.

(* connectivity by n rounds of neighbourhood expansion from node 0 *)
Definition expand (g : list edge) (reach : list nat) (n : nat) : list nat :=
  filter (fun k => existsb (Nat.eqb k) reach || existsb (fun r => has_edge g r k) reach) (seq 0 n).
Definition connected (g : list edge) (n : nat) : bool :=
  match n with
  | O => false      (* networkx raises on the null graph; never reached: a graph is built only for >= 1 sample *)
  | _ => Nat.eqb (length (Nat.iter n (fun r => expand g r n) [0%nat])) n
  end.

Fixpoint add_until_connected (n : nat) (es : list wedge) (g : list edge) : list edge :=
  match es with
  | [] => g
  | (i, j, _) :: r =>
    if has_edge g i j then add_until_connected n r g
    else let g' := add_edge g i j in if connected g' n then g' else add_until_connected n r g'
  end.

Definition fast_lfq_graph (samples : list (list str)) (min_neighbors avg_neighbors : nat) : list edge :=
  let n := length samples in
  let es := isort by_overlap_desc (all_edges samples) in
  let g1 := knn_edges samples min_neighbors in
  let g2 := add_until_avg n avg_neighbors es g1 in
  if connected g2 n then g2 else add_until_connected n es g2.
