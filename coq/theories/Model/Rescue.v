(* Model of the rescue regrouping: RescuedGrouping.{_calculate_rescue_score_cutoff,
   _filter_peptide_list_by_score_cutoff, get_rescued_protein_groups, merge_with_rescued_protein_groups,
   update_protein_groups}, ObservedPeptides.get_connected_proteins and
   ConnectedProteinGraphs.decouple_connected_proteins.  The minimum-cut search of networkx is an oracle. *)
From PGF Require Import Base.Prelude Base.PyStr Base.StableSort Model.Fdr Model.Results Model.ProteinGroups
  Model.Grouping Model.Scoring.

(* ---- rescue score cutoff ---- *)
Definition qmin_list (l : list Q) (d : Q) : Q :=
  match l with [] => d | x :: r => fold_left qmin r x end.

(* rows: (score, q-value); pow10neg: the tabulated 10^(-x) *)
Definition rescue_score_cutoff (pow10neg : Q -> Q) (rows : list (Q * Q)) (threshold : Q) : res Q :=
  let ident := map fst (filter (fun r => negb (Qle_bool threshold (snd r))) rows) in
  let scores := match ident with [] => map fst rows | _ => ident end in
  match scores with
  | [] => Raise ValueError                    (* min() of an empty sequence *)
  | _ => Ok (pow10neg (qmin_list scores (0#1)%Q))
  end.

Definition filter_by_cutoff (l : pil) (cut : Q) : pil :=
  filter (fun en => negb (Qle_bool cut (fst (snd en)))) l.

Definition pmap_of (l : pil) : pmap := map (fun en => (fst en, snd (snd en))) l.

(* ---- groups that have a peptide of their own ---- *)
Definition unique_idxs (s : pgs) (m : pmap) : list Z :=
  fold_left (fun acc ep =>
               match get_protein_group_idxs s (snd ep) with
               | Ok [i] => if (i <? 0)%Z then acc else zinsert i acc
               | _ => acc
               end) m [].

(* ---- the bipartite graph over the leading proteins of unidentified groups ---- *)
Definition pseudo_name (s : pgs) (ps : list str) : str :=
  match get_leading_proteins s ps with
  | Ok l => s2l "peptide:" ++ join semicolon l
  | Raise _ => s2l "peptide:?"
  end.

Fixpoint enum_from {A} (i : nat) (l : list A) : list (nat * A) :=
  match l with [] => [] | x :: r => (i, x) :: enum_from (S i) r end.

(* adjacency: leading protein -> pseudo-peptide node names *)
Definition build_adj (s : pgs) (m : pmap) (ident : list Z) : list (str * list str) :=
  flat_map (fun ig =>
              if existsb (Z.eqb (Z.of_nat (fst ig))) ident then []
              else match snd ig with
                   | [] => []
                   | p :: _ => [(p, dedup [] (map (fun e => pseudo_name s (proteins_of m e)) (peptides_of m p)))]
                   end)
           (enum_from 0 (groups s)).

Fixpoint adj_of (adj : list (str * list str)) (p : str) : list str :=
  match adj with [] => [] | (q, ns) :: r => if str_eqb q p then ns else adj_of r p end.

Definition share_node (adj : list (str * list str)) (a b : str) : bool :=
  existsb (fun n => mem_str n (adj_of adj b)) (adj_of adj a).

Record graph := { g_prots : list str; g_peps : list str }.

Definition sort_strs (l : list str) : list str := isort str_leb l.

Definition mk_graph (adj : list (str * list str)) (prots : list str) : graph :=
  {| g_prots := sort_strs prots;
     g_peps := sort_strs (dedup [] (flat_map (adj_of adj) prots)) |}.

(* connected components in node insertion order *)
Fixpoint components (fuel : nat) (adj : list (str * list str)) (nodes todo : list str) (seen : list str) : list graph :=
  match fuel with
  | O => []
  | S f =>
    match todo with
    | [] => []
    | u :: r =>
      if mem_str u seen then components f adj nodes r seen
      else let c := closure (length nodes) (share_node adj) nodes [u] in
           mk_graph adj c :: components f adj nodes r (c ++ seen)
    end
  end.

Definition graph_eqb (a b : graph) : bool := eqb (g_prots a) (g_prots b) && eqb (g_peps a) (g_peps b).

Fixpoint oracle_lookup (tab : list (graph * list graph)) (g : graph) : list graph :=
  match tab with
  | [] => []
  | (k, v) :: r => if graph_eqb k g then v else oracle_lookup r g
  end.

Definition merge_all (s : pgs) (prots : list str) : pgs :=
  match prots with
  | [] => s
  | l :: rest => fold_left (fun s' p => match merge_groups s' l p with Ok t => t | Raise _ => s' end) rest s
  end.

Fixpoint decouple (fuel : nat) (split : graph -> list graph) (work : list graph) (s : pgs) : res pgs :=
  match fuel with
  | O => Raise OtherError
  | S f =>
    match work with
    | [] => Ok (remove_empty_groups s)
    | c :: rest =>
      let parts := if Nat.ltb 1 (length (g_prots c)) then split c else [] in
      match parts with
      | [] => decouple f split rest (merge_all s (g_prots c))
      | _ => decouple f split (rest ++ parts) s
      end
    end
  end.

Definition rescued_groups (split : graph -> list graph) (l : pil) : res pgs :=
  let m := pmap_of l in
  let s1 := generate_protein_groups m in
  let ident := unique_idxs s1 m in
  let adj := build_adj s1 m ident in
  let nodes := map fst adj in
  let comps := components (S (length nodes)) adj nodes nodes [] in
  decouple (4 * S (length nodes) + 4) split comps s1.

(* merge_with_rescued_protein_groups: new groups, placeholder groups, positions of their old evidence *)
Definition merge_with_rescued (split : graph -> list graph) (l : pil) (old : list (list str))
  : res (pgs * list (list str) * list nat) :=
  match rescued_groups split l with
  | Raise e => Raise e
  | Ok s => Ok (add_unseen s old)
  end.
