(* Model of quant.maxquant.add_precursor_quants and ProteinGroupsWriter.append_quant_columns with the column
   computations of columns/peptide_count, id_type, sum_and_ibaq and evidence_ids.  Intensities are exact rationals
   (the harness draws them from a grid on which float sums are exact); a PEP of None is NaN (match-between-runs). *)
From PGF Require Import Base.Prelude Base.PyStr Base.StableSort Model.Fdr Model.ProteinGroups Model.Grouping Model.Scoring.

Record prec := {
  p_peptide : str;            (* modified sequence *)
  p_proteins : list str;      (* after the mapper *)
  p_charge : Z;
  p_exp : str;
  p_intensity : option Q;     (* None = NaN *)
  p_pep : option Q;           (* None = NaN: a match-between-runs row *)
  p_silac : list Q;
  p_tmt : list Q;             (* 3 values per TMT channel: corrected, raw, count *)
  p_id : Z
}.

(* ---- add_precursor_quants: every row goes to the single group that holds all its proteins, or nowhere ---- *)
Definition target_group (s : pgs) (r : prec) : option nat :=
  match get_protein_group_idxs s (p_proteins r) with
  | Ok [i] => if (i <? 0)%Z then None else Some (Z.to_nat i)
  | _ => None              (* no group / several groups / stale index (never: the index is built just before) *)
  end.

Definition attached (s : pgs) (rows : list prec) (g : nat) : list prec :=
  filter (fun r => match target_group s r with Some i => Nat.eqb i g | None => false end) rows.

(* experiments: sorted distinct experiment names of ALL parsed rows *)
Fixpoint sinsert_str (x : str) (l : list str) : list str :=
  match l with
  | [] => [x]
  | y :: r => match str_compare x y with Lt => x :: l | Eq => l | Gt => y :: sinsert_str x r end
  end.
Definition experiments (rows : list prec) : list str := fold_left (fun acc r => sinsert_str (p_exp r) acc) rows [].

(* PEPs handed to calc_post_err_prob_cutoff: non-decoy attached rows, non-NaN *)
Definition cutoff_peps (s : pgs) (rows : list prec) : list Q :=
  flat_map (fun r => match target_group s r, p_pep r with
                     | Some _, Some p => if is_decoy (p_proteins r) then [] else [p]
                     | _, _ => []
                     end) rows.

(* ---- _retain_only_identified_precursors ---- *)
Definition passes (cut : Q) (r : prec) : bool := match p_pep r with Some p => Qle_bool p cut | None => false end.
Definition same_precursor (a b : prec) : bool := str_eqb (p_peptide a) (p_peptide b) && Z.eqb (p_charge a) (p_charge b).
Definition retain (cut : Q) (l : list prec) : list prec :=
  filter (fun r => existsb (fun r' => passes cut r' && same_precursor r' r) l) l.

(* a retained row counts if it is a match-between-runs row or passes the cutoff itself *)
Definition counts (cut : Q) (r : prec) : bool := match p_pep r with None => true | Some p => Qle_bool p cut end.

(* ---- columns ---- *)
Definition in_exp (e : str) (r : prec) : bool := str_eqb (p_exp r) e.

Definition unique_peptides (cut : Q) (exps : list str) (l : list prec) : list nat :=
  let used := filter (counts cut) l in
  length (dedup [] (map p_peptide used)) ::
  map (fun e => length (dedup [] (map p_peptide (filter (in_exp e) used)))) exps.

(* the identification-type loop of one experiment *)
Definition id_step (cut : Q) (cur : str) (r : prec) : str :=
  match p_pep r with
  | None => if str_eqb cur (s2l "By MS/MS") then cur else s2l "By matching"
  | Some p => if Qle_bool p cut then s2l "By MS/MS" else cur
  end.
Definition id_types (cut : Q) (exps : list str) (l : list prec) : list str :=
  map (fun e => fold_left (id_step cut) (filter (in_exp e) l) []) exps.

Definition qsum (l : list Q) : Q := fold_left Qplus l (0#1)%Q.

(* per experiment: summed intensity, then one sum per SILAC channel *)
Definition intensities (cut : Q) (exps : list str) (nsilac : nat) (l : list prec) : list Q :=
  flat_map (fun e =>
    let used := filter (fun r => counts cut r && in_exp e r && match p_intensity r with Some _ => true | None => false end) l in
    qsum (map (fun r => match p_intensity r with Some x => x | None => (0#1)%Q end) used) ::
    map (fun k => qsum (map (fun r => nth k (p_silac r) (0#1)%Q) used)) (seq 0 nsilac)) exps.

(* columns/tmt.py: per experiment one sum per reporter column over the counted rows (no intensity test here) *)
Definition tmt_intensities (cut : Q) (exps : list str) (width : nat) (l : list prec) : list Q :=
  flat_map (fun e =>
    let used := filter (fun r => counts cut r && in_exp e r) l in
    map (fun k => qsum (map (fun r => nth k (p_tmt r) (0#1)%Q) used)) (seq 0 width)) exps.

Fixpoint every (step : nat) (l : list Q) (fuel : nat) : list Q :=       (* l[::step] *)
  match fuel, l with
  | S f, x :: _ => x :: every step (skipn step l) f
  | _, _ => []
  end.
Definition total_intensity (nsilac : nat) (ints : list Q) : Q := qsum (every (S nsilac) ints (length ints)).

Definition evidence_ids (cut : Q) (l : list prec) : list Z := isort Z.leb (map p_id (filter (counts cut) l)).

Fixpoint tab_nat (t : list (str * nat)) (k : str) : option nat :=
  match t with [] => None | (a, b) :: r => if str_eqb a k then Some b else tab_nat r k end.

Record qrow := {
  q_ids : list str; q_unique : list nat; q_idtype : list str; q_total : Q; q_ints : list Q;
  q_ntheo : list nat; q_ibaq_total : Q; q_ibaq : list Q; q_evidence : list Z
}.

Definition quant_row (ibaq : list (str * nat)) (cut : Q) (exps : list str) (nsilac : nat) (ids : list str) (l0 : list prec)
  : res qrow :=
  let l := retain cut l0 in
  let ints := intensities cut exps nsilac l in
  let tot := total_intensity nsilac ints in
  match fold_right (fun p acc => match tab_nat ibaq p, acc with Some n, Some a => Some (n :: a) | _, _ => None end) (Some []) ids with
  | None => Raise KeyError
  | Some nt =>
    let lead := Z.of_nat (Nat.max 1 (hd 0 nt)) in
    Ok {| q_ids := ids; q_unique := unique_peptides cut exps l; q_idtype := id_types cut exps l; q_total := tot; q_ints := ints;
          q_ntheo := nt; q_ibaq_total := (tot / inject_Z lead)%Q; q_ibaq := map (fun x => (x / inject_Z lead)%Q) ints;
          q_evidence := evidence_ids cut l |}
  end.

(* the whole step: groups (protein id lists of the reported rows), evidence rows, cutoff oracle -> one row per group with precursors *)
Definition quantify (ibaq : list (str * nat)) (cutoff_of : list Q -> Q) (nsilac : nat) (groups : list (list str)) (rows : list prec)
  : res (list str * list qrow) :=
  let s := create_index (of_list groups) in
  let exps := experiments rows in
  let cut := cutoff_of (cutoff_peps s rows) in
  let with_prec := filter (fun ig => nonempty (attached s rows (fst ig))) (combine (seq 0 (length groups)) groups) in
  match fold_right (fun ig acc => match quant_row ibaq cut exps nsilac (snd ig) (attached s rows (fst ig)), acc with
                                  | Ok r, Ok a => Ok (r :: a) | Raise e, _ => Raise e | _, Raise e => Raise e end)
                   (Ok []) with_prec with
  | Ok l => Ok (exps, l)
  | Raise e => Raise e
  end.

(* with an experimental design (--experimental_design_file / --file_list_file) the experiments and their ORDER come from the design
   (first occurrence order of its Experiment column) and every row carries the experiment its raw file is assigned to: the rows are
   given with that experiment already, the order is an input *)
Definition quantify_design (ibaq : list (str * nat)) (cutoff_of : list Q -> Q) (nsilac : nat) (groups : list (list str))
           (rows : list prec) (exps : list str) : res (list str * list qrow) :=
  let s := create_index (of_list groups) in
  let cut := cutoff_of (cutoff_peps s rows) in
  let with_prec := filter (fun ig => nonempty (attached s rows (fst ig))) (combine (seq 0 (length groups)) groups) in
  match fold_right (fun ig acc => match quant_row ibaq cut exps nsilac (snd ig) (attached s rows (fst ig)), acc with
                                  | Ok r, Ok a => Ok (r :: a) | Raise e, _ => Raise e | _, Raise e => Raise e end)
                   (Ok []) with_prec with
  | Ok l => Ok (exps, l)
  | Raise e => Raise e
  end.

(* the TMT reporter cells of the same table: one list per group with precursors *)
Definition quantify_tmt (cutoff_of : list Q -> Q) (width : nat) (groups : list (list str)) (rows : list prec)
           (design : option (list str)) : list (list Q) :=
  let s := create_index (of_list groups) in
  let exps := match design with Some d => d | None => experiments rows end in
  let cut := cutoff_of (cutoff_peps s rows) in
  map (fun ig => tmt_intensities cut exps width (retain cut (attached s rows (fst ig))))
      (filter (fun ig => nonempty (attached s rows (fst ig))) (combine (seq 0 (length groups)) groups)).
