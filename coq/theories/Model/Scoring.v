(* Model of scoring_strategy.ProteinScoringStrategy (razor filter, evidence collection) and of
   scoring.BestPEPScore / MultPEPScore.  -log10(x + eps) is a tabulated oracle [f]. *)
From PGF Require Import Base.Prelude Base.PyStr Base.StableSort Model.Fdr Model.Results Model.ProteinGroups.

(* peptide_info_list: ordered dict peptide -> (PEP, proteins) *)
Definition pil := list (str * (Q * list str)).

(* ObservedPeptides over the full list: distinct peptides per protein, best PEP per protein *)
Definition pcount (l : pil) (p : str) : nat :=
  length (filter (fun en => mem_str p (snd (snd en))) l).

Definition qmin (a b : Q) : Q := if Qle_bool a b then a else b.

(* best PEP with the dict.get default 1.0 for a protein without peptides; for a protein with peptides it
   is the minimum of their PEPs (which may exceed 1 only for ill-formed input) *)
Definition pbest_min (l : pil) (p : str) : Q :=
  match map (fun en => fst (snd en)) (filter (fun en => mem_str p (snd (snd en))) l) with
  | [] => (1#1)%Q
  | x :: r => fold_left qmin r x
  end.

(* tuple (count, -best, md5, name) compared lexicographically; [gtb a b] = a > b *)
Definition razor_gtb (l : pil) (md5 : str -> str) (a b : str) : bool :=
  match Nat.compare (pcount l a) (pcount l b) with
  | Gt => true | Lt => false
  | Eq =>
    match Qcompare (pbest_min l a) (pbest_min l b) with
    | Lt => true | Gt => false        (* -best larger = best smaller *)
    | Eq =>
      match str_compare (md5 a) (md5 b) with
      | Gt => true | Lt => false
      | Eq => match str_compare a b with Gt => true | _ => false end
      end
    end
  end.

Definition retain_most_observed (l : pil) (md5 : str -> str) (ps : list str) : res (list str) :=
  match ps with
  | [] => Raise IndexError
  | p :: r => Ok [fold_left (fun best x => if razor_gtb l md5 x best then x else best) r p]
  end.

Record scfg := {
  sc_razor : bool;
  sc_shared : bool;                 (* "with_shared" *)
  sc_counts : option pil            (* the list given to set_peptide_counts_per_protein, if it ran *)
}.

Definition filter_proteins (c : scfg) (md5 : str -> str) (ps : list str) : res (list str) :=
  if sc_razor c then
    match sc_counts c with
    | None => Ok ps
    | Some l => retain_most_observed l md5 ps
    end
  else Ok ps.

Definition append_at (infos : list (list pinfo)) (i : nat) (x : pinfo) : list (list pinfo) :=
  set_nth infos i (nth i infos [] ++ [x]).

Definition is_missing (idxs : list Z) : bool :=
  match idxs with
  | [] => true
  | [i] => (i =? -1)%Z
  | _ => false
  end.

Fixpoint collect_loop (c : scfg) (md5 : str -> str) (s : pgs) (suppress : bool) (l : pil)
         (infos : list (list pinfo)) (peps : list Q) : res (list (list pinfo) * list Q) :=
  match l with
  | [] => Ok (infos, peps)
  | (e, (sc, ps)) :: r =>
    match filter_proteins c md5 ps with
    | Raise x => Raise x
    | Ok ps' =>
      match get_protein_group_idxs s ps' with
      | Raise x => Raise x
      | Ok idxs =>
        if is_missing idxs && negb suppress then Raise OtherError
        else if negb (sc_shared c) && Nat.ltb 1 (length idxs) then collect_loop c md5 s suppress r infos peps
        else
          let infos' := fold_left (fun acc i => if (i <? 0)%Z then acc else append_at acc (Z.to_nat i) (sc, e, ps'))
                                  idxs infos in
          let peps' := if is_decoy ps' then peps else peps ++ [sc] in
          collect_loop c md5 s suppress r infos' peps'
      end
    end
  end.

Definition collect (c : scfg) (md5 : str -> str) (s : pgs) (suppress : bool) (l : pil)
  : res (list (list pinfo) * list Q) :=
  collect_loop c md5 s suppress l (map (fun _ => []) (groups s)) [].

(* ---------- scores ---------- *)
Definition minus100 : Q := (-100 # 1)%Q.

Definition qmax (a b : Q) : Q := if Qle_bool a b then b else a.

(* BestPEPScore.calculate_score: max over the evidence of f(PEP), -100 without evidence *)
Definition best_pep_score (f : Q -> Q) (infos : list pinfo) : Q :=
  match map (fun i => f (pi_pep i)) infos with
  | [] => minus100
  | x :: r => fold_left qmax r x
  end.

(* MultPEPScore._get_score_and_num_peptides, symbolically: the PEPs that are summed, in order *)
Fixpoint mult_terms (l : list pinfo) (seen : list str) : list Q :=
  match l with
  | [] => []
  | i :: r => if mem_str (pi_peptide i) seen then mult_terms r seen
              else pi_pep i :: mult_terms r (pi_peptide i :: seen)
  end.
Definition mult_pep_terms (infos : list pinfo) : list Q := mult_terms (isort pinfo_leb infos) [].
