import random, logging, copy
import numpy as np
logging.disable(logging.CRITICAL)
from picked_group_fdr import picked_group_fdr as pgf, methods
def gen(rnd):
    nprot=rnd.randint(2,7); prots=[f"P{i}" for i in range(nprot)]
    pil={}
    for k in range(rnd.randint(3,14)):
        sub=rnd.sample(prots, rnd.randint(1,min(3,nprot)))
        if rnd.random()<0.3: sub=["REV__"+p for p in sub]
        pil[f"PEP{k}"]=(rnd.choice([1e-6,1e-4,1e-3,1e-2,5e-2,0.3]), sub)
    return pil
def rows(res): return [(r.proteinIds,r.majorityProteinIds,r.peptideCountsUnique,r.bestPeptide,r.qValue,r.score,r.reverse) for r in res.protein_group_results]
def run(mc,pil,keep):
    np.random.seed(1)
    return rows(pgf.get_protein_group_results(copy.deepcopy(pil),None,mc,None,keep,0.2,0.01))
rnd=random.Random(3); bad=0; n=0
for method in ["picked_protein_group_mq_input","maxquant_mq_best_picked","savitski_mq_mult","classic_protein_group","maxquant"]:
    shared=methods.parse_method_toml(method,False)
    for t in range(150):
        pil=gen(rnd)
        try: fresh=run(methods.parse_method_toml(method,False),pil,False)
        except (ValueError, IndexError): continue
        try: got=run(shared,pil,False)
        except (ValueError, IndexError) as e: got=("EXC",str(e))
        n+=1
        if got!=fresh:
            bad+=1
            if bad<4: print("DIFF",method,pil,"\n fresh",fresh,"\n got",got)
print("compared",n,"bad",bad)
