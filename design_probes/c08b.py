import itertools, sys, collections
from picked_group_fdr import digest

def sites(seq, pre, not_post, post):
    n=len(seq); s=set()
    for i in range(n-1):
        if (seq[i] in pre and seq[i+1] not in not_post) or (seq[i+1] in post):
            s.add(i+1)
    return s

def spec(seq, mn, mx, pre, not_post, post, mc, metc, need):
    n=len(seq); S=sites(seq,pre,not_post,post)
    out=set()
    T=set(S)|{0,n}|({1} if (metc and seq[0]=='M') else set())
    starts_ok=lambda a: a in T
    ends_ok=lambda b: b in T
    for a in range(n):
        for b in range(a+1,n+1):
            if not(mn<=b-a<=mx): continue
            k=int(starts_ok(a))+int(ends_ok(b))
            if k<need: continue
            inner=len([x for x in S if a<x<b])
            if inner<=mc: out.add(seq[a:b])
    return out

if __name__=="__main__": pass
