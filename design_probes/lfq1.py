import numpy as np, collections, random
from picked_group_fdr.columns import lfq, fastlfq
from picked_group_fdr.precursor_quant import PrecursorQuant
from picked_group_fdr.results import ProteinGroupResults, ProteinGroupResult

def mk(names, seed=0, npep=8):
    rnd=random.Random(seed)
    pf=[rnd.uniform(1e5,1e6) for _ in range(npep)]
    sf=[rnd.uniform(0.5,2) for _ in names]
    pqs=[]
    for i,p in enumerate(pf):
        for j,n in enumerate(names):
            if rnd.random()<0.8:
                pqs.append(PrecursorQuant(f"PEP{i}",2,n,-1,p*sf[j],0.001,None,None,len(pqs)))
    return pqs,sf
def run(names, fast):
    pqs,sf=mk(list(names))
    pgr=ProteinGroupResult(proteinIds="A",qValue=0.001); pgr.precursorQuants=pqs
    res=ProteinGroupResults([pgr]); res.experiments=list(names)
    col=lfq.LFQIntensityColumns(2, True, fast_lfq=fast)
    col.append(res, 0.01)
    out=np.array(pgr.extraColumns[-len(names):])
    return out/out.sum(), np.array(sf)/sum(sf)
n=12
namesA=[f"S{i:02d}" for i in range(n)]
namesB=[chr(65+i)*3 for i in range(n)]
for fast in (False,True):
    a,sf=run(namesA,fast); b,_=run(namesB,fast)
    print("fast",fast,"maxdiff A vs truth",np.abs(a-sf).max(),"B vs truth",np.abs(b-sf).max(),"A vs B",np.abs(a-b).max())
G=fastlfq.build_graph(collections.defaultdict(set,{"exp1":{"P1","P2"},"exp2":{"P2"}}))
print(G.nodes(data=True), G.edges(data=True))
