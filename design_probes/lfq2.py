import numpy as np, logging
logging.disable(logging.CRITICAL)
from picked_group_fdr.columns import lfq
from picked_group_fdr.precursor_quant import PrecursorQuant
print("repeat0:", np.repeat([3,4,5],0))
pqs=[]
# sample S1 has 12 peptides, S2 has 2 of them with ratio 1:1 except huge extra intensity in S1-only peptides
for i in range(12):
    pqs.append(PrecursorQuant(f"P{i}",2,"S1",-1,1000.0*(i+1),0.001,None,None,len(pqs)))
for i in range(2):
    pqs.append(PrecursorQuant(f"P{i}",2,"S2",-1,1000.0*(i+1),0.001,None,None,len(pqs)))
m={"S1":0,"S2":1}
for stab in (False,True):
    out=lfq._getLFQIntensities(pqs,m,0.01,2,stab,None,10,0)
    print("stabilize",stab,out, "ratio",out[0]/out[1])
pi,tot=lfq._getPeptideIntensities(pqs,m,0.01,0,2)
r=lfq._getLogMedianPeptideRatios(pi,2)
print("median log ratios",r)
print("after stab (numSilac=0):",lfq._applyLargeRatioStabilization(dict(r),pqs,m,0.01,0))
s1=sum(1000.0*(i+1) for i in range(12)); s2=3000.0
print("expected with stabilisation (count ratio 6>5): log(sum ratio)=",np.log(s1/s2))
