import random, itertools, collections, logging, math
import numpy as np
logging.disable(logging.CRITICAL)
from picked_group_fdr import picked_group_fdr as pgf, methods, helpers, fdr as fdrmod, competition, results as resmod
rec={}
orig_calc=fdrmod.calculate_protein_fdrs
def calc(pgs,scores,thr):
    out=orig_calc(pgs,scores,thr); rec['fdr']=(list(map(list,pgs)),list(scores),list(out[0])); return out
fdrmod.calculate_protein_fdrs=calc
orig_from=resmod.ProteinGroupResults.from_protein_groups.__func__
def gen(rnd):
    nprot=rnd.randint(1,6)
    prots=[f"P{i}" for i in range(nprot)]
    pil={}
    for k in range(rnd.randint(1,10)):
        sub=rnd.sample(prots, rnd.randint(1,min(3,nprot)))
        if rnd.random()<0.35: sub=["REV__"+p for p in sub]
        pil[f"PEP{k}"]=(rnd.choice([1e-6,1e-4,1e-3,1e-2,5e-2,0.3]), sub)
    return pil
def run(pil, method, keep, thr, seed):
    np.random.seed(seed)
    mc=methods.parse_method_toml(method,False)
    return pgf.get_protein_group_results(pil, None, mc, None, keep, thr, 0.01)
fails=collections.Counter()
rnd=random.Random(11)
for t in range(4000):
    pil=gen(rnd)
    for method in ["picked_protein_group_mq_input","savitski_mq_best","classic_subset_grouping","discard_picked_mq_input"]:
        for keep in (False,True):
            thr=rnd.choice([0.01,0.2,0.5,1.0])
            try:
                res=run(pil,method,keep,thr,t)
            except Exception as e:
                fails[method,type(e).__name__,str(e)[:60]]+=1; continue
            pgs,scores,qv=rec['fdr']
            # C01 formula
            d=tg=0; f=[]
            for g,s in zip(pgs,scores):
                if helpers.is_decoy(g): d+=1
                else: tg+=1
                f.append((d+1)/(tg+1))
            exp=[min(f[i:]) for i in range(len(f))]
            if exp!=qv: fails[method,"qval"]+=1
            rows=res.protein_group_results
            seen=set()
            for r in rows:
                ids=r.proteinIds.split(";")
                if any("OBSOLETE__" in i for i in ids): fails[method,"obsolete reported"]+=1
                if seen&set(ids): fails[method,"protein twice"]+=1
                seen|=set(ids)
                tgt=[i for i in ids if not i.startswith("REV__")]
                if tgt and len(tgt)!=len(ids): fails[method,"mixed"]+=1
            if any(rows[i].score<rows[i+1].score for i in range(len(rows)-1)): fails[method,"order"]+=1
            # alignment: rows (score,q) is a subsequence of ranking
            it=iter(zip(scores,qv))
            for r in rows:
                for s,q in it:
                    if s==r.score and q==r.qValue: break
                else:
                    fails[method,"align"]+=1; break
print(fails)
