import logging, random, csv, math, collections
logging.disable(logging.CRITICAL)
import numpy as np
from picked_group_fdr.quant import maxquant as mq
from picked_group_fdr.results import ProteinGroupResults, ProteinGroupResult
from picked_group_fdr.protein_groups import ProteinGroups
from picked_group_fdr.scoring_strategy import ProteinScoringStrategy
from picked_group_fdr import writers, fdr
nan=float('nan')
def run(seed):
    rnd=random.Random(seed)
    groups=[["A","A2"],["B"],["C","C2","C3"],["REV__D"]]
    allp=[p for g in groups for p in g]+["Z"]  # Z unknown
    exps=["E1","E2","E3"]
    rows=[]
    for i in range(rnd.randint(5,60)):
        pep="PEP"+str(rnd.randint(0,9))+rnd.choice(["","(ox)"])
        k=rnd.random()
        if k<0.6: pr=rnd.sample(rnd.choice(groups), 1)
        elif k<0.8: g=rnd.choice(groups); pr=rnd.sample(g, rnd.randint(1,len(g)))
        else: pr=rnd.sample(allp, rnd.randint(1,3))
        mbr=rnd.random()<0.2
        pepv=nan if mbr else rnd.choice([1/1024,1/256,1/64,1/8,1/2])
        rows.append(dict(pep=pep,pr=pr,charge=rnd.choice([2,3]),exp=rnd.choice(exps),frac=rnd.choice([1,2]),inten=rnd.choice([0,rnd.randint(1,1000)*1024]),PEP=pepv,id=i))
    with open("ev.txt","w",newline="") as f:
        w=csv.writer(f,delimiter="\t")
        w.writerow(["Modified sequence","Leading proteins","PEP","Score","Experiment","Charge","Intensity","Raw file","Fraction","id"])
        for r in rows:
            w.writerow(["_"+r["pep"]+"_",";".join(r["pr"]),"NaN" if math.isnan(r["PEP"]) else repr(r["PEP"]),"10",r["exp"],r["charge"],r["inten"] if r["inten"] else "","raw"+r["exp"],r["frac"],r["id"]])
    pgrs=ProteinGroupResults([ProteinGroupResult(proteinIds=";".join(g),qValue=0.001,score=5.0) for g in groups])
    pg=ProteinGroups.from_protein_group_results(pgrs)
    st=ProteinScoringStrategy("no_remap bestPEP")
    res,peps=mq.add_precursor_quants(["ev.txt"],["ev.txt"],pg,pgrs,[None],None,True,score_type=st,suppress_missing_peptide_warning=True)
    ibaq=collections.defaultdict(int,{"A":3,"B":0,"C":5,"REV__D":2})
    wr=writers.MaxQuantProteinGroupsWriter(ibaq,{},{},True,2,False,False,1,{"groups":[]} )
    psm_cut=rnd.choice([0.001,0.01,0.1,0.5])
    wr.append_quant_columns(res,peps,psm_cut)
    # ---- oracle
    gid={p:i for i,g in enumerate(groups) for p in g}
    att=collections.defaultdict(list); pepl=[]
    from picked_group_fdr import helpers
    for r in rows:
        r=dict(r); r["pr"]=helpers.remove_decoy_proteins_from_target_peptides(r["pr"])
        ids={gid.get(p,-1) for p in r["pr"]}
        if ids=={-1} or len(ids)>1: continue
        i=next(iter(ids)); att[i].append(r)
        if not all(("REV__" in p) for p in r["pr"]): pepl.append(r["PEP"])
    finite=sorted(p for p in pepl if not math.isnan(p))
    cut=1.0; s=0; n=0
    for p in finite:
        s+=p; n+=1
        if s/n>psm_cut: cut=p; break
    expE=sorted({r["exp"] for r in rows})
    out={}
    for i,g in enumerate(groups):
        rs=att[i]
        if not rs: continue
        ident={(r["pep"],r["charge"]) for r in rs if r["PEP"]<=cut}
        rs=[r for r in rs if (r["pep"],r["charge"]) in ident]
        use=[r for r in rs if math.isnan(r["PEP"]) or r["PEP"]<=cut]
        inten=[sum(r["inten"] for r in use if r["exp"]==e) for e in expE]
        cnt=[len({r["pep"] for r in use})]+[len({r["pep"] for r in use if r["exp"]==e}) for e in expE]
        idt=[]
        for e in expE:
            t=""
            for r in rs:
                if r["exp"]!=e: continue
                if math.isnan(r["PEP"]) and t!="By MS/MS": t="By matching"
                elif r["PEP"]<=cut: t="By MS/MS"
            idt.append(t)
        evid=";".join(map(str,sorted(r["id"] for r in use)))
        out[";".join(g)]=(inten,cnt,idt,evid,sum(inten),max(1,ibaq[g[0]]))
    H=res.headers; errs=[]
    got={}
    for pgr in res:
        row=dict(zip(H,pgr.to_list(lambda x:x)))
        got[pgr.proteinIds]=row
    if set(got)!=set(out): errs.append(("groups",set(got),set(out)))
    for k in set(got)&set(out):
        row=got[k]; inten,cnt,idt,evid,tot,nib=out[k]
        g_int=[row["Intensity "+e] for e in res.experiments]
        if res.experiments!=expE: errs.append(("exps",res.experiments,expE))
        if g_int!=inten or row["Intensity"]!=tot: errs.append(("int",k,g_int,inten))
        g_cnt=[row["Combined Total Peptides"]]+[row["Unique peptides "+e] for e in res.experiments]
        if g_cnt!=cnt: errs.append(("cnt",k,g_cnt,cnt))
        if [row["Identification type "+e] for e in res.experiments]!=idt: errs.append(("idt",k))
        if row["Evidence IDs"]!=evid: errs.append(("evid",k,row["Evidence IDs"],evid))
        if [row["iBAQ "+e] for e in res.experiments]!=[x/nib for x in inten]: errs.append(("ibaq",k))
    return errs, cut
bad=0
for s in range(400):
    try:
        e,cut=run(s)
    except Exception as ex:
        import traceback; bad+=1; print("EXC",s,type(ex).__name__,ex); 
        if bad<3: traceback.print_exc()
        continue
    if e:
        bad+=1
        if bad<5: print(s,e[:2],cut)
print("bad",bad)
