class PercolatorModel: pass
