import logging, random, csv, itertools, math
logging.disable(logging.CRITICAL)
from picked_group_fdr.parsers import evidence
from picked_group_fdr.scoring_strategy import ProteinScoringStrategy
from picked_group_fdr import helpers
rnd=random.Random(4)
def mods(p):
    out=""
    for c in p:
        out+=c
        r=rnd.random()
        if r<0.15: out+="(ox)"
        elif r<0.25: out+="[+57.02]"
        elif r<0.3: out+="(Oxidation (M))"
    return out
print(helpers.remove_modifications("AC(Oxidation (M))DE[+5]F(ac)"), helpers.remove_modifications("A)B"), helpers.remove_modifications("A(b(c(d)))E"))
bad=0
for t in range(300):
    peps=["".join(rnd.choice("ACDEFGHIK") for _ in range(rnd.randint(6,9))) for _ in range(5)]
    rows=[]
    for _ in range(rnd.randint(1,25)):
        p=rnd.choice(peps); pr=rnd.sample(["P1","P2","REV__P1","REV__P3","CON__X"],rnd.randint(1,3))
        pep=rnd.choice([1e-5,1e-3,0.01,0.2,float('nan')])
        rows.append((mods(p),pr,pep))
    nf=rnd.randint(1,3); files=[]
    for k in range(nf):
        fn=f"ev{k}.txt"; files.append(fn)
        with open(fn,"w",newline="") as f:
            w=csv.writer(f,delimiter="\t"); w.writerow(["Modified sequence","Leading proteins","PEP","Score","Experiment"])
            for i,(m,pr,pep) in enumerate(rows):
                if i%nf==k: w.writerow(["_"+m+"_",";".join(pr),"" if math.isnan(pep) else repr(pep),"10","E"])
    st=ProteinScoringStrategy("no_remap bestPEP")
    got=evidence.parse_evidence_files(files,[None],st,True)
    exp={}
    order=[r for k in range(nf) for i,r in enumerate(rows) if i%nf==k]
    for m,pr,pep in order:
        key=helpers.remove_modifications(m)
        if math.isnan(pep): continue
        pr2=helpers.remove_decoy_proteins_from_target_peptides(pr)
        if key not in exp or pep<exp[key][0]: exp[key]=[pep,pr2]
    if got!=exp:
        bad+=1
        if bad<4: print("DIFF",got,exp)
    for k,(s,pr) in got.items():
        tg=[p for p in pr if not p.startswith("REV__")]
        if tg and len(tg)!=len(pr): print("MIXED",pr)
print("bad",bad)
