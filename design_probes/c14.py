import logging; logging.disable(logging.CRITICAL)
import numpy as np
from picked_group_fdr import picked_group_fdr as pgf, methods
pil={f"PEPT{i}":(1e-3,[f"P{i}"]) for i in range(4)}
pil.update({f"PEPD{i}":(1e-3,[f"REV__Q{i}"]) for i in range(4)})
mc=methods.parse_method_toml("picked_protein_group_mq_input",False)
first_t=0; N=600; pos=np.zeros(8)
for seed in range(N):
    np.random.seed(seed)
    res=pgf.get_protein_group_results(dict(pil),None,mc,None,False,0.01,0.01)
    ids=[r.proteinIds for r in res.protein_group_results]
    first_t += not ids[0].startswith("REV__")
    for k,i in enumerate(ids):
        if not i.startswith("REV__"): pos[k]+=1
print("target first:",first_t/N,"target share per rank:",np.round(pos/N,2))
