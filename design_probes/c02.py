import random, itertools, collections, logging
import numpy as np
logging.disable(logging.CRITICAL)
from picked_group_fdr import competition, helpers
from picked_group_fdr.protein_groups import ProteinGroups
from picked_group_fdr.scoring_strategy import ProteinScoringStrategy
from picked_group_fdr.results import ProteinGroupResult
clean=competition._clean_protein_id
def leading(pg, infos):
    c=ProteinGroupResult._get_peptide_counts(infos,1.01)
    m=max(c.values())
    return [p for p in pg if c[p]==m]
def gen(rnd):
    base=[f"P{i}" for i in range(rnd.randint(1,5))]
    ids=[]
    for b in base:
        ids += [b, "REV__"+b]
        if rnd.random()<0.3: ids.append("OBSOLETE__"+b)
        if rnd.random()<0.3: ids.append("OBSOLETE__REV__"+b)
        if rnd.random()<0.2: ids.append("CON__"+b)
    ng=rnd.randint(1,6); groups=[];infos=[]
    pepc=0
    for g in range(ng):
        k=rnd.randint(1,3)
        pg=rnd.sample(ids,min(k,len(ids)))
        if rnd.random()<0.3: pg=[p for p in pg if p.startswith("OBSOLETE__")] or pg
        inf=[]
        for _ in range(rnd.randint(0,3)):
            pepc+=1
            sub=[p for p in pg if rnd.random()<0.7] or [pg[0]]
            inf.append((rnd.choice([1e-5,1e-3,1e-2,0.1]), f"PEP{pepc}", sub))
        groups.append(pg); infos.append(inf)
    return groups, infos
def check(strategy_name, groups, infos, seed):
    st=competition.ProteinCompetitionStrategyFactory(strategy_name)
    score=ProteinScoringStrategy("bestPEP")
    np.random.seed(seed)
    inp=[(list(g),list(i)) for g,i in zip(groups,infos)]
    try:
        out_g,out_i,out_s=st.do_competition(ProteinGroups([list(g) for g in groups]),[list(i) for i in infos],score)
    except ValueError as e:
        # all filtered -> zip(*[]) fails
        return "empty"
    out=list(zip(out_g.protein_groups,out_i,out_s))
    sc=lambda inf: score.calculate_score(inf)
    # survivors keep peptides and score unchanged and ranked non-increasing
    for g,i,s in out:
        assert (g,i) in [(a,b) for a,b in inp], "survivor not an input group"
        assert s==sc(i)
    assert all(out[k][2]>=out[k+1][2] for k in range(len(out)-1)), "order"
    surv=[(g,i,s) for g,i,s in out]
    removed=[(g,i) for g,i in inp if (g,i) not in [(a,b) for a,b,_ in surv]]
    if strategy_name=="classic":
        for g,i in removed: assert helpers.is_contaminant(g) or len(i)==0, ("classic removed",g)
        return "ok"
    def keyset(g,i):
        if strategy_name=="picked": return {";".join(map(clean,g))}
        return set(map(clean,leading(g,i)))
    def members(g):
        if strategy_name=="picked": return {";".join(map(clean,g))}
        return set(map(clean,g))
    for g,i in removed:
        if helpers.is_contaminant(g) or len(i)==0: continue
        ok=any(members(g)&keyset(a,b) and (s>sc(i) or (s==sc(i) and ((not helpers.is_obsolete(a)) or helpers.is_obsolete(g)))) for a,b,s in surv)
        assert ok, ("unjustified removal", g, i, surv)
    for (g,i,s) in surv:
        for (a,b,s2) in surv:
            if s2>s: assert not (members(g)&keyset(a,b)), ("both twins survive", g, a)
    return "ok"
rnd=random.Random(5); res=collections.Counter()
for t in range(30000):
    groups,infos=gen(rnd)
    for sn in ("picked_group","picked","classic"):
        try: res[sn,check(sn,groups,infos,t)]+=1
        except AssertionError as e:
            res[sn,"FAIL"]+=1
            if res[sn,"FAIL"]<3: print("FAIL",sn,groups,infos,e)
print(res)
