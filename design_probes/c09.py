import logging; logging.disable(logging.CRITICAL)
from picked_group_fdr import digest
from picked_group_fdr.digestion_params import DigestionParams
open("t.fasta","w").write(">P1 x\nAAAAAAKCCCCCCRDDDDDDDK\n>P2\nAAAAAAK\n>P3\nEEEEEEEK\n")
pl=[DigestionParams("trypsin","full",6,30,0,"KR",True),DigestionParams("lys-c","full",6,30,0,"KR",True)]
m=digest.get_peptide_to_protein_map_from_params(["t.fasta"],pl)
print(dict(m))
pl=[DigestionParams("trypsin","full",6,30,0,"KR",True),DigestionParams("lys-c","full",6,30,0,"KR",True)]
print(dict(digest.get_num_ibaq_peptides_per_protein(["t.fasta"],pl)))
pl=[DigestionParams("trypsin","full",6,30,0,"KR",True)]
print(dict(digest.get_num_ibaq_peptides_per_protein(["t.fasta"],pl)))
# non-specific
pl=[DigestionParams("no_enzyme","none",6,8,0,"KR",True)]
m=digest.get_peptide_to_protein_map_from_params(["t.fasta"],pl)
print(digest.get_proteins(m,"AAAAAAK"), digest.get_proteins(m,"CCCCCR"), digest.get_proteins(m,"DDDDK"))
