import random
rnd=random.Random(3)
aa="ACDEFGHILMNPQSTVWY"
def seq(n): 
    s=""
    while len(s)<n:
        s+="".join(rnd.choice(aa) for _ in range(rnd.randint(7,12)))+rnd.choice("KR")
    return s
prots={f"sp|P{i:05d}|PROT{i}_HUMAN":seq(60) for i in range(8)}
with open("db.fasta","w") as f:
    for k,v in prots.items():
        f.write(f">{k} Protein {k} OS=Homo sapiens OX=9606 GN=GENE{k[-7]} PE=1 SV=1\n")
        for i in range(0,len(v),30): f.write(v[i:i+30]+"\n")
import re
def digest(s): return [p for p in re.sub(r'(?<=[KR])(?!P)', '\n', s).split('\n') if len(p)>=7]
rows=[]
hdr=["Sequence","Modified sequence","Leading proteins","Leading razor protein","Proteins","Score","PEP","Experiment","Charge","Intensity","Raw file","Fraction","id","Type","MS/MS scan number","Reverse","Potential contaminant","Delta score","Mass"]
i=0
for k,v in prots.items():
    for p in digest(v):
        for exp in ["E1","E2","E3"]:
            rows.append([p,"_"+p+"_",k,k,k,str(rnd.uniform(50,150)),str(10**rnd.uniform(-6,-1)),exp,"2",str(rnd.uniform(1e5,1e7)),"raw_"+exp,"1",str(i),"MULTI-MSMS",str(1000+i),"","", "10","1000.5"]); i+=1
    # decoy
    rv=v[::-1]
    l=list(rv)
    for j in range(1,len(l)):
        if l[j] in "KR": l[j],l[j-1]=l[j-1],l[j]
    rv="".join(l)
    for p in digest(rv)[:2]:
        rows.append([p,"_"+p+"_","REV__"+k,"REV__"+k,"REV__"+k,str(rnd.uniform(20,80)),str(10**rnd.uniform(-2,-0.1)),"E1","2",str(rnd.uniform(1e5,1e7)),"raw_E1","1",str(i),"MULTI-MSMS",str(1000+i),"+","","5","1000.5"]); i+=1
with open("evidence.txt","w") as f:
    f.write("\t".join(hdr)+"\n")
    for r in rows: f.write("\t".join(r)+"\n")
print(len(rows))
