import logging; logging.disable(logging.CRITICAL)
from picked_group_fdr import protein_annotation as pa
hdrs=[
 ("sp|P00167-2|CYB5_HUMAN","Isoform 2 of Cytochrome b5 [PE OS GN] (x)","Homo sapiens","9606","CYB5A",1,2),
 ("tr|A0A024|A0A024_HUMAN","Uncharacterized protein","Homo sapiens","9606",None,4,1),
]
with open("h.fasta","w") as f:
    for pid,desc,org,ox,gn,pe,sv in hdrs:
        h=f">{pid} {desc} OS={org} OX={ox}"+(f" GN={gn}" if gn else "")+f" PE={pe} SV={sv}"
        f.write(h+"\nMKAAAK\nAAA\n")
    f.write(">sp|P00167-2|CYB5_HUMAN second OS=X OX=1 GN=ZZ PE=2 SV=1\nMMMM\n")
for db in ("target","concat"):
    ann,_=pa.get_protein_annotations(["h.fasta"], db=="target", False, False)
    for k,v in ann.items(): print(db,k,"|",v.uniprot_id,"|",v.entry_name,"|",v.gene_name,"|",v.length,"|",v.organism,"|",v.description,"|",v.existence)
ann,pg=pa.get_protein_annotations(["h.fasta"], True, True, False); print(pg, list(ann))
ann,_=pa.get_protein_annotations(["h.fasta"], True, False, True); print(list(ann))
