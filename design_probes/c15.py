import csv, random, subprocess, os, sys
rnd=random.Random(9)
def modseq(): 
    s="".join(rnd.choice("ACDEFGHIKLMNPQRSTVWY") for _ in range(rnd.randint(6,10)))
    out=""
    if rnd.random()<0.2: out+="(ac)"
    for c in s:
        out+=c
        if c=="M" and rnd.random()<0.5: out+="(ox)"
    return out
bad=0
for t in range(11):
    raws=[rnd.choice(["rawA","raw_B_1","r_2_3_4"]) for _ in range(3)]
    H=["Sequence","Modified sequence","Raw file","MS/MS scan number","Score","PEP","Type","Reverse","Potential contaminant","Leading proteins","X"]
    files=[]; allrows=[]
    for k in range(rnd.randint(1,3)):
        rows=[]
        for i in range(rnd.randint(1,30)):
            m=modseq(); mbr=rnd.random()<0.15
            rows.append([m.replace("(ox)","").replace("(ac)",""),"_"+m+"_",rnd.choice(raws+["rawMissing"]),"" if mbr else str(rnd.randint(1,40)),"NaN" if mbr else repr(rnd.uniform(1,200)),"NaN" if mbr else repr(10**rnd.uniform(-6,0)),"MULTI-MATCH" if mbr else "MULTI-MSMS",rnd.choice(["","+"]),"", "P1;P2", "keep\"q\"\tme" if rnd.random()<0.1 else "x"])
        fn=f"ev{k}.txt"; files.append(fn)
        with open(fn,"w",newline="") as f:
            w=csv.writer(f,delimiter="\t"); w.writerow(H); w.writerows(rows)
        allrows.append(rows)
    # pout files
    res={}
    pf=["pt.txt","pd.txt"]
    ws=[]
    fh=[open(p,"w",newline="") for p in pf]
    for f in fh:
        w=csv.writer(f,delimiter="\t"); w.writerow(["PSMId","score","q-value","posterior_error_prob","peptide","proteinIds"]); ws.append(w)
    for rows in allrows:
        for r in rows:
            if r[3]=="" or r[2]=="rawMissing" or rnd.random()<0.3: continue
            for rep in range(rnd.choice([1,1,2])):
                sc=round(rnd.uniform(-3,6),5); pep=10**rnd.uniform(-9,0)
                pepstr="-."+r[1][1:-1].replace("(ox)","[16]").replace("(ac)","[42]")+".-"
                ws[0 if r[7]=="" else 1].writerow([f"{r[2]}_{r[3]}_{rnd.randint(2,4)}_1",sc,0.01,pep,pepstr,"P1","P2"])
                res.setdefault(r[2],{})[(int(r[3]),r[1][1:-1])]=(sc,pep)
    for f in fh: f.close()
    # NOTE decoy file written second overrides? both written into same dict in order pt then pd
    exp=[H]
    for rows in allrows:
        for r in rows:
            if r[3]=="": exp.append(r); continue
            if len(res.get(r[2],{}))==0: continue
            hit=res[r[2]].get((int(r[3]),r[1][1:-1]))
            if not hit: continue
            rr=list(r); rr[4]=str(hit[0]); rr[5]=str(hit[1]); exp.append(rr)
    if os.path.exists("out.txt"): os.remove("out.txt")
    env=dict(os.environ,PYTHONPATH="/tmp/explore/stubs:/repo")
    p=subprocess.run(["/venv/bin/python","-m","picked_group_fdr.pipeline.update_evidence_from_pout","--mq_evidence",*files,"--perc_results",*pf,"--mq_evidence_out","out.txt"],env=env,capture_output=True,text=True)
    if p.returncode!=0: bad+=1; print("RC",p.returncode,p.stderr[-400:]); continue
    got=list(csv.reader(open("out.txt",newline=""),delimiter="\t"))
    if got!=exp:
        bad+=1
        print("DIFF",t,len(got),len(exp))
        print("GOT",got[-1]); print("EXP",exp[-1]); print(open("pt.txt").read()[:300]); print(open("pd.txt").read()[:300]); print(open("ev0.txt").read()[:600])
        for a,b in zip(got,exp):
            if a!=b: print(a,"\n",b); break
print("bad",bad)
