import random, itertools, collections, logging
import numpy as np
logging.disable(logging.CRITICAL)
from picked_group_fdr.grouping import RescuedSubsetGrouping, SubsetGrouping
from picked_group_fdr.protein_groups import ProteinGroups
from picked_group_fdr import graphs
calls=[]
orig=graphs.ConnectedProteinGraphs._split_single_connected_component
def wrapped(self,G,A,B):
    out=orig(self,G,A,B); calls.append((sorted(G.nodes()),sorted(map(sorted,G.edges())),[sorted(s.nodes()) for s in out])); return out
graphs.ConnectedProteinGraphs._split_single_connected_component=wrapped

def comps(nodes, adj):
    seen=set(); out=[]
    for n in nodes:
        if n in seen: continue
        st=[n]; c=set()
        while st:
            x=st.pop()
            if x in c: continue
            c.add(x); st+= [y for y in adj[x] if y in nodes and y not in c]
        seen|=c; out.append(c)
    return out
def admissible_cut_exists(prots, peps, adj):
    nodes=set(prots)|set(peps)
    for r in range(1,len(peps)+1):
        for cut in itertools.combinations(peps,r):
            rest=nodes-set(cut)
            cs=comps(rest,adj)
            if len(cs)>=2 and all(len(c)>=2 for c in cs): return True
    return False
def oracle(pil_f, old_groups, new_groups):
    errs=[]
    oldP=[p for g in old_groups for p in g]
    newP=[p for g in new_groups for p in g]
    if sorted(oldP)!=sorted(newP): errs.append("partition")
    if any(len(g)==0 for g in new_groups): errs.append("empty")
    prot2pep=collections.defaultdict(set)
    for pep,(s,pr) in pil_f.items():
        for p in pr: prot2pep[p].add(pep)
    Pp=set(prot2pep)
    gid={p:i for i,g in enumerate(new_groups) for p in g}
    # (3) remnants
    for g in old_groups:
        rem=[p for p in g if p not in Pp]
        if rem:
            if rem not in new_groups: errs.append(("remnant",g,rem))
    # groups of P' proteins contain only P' proteins
    for g in new_groups:
        if set(g)&Pp and not set(g)<=Pp: errs.append(("mixed kept/unkept",g))
    # (2) every new group over P': union of sets each contained in a maximal protein, connected
    sub=SubsetGrouping().group_proteins(pil_f,None).protein_groups if pil_f else []
    sgid={p:i for i,g in enumerate(sub) for p in g}
    # new grouping must be coarsening of 'sub' (same algorithm => deterministic)
    for g in sub:
        if len({gid[p] for p in g})!=1: errs.append(("not coarsening",g))
    # identified subset groups (unique peptide wrt sub) must not be merged with others
    ident=set()
    for pep,(s,pr) in pil_f.items():
        ids={sgid[p] for p in pr}
        if len(ids)==1: ident|=ids
    merged=collections.defaultdict(set)
    for p in Pp: merged[gid[p]].add(sgid[p])
    for k,v in merged.items():
        if len(v)>1 and v&ident: errs.append(("identified merged",v))
    # connectivity graph among unidentified groups via shared peptides
    un=[i for i in range(len(sub)) if i not in ident]
    adj=collections.defaultdict(set)
    for i in un:
        lead=sub[i][0]
        for pep in prot2pep[lead]:
            node="pep:"+";".join(sorted({sub[sgid[p]][0] for p in pil_f[pep][1]}))
            adj[("g",i)].add(node); adj[node].add(("g",i))
    nodes=set(adj)
    for c in comps(nodes,adj):
        gs=[n[1] for n in c if isinstance(n,tuple)]
    for k,v in merged.items():
        if len(v)>1:
            # must lie within one connected component
            cs=[c for c in comps(nodes,adj) if ("g",next(iter(v))) in c][0]
            if not all(("g",i) in cs for i in v): errs.append(("merged across components",v))
    # (5) recursive: component that cannot be separated => all merged
    def rec(c):
        prots=[n for n in c if isinstance(n,tuple)]; peps=[n for n in c if not isinstance(n,tuple)]
        if len(prots)<=1: return
        sub_adj={n:{m for m in adj[n] if m in c} for n in c}
        if not admissible_cut_exists(prots,peps,sub_adj):
            if len({gid[sub[i][0]] for _,i in prots})!=1: errs.append(("inseparable not merged",prots))
    for c in comps(nodes,adj): rec(c)
    return errs
rnd=random.Random(7); bad=0; n=0; nsplit=0
for t in range(6000):
    nprot=rnd.randint(2,7); prots=[f"P{i}" for i in range(nprot)]
    pil={}
    for k in range(rnd.randint(1,9)):
        pil[f"PEP{k}"]=(rnd.choice([1e-5,1e-3,0.05,0.3]), rnd.sample(prots,rnd.randint(1,min(3,nprot))))
    old=SubsetGrouping().group_proteins(pil,None)
    cutoff=rnd.choice([1e-4,0.01,0.1,1.0])
    pil_f={k:v for k,v in pil.items() if v[0]<cutoff}
    g=RescuedSubsetGrouping()
    infos=[[] for _ in old.protein_groups]
    oldcopy=[list(x) for x in old.protein_groups]
    calls.clear()
    try:
        new=g.merge_with_rescued_protein_groups(pil_f, old, infos)
    except Exception as e:
        bad+=1; print("EXC",type(e).__name__,e,pil_f); continue
    n+=1; nsplit+=sum(1 for c in calls if c[2])
    errs=oracle(pil_f,oldcopy,[list(x) for x in new.protein_groups])
    if errs:
        bad+=1
        if bad<6: print("ERR",errs,pil_f,oldcopy,new.protein_groups)
print("runs",n,"bad",bad,"splits",nsplit)
