import itertools, collections
from picked_group_fdr import digest
from c08b import spec
bad=collections.Counter(); ex=[]; tot=0
for alphabet,(pre,not_post,post) in [("AKPM",(["K","R"],["P"],[])),("ADKM",([],[],["D"])),("AMKP",(["M"],[],[])),("AMDK",(["K"],[],["M"]))]:
  for n in range(1,8):
    for seq in itertools.product(alphabet,repeat=n):
        seq="".join(seq)
        for mn,mx in [(1,3),(2,4),(3,3),(1,10)]:
            for mc in (0,1,2):
                for metc in (False,True):
                    tot+=1
                    for name,fn,k in (("full",digest.full_digest,2),("semi",digest.semi_specific_digest,1)):
                        got=set(fn(seq,mn,mx,pre,not_post,post,mc,metc))
                        exp=spec(seq,mn,mx,pre,not_post,post,mc,metc,k)
                        if got!=exp:
                            bad[name+alphabet]+=1
                            if len(ex)<10: ex.append((name,seq,mn,mx,mc,metc,pre,post,"got-exp",sorted(got-exp),"exp-got",sorted(exp-got)))
for e in ex: print(*e)
print(bad,tot)
