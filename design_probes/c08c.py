import itertools, sys, collections
from picked_group_fdr import digest
from c08b import spec

def full_fixed(seq,min_len,max_len,pre,not_post,post,miscleavages,methionine_cleavage):
    seq_len, starts = len(seq), [0]
    methionine_cleavage = methionine_cleavage and seq[0] == "M"
    check_pre = len(pre) > 0
    check_post = len(post) > 0
    cleavage_sites = [0] if methionine_cleavage else []
    cleavage_sites.extend([i for i in range(seq_len - 1)
            if (check_pre and seq[i] in pre and not seq[i + 1] in not_post)
            or (check_post and seq[i + 1] in post)])
    cleavage_sites.append(seq_len - 1)
    for i in cleavage_sites:
        for start in starts:
            pep_len = i - start + 1
            if min_len <= pep_len <= max_len:
                yield (seq[start : i + 1])
        starts.append(i + 1)
        methionine_cleaved = int(starts[0] == 0 and methionine_cleavage)
        if len(starts) > miscleavages + 1 + methionine_cleaved:
            starts = starts[1 + methionine_cleaved :]

bad=collections.Counter(); ex=[]
for alphabet,(pre,not_post,post) in [("AKPM",(["K","R"],["P"],[])),("ADKM",([],[],["D"])),("AMKP",(["M"],[],[]))]:
  for n in range(1,8):
    for seq in itertools.product(alphabet,repeat=n):
        seq="".join(seq)
        for mn,mx in [(1,3),(2,4),(3,3),(1,10)]:
            for mc in (0,1,2):
                for metc in (False,True):
                    got=set(full_fixed(seq,mn,mx,pre,not_post,post,mc,metc))
                    exp=spec(seq,mn,mx,pre,not_post,post,mc,metc,2)
                    if got!=exp:
                        bad[alphabet]+=1
                        if len(ex)<25: ex.append((seq,mn,mx,mc,metc,pre,post,"got-exp",sorted(got-exp),"exp-got",sorted(exp-got)))
                    got=set(digest.semi_specific_digest(seq,mn,mx,pre,not_post,post,mc,metc))
                    exp=spec(seq,mn,mx,pre,not_post,post,mc,metc,1)
                    if got!=exp:
                        bad['semi'+alphabet]+=1
                        if len(ex)<25: ex.append(('semi',seq,mn,mx,mc,metc,pre,post,"got-exp",sorted(got-exp),"exp-got",sorted(exp-got)))
for e in ex: print(*e)
print(bad)
