import numpy as np, itertools, random
from picked_group_fdr import fdr
print(fdr.calc_post_err_prob_cutoff([0.5, float('nan'), 0.001, 0.002], 0.2), fdr.calc_post_err_prob_cutoff([0.5, 0.001, 0.002], 0.2))
print(fdr.calc_post_err_prob_cutoff([float('inf'), 0.001, 0.002], 0.2), fdr.calc_post_err_prob_cutoff([], 0.2))
# C03 brute force
from picked_group_fdr.grouping import SubsetGrouping, NoGrouping, PseudoGeneGrouping
def check_subset(pil):
    pgs = SubsetGrouping().group_proteins(pil, None)
    groups = pgs.protein_groups
    prot2pep = {}
    for pep,(s,prots) in pil.items():
        for p in prots: prot2pep.setdefault(p,set()).add(pep)
    allp = [p for g in groups for p in g]
    assert sorted(allp)==sorted(prot2pep), ("partition", groups)
    assert all(len(g)>0 for g in groups)
    for g in groups:
        lead = prot2pep[g[0]]
        for m in g: assert prot2pep[m] <= lead, ("containment", groups)
        for q in prot2pep:
            if q not in g: assert not (lead <= prot2pep[q]), ("maximal", groups, g, q)
    maximal = {frozenset(s) for p,s in prot2pep.items() if not any(s < t for t in prot2pep.values())}
    assert len(groups)==len(maximal), ("count", groups, maximal)
import sys
nprot=4; npep=4
cnt=0; fails=0
prots="ABCD"
subsets=[ [prots[i] for i in range(nprot) if m>>i&1] for m in range(1,2**nprot)]
rnd=random.Random(1)
for combo in itertools.product(range(len(subsets)+1), repeat=npep):
    pil={}
    for k,c in enumerate(combo):
        if c==len(subsets): continue
        pl=list(subsets[c]); rnd.shuffle(pl)
        pil["PEP%d"%k]=(0.01*(k+1), pl)
    if not pil: continue
    cnt+=1
    try: check_subset(pil)
    except AssertionError as e:
        fails+=1
        if fails<5: print("FAIL", pil, e)
print("subset cases",cnt,"fails",fails)
