import numpy as np, itertools, random
from picked_group_fdr import fdr
from picked_group_fdr.protein_groups import ProteinGroups
from picked_group_fdr.results import ProteinGroupResult
nan=float('nan')
print("C17", fdr.calc_post_err_prob_cutoff([0.5, nan, 0.001], 0.01), fdr.calc_post_err_prob_cutoff([0.001,0.5,nan], 0.01), fdr.calc_post_err_prob_cutoff([0.5,0.001], 0.01))
print(sorted([0.5, nan, 0.001]))
pg=ProteinGroups.init_from_list([["A","B"],["C"]])
print("C20 groups for unknown:", pg.get_protein_groups(["X"]), pg.get_protein_group_idxs(["X"]))
try: print(pg.get_protein_group("X"))
except Exception as e: print("get_protein_group unknown ->", type(e).__name__, e)
print("C06 counts", dict(ProteinGroupResult._get_peptide_counts([(0.01,"PEPA",["G1","G1","G2"])], 1.0)))
