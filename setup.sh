#!/bin/bash
# Build the Coq development from files on disk only (offline). Full .vo build, never -vos/-vok.
set -e
cd "$(dirname "$0")"
export PYTHONPATH="$PWD/harness/stubs:${PGF_REPO:-/repo}:$PWD"
export PYTHONDONTWRITEBYTECODE=1
/venv/bin/python -W ignore -c "from harness import gen_tables; ok,msg=gen_tables.regenerate(); print(msg); raise SystemExit(0 if ok else 1)" 2> >(grep -v condarc >&2)
cd coq
coq_makefile -f _CoqProject -o Makefile > /dev/null
timeout 3400 make -j16
cd ..
/venv/bin/python -W ignore -c "from harness import core; b=core.grep_gate(); print('grep gate:', b or 'clean'); raise SystemExit(1 if b else 0)" 2> >(grep -v condarc >&2)
