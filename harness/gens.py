"""Shared generators and converters for the per-property harness modules."""
from fractions import Fraction

GRID = 1 << 20


def exn_name(e: BaseException) -> str:
    msg = str(e)
    if isinstance(e, KeyError):
        return "KeyError"
    if isinstance(e, IndexError):
        return "IndexError"
    if isinstance(e, AttributeError):
        return "AttributeError"
    if isinstance(e, NotImplementedError):
        return "NotImplemented"
    if isinstance(e, ValueError):
        return "ValueError"
    if "index is invalid" in msg:
        return "StaleIndex"
    if "No proteins with scores" in msg:
        return "NoScores"
    return "OtherError"


def fr(x) -> str:
    """exact rational of a Python/numpy float as 'n/d'"""
    f = Fraction(*float(x).as_integer_ratio())
    return f"{f.numerator}/{f.denominator}"


def grid_pep(rng, small=False) -> str:
    """a PEP on the float-exact grid"""
    if small or rng.random() < 0.5:
        k = rng.randint(0, 1 << 10)
    else:
        k = rng.randint(0, GRID)
    f = Fraction(k, GRID)
    return f"{f.numerator}/{f.denominator}"


def small_fraction_of(x: float, maxden: int):
    """The unique fraction with denominator <= maxden that rounds to the float x, or None."""
    f = Fraction(*float(x).as_integer_ratio()).limit_denominator(maxden)
    if float(f) == float(x):
        return f
    return None


BASE_IDS = ["P1", "P2", "P3", "P4", "P5", "P6", "Q9", "A0A1", "sp|P7|X_Y"]
DECOS = ["", "", "", "REV__", "REV__", "rev_", "CON__", "OBSOLETE__", "OBSOLETE__REV__", "CON__REV__"]


def protein_id(rng, n_base=6, decoy_share=0.4, markers_inside=True):
    b = rng.choice(BASE_IDS[:n_base])
    r = rng.random()
    if r < decoy_share:
        d = rng.choice(["REV__", "REV__", "rev_"])
    elif r < decoy_share + 0.08:
        d = rng.choice(["CON__", "OBSOLETE__", "OBSOLETE__REV__", "CON__REV__", "REV__CON__", "OBSOLETE__CON__"])
    else:
        d = ""
    if markers_inside and d and rng.random() < 0.06:
        return d + d + b    # the marker TWICE in one identifier (a decoy of a decoy database, a doubly tagged contaminant)
    if markers_inside and rng.random() < 0.05:
        return b + "_" + d  # marker in the middle/end of the identifier
    if markers_inside and rng.random() < 0.08:
        # identifiers of entrapment / shuffled-sequence databases: targets for the reported FDR, whatever they are called
        return rng.choice([d + b + "_entrapment", d + "Random_" + b, d + "mimic|" + b])
    return d + b


PEPTIDES = ["PEPTIDEK", "AAAK", "AAAR", "LLLK", "MMMR", "GGGK", "CCCK", "DDDR", "EEEK", "FFFR",
            "HHHK", "IIIR", "KKKK", "NNNR", "QQQK", "SSSR", "TTTK", "VVVR", "WWWK", "YYYR",
            # sequences that differ from one above in an isoleucine / leucine only (isobaric, but DISTINCT peptides of the list)
            "PEPTLDEK", "LLIK", "ILLK", "LIIR"]


def peptide_name(rng, n=20):
    return rng.choice(PEPTIDES[:n])


def norm(x) -> str:
    """the exact rational of the double nearest to x (so a case value IS the float the code sees)"""
    return fr(float(Fraction(x)))
