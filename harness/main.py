"""Entry point:  python -m harness.main <Cxx> [quick|thorough] [--replay <path>]"""
import importlib
import json
import os
import sys

import logging

from . import core

logging.disable(logging.CRITICAL)


def main(argv):
    if not argv:
        print("usage: check <Cxx> [quick|thorough] [--replay path]")
        return 2
    pid = argv[0]
    tier = os.environ.get("VERIF_TIER") or "quick"
    replay = None
    rest = argv[1:]
    i = 0
    while i < len(rest):
        if rest[i] == "--replay":
            replay = rest[i + 1]
            i += 2
        else:
            tier = rest[i]
            i += 1
    seed = int(os.environ.get("VERIF_SEED", "0") or 0)
    mod = importlib.import_module(f"harness.props.{pid.lower()}")
    if replay:
        return do_replay(pid, mod, replay)
    r = core.Runner(pid, tier, seed)
    try:
        if r.build_and_check_props():
            mod.run(r)
    except Exception as e:  # a crash of the machinery is reported, never silently passed
        import traceback
        tb = traceback.format_exc()
        sys.stderr.write(tb)
        r.violation("harness-error", {"traceback": tb[-3000:]}, found_input=False,
                    what=f"check machinery failed: {e!r}"[:300])
    return r.finish()


def do_replay(pid, mod, path):
    rp = json.load(open(path))
    if "case" not in rp or "suite" not in rp:
        print(f"replay {path}: no concrete case recorded ({rp.get('kind')}): {rp.get('what')}")
        r = core.Runner(pid, "quick", rp.get("seed", 0))
        ok = r.build_and_check_props()
        print("proof obligations:", "ok" if ok else "BROKEN")
        return 0 if ok else 1
    suite = mod.suite_by_name(rp["suite"])
    case = rp["case"]
    out = suite.impl(case)
    term = suite.render(case, out)
    bad = core.coq_bad_indices(suite.imports, suite.case_type, suite.chk, [term])
    print("case:", json.dumps(case)[:2000])
    print("implementation output:", json.dumps(out, default=str)[:2000])
    if suite.runf and suite.render_in(case):
        print("model:", core.coq_eval(suite.imports, f"{suite.runf} {suite.render_in(case)}"))
    if bad:
        print(f"VIOLATION property={pid} replay={path}")
        return 1
    print("replay: implementation and model agree on this case now")
    return 0


if __name__ == "__main__":
    sys.exit(main(sys.argv[1:]))
