"""Writes /verif/MANIFEST.json from the table below (run: /venv/bin/python -m harness.manifest_gen)."""
import json
import os

VERIF = os.path.dirname(os.path.dirname(os.path.abspath(__file__)))
BASELINE = ("cd /repo && env -u PICKED_GROUP_FDR_VERIF /venv/bin/python -m pytest -ra -q -p no:cacheprovider "
            "--timeout=900 --continue-on-collection-errors")

COMMON_NOTE = ("Trusted: Coq 8.16.1 kernel (vm_compute, no native_compute), the hand-written Gallina model and its "
               "tie to /repo by differential execution on this run's inputs (harness + Python->Coq rendering), "
               "import stubs for absent third-party modules. ")

CLAIMED = {
    "C17": dict(
        text=("Six theorems about Model/Cutoff.v (first crossing; the spec determines the result; mean below the "
              "cutoff <= level; monotone in the level; permutation invariance; non-finite entries ignored), proved for "
              "all lists and levels, plus a correspondence check of fdr.calc_post_err_prob_cutoff against the model "
              "evaluated inside Coq on grid-valued multisets with NaN/inf at every position. Because the spec is "
              "proved to determine the result, every disagreement is a concrete failing input. The two call sites the property "
              "names (the writer's identified-precursor filter, the scoring strategy's peptide counting) are driven with rows "
              "in file order and match-between-runs NaNs and must end up with the function's value on the plain list. Lists of 70 000 - 200 000 "
              "PEPs (beyond what the in-Coq evaluation takes) are checked against the statement in integer arithmetic (monitor only)."),
        note=COMMON_NOTE + "Float running mean assumed exact on the generated grid (argument in evidence.assumptions); "
             "off-grid rounding modelled, not verified. Axioms: none.",
        technique="Coq proof over integer-scaled model + in-Coq (vm_compute) differential correspondence",
        design="5/C17"),
}

CLAIMED["C01"] = dict(
    text=("Theorems about Model/Fdr.v and Model/Results.v for all rankings: each q-value is the minimum over the ranks "
          "at or below it of (decoys+1)/(targets+1) and is attained; q-values are monotone; for every threshold the "
          "accepted set is a prefix whose own (decoys+1)/(targets+1) is at most the threshold; a group is a decoy iff "
          "all members carry a decoy marker; reported rows carry exactly the ranking's (score, q) in order. "
          "Correspondence: fdr.calculate_protein_fdrs and ProteinGroupResults.from_protein_groups against the model "
          "evaluated in Coq on generated rankings (ties, mixed groups, sentinels, placeholders)."),
    note=COMMON_NOTE + "IEEE division correctly rounded (q-values matched to the unique small fraction that rounds to "
         "the float). Entrapment logging branch not modelled. Axioms: none.",
    technique="Coq proof (suffix-minimum characterisation over Q) + in-Coq differential correspondence",
    design="5/C01")
CLAIMED["C06"] = dict(
    text=("Theorems about Model/Results.v: per-protein peptide count = number of evidence peptides at or below the "
          "cutoff listing the protein (once per peptide whatever the multiplicity); full row specification (listed "
          "proteins with counts in group order, majority = count >= max/2, best peptide = minimal (PEP, peptide), "
          "number and flags from the listed proteins, score and q unchanged); row omitted iff keep-all is off and all "
          "counts are zero; rows keep the ranking's non-increasing score order. Correspondence of from_protein_group(s) "
          "against the model on generated groups incl. repeated identifiers, ties, every cutoff, both keep-all settings. "
          "Which option decides the count cutoff: a first pass ignores the PSM-level FDR, methods without a rescue step ignore both "
          "FDR options (theorems over Model/Pipeline.v), and for rescue methods the cutoff is the oracle applied to (PEPs of the final "
          "grouping, PSM-level FDR) - the level is an argument of the recorded oracle, so asking for another level is a disagreement."),
    note=COMMON_NOTE + "Theorems assume one evidence entry per peptide within a group (guaranteed by the pipeline's "
         "dict keyed by peptide). Axioms: none.",
    technique="Coq proof (sorted-scan = declarative filter count) + in-Coq differential correspondence",
    design="5/C06")

CLAIMED["C20"] = dict(
    text=("State-machine model of ProteinGroups (append, extend, merge, remove-empty, re-index, add-unseen, and an edit of the group list "
          "from outside followed by a re-index; four lookups). "
          "Invariant 'a valid index is sound and complete' proved for the initial state and every operation, lifted to every "
          "operation history by fold_left; corollaries: a lookup raises (stale index / unknown key) or returns a group/position "
          "currently containing the protein; a protein in no group is reported missing by every lookup; a re-index after an outside edit "
          "forgets every protein that left the collection. Correspondence: "
          "exhaustive operation sequences (length <= 3 quick, <= 4 thorough, 12-operation alphabet) and random histories, "
          "compared outcome by outcome with the model evaluated in Coq; a Python monitor of the property classifies "
          "disagreements."),
    note=COMMON_NOTE + "List aliasing between groups is not modelled (harness passes fresh lists); set iteration order "
         "canonicalised by sorting. Axioms: none.",
    technique="Coq invariant proof over operation histories (fold_left) + exhaustive small-scope differential correspondence",
    design="5/C20")

CLAIMED["C02"] = dict(
    text=("Model of do_competition for the three strategies with both shuffles as arbitrary permutations. Theorems for "
          "ALL permutations: survivors are unchanged input entries ranked by non-increasing score; a group removed at its "
          "position is a contaminant or shares a stripped identifier with a leading protein of an earlier-kept survivor that "
          "scores higher, or equally with the placeholder clause; no survivor shares such an identifier with a strictly "
          "higher-scoring survivor; classic removes only contaminants. Correspondence: the real do_competition with the "
          "permutations numpy applied recorded and replayed in the model (exhaustive 2-3-group scope + random, scores of every "
          "scoring regime incl. -100.0 with evidence); a Python monitor of the property classifies disagreements and alone decides "
          "groups whose members have 200-1000 peptides (monitor only)."),
    note=COMMON_NOTE + "Python sorted is stable; scores come from a stub scorer (C05 covers the real scores); the 'all' and "
         "'majority' picking strategies (not selectable by any shipped method) are not modelled. Axioms: none.",
    technique="Coq proof over greedy pass + stable sort, quantified over all shuffles; recorded-shuffle differential correspondence",
    design="5/C02")
CLAIMED["C14"] = dict(
    text=("On the same model: within every score class the final order equals the order after the second shuffle, within "
          "every (score, placeholder) class the competition order equals the order after the first shuffle (stability), the "
          "sort keys ignore everything but score and placeholder flag, every arrangement of the input is a shuffle of it, and "
          "for any two arrival orders each shuffle outcome of one corresponds to a shuffle outcome of the other with the same "
          "result. Partial: uniformity of numpy's shuffle is trusted, the theorems show the code adds no bias. Correspondence "
          "with recorded shuffles on tie-heavy inputs; a 6-sigma frequency test is supporting evidence only."),
    note=COMMON_NOTE + "PARTIAL: the distributional claim rests on numpy's Fisher-Yates/MT19937 being uniform (runtime, not "
         "modelled). Axioms: none.",
    technique="Coq proof (sort stability + shuffle equivariance) + recorded-shuffle differential correspondence",
    design="5/C14")

CLAIMED["C03"] = dict(
    text=("Order-faithful model of ObservedPeptides.generate_protein_groups (stale position index, early-exit superset search, "
          "stable sort by peptide count) and of no / pseudo-gene grouping. Proof in two layers for EVERY peptide->proteins map: an "
          "abstract loc/alive machine with a five-clause loop invariant, and a refinement proof that the concrete slot store "
          "implements it; hence every observed protein is in exactly one non-empty group, the leading protein's peptide set "
          "contains every member's, no leader's set is contained in that of a protein outside its group, and leaders' sets are "
          "exactly the distinct inclusion-maximal sets (count). No-grouping singletons proved. Pseudo-gene grouping: the ALGORITHM (merge "
          "every connected component of the leading proteins into its smallest member, by stale slot index) is proved for every map: its "
          "groups are a duplicate-free partition of the observed proteins without empty group, and two proteins share a group exactly when "
          "a chain of proteins with a common peptide links them (closure closedness by a fuel/size argument, components as equivalence "
          "classes, a gathering invariant of the merge loop). The same claim is ALSO decided on the implementation's own "
          "groups by a boolean checker (partition, every group connected by a fuel-bounded closure, no peptide shared between groups) "
          "that is proved sound (checker true => two proteins share a group iff a chain of peptide-sharing proteins links them) and that "
          "the kernel evaluates in every pseudo-gene correspondence case. Correspondence: exact "
          "list-of-lists agreement on incidence structures (all 4x4 structures in the thorough tier) and random larger ones."),
    note=COMMON_NOTE + "Theorems assume distinct peptide keys (a Python dict). networkx.connected_components re-implemented "
         "as a fuel-bounded closure (proved closed and duplicate-free) and tied by correspondence. Axioms: none.",
    technique="Coq loop-invariant + refinement proof (abstract loc/alive machine <- concrete slot store) + connected-components proof of the pseudo-gene algorithm + proved-sound component checker evaluated on the implementation's output + differential correspondence",
    design="5/C03")

CLAIMED["C05"] = dict(
    text=("Model of ProteinScoringStrategy (razor filter with option-typed count tables, evidence collection over C20's index, "
          "PEP list for the cutoff) and of the best-PEP / multiplied-PEP scores with -log10(x+eps) as an arbitrary function. "
          "Theorems: with shared peptides discarded a peptide is evidence for group k iff it has proteins and all are indexed "
          "to k; recorded proteins belong to that group; razor reduces to one of the peptide's own proteins; a peptide supports "
          "at most one group either way; best-PEP score = f(min PEP) for antitone f and never decreases with more evidence; "
          "multiplied-PEP summands are one per distinct peptide, its lowest PEP; groups without evidence are not ranked. "
          "The razor protein is a maximum of the lexicographic key (count, -best PEP, md5, name): transitivity of the key order, fold "
          "invariant, hence no protein of the peptide has more observed peptides. Correspondence of "
          "collect_peptide_scores_per_protein (discard/razor/with_shared, strict/suppressed, stale index), "
          "BestPEPScore.calculate_score (numpy-tabulated f) and MultPEPScore (terms checked in Coq, float fold in Python)."),
    note=COMMON_NOTE + "numpy log10 tabulated (same primitive); md5 uninterpreted/tabulated; MultPEP divisor search not modelled. "
         "Axioms: none.",
    technique="Coq proof over fold-based collection + order lemmas; in-Coq differential correspondence with tabulated oracles",
    design="5/C05")

CLAIMED["C04"] = dict(
    text=("Order-faithful model of the rescue regrouping (cutoff with tabulated 10^-x, strict filter, subset grouping of the "
          "kept peptides, identified-group detection, bipartite graph over leading proteins, component decoupling worklist, "
          "add_unseen with placeholders); networkx's minimum-cut search is an ORACLE whose recorded answers are contract-checked "
          "and replayed. Theorems for every contract-satisfying oracle: merging only moves proteins; the result is a duplicate-free "
          "partition of exactly the first-pass proteins with no empty group; groups that are no graph node (all groups with a "
          "peptide of their own) survive unchanged; remnants = former group-mates that kept nothing; placeholders exist exactly for "
          "completely absorbed groups and carry the marker that keeps them out of the report; no unidentified group => plain subset "
          "grouping; the rescue cutoff is 10^-(lowest score among the first-pass rows with q < threshold, among all rows when none) "
          "and the threshold reaches the result of the whole inference function only through it; two proteins share a group after the "
          "rescue only if their first-pass groups are equal or linked by a chain of groups without own peptides whose leading proteins "
          "share a peptide (never across unconnected groups). PARTIAL: 'merged iff inseparable' speaks about the minimum-cut search "
          "(the oracle) and is decided by the exact correspondence plus a brute-force monitor of all C04 clauses on the "
          "implementation's output, not by a theorem."),
    note=COMMON_NOTE + "Min-cut search not modelled (monitored contract). rescue_partition assumes the initial components are "
         "leading proteins of distinct groups (checked on every recorded call). np.power tabulated. Axioms: none.",
    technique="Coq proof for all contract-satisfying splitter oracles + recorded-oracle differential correspondence + brute-force property monitor",
    design="5/C04")

CLAIMED["C07"] = dict(
    text=("Model of get_protein_group_results as a function run : state -> input -> shuffles -> oracles -> state x rows, with "
          "every field the long-lived strategy objects keep between calls threaded explicitly. Theorems: the result does not depend on "
          "the incoming state AT ALL (the competition clears its seen set before the loop - repair D15 - so not even the set an aborted "
          "call left behind is read); every call (also a failing one) leaves the seen-set empty; "
          "hence a call after ANY history of earlier calls on the same configuration object - completed, failed, or ABORTED at an "
          "arbitrary point leaving an arbitrary state - equals a fresh call; razor tables are "
          "unread without the razor option. PARTIAL: the hash seed, numpy's RNG stream and networkx internals are runtime "
          "behaviour the model cannot exhibit; they are explored by the correspondence: all 27 shipped methods against the model "
          "with recorded oracles, random call histories on a re-used MethodConfig versus fresh ones (two in three with a call interrupted inside the competition "
          "loop, a quarter of the calls started on a directly dirtied seen set), and CLI runs under 4 (quick) "
          "/ 8 (thorough) PYTHONHASHSEED values compared byte for byte (single-method and three-method command lines, every written file)."),
    note=COMMON_NOTE + "PARTIAL (interpreter hash seed, numpy RNG stream, networkx internals observed not proved). Scores, PEP "
         "cutoffs, shuffles and splitter answers are recorded oracles here (own models: C05, C17, C02/C14, C04). Axioms: none.",
    technique="Coq proof of history independence over an explicit state-threading model + schedule exploration (call histories, hash seeds) as correspondence",
    design="5/C07")
CLAIMED["C18"] = dict(
    text=("The list of shipped methods is REGENERATED from /repo's methods/*.toml on every run (fail-closed translator) and the "
          "finite-domain theorems are re-proved by vm_compute: no shipped method combines a rescue grouping with a score that "
          "cannot rescue, none needs a proteinGroups.txt file. General theorems: an unsupported combination returns the tool's "
          "own NotImplemented refusal; every table a run returns consists of rows built by from_protein_groups from a "
          "do_competition ranking with calculate_protein_fdrs q-values (so C01/C02/C06 apply). Correspondence: the inference of "
          "every shipped method against Model/Pipeline.v; the regenerated table against parse_method_toml's objects; subprocess "
          "CLI runs of every method on generated input of the type it reads (MaxQuant, Percolator, FragPipe, Sage, DIA-NN tsv) "
          "with the row-level monitor, without --fasta (own refusal expected), with input of another type (skip expected), several "
          "methods at once; and a glue differential: under randomly drawn options (keep-all, both FDR options, digestion parameters "
          "incl. two parameter sets, decoy / gene-level / accession flags, with and without FASTA) the table the command line writes "
          "is byte-identical to the hand-placed composition of the functions the models are tied to."),
    note=COMMON_NOTE + "Translator harness/gen_tables.py trusted (fail-closed; its output is compared with the real parser's "
         "objects). Inputs where no group has any evidence are outside the domain. Parsing/writing layers are exercised by CLI "
         "runs, not modelled here (C10/C13). Axioms: none.",
    technique="regenerated-table theorems (vm_compute over the shipped list) + Coq pipeline model correspondence + CLI sweep",
    design="5/C18")

CLAIMED["C08"] = dict(
    text=("Models of is_enzymatic, non-specific, semi-specific and full digestion (window of start positions, methionine "
          "handling, the clamped residue pair at the last position) and a declarative cleavage rule spec_digest. Theorems: a site is "
          "exactly 'after a pre residue not followed by a not_post residue, or before a post residue'; ALL THREE digestion modes yield "
          "exactly the rule's peptide set for ALL non-empty sequences, enzymes, windows (min_len >= 1), missed-cleavage budgets and "
          "methionine settings: non-specific by enumeration; full by the loop invariant 'the open starts are the last mc+1 boundaries' "
          "(with the initiator-methionine site: all of them while at most mc+2 were seen) plus counting of the sites between two "
          "boundaries; semi-specific by a position-by-position invariant (an admissible end admits every start from the first open one "
          "on, an inadmissible end exactly the open starts), with the three methionine situations (site behind M also enzymatic / not / "
          "single-residue protein). The enzyme table is REGENERATED from digest.py's AST on every run and proved well-formed. "
          "Correspondence: get_digested_peptides against the model (set equality) AND the implementation's output against spec_digest "
          "evaluated in Coq (so a disagreement yields a concrete failing sequence), on exhaustive small and random long sequences with "
          "every enzyme of the table; the digest module's own command line (peptide map, iBAQ table and Prosit input in one call) against "
          "the functions called one by one on fresh parameter objects (main_differential)."),
    note=COMMON_NOTE + "Sequences non-empty, min_len >= 1 (the empty sequence and min_len 0 are outside the theorems; the tool never "
         "digests with min_len 0). Translator for the enzyme table trusted (fail-closed, compared with the runtime dict). Axioms: none.",
    technique="Coq proof for all inputs (loop invariants for full and semi-specific digestion) + in-Coq spec evaluation on the implementation's output",
    design="5/C08")

CLAIMED["C09"] = dict(
    text=("Models of read_fasta_maxquant (line loop, rstrip, id parsing, target/decoy/concat, special-residue swap), the peptide-to-"
          "protein map (per-protein de-duplication, merge over files and parameter sets), hashed non-specific lookup, iBAQ peptide "
          "numbers and the map file. Theorems for every digestion function and record list: map[pep] = the proteins whose digestion "
          "yields pep, in database order, each once for distinct identifiers; the decoy record is prefix+id with the reversed sequence "
          "whose special residues are swapped with their predecessors (a permutation of the residues); the non-specific lookup returns, "
          "sorted, exactly the proteins whose sequence contains the peptide; the iBAQ number = number of distinct peptides of the "
          "protein's digestion; the map merged over several parameter sets / files lists every protein of any of the maps exactly once "
          "per peptide in first-seen order; reading the written map file gives the map back; read_fasta on a well-formed FASTA text returns the records in order "
          "(identifier = parse_id of the header, sequence = concatenated sequence lines, decoys per database mode). Correspondence on generated FASTA text (wrapping, CRLF, blank lines), 1-2 files x 1-3 parameter sets "
          "with several proteases, target and target+decoy, special residues KR/none, hashed lookups, iBAQ numbers, map file round trip."),
    note=COMMON_NOTE + "Text decoding/universal newlines and csv are the runtime's (lines obtained with Python's own open()); "
         "read_fasta's behaviour on MALFORMED text (blank lines, bare '>', trailing white space) is tied by correspondence only; identifiers "
         "distinct, without ';'. Axioms: none.",
    technique="Coq proof over association-list model (equational map spec, counting via NoDup permutations) + file-level differential correspondence",
    design="5/C09")

CLAIMED["C19"] = dict(
    text=("Model of the UniProt header parsers (str.split with multi-character separators), the annotation dictionaries (first "
          "record wins within a file, later file wins across files), the gene-level switch and the annotation columns. Theorems: "
          "a general split lemma (the first occurrence of a separator whose first character occurs nowhere else in it ends the first "
          "piece) and join(split(s)) = s; for headers composed from the grammar each parser returns the field it was composed of "
          "(identifier, accession, entry name, description, gene name or None, organism when a gene field is present, existence "
          "level, sequence length); first record wins; columns list each distinct id / gene / header once in row order; the "
          "gene-level rule. Correspondence: get_protein_annotations on generated UniProt-grammar FASTA files for each identifier "
          "rule, target and target+decoy, plus a composed-field oracle and the annotation columns."),
    note=COMMON_NOTE + "File decoding is the runtime's. The strict > 0.5 gene-name rule is modelled as in the code. Multi-digit "
         "existence levels and the across-file override are tied by correspondence only. Axioms: none.",
    technique="Coq proof (string-splitting lemmas + field round trips for all well-formed field values) + file-level differential correspondence",
    design="5/C19")

CLAIMED["C10"] = dict(
    text=("Model of the ingestion layer: modification stripping (two regular-expression passes as a structural two-state scanner + "
          "the ')' clean-up), the decoy purge, the peptide-to-protein mapper (remap via the digest map or file proteins, unknown -> "
          "skip, razor filter, purge), the six cell-level row decoders and the best-score fold over all files. Theorems for all "
          "row lists: the stored PEP of a stripped peptide is the minimum over all its PSMs with a PEP in all files, with the "
          "proteins of a PSM attaining it, independent of row/file order; peptides built from residues and one-level (..)/[..] or "
          "two-level parenthesised modifications strip to their residues; Percolator flanks 'x.BODY.y' are recognised and stripped to BODY "
          "whatever the flank characters; the purge leaves all-decoy lists alone and removes decoy "
          "entries from lists with a target; every list the mapper passes on is pure; unknown peptides are skipped; with well-formed "
          "identifiers every subset group is all-target or all-decoy (with C03). Correspondence on generated files of the six "
          "formats x score types (remap or not, razor), several files with their own maps, Percolator peptides without flanks, with "
          "'-.X.-', with neighbouring residues 'K.X.A' and mixed (repair D17), plus a Python monitor of the property."),
    note=COMMON_NOTE + "csv splitting, pandas' number parsing (DIA-NN), float(cell), 1-p+1e-16 and 10^x are runtime oracles tabulated "
         "with the same primitives; parquet input and ms2rescore's eval are not modelled. Axioms: none.",
    technique="Coq proof (fold = running minimum; token-level proof of the regex scanner; purity) + file-level differential correspondence for six formats",
    design="5/C10")

CLAIMED["C15"] = dict(
    text=("Cell-level model of the rescoring merge for Andromeda-style identifiers (PSM-id parsing with underscores in raw-file "
          "names, peptide normalisation, results dictionary with later rows overriding, per-row update, first header only). Theorems: "
          "a written row differs from its source in at most the score and PEP cells and has the same length; match-between-runs rows "
          "pass through; an MS/MS row is rewritten with the rescored values iff (raw file, scan, modified sequence) is in the results "
          "and dropped otherwise; without results the files are concatenated under the first header; PSM ids round-trip for raw-file "
          "names containing underscores. Correspondence: update_evidence_from_pout.main on generated file sets compared cell by cell, "
          "plus an independent Python join as property monitor."),
    note=COMMON_NOTE + "csv and repr(float) are the runtime's (tabulated). Prosit/ProForma branch not modelled. Result files without "
         "any PSM row behave like no result files (code tests the dictionary, not the file list). Axioms: none.",
    technique="Coq proof over a cell-level row model + file-level differential correspondence + independent join monitor",
    design="5/C15")
CLAIMED["C16"] = dict(
    text=("Model of the publication protocol on the two paths (final, final.tmp) with crash states (any prefix of the operation list; "
          "an unclosed temporary file holds any prefix of its data). Theorems for all crash points and inputs: the final path holds its "
          "initial content or the complete output, never a proper prefix; a re-run from any crash state yields the bytes of an "
          "uninterrupted run and further re-runs change nothing; an existing final output is never modified. PARTIAL: atomicity of "
          "rename(2) and the correspondence between the real steps and the modelled operations are runtime facts; they are explored by "
          "strace traces of both real steps (openat/rename on the two paths must be exactly open-truncate tmp, rename tmp->final; "
          "nothing on an existing output) and by SIGKILL at every row write, before and after the rename, each followed by two re-runs "
          "compared byte for byte; write errors raised inside the writer; the output path typed relative, with ./, sub/../ and ~ (two "
          "runs in a row, every file of the tree compared)."),
    note=COMMON_NOTE + "PARTIAL: OS crash semantics (rename atomicity, data written before close survives SIGKILL) trusted; power "
         "loss outside the property. Kill points are injected from outside (wrapping tsv.get_tsv_writer / os.rename). Axioms: none.",
    technique="Coq proof over a crash-state model of the protocol + syscall-trace correspondence + exhaustive kill-point runs",
    design="5/C16")

CLAIMED["C13"] = dict(
    text=("Model of the result table (headers + per-row extra cells), of the header lists and per-row cell counts of the column "
          "generators of the minimal, MaxQuant and DIA-NN writers as functions of (experiments, #SILAC, #TMT), of writing with and "
          "without a header dictionary, of the csv dialect (writer and reader state machine) and of the protein-group FDR filter. "
          "Theorems: every generator appends as many cells as headers, for all experiment lists and labellings; the invariant "
          "'unique headers and every row as long as the header' holds initially and is preserved by every generator, hence after "
          "any generator sequence; dictionary outputs have one cell per entry; the DIA-NN dictionary refers only to produced "
          "columns for ANY number of runs; csv_read (csv_write rows) = rows for ALL cell contents; the filter outputs header + "
          "exactly the passing rows, unchanged, in order. Correspondence: CLI runs with --do_quant (1-3 experiments, label-free, "
          "SILAC 2/3, TMT, --skip_lfq, DIA-NN 1-3 runs, minimal writer) - header vs model, row lengths, read-back of ids/q/score "
          "vs in-memory results; byte-level comparison of the tool's tsv writer with the Coq writer and the Coq reader on the same "
          "bytes; the filter tool on generated files (q-values incl. nan / inf, a nan cutoff); monitor-only sweeps: cells beyond the csv "
          "field limit, a re-read asking for present and absent columns, a table that is not valid UTF-8 (refused or unchanged)."),
    note=COMMON_NOTE + "Cell VALUES are C12's subject (only their number enters here). Triqler columns and FragPipe writers not "
         "modelled. repr(float) round trip is a language guarantee; float(cell) <= cutoff tabulated. Axioms: none.",
    technique="Coq invariant proof over generator sequences + csv state-machine round-trip proof + CLI/byte-level differential correspondence",
    design="5/C13")

CLAIMED["C12"] = dict(
    text=("Model of add_precursor_quants (group lookup of each evidence row, missing / shared rows skipped, experiments), of "
          "append_quant_columns (groups without precursors dropped, identified-precursor filter) and of the unique-peptide, "
          "identification-type, summed-intensity / iBAQ and evidence-id generators. Theorems: a row is attached to group g iff it "
          "has proteins and all are indexed to g; to at most one group; over all groups the number of attached precursors is at "
          "most the number of rows (no row counted twice); a row is retained iff a row of the same peptide and charge in the group "
          "passes the cutoff; the identification-type loop equals 'By MS/MS if some row passes, else By matching if some MBR row, "
          "else empty'; total intensity = sum over experiments for any number of SILAC channels; iBAQ = intensity / max(1, #theoretical "
          "peptides of the leading protein); evidence ids are the sorted ids of the counted rows; the table has one row per group with "
          "precursors in reported order. Correspondence: the real add_precursor_quants + append_quant_columns (real column "
          "classes) on generated evidence files, every cell compared; the two command-line routes (picked_group_fdr --do_quant and "
          "the standalone quantification entry point fed with the first one's table) must agree on every column and ask the cutoff "
          "function for the --psm_fdr_cutoff level."),
    note=COMMON_NOTE + "Rows enter the model as the tool's parser yields them (C10). calc_post_err_prob_cutoff is a recorded oracle keyed by "
         "the exact PEP list (its contract: C17). Intensities on a grid where float addition is exact; iBAQ floats compared through "
         "correct rounding of the exact quotient. TMT reporter cells are modelled (tmt_intensities; evidence with 1-2 TMT channels); "
         "the experimental-design override is modelled (quantify_design); sequence-coverage columns are not modelled "
         "(header/cell counts: C13). LFQ: C11. Axioms: none.",
    technique="Coq proofs over a functional model of the quantification step + differential correspondence on generated evidence files",
    design="5/C12")

CLAIMED["C11"] = dict(
    text=("Two-layer model of columns/lfq.py and columns/fastlfq.py. Exact layer over Q (executable): _getPeptideIntensities (filter, "
          "sort key, best feature per (peptide, charge, sample, fraction), SILAC layout, total), the validity structure and medians of "
          "_getLogMedianPeptideRatios incl. the FastLFQ edge filter, _applyLargeRatioStabilization (log values kept symbolic), linked / "
          "zero samples, _scaleEqualSum, build_graph / prune_graph. Specification layer over R: the least-squares objective of the ratio "
          "equations. Theorems: median ratio of consistent data = b_i/b_j; a pair gets a ratio only with enough own and shared peptides; "
          "FastLFQ keeps only graph edges; the three stabilisation regimes; vanishing gradient => global least-squares minimiser; on "
          "consistent data every minimiser reproduces b_i/b_j between all linked samples; multiplying all intensities by a constant changes "
          "neither which pairs get a ratio nor any median ratio (scaling); rescaling keeps solution ratios, sums to the "
          "total, unlinked samples 0; and a REFUTATION: 'permutes with the samples' is false of the faithful model (arithmetic median "
          "of an even number of ratios is not reciprocal) - known finding D13; every exact stage is invariant under an order-preserving renaming "
          "of the experiments; every exact stage is invariant under ANY permutation of the precursor list provided the sort key is a linear "
          "order on the used precursors (it is when each carries a PEP and no two tie on the whole key) - and a second REFUTATION: without "
          "that proviso precursor-order independence is false of the model and of the code (full-key ties with different SILAC channels) - "
          "known finding D16, replayed on the real code in every run. Correspondence: the real _getLFQIntensities with its "
          "stages recorded (matrix and total exact, medians 1e-13, log ratios through a tabulated ln 1e-11, zero pattern, total 1e-9, "
          "normal equations 1e-3 on the implementation's own answer); append_columns: the graph handed down vs the Coq graph model, "
          "columns = per-group results; metamorphic runs (order-preserving renaming, precursor order, scaling, sample permutation, "
          "--num_threads 2 through an in-process stand-in for the absent job pool); chains of 12-60 samples with exactly consistent data "
          "(monitor only)."),
    note=COMMON_NOTE + "PARTIAL: np.log/np.exp, float division, bottleneck.nanmedian and scipy's iterative lsqr are outside the model; the "
         "final comparison is tolerance-based (supporting evidence, not exact correspondence). Precursor-order, renaming and scaling "
         "invariance are theorems about the exact layer AND metamorphic tests on the implementation's final floats. Axioms (theorems over R only): "
         "ClassicalDedekindReals.sig_forall_dec, ClassicalDedekindReals.sig_not_dec, FunctionalExtensionality.functional_extensionality_dep.",
    technique="Coq proofs (exact Q model + least-squares specification over Reals) + staged differential correspondence with tolerance + metamorphic runs",
    design="5/C11")

ALL = [f"C{i:02d}" for i in range(1, 21)]


def main():
    checks = []
    for pid in ALL:
        if pid not in CLAIMED:
            continue
        c = CLAIMED[pid]
        checks.append({
            "property_id": pid,
            "quick_cmd": f"./check {pid} quick",
            "thorough_cmd": f"./check {pid} thorough",
            "evidence_file": f"/verif/evidence/{pid}.json",
            "replay_cmd_template": f"./check {pid} --replay {{path}}",
            "engine": "coq-model-correspondence",
            "level_claimed": {"category": "proof", "text": c["text"], "design_ref": "DESIGN.md section " + c["design"]},
            "level_note": c["note"],
            "technique": c["technique"],
        })
    na = [{"property_id": pid, "reason": "check not built yet in this round (planned, see DESIGN.md section 8); no claim is made"}
          for pid in ALL if pid not in CLAIMED]
    m = {
        "version": 1,
        "setup_cmd": "./setup.sh",
        "hooks": {
            "guard": "PICKED_GROUP_FDR_VERIF",
            "enable": "no source hook is needed: the harness wraps the real code from outside (monkeypatching, stubs on PYTHONPATH); ./check exports PICKED_GROUP_FDR_VERIF=1 for form only",
            "baseline_off_cmd": BASELINE,
            "source_commits": [],
            "add_only": True,
        },
        "engines": [{
            "name": "coq-model-correspondence",
            "path": "/verif/check",
            "serves_properties": sorted(CLAIMED),
            "kind_free_text": "Coq 8.16 theorems over hand-written Gallina models (coq/theories), re-checked on every run; "
                              "models evaluated inside Coq (vm_compute) against the real Python code on generated inputs",
        }],
        "checks": checks,
        "not_applicable": na,
        "notes": "See DESIGN.md. known_findings.json lists repaired defects (fix: commits in /repo).",
    }
    with open(os.path.join(VERIF, "MANIFEST.json"), "w") as f:
        json.dump(m, f, indent=1)
    print("MANIFEST.json:", len(checks), "checks,", len(na), "not applicable")


if __name__ == "__main__":
    main()
