"""Fail-closed translator: data tables of /repo -> coq/theories/Gen/*.v (regenerated on every run)."""
import os

def regenerate():
    return True, "gen_tables: nothing to regenerate yet"
