"""Harness core: Coq build / property re-check / correspondence runner / evidence / findings.

Everything here is generic; the per-property modules in harness/props/ supply suites.
"""
from __future__ import annotations

import atexit
import collections
import concurrent.futures
import hashlib
import json
import os
import random
import re
import shutil
import subprocess
import sys
import tempfile
import time
from fractions import Fraction
from typing import Any, Callable, Dict, Iterable, List, Optional

VERIF = os.path.dirname(os.path.dirname(os.path.abspath(__file__)))
COQ = os.path.join(VERIF, "coq")
THEORIES = os.path.join(COQ, "theories")
REPO = os.environ.get("PGF_REPO", "/repo")
COQC = ["coqc", "-Q", THEORIES, "PGF"]

# standard-library axioms that may appear under Print Assumptions (named in DESIGN.md section 6)
ALLOWED_AXIOMS = {
    "ClassicalDedekindReals.sig_forall_dec",
    "ClassicalDedekindReals.sig_not_dec",
    "FunctionalExtensionality.functional_extensionality_dep",
}

_scratch: Optional[str] = None


def scratch() -> str:
    """A scratch directory outside /repo and /verif, removed at exit."""
    global _scratch
    if _scratch is None:
        base = os.environ.get("PGF_SCRATCH_BASE") or tempfile.gettempdir()
        _scratch = tempfile.mkdtemp(prefix="pgfverif_", dir=base)
        atexit.register(lambda: shutil.rmtree(_scratch, ignore_errors=True))
    return _scratch


# ------------------------------------------------------------------ Coq term rendering

def cZ(n: int) -> str:
    return f"({int(n)})%Z"


def cN(n: int) -> str:
    return f"{int(n)}%N"


def cnat(n: int) -> str:
    return f"{int(n)}%nat"


def cpos(n: int) -> str:
    assert n > 0
    return f"{int(n)}%positive"


def cbool(b) -> str:
    return "true" if b else "false"


def cQ(fr) -> str:
    fr = Fraction(fr)
    return f"(({fr.numerator})#{fr.denominator})%Q"


_SAFE = set(range(32, 127)) - {ord('"')}


def cstr(s: str) -> str:
    if all(ord(c) in _SAFE for c in s):
        return f'(s2l "{s}")'
    return "[" + "; ".join(cN(ord(c)) for c in s) + "]"


def clist(items: Iterable[str]) -> str:
    return "[" + "; ".join(items) + "]"


def cpair(*items: str) -> str:
    return "(" + ", ".join(items) + ")"


def copt(x: Optional[str]) -> str:
    return "None" if x is None else f"(Some {x})"


def cok(x: str) -> str:
    return f"(Ok {x})"


def craise(e: str) -> str:
    return f"(Raise {e})"


def frac_of_float(x: float) -> Fraction:
    return Fraction(*float(x).as_integer_ratio())


# ------------------------------------------------------------------ running Coq

def run(cmd, cwd=None, timeout=1800, env=None):
    p = subprocess.run(cmd, cwd=cwd, stdout=subprocess.PIPE, stderr=subprocess.STDOUT,
                       text=True, timeout=timeout, env=env)
    return p.returncode, p.stdout


def coq_build(log: List[str]) -> bool:
    """Regenerate Gen/*.v from /repo, then make (a no-op when nothing changed)."""
    from . import gen_tables
    ok, msg = gen_tables.regenerate()
    log.append(msg)
    if not ok:
        return False
    if not os.path.exists(os.path.join(COQ, "Makefile")):
        rc, out = run(["coq_makefile", "-f", "_CoqProject", "-o", "Makefile"], cwd=COQ)
        if rc != 0:
            log.append(out)
            return False
    rc, out = run(["timeout", "1700", "make", "-j16"], cwd=COQ, timeout=1800)
    if rc != 0:
        log.append(out[-4000:])
        return False
    return True


COQCHK_ALLOWED = {
    "Coq.Logic.FunctionalExtensionality.functional_extensionality_dep",
    "Coq.Reals.ClassicalDedekindReals.sig_not_dec",
    "Coq.Reals.ClassicalDedekindReals.sig_forall_dec",
    "Coq.Logic.Classical_Prop.classic",       # declared by the loaded Reals library; no theorem of Props/ depends on it
}


def run_coqchk() -> Dict[str, Any]:
    """Re-check every compiled Props file (and everything it depends on) with Coq's independent checker; return the axioms of the
    whole loaded context.  About a minute."""
    mods = [f"PGF.Props.C{i:02d}" for i in range(1, 21)]
    rc, out = run(["timeout", "1500", "coqchk", "-silent", "-o", "-Q", THEORIES, "PGF"] + mods, cwd=COQ, timeout=1600)
    axioms = []
    m = re.search(r"\* Axioms:(.*?)\n\s*\n\* ", out, flags=re.S)
    if m:
        axioms = [a.strip() for a in m.group(1).split("\n") if a.strip() and a.strip() != "<none>"]
    problems = []
    if rc != 0:
        problems.append("coqchk failed: " + out[-1500:])
    for key in ("type-in-type", "unsafe (co)fixpoints", "positivity is assumed"):
        mm = re.search(re.escape(key) + r":\s*(.*)", out)
        if not mm or "<none>" not in mm.group(1):
            problems.append(f"coqchk: '{key}' is not <none>")
    bad = [a for a in axioms if a not in COQCHK_ALLOWED]
    if bad:
        problems.append("coqchk: axioms outside the named standard-library set: " + ", ".join(bad))
    return {"axioms": axioms, "problems": problems, "cmd": "coqchk -silent -o -Q theories PGF PGF.Props.C01 ... PGF.Props.C20"}


FORBIDDEN = re.compile(
    r"\b(Admitted|admit|Axiom|Axioms|Parameter|Parameters|Conjecture|Admit Obligations|"
    r"Unset Guard Checking|Unset Positivity Checking|Unset Universe Checking|bypass_check|"
    r"native_compute)\b")


def grep_gate() -> List[str]:
    """No Admitted/Axiom/Parameter/... anywhere in the development (comments are stripped)."""
    bad = []
    for root, _, files in os.walk(THEORIES):
        for f in files:
            if not f.endswith(".v"):
                continue
            path = os.path.join(root, f)
            txt = open(path).read()
            txt = _strip_comments(txt)
            for m in FORBIDDEN.finditer(txt):
                bad.append(f"{os.path.relpath(path, COQ)}: {m.group(0)}")
            # Variable/Hypothesis outside a section
            depth = 0
            for line in txt.splitlines():
                s = line.strip()
                if re.match(r"Section\s", s):
                    depth += 1
                elif re.match(r"End\s", s) and depth > 0:
                    depth -= 1
                elif depth == 0 and re.match(r"(Variables?|Hypothes[ie]s|Context)\b", s):
                    bad.append(f"{os.path.relpath(path, COQ)}: top-level {s[:40]}")
    return bad


def _strip_comments(txt: str) -> str:
    out, depth, i = [], 0, 0
    while i < len(txt):
        if txt.startswith("(*", i):
            depth += 1
            i += 2
        elif txt.startswith("*)", i) and depth > 0:
            depth -= 1
            i += 2
        else:
            if depth == 0:
                out.append(txt[i])
            i += 1
    return "".join(out)


def check_props(pid: str) -> Dict[str, Any]:
    """Re-compile Props/<pid>.v from scratch, parse Print Assumptions output."""
    src = os.path.join(THEORIES, "Props", f"{pid}.v")
    txt = _strip_comments(open(src).read())
    theorems = re.findall(r"^\s*Theorem\s+(\w+)", txt, flags=re.M)
    printed = re.findall(r"^\s*Print Assumptions\s+(\w+)", txt, flags=re.M)
    problems = []
    for t in theorems:
        if t not in printed:
            problems.append(f"theorem {t} has no Print Assumptions")
    proofs = re.findall(r"Proof\.(.*?)Qed\.", txt, flags=re.S)
    for vo in (src + "o", src[:-2] + ".glob", src[:-2] + ".vos", src[:-2] + ".vok"):
        if os.path.exists(vo):
            os.remove(vo)
    cmd = ["timeout", "600"] + COQC + [src]
    t0 = time.time()
    rc, out = run(cmd, cwd=COQ, timeout=700)
    closed = len(re.findall(r"Closed under the global context", out))
    axiom_blocks = re.findall(r"Axioms:\n((?:.+\n?)+?)(?=\n\S|\Z)", out)
    axioms = set()
    for blk in re.findall(r"Axioms:(.*?)(?=Closed under|Axioms:|\Z)", out, flags=re.S):
        for m in re.finditer(r"^([A-Za-z_][\w.']*)\s*:", blk, flags=re.M):
            axioms.add(m.group(1))
    with_axioms = len(re.findall(r"^Axioms:", out, flags=re.M))
    unlisted = sorted(a for a in axioms if a not in ALLOWED_AXIOMS)
    if rc != 0:
        problems.append("coqc failed: " + out[-1500:])
    if unlisted:
        problems.append("unlisted axioms: " + ", ".join(unlisted))
    discharged = closed + with_axioms if rc == 0 else 0
    if rc == 0 and discharged < len(theorems):
        problems.append(f"only {discharged} of {len(theorems)} theorems reported assumptions")
    return {
        "theorems": theorems,
        "obligations": len(theorems),
        "discharged": min(discharged, len(theorems)) if not problems else (0 if rc != 0 else min(discharged, len(theorems))),
        "axioms": sorted(axioms),
        "checker_cmd": " ".join(cmd),
        "problems": problems,
        "wall_s": round(time.time() - t0, 2),
        "print_assumptions_output": out[-3000:] if rc == 0 else out[-3000:],
    }


def _coq_file(imports: str, body: str, tag: str) -> str:
    d = scratch()
    name = f"cases_{tag}_{os.getpid()}_{random.getrandbits(32):08x}"
    path = os.path.join(d, name + ".v")
    with open(path, "w") as f:
        f.write(imports + "\n" + body + "\n")
    return path


def coq_bad_indices(imports: str, case_type: str, chk: str, terms: List[str],
                    shard: int = 250, jobs: int = 16) -> List[int]:
    """Evaluate [chk] on every rendered case inside Coq; return indices where it is false."""
    shards = [(i, terms[i:i + shard]) for i in range(0, len(terms), shard)]

    def one(arg):
        off, ts = arg
        body = (f"Definition cases : list ({case_type}) :=\n  [" + ";\n   ".join(ts) + "].\n"
                f"Definition bad := Eval vm_compute in bad_indices ({chk}) cases.\n"
                "Open Scope N_scope.\nPrint bad.\n")
        path = _coq_file(imports, body, "b")
        rc, out = run(["timeout", "900"] + COQC + [path], cwd=scratch(), timeout=1000)
        for ext in (".v", ".vo", ".glob", ".vok", ".vos"):
            try:
                os.remove(path[:-2] + ext)
            except OSError:
                pass
        if rc != 0:
            raise RuntimeError(f"coqc failed on case shard at {off}:\n{out[-3000:]}")
        m = re.search(r"bad\s*=\s*(.*?):\s*list N", out, flags=re.S)
        if not m:
            raise RuntimeError("cannot parse coqc output: " + out[-2000:])
        return [off + int(x) for x in re.findall(r"\d+", m.group(1))]

    bad: List[int] = []
    with concurrent.futures.ThreadPoolExecutor(max_workers=jobs) as ex:
        for r in ex.map(one, shards):
            bad.extend(r)
    return sorted(bad)


def coq_eval(imports: str, expr: str) -> str:
    """Evaluate one expression with vm_compute and return Coq's printed answer (diagnostics)."""
    path = _coq_file(imports, f"Eval vm_compute in ({expr}).", "e")
    rc, out = run(["timeout", "300"] + COQC + [path], cwd=scratch(), timeout=400)
    return out.strip()[-4000:]


# ------------------------------------------------------------------ suites

class Suite:
    """One correspondence between a real entry point and a model function."""
    name = "suite"
    imports = "From PGF Require Import Base.Prelude."
    case_type = "unit"
    chk = "fun _ => true"       # Coq: case -> bool   (model agrees with the implementation)
    runf: Optional[str] = None  # Coq: input -> output  (for diagnostics)
    pb: Optional[str] = None    # Coq: case -> bool   (property holds of the implementation's output)
    deterministic = True        # property determines the output: disagreement == property failure
    rule = ""

    def gen(self, rng: random.Random, tier: str):
        return []

    def impl(self, case):
        raise NotImplementedError

    def render(self, case, out) -> str:
        raise NotImplementedError

    def render_in(self, case) -> Optional[str]:
        return None

    def nontrivial(self, case, out) -> bool:
        return True

    def describe(self, case, out) -> Dict[str, Any]:
        return {}

    def signature(self, case, out) -> str:
        """A short tag identifying the failure class (matched against known findings)."""
        return self.name

    def shrink(self, case):
        """Candidate smaller cases (default: none)."""
        return []

    def py_property(self, case, out):
        """Optional monitor of the property on the implementation's own output: returns a short tag when the
        property is violated on this case, else None.  Used to classify a disagreement and to steer shrinking."""
        return None

    has_py_property = False


def _key(obj) -> str:
    return hashlib.sha1(json.dumps(obj, sort_keys=True, default=str).encode()).hexdigest()


class Runner:
    def __init__(self, pid: str, tier: str, seed: int):
        self.pid, self.tier, self.seed = pid, tier, seed
        self.t0 = time.time()
        self.rng = random.Random(seed)
        self.log: List[str] = []
        self.violations: List[Dict[str, Any]] = []
        self.known_hits: List[str] = []
        self.evaluations = 0
        self.nontrivial_keys = set()
        self.samples: List[Any] = []
        self.dist: Dict[str, collections.Counter] = collections.defaultdict(collections.Counter)
        self.suite_counts: Dict[str, int] = {}
        self.traces = 0
        self.props: Dict[str, Any] = {}
        self.extra: Dict[str, Any] = {}
        self.assumptions: List[str] = []
        self.rule_parts: List[str] = []
        self.exhaustive = False
        self.findings = load_findings()

    # ---------------- building and proof obligations
    def build_and_check_props(self):
        gate = grep_gate()
        if gate:
            self.violation("proof-gate", {"forbidden": gate}, found_input=False,
                           what="forbidden declarations in the development: " + "; ".join(gate[:5]))
        ok = coq_build(self.log)
        if not ok:
            self.props = {"obligations": 1, "discharged": 0, "theorems": [], "axioms": [],
                          "checker_cmd": "make -C coq", "problems": ["build failed"]}
            self.violation("build", {"log": self.log[-3:]}, found_input=False,
                           what="Coq development (or a regenerated Gen table theorem) no longer builds")
            return False
        self.props = check_props(self.pid)
        if self.props["problems"]:
            self.violation("proof-obligation", {"problems": self.props["problems"]}, found_input=False,
                           what="Props/%s.v no longer checks: %s" % (self.pid, self.props["problems"][0][:300]))
            return False
        return True

    # ---------------- correspondence
    def run_suite(self, suite: Suite, extra_cases: Optional[List[Any]] = None, max_report: int = 1):
        cases = list(load_corpus(self.pid, suite.name))
        ncorpus = len(cases)
        if extra_cases:
            cases.extend(extra_cases)
        cases.extend(suite.gen(self.rng, self.tier))
        outs, terms = [], []
        for c in cases:
            o = suite.impl(c)
            outs.append(o)
            terms.append(suite.render(c, o))
        if not cases:
            return
        if suite.rule:
            self.rule_parts.append(f"{suite.name}: {suite.rule}")
        bad = coq_bad_indices(suite.imports, suite.case_type, suite.chk, terms, shard=getattr(suite, "shard", 250))
        self.evaluations += len(cases)
        self.suite_counts[suite.name] = self.suite_counts.get(suite.name, 0) + len(cases)
        for i, (c, o) in enumerate(zip(cases, outs)):
            if suite.nontrivial(c, o):
                self.nontrivial_keys.add(suite.name + ":" + _key(c))
            for k, v in suite.describe(c, o).items():
                self.dist[f"{suite.name}.{k}"][str(v)] += 1
        for i in range(min(3, len(cases))):
            j = (ncorpus + i * 7) % len(cases)
            self.samples.append({"suite": suite.name, "case": cases[j], "impl": outs[j],
                                 "agrees_with_model": j not in bad})
        if getattr(suite, "monitor_all", False) and suite.has_py_property:
            # the property monitor also runs where model and implementation agree (it is independent of the model)
            mon = [i for i in range(len(cases)) if i not in set(bad) and suite.py_property(cases[i], outs[i])]
            self.dist[f"{suite.name}.monitor"]["evaluated-on-every-case"] += len(cases)
            bad = sorted(set(bad) | set(mon))
        if not bad:
            return
        # disagreement(s): decide whether the property fails on the implementation's output
        reported = 0
        bad_prop = None
        if suite.pb is not None:
            pbterms = [terms[i] for i in bad]
            pbbad = coq_bad_indices(suite.imports, suite.case_type, suite.pb, pbterms)
            bad_prop = {bad[k] for k in pbbad}
        elif suite.has_py_property:
            bad_prop = {i for i in bad if suite.py_property(cases[i], outs[i])}
        # group by signature, so that a known finding does not hide a different failure
        by_sig: Dict[str, List[int]] = collections.OrderedDict()
        for i in bad:
            by_sig.setdefault(suite.signature(cases[i], outs[i]), []).append(i)
        # report classes that contain a concrete property failure first (the report budget is small)
        groups = sorted(by_sig.items(), key=lambda kv: 0 if (bad_prop and any(j in bad_prop for j in kv[1])) else 1)
        for sig, idxs in groups:
            kf = self.match_finding(sig)
            if kf is not None:
                msg = f"KNOWN-FINDING: property={self.pid} {kf['what']}"
                if msg not in self.known_hits:
                    self.known_hits.append(msg)
                continue
            if reported >= max_report:
                continue
            i = idxs[0]
            if bad_prop is not None:
                cand = [j for j in idxs if j in bad_prop]
                fails = bool(cand)
                if cand:
                    i = cand[0]
            else:
                fails = suite.deterministic
            case, out = cases[i], outs[i]
            case, out = self.shrink_case(suite, case, out, fails)
            tag = suite.py_property(case, out) if suite.has_py_property else None
            model_out = None
            rin = suite.render_in(case)
            if suite.runf and rin:
                try:
                    model_out = coq_eval(suite.imports, f"{suite.runf} {rin}")
                except Exception as e:  # diagnostics only
                    model_out = f"<{e}>"
            self.violation(
                "property-failure" if fails else "correspondence",
                {"suite": suite.name, "signature": sig, "case": case, "impl_output": out,
                 "model_output": model_out, "disagreeing_cases_in_run": len(bad),
                 "coq_case": suite.render(case, out)},
                found_input=fails,
                what=(f"{suite.name}: implementation output violates the property on this input" + (f": {tag}" if tag else "")
                      if fails else
                      f"{suite.name}: implementation and model disagree; property checker found no failing input"))
            reported += 1

    def shrink_case(self, suite: Suite, case, out, fails: bool):
        """Greedy shrinking: accept a candidate if it still disagrees (and still fails Pb if it did)."""
        budget = 25
        improved = True
        t_end = time.time() + 60
        while improved and budget > 0 and time.time() < t_end:
            improved = False
            cands = list(suite.shrink(case))[:40]
            if not cands:
                break
            couts, cterms = [], []
            ok_c = []
            for c in cands:
                try:
                    o = suite.impl(c)
                    t = suite.render(c, o)
                except Exception:
                    continue
                ok_c.append(c)
                couts.append(o)
                cterms.append(t)
            if not ok_c:
                break
            budget -= 1
            try:
                chk = suite.pb if (fails and suite.pb) else suite.chk
                bad = coq_bad_indices(suite.imports, suite.case_type, chk, cterms)
            except Exception:
                break
            if fails and suite.has_py_property and suite.pb is None:
                bad = [k for k in bad if suite.py_property(ok_c[k], couts[k])]
            if bad:
                case, out = ok_c[bad[0]], couts[bad[0]]
                improved = True
        return case, out

    # ---------------- findings / violations
    def match_finding(self, sig: str):
        for f in self.findings:
            if f.get("property") == self.pid and f.get("status") == "open" and f.get("signature") == sig:
                return f
        return None

    def violation(self, kind: str, data: Dict[str, Any], found_input: bool, what: str):
        os.makedirs(os.path.join(VERIF, "replays"), exist_ok=True)
        payload = {"property": self.pid, "kind": kind, "what": what, "seed": self.seed,
                   "tier": self.tier, "found_failing_input": found_input}
        payload.update(data)
        h = _key(payload)[:10]
        path = os.path.join(VERIF, "replays", f"{self.pid}_{h}.json")
        with open(path, "w") as f:
            json.dump(payload, f, indent=1, default=str)
        self.violations.append({"path": path, "found_input": found_input, "what": what, "kind": kind})

    # ---------------- evidence and exit
    def finish(self) -> int:
        wall = round(time.time() - self.t0, 2)
        cov = {
            "obligations": max(1, self.props.get("obligations", 0)),
            "discharged": self.props.get("discharged", 0),
            "theorems": self.props.get("theorems", []),
            "checker_cmd": self.props.get("checker_cmd", ""),
            "trusted_base": TRUSTED_BASE + ["Print Assumptions axioms: " +
                                            (", ".join(self.props.get("axioms", [])) or "none (closed under the global context)")],
            "evaluations": self.evaluations,
            "distinct_nontrivial": len(self.nontrivial_keys),
            "rule": " | ".join(self.rule_parts),
            "samples": self.samples[:8] or [{"note": "no correspondence case ran"}],
            "traces_validated_against_impl": self.traces,
            "cases_per_suite": self.suite_counts,
            "input_distribution": {k: dict(v.most_common(12)) for k, v in self.dist.items()},
            "disagreements_checked": len(self.violations),
            "known_findings_hit": self.known_hits,
            "exhaustive": self.exhaustive,
        }
        cov.update(self.extra)
        ev = {"property_id": self.pid, "tier": self.tier, "seed": self.seed, "level": "proof",
              "coverage": cov, "assumptions": self.assumptions, "wall_s": wall,
              "violations": len(self.violations)}
        # PGF_EVIDENCE_DIR: used only by tools/try_mutant_wt.sh so that a run against a deliberately broken scratch copy of the
        # repository does not overwrite the evidence of the real tree
        evdir = os.environ.get("PGF_EVIDENCE_DIR") or os.path.join(VERIF, "evidence")
        os.makedirs(evdir, exist_ok=True)
        with open(os.path.join(evdir, f"{self.pid}.json"), "w") as f:
            json.dump(ev, f, indent=1, default=str)
        for m in self.known_hits:
            print(m)
        if self.violations:
            v = self.violations[0]
            # prefer a violation with a concrete failing input
            for w in self.violations:
                if w["found_input"]:
                    v = w
                    break
            tail = "" if v["found_input"] else " no-failing-input-found"
            print(f"VIOLATION property={self.pid} replay={v['path']}{tail}")
            for w in self.violations:
                print(f"  [{w['kind']}] {w['what']}  ({w['path']})", file=sys.stderr)
            return 1
        print(f"OK property={self.pid} tier={self.tier} seed={self.seed} obligations={cov['obligations']} "
              f"discharged={cov['discharged']} evaluations={self.evaluations} "
              f"distinct_nontrivial={len(self.nontrivial_keys)} wall_s={wall}")
        return 0


TRUSTED_BASE = [
    "Coq 8.16.1 kernel (coqc; vm_compute used, native_compute not used)",
    "hand-written Gallina model tied to /repo by differential execution (harness/, this run)",
    "Python->Coq term rendering in harness/core.py and exact float<->rational conversion",
    "import stubs for job_pool/triqler/mokapot/matplotlib/joblib (harness/stubs)",
]


def load_findings():
    p = os.path.join(VERIF, "known_findings.json")
    if not os.path.exists(p):
        return []
    return json.load(open(p)).get("findings", [])


def load_corpus(pid: str, suite: str):
    d = os.path.join(VERIF, "corpus", pid)
    if not os.path.isdir(d):
        return
    for f in sorted(os.listdir(d)):
        if f.endswith(".json"):
            obj = json.load(open(os.path.join(d, f)))
            if obj.get("suite") == suite:
                yield obj["case"]


def tier_n(tier: str, quick: int, thorough: int) -> int:
    return thorough if tier == "thorough" else quick
