"""Writers for the input file formats of the tool (used by C18, C10, C07, C12, C13), plus a toy database generator."""
import csv
import math
import os

TRYPTIC_POOL = [
    "AAAAAAAK", "CCCDDDEEEK", "DDDDEEEFR", "EEEFFFGGGK", "FFFGGGHHHR", "GGGHHHIIIK", "HHHIIILLLR", "IIILLLMMMK",
    "LLLMMMNNNR", "MMMNNNQQQK", "NNNQQQSSSR", "QQQSSSTTTK", "SSSTTTVVVR", "TTTVVVWWWK", "VVVWWWYYYR", "WWWYYYAAAK",
    "YYYAAACCCR", "ACDEFGHIK", "LMNQSTVWYR", "ADEGHILNK", "CFGHMSTVR", "EEEEEEEAK", "GGGGAGGGR", "TTTTSTTTTK",
]


def toy_database(rng, n_prot=6, shared=True):
    """target proteins as concatenations of tryptic building blocks (some shared between proteins)"""
    prots = []
    pool = rng.sample(TRYPTIC_POOL, min(len(TRYPTIC_POOL), 3 * n_prot))
    for i in range(n_prot):
        k = rng.randint(2, 4)
        blocks = rng.sample(pool, k)
        if shared and i > 0 and rng.random() < 0.6:
            blocks[0] = rng.choice(prots[rng.randrange(len(prots))][2])     # share a peptide with an earlier protein
        if shared and i > 0 and rng.random() < 0.2:
            blocks = list(prots[rng.randrange(len(prots))][2])[:2] + blocks[:1]  # nested sets
        prots.append((f"sp|Q{i:04d}|PROT{i}_HUMAN", "".join(blocks), blocks))
    # distinct sequences only
    seen, out = set(), []
    for pid, seq, blocks in prots:
        if seq not in seen:
            seen.add(seq)
            out.append((pid, seq, blocks))
    return out


def write_fasta(path, prots, width=60, gene=True):
    with open(path, "w") as f:
        for i, (pid, seq, _) in enumerate(prots):
            gn = f" GN=GENE{i // 2}" if gene else ""
            f.write(f">{pid} Protein number {i} OS=Homo sapiens OX=9606{gn} PE=1 SV=1\n")
            for j in range(0, len(seq), width):
                f.write(seq[j:j + width] + "\n")


def _w(path):
    f = open(path, "w", newline="")
    return f, csv.writer(f, delimiter="\t")


def write_maxquant(path, psms, with_quant=True, header_case=str):
    """psms: dicts with peptide, mod (modified sequence without underscores), proteins (list), pep (float or None),
    charge, experiment, raw, fraction, intensity, id"""
    cols = ["Sequence", "Modified sequence", "Leading proteins", "Leading razor protein", "PEP", "Score", "Experiment"]
    if with_quant:
        cols += ["Charge", "Intensity", "Raw file", "Fraction", "id"]
    f, w = _w(path)
    w.writerow([header_case(c) for c in cols])
    for i, p in enumerate(psms):
        row = [p["peptide"], "_" + p.get("mod", p["peptide"]) + "_", ";".join(p["proteins"]), p["proteins"][0],
               "" if p["pep"] is None else repr(float(p["pep"])), "100", p.get("experiment", "E1")]
        if with_quant:
            row += [p.get("charge", 2), p.get("intensity", 1000.0), p.get("raw", "raw1"), p.get("fraction", 1), p.get("id", i)]
        w.writerow(row)
    f.close()


def flanked(pepstr, i, flanks):
    """flank styles of Percolator result files: none; "-.X.-" (what andromeda2pin writes); the neighbouring residues "K.X.A" (pin files
    of other search engines; "-" at a protein terminus); mixed files whose FIRST row has the one or the other form"""
    if not flanks:
        return pepstr
    if flanks is True or flanks == "dash" or (flanks == "dash_first" and i == 0) or (flanks == "residue_first" and i > 0 and i % 3 == 0):
        return "-." + pepstr + ".-"
    return "KRAG-ML"[i % 7] + "." + pepstr + "." + "ASG-KEP"[(i * 3) % 7]


def write_percolator(path, psms, mokapot=False, flanks=True):
    f, w = _w(path)
    if mokapot:
        w.writerow(["SpecId", "Label", "ScanNr", "ExpMass", "CalcMass", "Peptide", "mokapot score", "mokapot q-value",
                    "mokapot PEP", "Proteins"])
        for i, p in enumerate(psms):
            pepstr = flanked(p.get("mod", p["peptide"]), i, flanks)
            w.writerow([f"raw1_{i}_2_1", 1, i, 1000.0, 1000.0, pepstr, 1.0, 0.01, repr(float(p["pep"])), "\t".join(p["proteins"])])
    else:
        w.writerow(["PSMId", "score", "q-value", "posterior_error_prob", "peptide", "proteinIds"])
        for i, p in enumerate(psms):
            pepstr = flanked(p.get("mod", p["peptide"]), i, flanks)
            w.writerow([f"raw1_{i}_2_1", 1.0, 0.01, repr(float(p["pep"])), pepstr] + list(p["proteins"]))
    f.close()


def write_fragpipe(path, psms):
    f, w = _w(path)
    w.writerow(["Spectrum", "Spectrum File", "Peptide", "Modified Peptide", "Charge", "SpectralSim", "PeptideProphet Probability",
                "Intensity", "Assigned Modifications", "Observed Modifications", "Protein", "Mapped Proteins"])
    for i, p in enumerate(psms):
        prots = [q.replace("REV__", "rev_") for q in p["proteins"]]
        w.writerow([f"raw1.{i}.{i}.2", "raw1.pepXML", p["peptide"], p.get("mod_fp", ""), p.get("charge", 2), 0.9,
                    repr(float(p["prob"])), 1000.0, "", "", prots[0], ", ".join(prots[1:])])
    f.close()


def write_sage(path, psms):
    f, w = _w(path)
    w.writerow(["peptide", "proteins", "num_proteins", "filename", "scannr", "charge", "sage_discriminant_score", "posterior_error"])
    for i, p in enumerate(psms):
        prots = [q.replace("REV__", "rev_") for q in p["proteins"]]
        w.writerow([p.get("mod_sage", p["peptide"]), ";".join(prots), len(prots), p.get("raw", "raw1") + ".mzML", i, p.get("charge", 2),
                    1.0, repr(float(p["log10pep"]))])
    f.close()


def write_diann(path, psms):
    f, w = _w(path)
    w.writerow(["Run", "Modified.Sequence", "Stripped.Sequence", "Protein.Ids", "Decoy", "PEP", "Precursor.Charge", "Ms1.Normalised"])
    for p in psms:
        decoy = all(q.startswith("REV__") for q in p["proteins"])
        prots = [q[5:] if q.startswith("REV__") else q for q in p["proteins"]]
        w.writerow([p.get("experiment", "E1"), p.get("mod_diann", p["peptide"]), p["peptide"], ";".join(prots), 1 if decoy else 0,
                    repr(float(p["pep"])), p.get("charge", 2), p.get("intensity", 1000.0)])
    f.close()
