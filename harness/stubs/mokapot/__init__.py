__version__='0'
