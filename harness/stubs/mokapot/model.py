class PercolatorModel: pass
