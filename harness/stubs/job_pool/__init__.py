class JobPool:
    def __init__(self,*a,**k): raise RuntimeError("stub JobPool")
