import contextlib
@contextlib.contextmanager
def parallel_backend(*a, **k):
    yield
