"""Suites shared by C01 and C06: calculate_protein_fdrs and from_protein_groups."""
from fractions import Fraction

import numpy as np

from .. import core, gens
from ..core import Suite, cQ, cstr, clist, cpair, copt, cbool, cnat, cok, craise


def render_group(g):
    return clist(cstr(p) for p in g)


def render_pinfo(i):
    pep, peptide, prots = i
    return cpair(cQ(Fraction(pep)), cstr(peptide), render_group(prots))


class FdrSuite(Suite):
    name = "calculate_protein_fdrs"
    imports = "From PGF Require Import Base.Prelude Model.Fdr Model.Results Harness.H01."
    case_type = "list (list str * Q) * res (list Q)"
    chk = "chk01"
    runf = "run01"
    deterministic = True    # C01_qval_suffix_min fixes every q-value
    rule = ("rankings of 0-400 groups (1-4 ids with decoy markers at the start / inside / absent, mixed "
            "groups, placeholders), tied scores, a -100.0 sentinel at a random position; non-trivial = "
            "contains a decoy group, a target group and a tie")

    def gen(self, rng, tier):
        n = core.tier_n(tier, 1200, 30000)
        for k in range(n):
            size = rng.choice([0, 1, 2, 3, 5, 8, 20, 50]) if rng.random() < 0.9 else rng.randint(100, 400)
            share = rng.choice([0.0, 0.1, 0.3, 0.5, 0.9, 1.0])
            groups, scores = [], []
            sc = 40.0
            for _ in range(size):
                g = [gens.protein_id(rng, 9, share) for _ in range(rng.choice([1, 1, 1, 2, 3, 4]))]
                if rng.random() < 0.02:
                    g = []
                groups.append(g)
                if rng.random() < 0.6:
                    sc -= rng.choice([0.5, 0.25, 1.0, 3.0])
                scores.append(sc)
            if size and rng.random() < 0.25:
                pos = rng.randrange(size)
                for j in range(pos, size):
                    scores[j] = -100.0 if rng.random() < 0.9 or j == pos else scores[j]
            yield {"groups": groups, "scores": [gens.fr(s) for s in scores]}

    def impl(self, case):
        from picked_group_fdr import fdr
        groups = case["groups"]
        scores = [float(Fraction(s)) for s in case["scores"]]
        try:
            q, _ = fdr.calculate_protein_fdrs(groups, scores, 0.01)
        except Exception as e:
            return {"raise": gens.exn_name(e)}
        out = []
        for x in q:
            f = gens.small_fraction_of(float(x), len(groups) + 2)
            out.append(None if f is None else f"{f.numerator}/{f.denominator}")
        return {"ok": out}

    def render_in(self, case):
        return clist(cpair(render_group(g), cQ(Fraction(s))) for g, s in zip(case["groups"], case["scores"]))

    def render(self, case, out):
        if "raise" in out:
            o = craise(out["raise"])
        else:
            # a q-value that is no small fraction at all cannot be (d+1)/(t+1): send -1
            o = cok(clist(cQ(Fraction(x)) if x is not None else cQ(-1) for x in out["ok"]))
        return cpair(self.render_in(case), o)

    def nontrivial(self, case, out):
        from picked_group_fdr import helpers
        d = [helpers.is_decoy(g) for g in case["groups"]]
        return any(d) and not all(d) and len(set(case["scores"])) < len(case["scores"])

    def describe(self, case, out):
        n = len(case["groups"])
        return {"size": "0" if n == 0 else "1-5" if n <= 5 else "6-50" if n <= 50 else "51+",
                "sentinel": "-100/1" in case["scores"], "raises": out.get("raise", "no")}

    def shrink(self, case):
        n = len(case["groups"])
        for i in range(n):
            yield {"groups": case["groups"][:i] + case["groups"][i + 1:],
                   "scores": case["scores"][:i] + case["scores"][i + 1:]}


def row_to_json(r, q_maxden=None):
    """q_maxden: recover the q-value as the unique fraction with that denominator bound rounding to the float"""
    if q_maxden is not None:
        f = gens.small_fraction_of(float(r.qValue), q_maxden)
        q = f"{f.numerator}/{f.denominator}" if f is not None else "-1/1"
    else:
        q = gens.fr(r.qValue)
    return _row_to_json(r, q)


def _row_to_json(r, q):
    counts = [int(x) for x in r.peptideCountsUnique.split(";")] if r.peptideCountsUnique != "" else []
    return {"ids": r.proteinIds, "maj": r.majorityProteinIds, "counts": counts, "best": r.bestPeptide,
            "n": int(r.numberOfProteins), "q": q, "score": gens.fr(r.score),
            "rev": r.reverse == "+", "con": r.potentialContaminant == "+"}


def render_row(r):
    return cpair(cstr(r["ids"]), cstr(r["maj"]), clist(cnat(c) for c in r["counts"]), cstr(r["best"]),
                 cnat(r["n"]), cQ(Fraction(r["q"])), cQ(Fraction(r["score"])), cbool(r["rev"]), cbool(r["con"]))


class RowsSuite(Suite):
    name = "from_protein_groups"
    imports = "From PGF Require Import Base.Prelude Model.Fdr Model.Results Harness.H01."
    case_type = ("(list (list str) * list (list pinfo) * list Q * list Q * option Q * bool) * res (list rowT)")
    chk = "chk_rows"
    runf = "run_rows"
    deterministic = True
    rule = ("groups of 1-4 members with 0-5 evidence peptides (protein lists repeating an identifier, members "
            "without evidence, counts at exactly half the maximum, PEP ties), placeholders, both keep-all "
            "settings, cutoffs inf/0/0.001/0.01/0.5/1; non-trivial = a repeated identifier or a PEP tie, and "
            "at least one peptide above and one below the cutoff")

    def gen(self, rng, tier):
        n = core.tier_n(tier, 1200, 30000)
        for _ in range(n):
            ng = rng.choice([0, 1, 1, 2, 3, 6])
            groups, infos, scores, qs = [], [], [], []
            for _ in range(ng):
                k = rng.choice([1, 1, 2, 3, 4])
                g = []
                while len(g) < k:
                    p = gens.protein_id(rng, 9, 0.3)
                    if p not in g:
                        g.append(p)
                if rng.random() < 0.1:
                    g = ["OBSOLETE__" + p for p in g]
                npep = rng.choice([0, 1, 2, 3, 5]) if rng.random() < 0.15 else rng.choice([1, 2, 3, 5])
                peptides = rng.sample(gens.PEPTIDES, npep)
                inf = []
                levels = [gens.norm(x) for x in ["0/1", "1/1024", "1/2048", "1/100", "1/2", "1/1", "3/1024"]]
                # the doubles next to the cutoffs used below, and values a few parts in 10^10 / 10^12 away: "at or below" is exact
                for c_ in (0.01, 1 / 1024, 0.5):
                    levels += [gens.fr(float(np.nextafter(c_, 1))), gens.fr(float(np.nextafter(c_, 0))), gens.fr(c_ * (1 + 5e-10)),
                               gens.fr(c_ * (1 - 5e-10)), gens.fr(c_ * (1 + 3e-12))]
                for e in peptides:
                    prots = [rng.choice(g) for _ in range(rng.choice([1, 1, 2, 3]))]
                    if rng.random() < 0.15:
                        prots.append(gens.protein_id(rng))       # a protein outside the group
                    pep = rng.choice(levels) if rng.random() < 0.6 else gens.grid_pep(rng)
                    inf.append([pep, e, prots])
                if rng.random() < 0.1 and inf:
                    inf.append([rng.choice(levels), inf[0][1], list(inf[0][2])])  # same peptide again
                groups.append(g)
                infos.append(inf)
                scores.append(gens.fr(rng.choice([1.0, 2.5, 3.25, 10.0])))
                qs.append(gens.fr(rng.choice([0.5, 0.25, 1 / 3, 0.01])))
            # unequal list lengths exercise zip truncation
            if rng.random() < 0.05 and qs:
                qs = qs[:-1]
            cut = rng.choice([None, None, "0/1", "1/1024", gens.norm("1/100"), "1/2", "1/1"])
            yield {"groups": groups, "infos": infos, "scores": scores, "qvals": qs, "cut": cut,
                   "keep_all": rng.random() < 0.4}

    def impl(self, case):
        from picked_group_fdr.results import ProteinGroupResults
        infos = [[(float(Fraction(p)), e, list(pr)) for p, e, pr in inf] for inf in case["infos"]]
        cut = float("inf") if case["cut"] is None else float(Fraction(case["cut"]))
        try:
            res = ProteinGroupResults.from_protein_groups(
                [list(g) for g in case["groups"]], infos,
                [float(Fraction(s)) for s in case["scores"]], [float(Fraction(q)) for q in case["qvals"]],
                cut, case["keep_all"])
        except Exception as e:
            return {"raise": gens.exn_name(e)}
        return {"ok": [row_to_json(r) for r in res]}

    def render_in(self, case):
        return cpair(clist(render_group(g) for g in case["groups"]),
                     clist(clist(render_pinfo(i) for i in inf) for inf in case["infos"]),
                     clist(cQ(Fraction(s)) for s in case["scores"]),
                     clist(cQ(Fraction(q)) for q in case["qvals"]),
                     copt(None if case["cut"] is None else cQ(Fraction(case["cut"]))),
                     cbool(case["keep_all"]))

    def render(self, case, out):
        if "raise" in out:
            o = craise(out["raise"])
        else:
            o = cok(clist(render_row(r) for r in out["ok"]))
        return cpair(self.render_in(case), o)

    def nontrivial(self, case, out):
        rep = any(len(set(i[2])) < len(i[2]) for inf in case["infos"] for i in inf)
        peps = [i[0] for inf in case["infos"] for i in inf]
        tie = len(set(peps)) < len(peps)
        if case["cut"] is None:
            return rep or tie
        c = Fraction(case["cut"])
        return (rep or tie) and any(Fraction(p) > c for p in peps) and any(Fraction(p) <= c for p in peps)

    def describe(self, case, out):
        return {"groups": len(case["groups"]), "cut": case["cut"], "keep_all": case["keep_all"],
                "raises": out.get("raise", "no"), "rows": len(out.get("ok", []))}

    def signature(self, case, out):
        if any(len(set(i[2])) < len(i[2]) for inf in case["infos"] for i in inf):
            return "rows-with-repeated-protein-in-peptide"
        return "rows"

    def shrink(self, case):
        n = len(case["groups"])
        for i in range(n):
            c = dict(case)
            for k in ("groups", "infos", "scores", "qvals"):
                c[k] = case[k][:i] + case[k][i + 1:]
            yield c
        for gi, inf in enumerate(case["infos"]):
            for j in range(len(inf)):
                c = dict(case)
                c["infos"] = [list(x) for x in case["infos"]]
                c["infos"][gi] = inf[:j] + inf[j + 1:]
                yield c
