"""C19 — FASTA header fields, annotation dictionaries and annotation columns vs Model/Annotation.v."""
import os

from .. import core, gens
from ..core import Suite, cN, cnat, cstr, clist, cpair, cbool, copt, cok, craise
from .c09 import file_lines, write_text

WORDS = ["Cytochrome", "b5", "kinase", "OS", "GN", "PE", "protein", "(Fragment)", "[Homo]", "OS-like", "alpha-1", "2"]
ORGS = ["Homo sapiens", "Mus musculus", "Saccharomyces cerevisiae (strain ATCC 204508 / S288c)"]


def compose(rng, i, with_gene):
    db = rng.choice(["sp", "tr"])
    acc = rng.choice([f"P{i:05d}", f"Q{i}X{i}", f"P{i:05d}-2"])
    entry = f"ENTRY{i}_HUMAN"
    desc = " ".join(rng.choice(WORDS) for _ in range(rng.randint(1, 4)))
    org = rng.choice(ORGS)
    ox = str(rng.choice([9606, 10090, 559292]))
    gene = f"GENE{i // rng.choice([1, 2])}" if with_gene else None
    if gene and rng.random() < 0.4:
        # real gene symbols are not always word characters: HLA-A, MT-CO1, T05G5.10, ORF1ab, C4orf3/x, "TRA@"
        gene = rng.choice(["HLA-", "MT-CO", "T05G5.", "orf1a/b_", "TRA@", "Dmel_CG", "nad4L:", "H2-K"]) + str(i // rng.choice([1, 2]))
    pe = str(rng.randint(1, 5))
    sv = str(rng.randint(1, 3))
    # isoform records of UniProt carry no PE= / SV= fields: the gene name (or OX) is then the LAST field of the header
    tail = rng.random() < 0.75
    if rng.random() < 0.05:
        desc = ""           # an entry without a protein name: the identifier is followed directly by OS=
    h = f"{db}|{acc}|{entry}" + (f" {desc}" if desc else "") + f" OS={org} OX={ox}" + (f" GN={gene}" if gene else "") + (f" PE={pe} SV={sv}" if tail else "")
    fields = {"id": f"{db}|{acc}|{entry}", "acc": acc, "entry": entry, "desc": desc, "org": org + " OX=" + ox, "gene": gene,
              "pe": int(pe) if tail else None}
    return h, fields


def gen_fasta(rng, n, gene_share, with_gene=None, max_len=40, allow_empty=True):
    """[with_gene]: the exact set of record numbers that carry a gene name (instead of the random share)"""
    lines, fields = [], []
    if rng.random() < 0.12:
        # text before the first header (a comment or banner line of an exported database, stray residues): it belongs to no record
        lines += [rng.choice(["; exported 2024-05-01\n", "# UniProt release 2024_02\n", "ACDEFGHIK\n", "\n; comment\n"])
                  for _ in range(rng.choice([1, 1, 2]))]
    for i in range(n):
        h, f = compose(rng, i, (rng.random() < gene_share) if with_gene is None else (i in with_gene))
        # (a record may have no sequence line at all: its header is followed directly by the next header or the end of the file)
        seq = "".join(rng.choice("ACDEFGHIKLMNPQRSTVWY") for _ in range(0 if (allow_empty and rng.random() < 0.06) else rng.randint(1, max_len)))
        f["len"] = len(seq)
        fields.append(f)
        # trailing blanks / tabs at the end of header and sequence lines (files that went through a spreadsheet or a Windows editor)
        pad = (lambda: rng.choice(["", "", "", " ", "\t", "  "])) if rng.random() < 0.3 else (lambda: "")
        lines.append(">" + h + pad() + "\n")
        w = rng.choice([7, 60])
        for j in range(0, len(seq), w):
            lines.append(seq[j:j + w] + pad() + "\n")
    if with_gene is None and rng.random() < 0.3 and n > 0:          # repeated identifier within the file: the first record must win
        h, f = compose(rng, 0, True)
        lines.append(">" + fields[0]["id"] + " Another description OS=Mus musculus OX=1 GN=OTHER PE=2 SV=1\nAAAA\n")
    return "".join(lines), fields


def annot_to_json(a):
    return [a.id, a.fasta_header, a.uniprot_id, a.entry_name, a.gene_name, int(a.length), a.organism, a.description,
            None if a.existence is None else int(a.existence)]


def render_annot(a):
    return cpair(cstr(a[0] or ""), cstr(a[1]), cstr(a[2]), cstr(a[3]), copt(None if a[4] is None else cstr(a[4])), cnat(a[5]),
                 copt(None if a[6] is None else cstr(a[6])), cstr(a[7]), copt(None if a[8] is None else cN(a[8])))


class AnnotationSuite(Suite):
    name = "get_protein_annotations"
    imports = "From PGF Require Import Base.Prelude Model.Fasta Model.Annotation Harness.H19."
    case_type = "c19_in * c19_out"
    chk = "chk19"
    runf = "run19"
    deterministic = True
    rule = ("1-2 FASTA files with 1-6 UniProt-grammar headers (isoform accessions, descriptions containing spaces, brackets and "
            "the words OS/GN/PE, optional GN field with share 0/0.5/1), a repeated identifier, target-only and target+decoy, "
            "identifier rule full / accession / gene-level; files of 7-250 (thorough: 3-400) records in which exactly half, one more and one "
            "less than half carry a gene name; non-trivial = gene-level requested or a repeated identifier")

    def gen(self, rng, tier):
        for _ in range(core.tier_n(tier, 500, 8000)):
            share = rng.choice([0.0, 0.5, 0.5, 1.0, 0.8])
            files = []
            for _ in range(rng.choice([1, 1, 2])):
                t, _ = gen_fasta(rng, rng.randint(1, 6), share)
                if rng.random() < 0.2:
                    # records in the style of MaxQuant's contaminants.fasta: a bare accession as identifier, the UniProt triple (with
                    # its pipes) only inside the description
                    for j in range(rng.choice([1, 2])):
                        t += rng.choice([f">P0076{j} SWISS-PROT:P0076{j}|TRYP{j}_PIG Trypsin - Sus scrofa (Pig).\nIVGGYTCAANSIPYQ\n",
                                         f">Q32MB{j} TREMBL:Q32MB{j};Q86Y46| KRT7{j}_HUMAN Keratin-7{j}\nMKLLAGGK\n"])
                files.append(t)
            yield {"texts": files, "contains_decoys": rng.random() < 0.5, "gene_level": rng.random() < 0.5,
                   "use_uniprot": rng.random() < 0.3}
        # the "more than half of the records" decision at its boundary, for record counts where percentages round: exactly half,
        # one more than half, one less than half of n records carry a gene name (gene level requested)
        sizes = [7, 101, 200, 250] if tier != "thorough" else [3, 7, 99, 100, 101, 199, 200, 201, 250, 333, 400]
        for n in sizes:
            for k in sorted({n // 2, n // 2 + 1, (n - 1) // 2}):
                t, _ = gen_fasta(rng, n, 0.0, with_gene=set(rng.sample(range(n), k)), max_len=6)
                yield {"texts": [t], "contains_decoys": True, "gene_level": True, "use_uniprot": rng.random() < 0.3}

    def impl(self, case):
        from picked_group_fdr import protein_annotation as pa
        files = [write_text(t, f"ann{i}.fasta") for i, t in enumerate(case["texts"])]
        try:
            d, pg = pa.get_protein_annotations(files, case["contains_decoys"], case["gene_level"], case["use_uniprot"])
        except Exception as e:
            return {"raise": gens.exn_name(e)}
        return {"ok": [[k, annot_to_json(a)] for k, a in d.items()], "pseudo": bool(pg)}

    def render_in(self, case):
        return cpair(cbool(case["contains_decoys"]), cbool(case["gene_level"]), cbool(case["use_uniprot"]),
                     clist(clist(cstr(l) for l in file_lines(t)) for t in case["texts"]))

    def render(self, case, out):
        if "raise" in out:
            return cpair(self.render_in(case), craise(out["raise"]))
        items = clist(cpair(copt(None if k is None else cstr(k)), render_annot(a)) for k, a in out["ok"])
        return cpair(self.render_in(case), cok(cpair(items, cbool(out["pseudo"]))))

    def nontrivial(self, case, out):
        return case["gene_level"] or "Another description" in "".join(case["texts"])

    def describe(self, case, out):
        return {"gene_level": case["gene_level"], "pseudo": out.get("pseudo"), "files": len(case["texts"]),
                "decoys": not case["contains_decoys"]}


class FieldSuite(Suite):
    """headers composed from known fields: every parser must return the field it was composed of"""
    name = "header_fields_roundtrip"
    imports = AnnotationSuite.imports
    case_type = "c19_in * c19_out"
    chk = "chk19"
    runf = "run19"
    deterministic = True
    rule = "as above, single target-only file; additionally the parsed fields are compared with the fields the header was composed of (Python-side oracle)"

    def gen(self, rng, tier):
        for _ in range(core.tier_n(tier, 200, 4000)):
            t, fields = gen_fasta(rng, rng.randint(1, 5), 0.7)
            if "Another description" in t:
                continue
            yield {"texts": [t], "contains_decoys": True, "gene_level": False, "use_uniprot": False, "fields": fields}

    impl = AnnotationSuite.impl
    render_in = AnnotationSuite.render_in
    render = AnnotationSuite.render

    def nontrivial(self, case, out):
        return any(f["gene"] for f in case["fields"])

    has_py_property = True

    def py_property(self, case, out):
        if "ok" not in out:
            return "parser-raised"
        for (k, a), f in zip(out["ok"], case["fields"]):
            got = {"id": a[0], "acc": a[2], "entry": a[3], "gene": a[4], "len": a[5], "desc": a[7], "pe": a[8]}
            for key in got:
                if got[key] != f[key]:
                    return f"field-{key}-not-recovered"
            if f["gene"] and a[6] != f["org"]:
                return "field-organism-not-recovered"
        return None


class ColumnsSuite(Suite):
    name = "annotation_columns"
    imports = AnnotationSuite.imports
    case_type = "(list (str * option str * str) * str) * (str * str * str)"
    chk = "chk19c"
    runf = "run19c"
    deterministic = True
    rule = ("annotation dictionaries of 1-6 entries (shared gene names, missing gene names, shared headers) and rows listing "
            "1-5 identifiers incl. unknown ones and repeats; non-trivial = two listed proteins share a gene name")

    def gen(self, rng, tier):
        for _ in range(core.tier_n(tier, 400, 6000)):
            n = rng.randint(1, 6)
            d = []
            for i in range(n):
                d.append([f"P{i}", rng.choice([None, f"G{i // 2}", f"G{i}", ""]), rng.choice([f"P{i} header text", "shared header"])])
            ids = [rng.choice([f"P{rng.randrange(n)}", "UNKNOWN", f"REV__P{rng.randrange(n)}"]) for _ in range(rng.randint(1, 5))]
            yield {"dict": d, "row": ";".join(ids)}

    def impl(self, case):
        from picked_group_fdr.columns.protein_annotations import ProteinAnnotationsColumns
        from picked_group_fdr.protein_annotation import ProteinAnnotation
        from picked_group_fdr.results import ProteinGroupResult, ProteinGroupResults
        d = {i: ProteinAnnotation(id=i, fasta_header=h, gene_name=g) for i, g, h in case["dict"]}
        pgr = ProteinGroupResult(proteinIds=case["row"])
        res = ProteinGroupResults([pgr])
        ProteinAnnotationsColumns(d).append_columns(res, 1.0)
        return list(pgr.extraColumns)

    def render_in(self, case):
        return cpair(clist(cpair(cstr(i), copt(None if g is None else cstr(g)), cstr(h)) for i, g, h in case["dict"]),
                     cstr(case["row"]))

    def render(self, case, out):
        return cpair(self.render_in(case), cpair(cstr(out[0]), cstr(out[1]), cstr(out[2])))

    def nontrivial(self, case, out):
        genes = [g for i, g, h in case["dict"] if i in case["row"].split(";") and g]
        return len(set(genes)) < len(genes)


SUITES = [AnnotationSuite(), FieldSuite(), ColumnsSuite()]


def suite_by_name(name):
    return next(s for s in SUITES if s.name == name)


def rule_consistency(r, n_files):
    """command-line glue: for every combination of --gene_level / --fasta_use_uniprot_id and every share of records with a gene name
    the identifiers in the peptide-to-protein map (built by peptide_protein_map.get_peptide_to_protein_maps_from_args) are keys of the
    annotation dictionary (built by protein_annotation.get_protein_annotations): both sides must apply the same identifier rule"""
    import argparse
    import tempfile
    from picked_group_fdr import peptide_protein_map, protein_annotation as pa
    n = 0
    for k in range(n_files):
        # (no sequence-less records here: the in-silico digest needs non-empty sequences - assumption of C08 / C09)
        text, _ = gen_fasta(r.rng, r.rng.randint(2, 6), r.rng.choice([0.0, 0.3, 1.0]), allow_empty=False)
        d = tempfile.mkdtemp(prefix="c19r_", dir=core.scratch())
        fasta = os.path.join(d, "db.fasta")
        open(fasta, "w").write(text)
        for gene_level in (False, True):
            for uniprot in (False, True):
                for contains_decoys in (False, True):
                    n += 1
                    try:
                        ann, pseudo = pa.get_protein_annotations([fasta], contains_decoys, gene_level, uniprot)
                        args = argparse.Namespace(gene_level=gene_level, fasta_use_uniprot_id=uniprot, fasta=[fasta], peptide_protein_map=None,
                                                  mq_protein_groups=None, enzyme=["trypsin"], digestion=["full"], min_length=[1], max_length=[60],
                                                  cleavages=[1], special_aas=["KR"], fasta_contains_decoys=contains_decoys)
                        maps = peptide_protein_map.get_peptide_to_protein_maps_from_args(args, pseudo)
                    except Exception as e:
                        if gene_level and not pseudo_possible(text):
                            continue
                        r.violation("property-failure", {"suite": "rule_consistency", "fasta": text, "gene_level": gene_level, "uniprot": uniprot,
                                                         "error": f"{type(e).__name__}: {e}"[:200]}, True,
                                    f"rule_consistency: building annotations / map raised {type(e).__name__} (gene_level={gene_level}, uniprot={uniprot})")
                        return n
                    ids = {p for m in maps for ps in (m.values() if isinstance(m, dict) else m[0].values()) for p in ps}
                    missing = sorted(p for p in ids if not p.startswith("REV__") and p not in ann)
                    if missing:
                        r.violation("property-failure", {"suite": "rule_consistency", "fasta": text, "gene_level": gene_level, "uniprot": uniprot,
                                                         "contains_decoys": contains_decoys, "pseudo_genes": pseudo, "map_ids_without_annotation": missing[:5],
                                                         "annotation_keys": sorted(ann)[:8]}, True,
                                    f"rule_consistency: identifiers of the peptide-to-protein map are not keys of the annotations "
                                    f"(gene_level={gene_level}, fasta_use_uniprot_id={uniprot}, pseudo_genes={pseudo}): {missing[:3]}")
                        return n
    return n


def pseudo_possible(text):
    return True


def run(r: core.Runner):
    r.assumptions += [
        "with exactly half of the records carrying a gene name the code uses pseudo-genes (the test is count/len > 0.5, strict); "
        "the model follows the code",
        "file decoding is the runtime's; headers are composed from the UniProt grammar (accession/entry without space or '|', "
        "gene without space, description without ' OS=')",
    ]
    for s in SUITES:
        r.run_suite(s)
    # the composed-field oracle runs on every FieldSuite case (not only on disagreements)
    fs = SUITES[1]
    n = 0
    for c in fs.gen(r.rng, r.tier):
        out = fs.impl(c)
        v = fs.py_property(c, out)
        n += 1
        if v:
            r.violation("property-failure", {"suite": fs.name, "case": c, "impl_output": out, "signature": v}, True,
                        f"{fs.name}: {v}")
            break
    r.traces = n + rule_consistency(r, core.tier_n(r.tier, 12, 120))
