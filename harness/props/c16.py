"""C16 — atomic publication of skip-if-present pipeline outputs: system-call traces and kill runs of the two real steps
against the protocol of Model/AtomicFs.v."""
import os
import re
import shutil
import subprocess
import sys
import tempfile

from .. import core, filegen
from .merge_common import gen_case, write_inputs

SUITES = []


def suite_by_name(name):
    raise KeyError(name)


DRIVER = r'''
import sys, os, signal, contextlib, logging
logging.disable(logging.CRITICAL)
step, mode, n = sys.argv[1], sys.argv[2], int(sys.argv[3]); argv = sys.argv[4:]
from picked_group_fdr.parsers import tsv
real = tsv.get_tsv_writer
class Proxy:
    def __init__(self, w): self.w = w; self.k = 0
    def writerow(self, row):
        if mode == "row" and self.k == n:
            os.kill(os.getpid(), signal.SIGKILL)
        if mode == "raise_row" and self.k == n:
            raise OSError(28, "No space left on device")
        self.k += 1
        return self.w.writerow(row)
@contextlib.contextmanager
def patched(*a, **kw):
    with real(*a, **kw) as w:
        yield Proxy(w)
tsv.get_tsv_writer = patched
real_rename = os.rename
def rn(a, b):
    if mode == "before_rename": os.kill(os.getpid(), signal.SIGKILL)
    real_rename(a, b)
    if mode == "after_rename": os.kill(os.getpid(), signal.SIGKILL)
os.rename = rn
if step == "update_evidence":
    from picked_group_fdr.pipeline import update_evidence_from_pout as m
else:
    from picked_group_fdr.pipeline import andromeda2pin as m
m.main(argv)
'''


DRIVER_PIPELINE = r'''
import sys, json, logging
logging.disable(logging.CRITICAL)
from picked_group_fdr.pipeline import pipeline
from picked_group_fdr.digestion_params import DigestionParams
spec = json.loads(sys.argv[1])
if spec["step"] == "update_evidence":
    pipeline.run_update_evidence(spec["evs"], spec["pouts"], spec["outs"], "andromeda", False)
else:
    pipeline.run_andromeda_to_pin(spec["evs"], spec["fastas"], spec["outdir"], [DigestionParams() for _ in spec["evs"]], False)
'''


def run_pipeline_driver(spec, strace_out=None):
    import json
    cmd = [sys.executable, "-W", "ignore", "-c", DRIVER_PIPELINE, json.dumps(spec)]
    if strace_out:
        cmd = ["strace", "-f", "-e", "trace=openat,rename,renameat,renameat2,unlink,unlinkat,truncate,ftruncate", "-o", strace_out] + cmd
    p = subprocess.run(cmd, stdout=subprocess.PIPE, stderr=subprocess.PIPE, text=True, timeout=300, cwd=core.scratch())
    return p.returncode, p.stderr


def driver_skip(r, step, d, argv, have_strace, stats):
    """the GUI / pipeline driver (pipeline.run_update_evidence, pipeline.run_andromeda_to_pin) relies on the steps' skip: a second
    pass of the driver over existing outputs must not touch them"""
    outdir = os.path.join(d, "driver_out")
    os.makedirs(outdir, exist_ok=True)
    if step == "update_evidence":
        i = argv.index("--mq_evidence_out")
        evs = argv[1:i]
        pouts = argv[argv.index("--perc_results") + 1:] if "--perc_results" in argv else []
        if not pouts:
            return None
        outs = [os.path.join(outdir, f"evidence_{k}.txt") for k in range(len(evs))]
        spec = {"step": step, "evs": evs, "pouts": pouts, "outs": outs}
    else:
        outs = [os.path.join(outdir, "pin_0.tab")]
        spec = {"step": step, "evs": [argv[0]], "fastas": [argv[argv.index("-F") + 1]], "outdir": outdir}
    rc, err = run_pipeline_driver(spec)
    if rc != 0 or not all(os.path.exists(o) for o in outs):
        return ("harness-error", f"{step}: pipeline driver run failed: {err[-300:]}")
    before = {o: (open(o, "rb").read(), os.stat(o).st_mtime_ns, os.stat(o).st_ino) for o in outs}
    tr = os.path.join(d, "trace_driver.txt")
    rc, err = run_pipeline_driver(spec, strace_out=tr if have_strace else None)
    stats["driver_reruns"] = stats.get("driver_reruns", 0) + 1
    for o in outs:
        now = (open(o, "rb").read(), os.stat(o).st_mtime_ns, os.stat(o).st_ino) if os.path.exists(o) else None
        touched = abstract_trace(tr, o) if have_strace else []
        if now != before[o] or os.path.exists(o + ".tmp") or touched:
            return ("property-failure", f"{step} through the pipeline driver: an existing final output was touched by a second pass "
                                        f"(operations on it: {touched}; bytes/mtime/inode changed: {now != before[o]})")
    return None


def step_inputs(step, d, rng, k=0):
    """returns (argv, final output path); the input shapes cycle with k: two evidence files with whatever rescoring files are drawn,
    ONE evidence file WITHOUT rescoring files (plain pass-through), one evidence file with rescoring files, two without"""
    if step == "update_evidence":
        n_ev = [2, 1, 1, 2][k % 4]
        case = gen_case(rng, n_ev_files=n_ev)
        while sum(len(f["rows"]) for f in case["ev_files"]) < 3 or (k % 4 == 2 and not case["pouts"]):
            case = gen_case(rng, n_ev_files=n_ev)
        if k % 4 in (1, 3):
            case["pouts"] = []
        evs, pouts = write_inputs(case, d)
        out = os.path.join(d, "evidence_updated.txt")
        return ["--mq_evidence"] + evs + ["--mq_evidence_out", out] + (["--perc_results"] + pouts if pouts else []), out
    # andromeda2pin
    from picked_group_fdr import digest
    from picked_group_fdr.digestion_params import DigestionParams
    prots = filegen.toy_database(rng, n_prot=4)
    fasta = os.path.join(d, "db.fasta")
    filegen.write_fasta(fasta, prots)
    pmap = digest.get_peptide_to_protein_map_from_params([fasta], [DigestionParams()])
    peps = sorted(pmap)
    ev = os.path.join(d, "evidence.txt")
    import csv
    with open(ev, "w", newline="") as f:
        w = csv.writer(f, delimiter="\t")
        w.writerow(["Sequence", "Modified sequence", "MS/MS scan number", "Raw file", "Charge", "Mass", "Leading proteins", "Score",
                    "Delta score", "Experiment"])
        for i in range(rng.randint(3, 8)):
            p = rng.choice(peps)
            w.writerow([p, "_" + p + "_", i + 1, "raw1", rng.choice([2, 3]), 1000.5 + i, ";".join(pmap[p]), 80.0 + i, 10.0, "E1"])
    out = os.path.join(d, "pin.tab")
    return [ev, "-o", out, "-F", fasta], out


def run_driver(step, mode, n, argv, strace_out=None):
    cmd = [sys.executable, "-W", "ignore", "-c", DRIVER, step, mode, str(n)] + argv
    if strace_out:
        cmd = ["strace", "-f", "-e", "trace=openat,rename,renameat,renameat2,unlink,unlinkat,truncate,ftruncate", "-o", strace_out] + cmd
    p = subprocess.run(cmd, stdout=subprocess.PIPE, stderr=subprocess.PIPE, text=True, timeout=300, cwd=core.scratch())
    return p.returncode, p.stderr


def abstract_trace(path, out):
    """the operations on the final path and its .tmp, in order"""
    ops = []
    tmp = out + ".tmp"
    for line in open(path):
        if out not in line:
            continue
        m = re.search(r'openat\([^,]+, "([^"]+)", ([A-Z_|]+)', line)
        if m and m.group(1) in (out, tmp):
            flags = m.group(2)
            if "O_WRONLY" in flags or "O_RDWR" in flags:
                ops.append(("open_write" + ("_trunc" if "O_TRUNC" in flags else ""), "tmp" if m.group(1) == tmp else "final"))
            continue
        m = re.search(r'rename(?:at2?)?\((?:AT_FDCWD, )?"([^"]+)", (?:AT_FDCWD, )?"([^"]+)"', line)
        if m and (m.group(1) in (out, tmp) or m.group(2) in (out, tmp)):
            ops.append(("rename", "tmp->final" if (m.group(1), m.group(2)) == (tmp, out) else f"{m.group(1)}->{m.group(2)}"))
            continue
        m = re.search(r'(unlink(?:at)?|truncate)\((?:AT_FDCWD, )?"([^"]+)"', line)
        if m and m.group(2) in (out, tmp):
            ops.append((m.group(1), "tmp" if m.group(2) == tmp else "final"))
    return ops


def path_spellings(r, stats):
    """the output path as a user may type it - relative, with a redundant ./ or sub/../, with a leading ~ - for both steps: two runs
    in a row (the inputs touched in between); whatever file the first run published, the second run must leave every file of the
    directory tree untouched and create none"""
    def tree(d):
        out = {}
        for root, _, files in os.walk(d):
            for f in files:
                p = os.path.join(root, f)
                if "/in/" in p + "/":
                    continue
                st = os.stat(p)
                out[os.path.relpath(p, d)] = (open(p, "rb").read(), st.st_mtime_ns, st.st_ino)
        return out
    for step in ("update_evidence", "andromeda2pin"):
        for spelling in ("relative", "dot_slash", "dotdot", "tilde"):
            d = tempfile.mkdtemp(prefix=f"c16p_{step}_", dir=core.scratch())
            ind = os.path.join(d, "in")
            os.makedirs(ind, exist_ok=True)
            argv, out = step_inputs(step, ind, r.rng, 0)
            name = os.path.basename(out)
            for sub in ("out", "home/out", "~/out", "sub"):
                os.makedirs(os.path.join(d, sub), exist_ok=True)
            typed = {"relative": f"out/{name}", "dot_slash": f"./out/./{name}", "dotdot": f"sub/../out/{name}", "tilde": f"~/out/{name}"}[spelling]
            argv = [typed if a == out else a for a in argv]
            env = dict(os.environ, HOME=os.path.join(d, "home"))
            cmd = [sys.executable, "-W", "ignore", "-c", DRIVER, step, "none", "0"] + argv
            p1 = subprocess.run(cmd, stdout=subprocess.PIPE, stderr=subprocess.PIPE, text=True, timeout=300, cwd=d, env=env)
            first = tree(d)
            if p1.returncode != 0 or not any(k.endswith(name) for k in first):
                r.violation("harness-error", {"step": step, "typed": typed, "stderr": p1.stderr[-400:]}, False,
                            f"{step}: run with the output typed as {typed} failed")
                return
            t = max(v[1] for v in first.values()) / 1e9
            for a in argv:
                if os.path.isfile(a):
                    os.utime(a, (t + 10, t + 10))
            subprocess.run(cmd, stdout=subprocess.PIPE, stderr=subprocess.PIPE, text=True, timeout=300, cwd=d, env=env)
            stats["path_spelling_reruns"] = stats.get("path_spelling_reruns", 0) + 1
            second = tree(d)
            if second != first:
                changed = sorted(k for k in set(first) | set(second) if first.get(k) != second.get(k))
                r.violation("property-failure", {"suite": "path_spellings", "step": step, "output_typed_as": typed, "argv": argv,
                                                 "files_changed_or_created_by_the_second_run": changed}, True,
                            f"{step}: with the output typed as {typed} a second run touched {changed} (published by the first run)")
                return
            shutil.rmtree(d, ignore_errors=True)


def run(r: core.Runner):
    r.assumptions += [
        "PARTIAL: POSIX rename() is atomic and data written before close() survives process death (SIGKILL) - runtime facts the "
        "model cannot exhibit; power loss (no fsync) is outside the property",
        "the steps' effect on the two paths is observed with strace (openat/rename/unlink) and by SIGKILL at every row write, "
        "before and after the rename (kill points injected from outside by wrapping tsv.get_tsv_writer and os.rename)",
    ]
    rng = r.rng
    have_strace = shutil.which("strace") is not None
    n_inputs = core.tier_n(r.tier, 2, 12)
    stats = {"traces": 0, "kill_runs": 0, "reruns": 0, "existing_output_runs": 0}
    samples = []
    items = []
    for step in ("update_evidence", "andromeda2pin"):
        for k in range(n_inputs):
            d = tempfile.mkdtemp(prefix=f"c16_{step}_", dir=core.scratch())
            argv, out = step_inputs(step, d, rng, k)
            items.append((step, d, argv, out))

    def process(item):
        step, d, argv, out = item
        if True:
            tmp = out + ".tmp"
            # uninterrupted reference run, traced
            tr = os.path.join(d, "trace.txt")
            rc, err = run_driver(step, "none", 0, argv, strace_out=tr if have_strace else None)
            if rc != 0 or not os.path.exists(out):
                r.violation("harness-error", {"step": step, "stderr": err[-500:]}, False, f"{step}: reference run failed")
                return
            ref = open(out, "rb").read()
            n_rows = ref.count(b"\n")
            if have_strace:
                ops = abstract_trace(tr, out)
                stats["traces"] += 1
                expected = [("open_write_trunc", "tmp"), ("rename", "tmp->final")]
                samples.append({"step": step, "trace": ops})
                if ops != expected:
                    r.violation("property-failure", {"suite": "syscall_trace", "step": step, "trace": ops, "expected": expected, "argv": argv},
                                True, f"{step}: operations on the final path and its .tmp are {ops}, the protocol is {expected}")
                    return
            # an existing final output is never modified (and nothing is written at all)
            # (the inputs are made NEWER than the existing output first: "never modified" is unconditional, not make-style)
            t_out = os.stat(out).st_mtime
            times = (os.stat(out).st_atime_ns, os.stat(out).st_mtime_ns)
            for a in argv:
                if a != out and os.path.isfile(a):
                    os.utime(a, (t_out + 10, t_out + 10))
            before = os.stat(out).st_mtime_ns
            tr2 = os.path.join(d, "trace2.txt")
            rc, err = run_driver(step, "none", 0, argv, strace_out=tr2 if have_strace else None)
            stats["existing_output_runs"] += 1
            if open(out, "rb").read() != ref or os.stat(out).st_mtime_ns != before or os.path.exists(tmp) or \
                    (have_strace and abstract_trace(tr2, out)):
                r.violation("property-failure", {"suite": "existing_output", "step": step, "argv": argv}, True,
                            f"{step}: an existing final output was touched by a re-run")
                return
            dv = driver_skip(r, step, d, argv, have_strace, stats)
            if dv:
                r.violation(dv[0], {"suite": "pipeline_driver", "step": step, "argv": argv}, dv[0] == "property-failure", dv[1])
                return
            # kill at every row write, before and after the rename; then re-run and compare bytes
            points = [("row", i) for i in range(0, n_rows + 1)] + [("before_rename", 0), ("after_rename", 0)]
            if r.tier != "thorough" and len(points) > 8:
                points = points[:3] + [points[len(points) // 2]] + points[-3:]
            # an interruption that unwinds the stack (a write error) instead of killing the process: with-blocks close the
            # temporary file, finally-clauses run
            rpts = [("raise_row", i) for i in range(0, n_rows + 1)]
            points += rpts if r.tier == "thorough" else [rpts[0], rpts[len(rpts) // 2], rpts[-1]]
            for mode, i in points:
                for p in (out, tmp):
                    if os.path.exists(p):
                        os.remove(p)
                rc, err = run_driver(step, mode, i, argv)
                stats["kill_runs"] += 1
                state = {"final": open(out, "rb").read() if os.path.exists(out) else None,
                         "tmp": open(tmp, "rb").read() if os.path.exists(tmp) else None}
                killed = rc == -9 or (mode == "raise_row" and rc != 0)
                bad = None
                if state["final"] is not None and state["final"] != ref:
                    bad = "final path holds a partially written file"
                elif killed and mode != "after_rename" and state["final"] is not None:
                    bad = "final path exists although the process died before the rename"
                elif state["tmp"] is not None and not ref.startswith(state["tmp"]):
                    bad = "temporary file is not a prefix of the output (crash state outside the model)"
                if bad:
                    r.violation("property-failure", {"suite": "kill_run", "step": step, "kill_point": [mode, i], "argv": argv,
                                                     "final_len": None if state["final"] is None else len(state["final"]),
                                                     "ref_len": len(ref)}, True, f"{step} killed at {mode} {i}: {bad}")
                    return
                # re-run (twice) after the crash
                for _ in range(2):
                    rc2, err2 = run_driver(step, "none", 0, argv)
                    stats["reruns"] += 1
                    if rc2 != 0 or not os.path.exists(out) or open(out, "rb").read() != ref:
                        r.violation("property-failure", {"suite": "rerun", "step": step, "kill_point": [mode, i], "argv": argv,
                                                         "stderr": err2[-300:]}, True,
                                    f"{step}: re-run after a crash at {mode} {i} does not reproduce the uninterrupted output")
                        return
            shutil.rmtree(d, ignore_errors=True)
    import concurrent.futures
    with concurrent.futures.ThreadPoolExecutor(max_workers=8) as ex:
        list(ex.map(process, items))
    path_spellings(r, stats)
    r.evaluations = stats["kill_runs"] + stats["traces"] + stats["existing_output_runs"]
    r.traces = stats["traces"] + stats["kill_runs"]
    for kp in range(stats["kill_runs"]):
        r.nontrivial_keys.add(f"kill:{kp}")
    r.samples = samples[:4] or [{"note": "strace unavailable: kill runs only"}]
    r.extra["schedule_exploration"] = stats
    r.rule_parts.append("both skip-if-present steps on generated inputs: one traced uninterrupted run, one run on an existing output, "
                        "SIGKILL at every row write (quick: a spread of 7 points) plus before and after the rename, each followed by "
                        "two re-runs compared byte for byte with the uninterrupted output; every kill run counts as non-trivial")
