"""C05 — evidence collection, razor filter and protein scores vs Model/Scoring.v."""
import hashlib
from fractions import Fraction

import numpy as np

from .. import core, gens
from ..core import Suite, cQ, cstr, clist, cpair, cbool, cok, craise
from .results_common import render_group, render_pinfo


def render_pil(pil):
    return clist(cpair(cstr(e), cpair(cQ(Fraction(sc)), render_group(ps))) for e, sc, ps in pil)


class CollectSuite(Suite):
    has_py_property = True

    def py_property(self, case, out):
        return property_violation(case, out)

    name = "collect_peptide_scores_per_protein"
    imports = "From PGF Require Import Base.Prelude Model.Results Model.ProteinGroups Model.Scoring Harness.H05."
    case_type = "c05_in * c05_out"
    chk = "chk05"
    runf = "run05"
    deterministic = False
    rule = ("2-6 groups over <= 8 proteins, 1-10 peptides mapping into one group / across groups / partly or wholly to "
            "unknown proteins, protein lists in every order, razor ties on count and best PEP (md5 branch), discard / razor "
            "/ with_shared, first-pass (strict) and rescue-shaped (suppress) calls, stale index; non-trivial = at least one "
            "shared and one unique peptide")

    def gen(self, rng, tier):
        for _ in range(core.tier_n(tier, 1500, 30000)):
            npr = rng.randint(2, 8)
            prots = [("REV__" if rng.random() < 0.3 else "") + f"P{i}" for i in range(npr)]
            pool = prots[:]
            rng.shuffle(pool)
            groups, k = [], 0
            while k < len(pool) and len(groups) < 6:
                sz = rng.choice([1, 1, 2, 3])
                groups.append(pool[k:k + sz])
                k += sz
            known = [p for g in groups for p in g]
            pil = []
            for e in rng.sample(gens.PEPTIDES, rng.randint(1, 10)):
                r = rng.random()
                if r < 0.45:
                    g = rng.choice(groups)
                    ps = rng.sample(g, rng.randint(1, len(g)))
                elif r < 0.8:
                    ps = rng.sample(known, rng.randint(1, min(4, len(known))))
                elif r < 0.9:
                    ps = rng.sample(known, 1) + ["UNKNOWN1"]
                elif r < 0.97:
                    ps = [rng.choice(["UNKNOWN1", "UNKNOWN2"])]
                else:
                    ps = []
                rng.shuffle(ps)
                if ps and rng.random() < 0.12:
                    ps.insert(rng.randint(0, len(ps)), rng.choice(ps))     # the same protein listed twice for one peptide
                pep = gens.norm(rng.choice(["1/1024", "1/512", "1/100", "1/2"])) if rng.random() < 0.7 else gens.grid_pep(rng)
                pil.append([e, pep, ps])
            mode = rng.choice(["discard", "discard", "razor", "razor", "with_shared"])
            if mode == "razor" and rng.random() < 0.25 and len(known) >= 2:
                # razor ties on the peptide count: two proteins with the same number of own peptides and one shared peptide, PEPs drawn
                # so that the order of the best PEPs often differs from the order of the worst ones
                a, b = rng.sample(known, 2)
                k = rng.choice([1, 2, 2, 3])
                lv = ["1/1024", "1/512", "1/100", "1/10", "1/2", "9/10"]
                if rng.random() < 0.4:
                    # best PEPs that are neighbouring doubles: "better best PEP" is a comparison of the PEPs themselves (their -log10
                    # values coincide)
                    x = rng.choice([0.01, 1e-5, 1e-300, 0.3])
                    lv = [str(Fraction(x)), str(Fraction(float(np.nextafter(x, 0)))), str(Fraction(float(np.nextafter(x, 1))))]
                es = rng.sample(gens.PEPTIDES, 2 * k + 1)
                pil = [[e, gens.norm(rng.choice(lv)), [a]] for e in es[:k]] + [[e, gens.norm(rng.choice(lv)), [b]] for e in es[k:2 * k]]
                pil.append([es[2 * k], gens.norm(rng.choice(lv)), rng.sample([a, b], 2)])
                rng.shuffle(pil)
            elif mode == "razor" and rng.random() < 0.4:
                # extreme PEPs: differences far below the spacing of doubles near the peptide counts, and the end points 0 and 1
                ext = [str(Fraction(x)) for x in (1e-30, 1e-20, 1e-17, 0.0, 1.0)]
                for row in pil:
                    if rng.random() < 0.7:
                        row[1] = rng.choice(ext)
            yield {"groups": groups, "pil": pil, "mode": mode, "level": rng.choice(["1/100", "1/100", "1/20", "1/2"]),
                   "counts_set": rng.random() < 0.8, "suppress": rng.random() < 0.5,
                   "valid_index": rng.random() < 0.95,
                   # a fifth of the groupings are what is left of a larger, already indexed collection after groups were dropped from
                   # outside and the object was re-indexed (the dropped proteins still occur in peptides)
                   "curated_from": rng.sample([["UNKNOWN1"], ["UNKNOWN2", "P_DROPPED"], ["CON__K"]], rng.randint(1, 3)) if rng.random() < 0.2 else None}

    def impl(self, case):
        from picked_group_fdr import fdr
        from picked_group_fdr.protein_groups import ProteinGroups
        from picked_group_fdr.scoring_strategy import ProteinScoringStrategy
        desc = {"discard": "bestPEP", "razor": "bestPEP razor", "with_shared": "bestPEP with_shared"}[case["mode"]]
        st = ProteinScoringStrategy(desc)
        pil = {e: (float(Fraction(sc)), list(ps)) for e, sc, ps in case["pil"]}
        pg = ProteinGroups.init_from_list([list(g) for g in case["groups"]])
        if case.get("curated_from"):
            pg = ProteinGroups.init_from_list([list(g) for g in case["curated_from"]] + [list(g) for g in case["groups"]])
            pg.protein_groups = [list(g) for g in case["groups"]]
            pg.create_index()
        if not case["valid_index"]:
            pg.append([])
        recorded = []
        real = fdr.calc_post_err_prob_cutoff

        level = case.get("level", "1/100")
        levels = []

        def rec(peps, q):
            recorded.append([gens.fr(p) for p in peps])
            levels.append(q)
            return real(peps, q)
        fdr.calc_post_err_prob_cutoff = rec
        try:
            try:
                if case["counts_set"]:
                    st.set_peptide_counts_per_protein(pil)
                infos = st.collect_peptide_scores_per_protein(pg, pil, float(Fraction(level)), suppress_missing_protein_warning=case["suppress"])
            except Exception as e:
                return {"raise": gens.exn_name(e)}
        finally:
            fdr.calc_post_err_prob_cutoff = real
        if any(q != float(Fraction(level)) for q in levels):
            # the level is part of the cutoff oracle's contract: it is the one the caller passed
            return {"raise": "OtherError", "msg": f"cutoff function asked for level {levels}, the caller's level is {level}"}
        return {"ok": [[[gens.fr(i[0]), i[1], list(i[2])] for i in inf] for inf in infos],
                "peps": recorded[0] if recorded else None}

    def render_in(self, case):
        prots = sorted({p for _, _, ps in case["pil"] for p in ps} | {p for g in case["groups"] for p in g})
        md5 = clist(cpair(cstr(p), cstr(hashlib.md5(p.encode("utf-8")).hexdigest())) for p in prots)
        m = case["mode"]
        return cpair(cpair(cbool(m == "razor"), cbool(m == "with_shared"), cbool(case["counts_set"])), md5,
                     clist(render_group(g) for g in case["groups"]), cbool(case["valid_index"]),
                     cbool(case["suppress"]), render_pil(case["pil"]))

    def render(self, case, out):
        if "raise" in out:
            o = craise(out["raise"])
        else:
            peps = out["peps"] if out["peps"] is not None else []
            o = cok(cpair(clist(clist(render_pinfo(i) for i in inf) for inf in out["ok"]),
                          clist(cQ(Fraction(p)) for p in peps)))
        return cpair(self.render_in(case), o)

    def nontrivial(self, case, out):
        if "ok" not in out:
            return False
        used = {i[1] for inf in out["ok"] for i in inf}
        return 0 < len(used) < len(case["pil"])

    def describe(self, case, out):
        return {"mode": case["mode"], "suppress": case["suppress"], "outcome": out.get("raise", "ok"),
                "counts_set": case["counts_set"]}

    def signature(self, case, out):
        v = property_violation(case, out)
        return v or "collect-model-mismatch"

    def shrink(self, case):
        for i in range(len(case["pil"])):
            c = dict(case)
            c["pil"] = case["pil"][:i] + case["pil"][i + 1:]
            yield c
        for i in range(len(case["groups"])):
            if len(case["groups"]) > 1:
                c = dict(case)
                c["groups"] = case["groups"][:i] + case["groups"][i + 1:]
                yield c


def property_violation(case, out):
    """C05's first sentence evaluated on the implementation's output."""
    if out.get("raise") == "AttributeError":
        return "razor-filter-before-counts-set"
    if "ok" not in out:
        return None
    where = {p: gi for gi, g in enumerate(case["groups"]) for p in g}
    pil = {e: (sc, ps) for e, sc, ps in case["pil"]}
    for gi, inf in enumerate(out["ok"]):
        for sc, e, ps in inf:
            if e not in pil:
                return "evidence-for-unknown-peptide"
            if case["mode"] == "razor" and case["counts_set"] and len(ps) != 1:
                return "razor-did-not-reduce-to-one-protein"
            if case["mode"] != "with_shared" and not all(where.get(p) == gi for p in ps):
                return "peptide-supports-a-group-not-holding-all-its-proteins"
    if case["mode"] == "razor" and case["counts_set"]:
        # the razor protein has the most observed peptides; among those with as many, the lowest best PEP
        cnt, best = {}, {}
        for e, (sc, ps) in pil.items():
            for p in set(ps):
                cnt[p] = cnt.get(p, 0) + 1
                best[p] = min(best.get(p, Fraction(2)), Fraction(sc))
        for gi, inf in enumerate(out["ok"]):
            for sc, e, ps in inf:
                if len(ps) == 1 and e in pil:
                    star = ps[0]
                    for q in pil[e][1]:
                        if (cnt.get(q, 0), -best.get(q, Fraction(1))) > (cnt.get(star, 0), -best.get(star, Fraction(1))):
                            return "razor-protein-is-not-the-most-observed"
    if case["mode"] != "with_shared":
        seen = {}
        for gi, inf in enumerate(out["ok"]):
            for sc, e, ps in inf:
                if seen.setdefault(e, gi) != gi:
                    return "peptide-supports-two-groups"
    if case["mode"] == "discard":
        for e, (sc, ps) in pil.items():
            gs = {where.get(p) for p in ps}
            if ps and len(gs) == 1 and None not in gs:
                gi = gs.pop()
                if not any(i[1] == e for i in out["ok"][gi]):
                    return "peptide-with-all-proteins-in-one-group-ignored"
    return None


class BestPepSuite(Suite):
    name = "BestPEPScore.calculate_score"
    imports = CollectSuite.imports
    case_type = "(list (Q * Q) * list pinfo) * Q"
    chk = "chk05b"
    runf = "run05b"
    deterministic = True
    rule = "0-6 evidence entries with PEPs incl. 0, ties and arbitrary doubles; -log10(PEP+eps) tabulated with numpy; non-trivial = >= 2 different PEPs"

    def gen(self, rng, tier):
        for _ in range(core.tier_n(tier, 500, 10000)):
            n = rng.choice([0, 1, 2, 3, 6])
            inf = []
            for e in rng.sample(gens.PEPTIDES, n):
                r = rng.random()
                pep = 0.0 if r < 0.1 else rng.random() ** rng.choice([1, 5, 20]) if r < 0.8 else float(Fraction(gens.grid_pep(rng)))
                inf.append([gens.fr(pep), e, ["P1"]])
            if inf and rng.random() < 0.3:
                inf.append([inf[0][0], "ZZZK", ["P1"]])
            yield {"infos": inf}

    def impl(self, case):
        from picked_group_fdr.scoring import BestPEPScore
        infos = [(float(Fraction(p)), e, ps) for p, e, ps in case["infos"]]
        return gens.fr(BestPEPScore().calculate_score(infos))

    def render_in(self, case):
        peps = sorted({Fraction(p) for p, _, _ in case["infos"]})
        tab = clist(cpair(cQ(p), cQ(Fraction(*float(-1 * np.log10(float(p) + np.nextafter(0, 1))).as_integer_ratio())))
                    for p in peps)
        return cpair(tab, clist(render_pinfo(i) for i in case["infos"]))

    def render(self, case, out):
        return cpair(self.render_in(case), cQ(Fraction(out)))

    def nontrivial(self, case, out):
        return len({p for p, _, _ in case["infos"]}) >= 2


class MultPepSuite(Suite):
    name = "MultPEPScore.terms"
    imports = CollectSuite.imports
    case_type = "list pinfo * list Q"
    chk = "chk05m"
    runf = "run05m"
    deterministic = False
    rule = ("evidence lists repeating a peptide with different PEPs; the candidate term list (lowest PEP per distinct peptide, "
            "ascending tuple order) is checked against the model in Coq and, folded with the same numpy operations, against the "
            "implementation's float; non-trivial = a repeated peptide")

    def gen(self, rng, tier):
        for _ in range(core.tier_n(tier, 500, 10000)):
            inf = []
            for e in rng.sample(gens.PEPTIDES, rng.choice([0, 1, 2, 4])):
                for _ in range(rng.choice([1, 1, 2, 3])):
                    inf.append([gens.fr(rng.random() ** rng.choice([1, 8])), e, ["P1"] if rng.random() < 0.7 else ["P1", "P2"]])
            rng.shuffle(inf)
            yield {"infos": inf, "div": rng.choice([1.0, 0.5, 0.1234])}

    def impl(self, case):
        from picked_group_fdr.scoring import MultPEPScore
        infos = [(float(Fraction(p)), e, ps) for p, e, ps in case["infos"]]
        ms = MultPEPScore()
        ms.div = case["div"]
        total, n = ms._get_score_and_num_peptides(infos)
        score = ms.calculate_score(infos)
        # candidate terms: lowest tuple per distinct peptide, ascending
        seen, terms = set(), []
        for pep, e, ps in sorted(infos):
            if e not in seen:
                seen.add(e)
                terms.append(pep)
        acc = 0.0
        for t in terms:
            acc -= np.log10(t + np.nextafter(0, 1))
        exp_score = acc + np.log10(case["div"]) * len(terms)
        if len(terms) == 0 or np.isnan(exp_score):
            exp_score = -100.0
        ok = (float(acc) == float(total)) and n == len(terms) and float(exp_score) == float(score)
        return {"terms": [gens.fr(t) for t in terms], "float_fold_matches_impl": bool(ok),
                "score": float(score), "expected_score": float(exp_score), "n_distinct": len(terms), "n_counted": int(n)}

    has_py_property = True

    def py_property(self, case, out):
        """C05 on the implementation's float: sum of -log10 PEP over the DISTINCT peptides (lowest PEP each) plus the same constant
        log10(div) per distinct peptide"""
        if out["n_counted"] != out["n_distinct"]:
            return "multPEP-counts-a-peptide-more-than-once"
        if abs(out["score"] - out["expected_score"]) > 1e-9 * max(1.0, abs(out["expected_score"])):
            return "multPEP-score-is-not-the-sum-over-distinct-peptides-plus-a-constant-per-peptide"
        return None

    def render_in(self, case):
        return clist(render_pinfo(i) for i in case["infos"])

    def render(self, case, out):
        terms = out["terms"] if out["float_fold_matches_impl"] else [gens.fr(-1.0)]
        return cpair(self.render_in(case), clist(cQ(Fraction(t)) for t in terms))

    def nontrivial(self, case, out):
        es = [e for _, e, _ in case["infos"]]
        return len(set(es)) < len(es)


SUITES = [CollectSuite(), BestPepSuite(), MultPepSuite()]


def suite_by_name(name):
    from .pipeline_common import PipelineSuite
    return next(s for s in SUITES + [PipelineSuite()] if s.name == name)


def run(r: core.Runner):
    r.assumptions += [
        "-log10(PEP + eps) is a tabulated oracle filled with the same numpy primitive; numpy's log10 assumed antitone after "
        "negation on the tabulated values (checked on each table by the harness: a test)",
        "hashlib.md5 is an uninterpreted tabulated function",
        "MultPEP's divisor search (optimize_hyperparameters) is not modelled beyond 'a value is stored before scores are read'",
    ]
    s = SUITES[0]
    orig = r.violation

    def violation(kind, data, found_input, what):
        if data.get("suite") == s.name and "case" in data:
            v = property_violation(data["case"], s.impl(data["case"]))
            if v:
                kind, found_input, what = "property-failure", True, f"{s.name}: {v}"
        orig(kind, data, found_input, what)
    r.violation = violation
    for su in SUITES:
        r.run_suite(su, max_report=2)
    # evidence collection inside the whole inference function, where the grouping of the RESCUE pass is built by merging and
    # re-indexing the first-pass object (the quantifier's "first pass and rescue pass"): rescue methods, discard and razor
    from .pipeline_common import PipelineSuite
    r.run_suite(PipelineSuite(methods=["picked_protein_group", "classic_rescued_subset_grouping", "razor_picked", "savitski_mq_mult"]))
