"""C04 — rescue regrouping vs Model/Rescue.v; the networkx minimum-cut splitter is a monitored oracle."""
import collections
import itertools
from fractions import Fraction
from types import SimpleNamespace

import numpy as np

from .. import core, gens
from ..core import Suite, cQ, cstr, clist, cpair, cnat, cok, craise
from .c05 import render_pil
from .results_common import render_group


def run_rescue(pil, cut, old_partition=None):
    """old = subset grouping of the full list (or a given partition, as the MaxQuant-native grouping supplies one in which the
    first protein need not carry the peptides of its group mates); rescue with the peptides below [cut]."""
    from picked_group_fdr import graphs
    from picked_group_fdr.grouping import RescuedSubsetGrouping, SubsetGrouping
    calls = []
    orig = graphs.ConnectedProteinGraphs._split_single_connected_component

    def wrapped(self, G, A, B):
        out = orig(self, G, A, B)

        def split_nodes(g):
            pr = sorted(x for x, y in g.nodes(data=True) if y.get("node_type") == "protein")
            pe = sorted(x for x, y in g.nodes(data=True) if y.get("node_type") != "protein")
            return [pr, pe]
        calls.append({"graph": split_nodes(G), "edges": sorted(sorted(e) for e in G.edges()),
                      "parts": [split_nodes(s) for s in out]})
        return out
    full = {e: (float(Fraction(sc)), list(ps)) for e, sc, ps in pil}
    c = float(Fraction(cut))
    pil_f = {e: v for e, v in full.items() if v[0] < c}
    graphs.ConnectedProteinGraphs._split_single_connected_component = wrapped
    try:
        if old_partition is not None:
            from picked_group_fdr.protein_groups import ProteinGroups
            old = ProteinGroups.init_from_list([list(g) for g in old_partition])
        else:
            old = SubsetGrouping().group_proteins(full, None)
        oldgroups = [list(g) for g in old.protein_groups]
        g = RescuedSubsetGrouping()
        try:
            new = g.merge_with_rescued_protein_groups(pil_f, old, list(range(len(oldgroups))))
        except Exception as e:
            return {"raise": gens.exn_name(e), "old": oldgroups, "calls": calls,
                    "pil_f": [[e, gens.fr(v[0]), v[1]] for e, v in pil_f.items()]}
    finally:
        graphs.ConnectedProteinGraphs._split_single_connected_component = orig
    return {"old": oldgroups, "new": [list(x) for x in new.protein_groups],
            "obs": [list(x) for x in g.obsolete_protein_groups.protein_groups],
            "obs_idx": [int(i) for i in g.obsolete_protein_group_peptide_infos],
            "calls": calls, "pil_f": [[e, gens.fr(v[0]), v[1]] for e, v in pil_f.items()]}


def comps(nodes, adj):
    seen, out = set(), []
    for n in sorted(nodes):
        if n in seen:
            continue
        st, c = [n], set()
        while st:
            x = st.pop()
            if x in c:
                continue
            c.add(x)
            st += [y for y in adj[x] if y in nodes and y not in c]
        seen |= c
        out.append(c)
    return out


def contract_violation(call):
    """the splitter contract the model's theorems assume, checked on a recorded call"""
    pr, pe = call["graph"]
    parts = call["parts"]
    if not parts:
        return None
    adj = collections.defaultdict(set)
    for a, b in call["edges"]:
        adj[a].add(b)
        adj[b].add(a)
    kept = set()
    for p in parts:
        kept |= set(p[0]) | set(p[1])
    cut = (set(pr) | set(pe)) - kept
    if not cut or not cut <= set(pe):
        return "cut is empty or contains a protein node"
    cs = comps(kept, adj)
    if sorted(sorted(c) for c in cs) != sorted(sorted(p[0] + p[1]) for p in parts):
        return "parts are not the connected components after removing the cut"
    if len(parts) < 2 or any(len(p[0]) + len(p[1]) < 2 for p in parts):
        return "fewer than two parts or a single-node part"
    return None


def admissible_cut_exists(prots, peps, adj):
    nodes = set(prots) | set(peps)
    for r in range(1, len(peps) + 1):
        for cut in itertools.combinations(peps, r):
            cs = comps(nodes - set(cut), adj)
            if len(cs) >= 2 and all(len(c) >= 2 for c in cs):
                return True
    return False


def property_violation(case, out):
    """C04 evaluated on the implementation's output with an independent brute-force oracle."""
    from picked_group_fdr.grouping import SubsetGrouping
    if "new" not in out:
        return None
    for call in out["calls"]:
        v = contract_violation(call)
        if v:
            return "splitter-contract: " + v
    pil_f = {e: (float(Fraction(sc)), ps) for e, sc, ps in out["pil_f"]}
    old_groups, new_groups = out["old"], out["new"]
    if out["calls"]:
        sub0 = SubsetGrouping().group_proteins(pil_f, None).protein_groups
        lead = {g[0]: i for i, g in enumerate(sub0)}
        for call in out["calls"]:
            pr = call["graph"][0]
            if any(p not in lead for p in pr) or len({lead[p] for p in pr}) != len(pr):
                return "graph-nodes-are-not-leading-proteins-of-distinct-groups"
    oldP = [p for g in old_groups for p in g]
    newP = [p for g in new_groups for p in g]
    if sorted(oldP) != sorted(newP):
        return "not-a-partition-of-the-first-pass-proteins"
    if any(len(g) == 0 for g in new_groups):
        return "empty-group"
    prot2pep = collections.defaultdict(set)
    for pep, (s, pr) in pil_f.items():
        for p in pr:
            prot2pep[p].add(pep)
    Pp = set(prot2pep)
    gid = {p: i for i, g in enumerate(new_groups) for p in g}
    for g in old_groups:
        rem = [p for p in g if p not in Pp]
        if rem and rem not in new_groups:
            return "remnants-not-kept-together"
    for g in new_groups:
        if set(g) & Pp and not set(g) <= Pp:
            return "kept-and-unkept-proteins-mixed"
    # placeholders: exactly the completely absorbed first-pass groups
    absorbed = [["OBSOLETE__" + p for p in g] for g in old_groups if all(p in Pp for p in g)]
    if sorted(absorbed) != sorted(out["obs"]):
        return "placeholders-are-not-the-absorbed-groups"
    if [old_groups[i] for i in out["obs_idx"]] != [[p[len("OBSOLETE__"):] for p in g] for g in out["obs"]]:
        return "placeholder-evidence-misaligned"
    sub = SubsetGrouping().group_proteins(pil_f, None).protein_groups if pil_f else []
    sgid = {p: i for i, g in enumerate(sub) for p in g}
    for g in sub:
        if len({gid[p] for p in g}) != 1:
            return "not-a-coarsening-of-subset-grouping"
    ident = set()
    for pep, (s, pr) in pil_f.items():
        ids = {sgid[p] for p in pr}
        if len(ids) == 1:
            ident |= ids
    merged = collections.defaultdict(set)
    for p in Pp:
        merged[gid[p]].add(sgid[p])
    for k, v in merged.items():
        if len(v) > 1 and v & ident:
            return "identified-group-merged"
    un = [i for i in range(len(sub)) if i not in ident]
    adj = collections.defaultdict(set)
    for i in un:
        lead = sub[i][0]
        for pep in prot2pep[lead]:
            node = "pep:" + ";".join(sorted({sub[sgid[p]][0] for p in pil_f[pep][1]}))
            adj[("g", i)].add(node)
            adj[node].add(("g", i))
    nodes = set(adj)
    allc = comps_mixed(nodes, adj)
    for k, v in merged.items():
        if len(v) > 1:
            cs = [c for c in allc if ("g", next(iter(v))) in c][0]
            if not all(("g", i) in cs for i in v):
                return "merged-across-unconnected-groups"
    for c in allc:
        prots = [n for n in c if isinstance(n, tuple)]
        peps = [n for n in c if not isinstance(n, tuple)]
        if len(prots) <= 1:
            continue
        sub_adj = {n: {m for m in adj[n] if m in c} for n in c}
        if not admissible_cut_exists_mixed(prots, peps, sub_adj):
            if len({gid[sub[i][0]] for _, i in prots}) != 1:
                return "inseparable-component-not-merged"
    return None


def comps_mixed(nodes, adj):
    seen, out = set(), []
    for n in nodes:
        if n in seen:
            continue
        st, c = [n], set()
        while st:
            x = st.pop()
            if x in c:
                continue
            c.add(x)
            st += [y for y in adj[x] if y in nodes and y not in c]
        seen |= c
        out.append(c)
    return out


def admissible_cut_exists_mixed(prots, peps, adj):
    nodes = set(prots) | set(peps)
    for r in range(1, len(peps) + 1):
        for cut in itertools.combinations(peps, r):
            cs = comps_mixed(nodes - set(cut), adj)
            if len(cs) >= 2 and all(len(c) >= 2 for c in cs):
                return True
    return False


def gen_pil(rng, big=False):
    if rng.random() < 0.06:
        # two families that share no peptide with each other, each a ring of shared-only peptides (inseparable: merged into one group
        # each); in half of them the names of one family are concatenations of the names of the other ({x, yz, yw} and {xy, z, w})
        x, y, z, w = rng.sample("ABCDEFGH", 4)
        fams = [[x, y + z, y + w], [x + y, z, w]] if rng.random() < 0.5 else [["P0", "P1", "P2"], ["P3", "P4", "P5"]]
        pil = []
        for fam in fams:
            for a, b in ((0, 1), (0, 2), (1, 2)):
                ps = [fam[a], fam[b]]
                rng.shuffle(ps)
                pil.append([f"PEP{len(pil)}", gens.norm(rng.choice(["1/100000", "1/1000"])), ps])
        if rng.random() < 0.5:
            pil.append([f"PEP{len(pil)}", gens.norm("1/1000"), ["Q1"]])
        rng.shuffle(pil)
        return {"pil": pil, "cut": gens.norm(rng.choice(["1/100", "1/1"]))}
    nprot = rng.randint(2, 12 if big else 7)
    prots = [f"P{i}" for i in range(nprot)]
    if rng.random() < 0.25:
        # identifiers whose concatenations collide ({A, BC} and {AB, C} both spell ABC), a separator inside a name, case twins:
        # the node of a shared peptide stands for the SET of its groups
        pool = ["A", "AB", "BC", "C", "BD", "D", "B", "ABC", "A;B", "a", "Ab", "P1", "P11", "1"]
        prots = rng.sample(pool, min(nprot, len(pool)))
        nprot = len(prots)
    pil = []
    style = rng.random()
    npep = rng.randint(1, 14 if big else 9)
    for k in range(npep):
        if style < 0.35 and big is not None:
            # long chains / rings / double links of shared-only peptides: these reach the splitter
            a = rng.randrange(nprot)
            b = (a + rng.choice([1, 1, 1, 2])) % nprot
            ps = [prots[a], prots[b]] if a != b else [prots[a], prots[(a + 1) % nprot]]
            if rng.random() < 0.15:
                ps.append(prots[rng.randrange(nprot)])
            ps = list(dict.fromkeys(ps))
        elif style < 0.45:       # chains / cycles through shared-only peptides
            a = rng.randrange(nprot)
            ps = [prots[a], prots[(a + 1) % nprot]]
        elif style < 0.55:      # star
            ps = [prots[0], prots[rng.randrange(nprot)]]
            ps = list(dict.fromkeys(ps))
        else:
            ps = rng.sample(prots, rng.randint(1, min(3, nprot)))
        pep = gens.norm(rng.choice(["1/100000", "1/1000", "1/20", "3/10"]))
        pil.append([f"PEP{k}", pep, ps])
    cut = gens.norm(rng.choice(["1/10000", "1/100", "1/10", "1/1", "1/1", "1/1"]))
    return {"pil": pil, "cut": cut}


class RescueSuite(Suite):
    has_py_property = True

    def py_property(self, case, out):
        return property_violation(case, out)

    name = "merge_with_rescued_protein_groups"
    imports = ("From PGF Require Import Base.Prelude Model.Results Model.ProteinGroups Model.Grouping Model.Scoring "
               "Model.Rescue Harness.H04.")
    case_type = "c04_in * c04_out"
    chk = "chk04"
    runf = "run04"
    deterministic = False
    rule = ("2-12 proteins, 1-14 peptides (chains and cycles of shared-only peptides, stars, random), four PEP levels and "
            "four cutoffs (incl. one nothing passes and one everything passes); exhaustive: all 4-protein x 4-peptide "
            "structures x 2 cutoffs in the thorough tier; every call of the min-cut splitter is recorded, checked against "
            "its contract and replayed as the model's oracle; non-trivial = a splitter call or a placeholder group")

    def gen(self, rng, tier):
        if tier == "thorough":
            prots = ["A", "B", "C", "D"]
            subsets = [list(c) for r in range(1, 5) for c in itertools.combinations(prots, r)]
            for st in itertools.product(range(len(subsets) + 1), repeat=4):
                if rng.random() > 0.12:
                    continue
                pil = [[f"e{j}", gens.norm("1/1000" if j % 2 else "1/20"), subsets[k - 1]] for j, k in enumerate(st) if k]
                if pil:
                    for cut in ("1/100", "1/1"):
                        yield {"pil": pil, "cut": gens.norm(cut)}
        for _ in range(core.tier_n(tier, 1200, 20000)):
            c = gen_pil(rng, big=rng.random() < 0.2)
            if rng.random() < 0.25:
                # first-pass groups as an arbitrary partition of the observed proteins (MaxQuant-native grouping): the leader of
                # a group need not carry its mates' peptides
                prots = sorted({p for _, _, ps in c["pil"] for p in ps})
                rng.shuffle(prots)
                part, k = [], 0
                while k < len(prots):
                    sz = rng.choice([1, 1, 2, 3])
                    part.append(prots[k:k + sz])
                    k += sz
                c["old_partition"] = part
            yield c

    def impl(self, case):
        return run_rescue(case["pil"], case["cut"], case.get("old_partition"))

    def _render_in(self, case, out):
        tab = clist(cpair(cpair(render_group(c["graph"][0]), render_group(c["graph"][1])),
                          clist(cpair(render_group(p[0]), render_group(p[1])) for p in c["parts"]))
                    for c in out["calls"])
        return cpair(tab, render_pil(out["pil_f"]), clist(render_group(g) for g in out["old"]))

    def render_in(self, case):
        return self._render_in(case, self.impl(case))

    def render(self, case, out):
        if "raise" in out:
            o = craise(out["raise"])
        else:
            o = cok(cpair(clist(render_group(g) for g in out["new"]), clist(render_group(g) for g in out["obs"]),
                          clist(cnat(i) for i in out["obs_idx"])))
        return cpair(self._render_in(case, out), o)

    def nontrivial(self, case, out):
        return bool(out.get("calls")) or bool(out.get("obs"))

    def describe(self, case, out):
        return {"splitter_calls": min(len(out["calls"]), 5), "splits": sum(1 for c in out["calls"] if c["parts"]),
                "placeholders": min(len(out.get("obs", [])), 4), "outcome": out.get("raise", "ok")}

    def signature(self, case, out):
        return property_violation(case, out) or "rescue-model-mismatch"

    def shrink(self, case):
        pil = case["pil"]
        for i in range(len(pil)):
            if len(pil) > 1:
                yield {"pil": pil[:i] + pil[i + 1:], "cut": case["cut"]}
        for i, (e, sc, ps) in enumerate(pil):
            for j in range(len(ps)):
                if len(ps) > 1:
                    yield {"pil": pil[:i] + [[e, sc, ps[:j] + ps[j + 1:]]] + pil[i + 1:], "cut": case["cut"]}


class CutoffSuite(Suite):
    name = "rescue_score_cutoff"
    imports = RescueSuite.imports
    case_type = "(list (Q * Q) * list (Q * Q) * Q * pil) * res (Q * pil)"
    chk = "chk04c"
    runf = "run04c"
    deterministic = True
    rule = ("0-8 reported rows with arbitrary scores and q-values, thresholds that some / no row reaches (fallback branch), "
            "peptides with PEPs around the cutoff incl. exactly equal; 10^(-x) tabulated with numpy; non-trivial = some "
            "peptide kept and some dropped")

    def gen(self, rng, tier):
        for _ in range(core.tier_n(tier, 600, 10000)):
            rows = [[gens.fr(rng.choice([0.5, 1.0, 2.0, 3.25, rng.random() * 5])), gens.fr(rng.choice([0.001, 0.01, 0.05, 0.5, 1.0]))]
                    for _ in range(rng.choice([0, 1, 2, 4, 8]))]
            thr = gens.fr(rng.choice([0.01, 0.0001, 0.05, 1.0]))
            pil = []
            for e in rng.sample(gens.PEPTIDES, rng.randint(0, 6)):
                sc = rng.choice([0.5, 1.0, 2.0, 3.25])
                pep = float(np.power(10, sc * -1)) if rng.random() < 0.5 else rng.random() ** 3
                pil.append([e, gens.fr(pep), ["P1"]])
            yield {"rows": rows, "thr": thr, "pil": pil}

    def impl(self, case):
        from picked_group_fdr.grouping import RescuedSubsetGrouping
        g = RescuedSubsetGrouping()
        rows = [SimpleNamespace(score=float(Fraction(s)), qValue=float(Fraction(q))) for s, q in case["rows"]]
        pil = {e: (float(Fraction(sc)), ps) for e, sc, ps in case["pil"]}
        try:
            g._calculate_rescue_score_cutoff(rows, float(Fraction(case["thr"])))
            f = g._filter_peptide_list_by_score_cutoff(pil)
        except Exception as e:
            return {"raise": gens.exn_name(e)}
        return {"cut": gens.fr(g.score_cutoff), "pil": [[e, gens.fr(v[0]), v[1]] for e, v in f.items()]}

    def render_in(self, case):
        scores = sorted({Fraction(s) for s, _ in case["rows"]})
        tab = clist(cpair(cQ(s), cQ(Fraction(*float(np.power(10, float(s) * -1)).as_integer_ratio()))) for s in scores)
        return cpair(tab, clist(cpair(cQ(Fraction(s)), cQ(Fraction(q))) for s, q in case["rows"]),
                     cQ(Fraction(case["thr"])), render_pil(case["pil"]))

    def render(self, case, out):
        if "raise" in out:
            o = craise(out["raise"])
        else:
            o = cok(cpair(cQ(Fraction(out["cut"])), render_pil(out["pil"])))
        return cpair(self.render_in(case), o)

    def nontrivial(self, case, out):
        return "pil" in out and 0 < len(out["pil"]) < len(case["pil"])


SUITES = [RescueSuite(), CutoffSuite()]


def suite_by_name(name):
    from .pipeline_common import PipelineSuite
    from .results_common import RowsSuite
    return next(s for s in SUITES + [PipelineSuite(), RowsSuite()] if s.name == name)


def large_components(r):
    """ONE connected set of many groups without a peptide of their own that cannot be separated ("complete graph" design: m shared
    peptides, one protein per pair of them - removing peptides can only strip a protein bare): it must come back as one group, whatever
    its size. Quick tier: 28 and 45 groups; thorough tier also 105 groups (the all-pairs cut search makes that one take most of a
    minute). Monitor only."""
    import itertools
    from picked_group_fdr.grouping import RescuedSubsetGrouping
    n = 0
    for m in ((8, 10) if r.tier != "thorough" else (8, 10, 15)):
        edge = [f"E_{a:02d}_{b:02d}" for a, b in itertools.combinations(range(m), 2)]
        pil = {f"SHAREDV{'A' * (a + 1)}K": (1e-5, [f"E_{min(a, b):02d}_{max(a, b):02d}" for b in range(m) if b != a]) for a in range(m)}
        pil["UNIQUEONEK"] = (1e-6, ["T1"])
        pil["UNIQUETWOK"] = (1e-4, ["T2"])
        n += 1
        try:
            groups = [list(g) for g in RescuedSubsetGrouping().get_rescued_protein_groups(dict(pil))]
            with_edges = [g for g in groups if set(g) & set(edge)]
            flat = [p for g in groups for p in g]
            problem = None
            if sorted(flat) != sorted(set(flat)):
                problem = "the regrouping is not a partition"
            elif len(with_edges) != 1 or sorted(with_edges[0]) != sorted(edge):
                problem = (f"{len(edge)} connected groups without own peptides that cannot be separated were left in {len(with_edges)} groups "
                           f"instead of being merged into one")
        except Exception as e:
            problem = f"raised {type(e).__name__}: {e}"[:160]
        if problem:
            r.violation("property-failure", {"suite": "large_components", "shared_peptides": m, "proteins": len(edge), "problem": problem,
                                             "design": "one protein per pair of the m shared peptides, plus T1 / T2 with a unique peptide each"}, True,
                        f"large_components ({len(edge)} groups in one inseparable component): {problem}")
            break
    return n


def run(r: core.Runner):
    r.assumptions += [
        "networkx's minimum-node-cut search is NOT modelled: each recorded call is checked against the contract "
        "(non-empty cut of peptide nodes; parts = components after the cut; >= 2 parts of >= 2 nodes) and replayed as the "
        "model's oracle; which admissible cut is chosen is left free",
        "10^(-x) is a tabulated oracle filled with np.power",
    ]
    r.traces = (r.traces or 0) + large_components(r)
    s = SUITES[0]
    orig = r.violation

    def violation(kind, data, found_input, what):
        if data.get("suite") == s.name and "case" in data:
            v = property_violation(data["case"], s.impl(data["case"]))
            if v:
                kind, found_input, what = "property-failure", True, f"{s.name}: {v}"
        orig(kind, data, found_input, what)
    r.violation = violation
    # the property monitor also runs on every generated case (not only on disagreements)
    mon = {"n": 0}
    real_impl = s.impl

    def monitored(case):
        out = real_impl(case)
        v = property_violation(case, out)
        mon["n"] += 1
        if v and not mon.get("reported"):
            mon["reported"] = True
            orig("property-failure", {"suite": s.name, "case": case, "impl_output": out, "signature": v}, True,
                 f"{s.name}: {v} (property monitor on the implementation's output)")
        return out
    s.impl = monitored
    try:
        r.run_suite(s)
    finally:
        s.impl = real_impl
    r.traces = mon["n"]
    r.run_suite(SUITES[1])
    # "placeholders are never reported": the row builder on rankings that contain OBSOLETE__ placeholder groups, both keep-all settings
    from .results_common import RowsSuite
    r.run_suite(RowsSuite())
    # the rescue pass inside the whole inference function (cutoff taken from the first pass at the caller's threshold), rescue methods only
    from .pipeline_common import PipelineSuite
    r.run_suite(PipelineSuite(methods=["picked_protein_group", "classic_rescued_subset_grouping", "picked_protein_group_mq_input",
                                       "classic_protein_group"]))
