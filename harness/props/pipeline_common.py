"""get_protein_group_results with every oracle recorded, vs Model/Pipeline.v (used by C07, C18, C01, C06)."""
import hashlib
import os
from fractions import Fraction

import numpy as np

from .. import core, gens
from ..core import Suite, cQ, cstr, clist, cpair, cbool, cnat, cok, craise
from .results_common import render_group, render_pinfo, row_to_json, render_row
from .c05 import render_pil


def shipped_methods():
    d = os.path.join(core.REPO, "picked_group_fdr", "methods")
    return sorted(f[:-5] for f in os.listdir(d) if f.endswith(".toml"))


def method_term(mc):
    from picked_group_fdr import grouping, scoring
    picked = {"pT": "Picked", "pgT": "PickedGroup", "cT": "Classic"}[mc.picked_strategy.short_description()]
    g = type(mc.grouping_strategy)
    gk = {grouping.NoGrouping: "GNo", grouping.SubsetGrouping: "GSubset", grouping.RescuedSubsetGrouping: "GRescuedSubset",
          grouping.PseudoGeneGrouping: "GPseudoGene", grouping.MQNativeGrouping: "GMqNative",
          grouping.RescuedMQNativeGrouping: "GRescuedMqNative"}[g]
    ps = type(mc.score_type.protein_score)
    sk = {scoring.BestPEPScore: "SBestPEP", scoring.MultPEPScore: "SMultPEP", scoring.BestAndromedaScore: "SAndromeda",
          scoring.MQProteinScore: "SMQProtein"}[ps]
    return (f"{{| m_picked := {picked}; m_grouping := {gk}; m_score := {sk}; "
            f"m_razor := {cbool(mc.score_type.use_razor)}; m_shared := {cbool(mc.score_type.use_shared_peptides)} |}}")


def run_pipeline(mc, pil, keep_all, thr, psm_cut, seed, d=None):
    """Run the real get_protein_group_results on method config [mc], recording every oracle. [d]: the caller's own dictionary
    object for [pil] (re-used over several calls); a fresh one is built otherwise."""
    from picked_group_fdr import fdr, graphs
    from picked_group_fdr import picked_group_fdr as pgf
    from picked_group_fdr import grouping as _grouping
    rec = {"scores": [], "cutoffs": [], "perms": [], "splits": [], "rescue": []}
    real_rescue_cut = _grouping.RescuedGrouping._calculate_rescue_score_cutoff

    def rescue_cut(self, results, threshold):
        real_rescue_cut(self, results, threshold)
        rec["rescue"].append([[[float(x.score), float(x.qValue)] for x in results], float(self.score_cutoff)])
    real_shuffle = np.random.shuffle
    real_cut = fdr.calc_post_err_prob_cutoff
    real_split = graphs.ConnectedProteinGraphs._split_single_connected_component
    st = mc.score_type
    had_inst = "calculate_score" in st.__dict__
    real_score = st.calculate_score

    def shuffle(x):
        idx = list(range(len(x)))
        real_shuffle(idx)
        rec["perms"].append(idx)
        x[:] = [x[i] for i in idx]

    def cut(peps, q):
        rec.setdefault("pass_starts", []).append(len(rec["scores"]))     # one call per pass: the scores recorded after it belong to that pass
        v = real_cut(peps, q)
        rec["cutoffs"].append([[gens.fr(p) for p in peps], gens.fr(v), gens.fr(q)])
        return v

    def split(self, G, A, B):
        out = real_split(self, G, A, B)

        def nodes(g):
            return [sorted(x for x, y in g.nodes(data=True) if y.get("node_type") == "protein"),
                    sorted(x for x, y in g.nodes(data=True) if y.get("node_type") != "protein")]
        rec["splits"].append([nodes(G), [nodes(s) for s in out]])
        return out

    def score(infos):
        v = real_score(infos)
        rec["scores"].append([[[gens.fr(i[0]), i[1], list(i[2])] for i in infos], gens.fr(v)])
        return v

    if d is None:
        d = {e: (float(Fraction(sc)), list(ps)) for e, sc, ps in pil}
    before = {e: (v[0], list(v[1])) for e, v in d.items()}
    np.random.seed(seed)
    np.random.shuffle = shuffle
    fdr.calc_post_err_prob_cutoff = cut
    graphs.ConnectedProteinGraphs._split_single_connected_component = split
    _grouping.RescuedGrouping._calculate_rescue_score_cutoff = rescue_cut
    st.calculate_score = score
    try:
        try:
            res = pgf.get_protein_group_results(d, "", mc, None, keep_all, float(Fraction(thr)), float(Fraction(psm_cut)))
            nden = 2 * len({p for _, _, ps in pil for p in ps}) + 5
            out = {"ok": [row_to_json(r, q_maxden=nden) for r in res]}
        except Exception as e:
            out = {"raise": gens.exn_name(e), "exc_type": type(e).__name__, "msg": str(e)[:200]}
    finally:
        np.random.shuffle = real_shuffle
        fdr.calc_post_err_prob_cutoff = real_cut
        graphs.ConnectedProteinGraphs._split_single_connected_component = real_split
        _grouping.RescuedGrouping._calculate_rescue_score_cutoff = real_rescue_cut
        if had_inst:
            st.calculate_score = real_score
        else:
            del st.__dict__["calculate_score"]
    out["rec"] = rec
    changed = [e for e in before if e not in d or d[e][0] != before[e][0] or list(d[e][1]) != before[e][1]] + [e for e in d if e not in before]
    if changed:
        out["input_modified"] = changed[:5]
    return out


def render_tabs(pil, rec):
    scores = clist(cpair(clist(render_pinfo(i) for i in inf), cQ(Fraction(v))) for inf, v in rec["scores"])
    cuts = clist(cpair(cpair(clist(cQ(Fraction(p)) for p in peps), cQ(Fraction(q))), cQ(Fraction(v))) for peps, v, q in rec["cutoffs"])
    svals = sorted({Fraction(v) for _, v in rec["scores"]})
    pw = clist(cpair(cQ(s), cQ(Fraction(*float(np.power(10, float(s) * -1)).as_integer_ratio()))) for s in svals)
    prots = sorted({p for _, _, ps in pil for p in ps})
    md5 = clist(cpair(cstr(p), cstr(hashlib.md5(p.encode("utf-8")).hexdigest())) for p in prots)
    sp = clist(cpair(cpair(render_group(g[0]), render_group(g[1])),
                     clist(cpair(render_group(p[0]), render_group(p[1])) for p in parts)) for g, parts in rec["splits"])
    return cpair(scores, cuts, pw, md5, sp)


def gen_pil(rng, max_prot=8, max_pep=14):
    nprot = rng.randint(2, max_prot)
    base = [f"P{i}" for i in range(nprot)]
    if rng.random() < 0.3:
        # identifier shapes: names differing in case only, one a prefix of another, targets whose name contains REV_ / Rev_ with a
        # single underscore, isoform suffixes, UniProt triples, a contaminant
        shapes = ["ACTB", "Actb", "actb", "ACTB1", "sp|P1|A_HUMAN", "sp|P11|AA_HUMAN", "sp|P04618|REV_HV1H2", "Rev_erb", "P1-2", "P1", "CON__K1", "Q9"]
        base = rng.sample(shapes, nprot) if nprot <= len(shapes) else base
    prots = base + [("REV__" + b) for b in base if rng.random() < 0.7]
    pil = []
    style = rng.random()
    near = rng.random() < 0.2      # nearly-equal PEPs (a few 2^-24, 2^-36 or 2^-51 apart, relatively): distinct scores closer than 1e-6
    near_step = 2.0 ** -rng.choice([24, 24, 36, 51])
    for k in range(rng.randint(1, max_pep)):
        decoy = rng.random() < 0.35
        pool = [p for p in prots if p.startswith("REV__") == decoy] or prots
        if style < 0.3:
            a = rng.randrange(len(pool))
            ps = [pool[a], pool[(a + 1) % len(pool)]]
            ps = list(dict.fromkeys(ps))
        else:
            ps = rng.sample(pool, rng.randint(1, min(3, len(pool))))
        r = rng.random()
        pep = rng.choice([1e-5, 1e-3, 0.004, 0.05, 0.3]) if r < 0.6 else rng.random() ** rng.choice([1, 3, 8])
        if near:
            pep = rng.choice([1e-3, 0.004]) * (1 + rng.choice([0, 1, 2, 3]) * near_step)
        pil.append([f"PEP{k}K", gens.fr(pep), ps])
    return pil


def family_pil(rng):
    """several families of isoforms that share peptides pairwise and have none of their own (rescue step: many small connected
    components of unidentified groups, where set iteration order could leak into the result), plus unique targets and decoys"""
    aas = "ACDEFGHILMNQSTVWY"
    pil = []
    nfam = rng.randint(3, 6)
    for f in range(rng.randint(1, 3)):
        # indistinguishable isoforms: three or four proteins with exactly the same two or three peptides (all of them are superset
        # candidates of each other, tied on the peptide count: their order in the group must not depend on set iteration)
        twins = [f"T{f}I{i}" for i in range(rng.choice([3, 3, 4]))]
        for _ in range(rng.randint(2, 3)):
            ps = list(twins)
            rng.shuffle(ps)
            pil.append(["".join(rng.choice(aas) for _ in range(7)) + "TK", gens.fr(rng.choice([0.001, 0.004])), ps])
    for f in range(nfam):
        iso = [f"F{f}I{i}" for i in range(rng.choice([2, 3, 3, 4]))]
        if rng.random() < 0.35:
            # names that differ in letter case only (human ACTB / mouse Actb at gene level), one name a prefix of another
            iso = [f"F{f}actb", f"F{f}ACTB", f"F{f}Actb", f"F{f}ACTB1"][:len(iso)]
        rng.shuffle(iso)
        pairs = [(a, b) for i, a in enumerate(iso) for b in iso[i + 1:]]
        for j, (a, b) in enumerate(pairs):
            ps = [a, b] if rng.random() < 0.5 else [b, a]
            pil.append(["".join(rng.choice(aas) for _ in range(7)) + "K", gens.fr(rng.choice([0.001, 0.004, 0.02])), ps])
            if rng.random() < 0.35:
                # a second peptide of the same pair that lists the two proteins the other way round (file protein columns are not
                # ordered): the pair is ONE shared-peptide node whatever the order of the names
                pil.append(["".join(rng.choice(aas) for _ in range(7)) + "K", gens.fr(rng.choice([0.001, 0.004, 0.02])), ps[::-1]])
        if len(iso) >= 3 and rng.random() < 0.5:
            # indistinguishable isoforms: the same two or three peptides for all of them (ties on the peptide count among the
            # superset candidates; their order must not depend on set iteration)
            for _ in range(rng.randint(2, 3)):
                ps = list(iso)
                rng.shuffle(ps)
                pil.append(["".join(rng.choice(aas) for _ in range(7)) + "R", gens.fr(rng.choice([0.001, 0.004])), ps])
        if len(iso) >= 3 and rng.random() < 0.5:
            pil.append(["".join(rng.choice(aas) for _ in range(7)) + "R", gens.fr(0.003), list(iso[:3])])
    for u in range(rng.randint(2, 5)):
        pil.append(["".join(rng.choice(aas) for _ in range(6)) + "UK", gens.fr(rng.choice([0.0005, 0.002, 0.03])), [f"U{u}"]])
    for u in range(rng.randint(1, 3)):
        pil.append(["".join(rng.choice(aas) for _ in range(6)) + "DK", gens.fr(rng.choice([0.01, 0.2])), [f"REV__U{u}"]])
    rng.shuffle(pil)
    return pil


class PipelineSuite(Suite):
    has_py_property = True
    monitor_all = True

    def py_property(self, case, out):
        return pipeline_property_violation(case, out)

    name = "get_protein_group_results"
    imports = ("From PGF Require Import Base.Prelude Model.Fdr Model.Results Model.ProteinGroups Model.Grouping Model.Scoring "
               "Model.Competition Model.Rescue Model.Pipeline Harness.H01 Harness.H04 Harness.H05 Harness.H07.")
    case_type = "c07_in * c07_out"
    chk = "chk07"
    runf = "run07"
    deterministic = False
    rule = ("peptide lists over 2-8 target proteins and their decoy twins (shared-only chains, random lists, PEPs from five "
            "levels or arbitrary doubles; a quarter: 3-6 isoform families sharing peptides pairwise plus indistinguishable isoforms), every shipped method file, both keep-all settings, thresholds 0.01/0.2/0.5/1, PSM-level cutoffs 0.01/0.1/0.5; scores, "
            "PEP cutoffs, shuffles and splitter answers are recorded from the run and replayed as the model's oracles; "
            "non-trivial = a decoy and a target row and at least one withheld or removed group")

    def __init__(self, methods=None):
        self.methods = methods

    def gen(self, rng, tier):
        methods = self.methods or shipped_methods()
        n = core.tier_n(tier, 12, 150)
        for m in methods:
            for _ in range(n):
                # a quarter of the inputs: isoform families sharing peptides pairwise (the rescue step merges components and re-indexes
                # while other groups follow them in the list)
                yield {"method": m, "pil": family_pil(rng) if rng.random() < 0.25 else gen_pil(rng), "keep_all": rng.random() < 0.3,
                       "thr": gens.fr(rng.choice([0.01, 0.2, 0.5, 1.0])), "psm_cut": gens.fr(rng.choice([0.01, 0.1, 0.5])),
                       "seed": rng.randint(1, 2 ** 31 - 1)}

    def config(self, case):
        from picked_group_fdr import methods
        return methods.parse_method_toml(case["method"], False)

    def impl(self, case):
        mc = self.config(case)
        out = run_pipeline(mc, case["pil"], case["keep_all"], case["thr"], case["psm_cut"], case["seed"])
        out["method_term"] = method_term(mc)
        return out

    def _render_in(self, case, out):
        # q-values cross as the small fraction (decoys+1)/targets that rounds to the float the code computed; the threshold must cross the
        # same way, otherwise "q < threshold" differs between exact and float arithmetic exactly when the two floats are equal (0.2 vs 1/5)
        nden = 2 * len({p for _, _, ps in case["pil"] for p in ps}) + 5
        thr = gens.small_fraction_of(float(Fraction(case["thr"])), nden) or Fraction(case["thr"])
        return cpair(out["method_term"], render_tabs(case["pil"], out["rec"]), render_pil(case["pil"]),
                     cbool(case["keep_all"]), cQ(thr), cQ(Fraction(case["psm_cut"])),
                     clist(clist(cnat(i) for i in p) for p in out["rec"]["perms"]))

    def render_in(self, case):
        return self._render_in(case, self.impl(case))

    def render(self, case, out):
        o = craise(out["raise"]) if "raise" in out else cok(clist(render_row(r) for r in out["ok"]))
        return cpair(self._render_in(case, out), o)

    def nontrivial(self, case, out):
        if "ok" not in out:
            return False
        rows = out["ok"]
        nprot_in = len({p for _, _, ps in case["pil"] for p in ps})
        return any(r["rev"] for r in rows) and any(not r["rev"] for r in rows) and sum(r["n"] for r in rows) < nprot_in

    def describe(self, case, out):
        return {"method": case["method"], "outcome": out.get("raise", "ok"),
                "splitter_calls": min(len(out["rec"]["splits"]), 3), "rows": min(len(out.get("ok", [])), 12)}

    def signature(self, case, out):
        return pipeline_property_violation(case, out) or "pipeline-model-mismatch"

    def shrink(self, case):
        pil = case["pil"]
        for i in range(len(pil)):
            if len(pil) > 1:
                c = dict(case)
                c["pil"] = pil[:i] + pil[i + 1:]
                yield c


def pipeline_property_violation(case, out):
    """C01/C06-level guarantees evaluated on the reported rows of the implementation."""
    if "raise" in out:
        has_ranking = any(inf for inf, _ in out["rec"]["scores"])
        if not has_ranking and out.get("exc_type") in ("ValueError", "IndexError"):
            return None      # no group has any evidence: outside every property's domain (DESIGN.md section 7)
        if out.get("exc_type") in ("AttributeError", "KeyError", "TypeError", "IndexError") and "No proteins" not in out.get("msg", ""):
            return "internal-error-" + out["exc_type"]
        return None
    if out.get("input_modified"):
        # C07: a later call on the same input object would not see the input a fresh process sees
        return "callers-peptide-list-modified-in-place"
    rec0 = out.get("rec") or {}
    # C06: the peptide-level PEP cutoff is the one of the PSM-level FDR the caller gave (not of any other option)
    if "psm_cut" in case and any(Fraction(c[2]) != Fraction(case["psm_cut"]) for c in rec0.get("cutoffs", []) if len(c) > 2):
        return "peptide-PEP-cutoff-not-derived-from-the-PSM-level-FDR-cutoff"
    # C04: the rescue cutoff is the PEP equivalent of the worst-scoring first-pass group accepted at the protein-group FDR threshold
    # (of the worst-scoring group when none is accepted)
    thr_f = float(Fraction(case["thr"])) if "thr" in case else None
    for res1, used in (rec0.get("rescue", []) if thr_f is not None else []):
        acc = [s for s, q in res1 if q < thr_f] or [s for s, q in res1]
        if acc and float(np.power(10, min(acc) * -1)) != used:
            return "rescue-cutoff-not-the-worst-group-accepted-at-the-protein-group-FDR-threshold"
    rows = out["ok"]
    sc = [Fraction(r["score"]) for r in rows]
    if any(a < b for a, b in zip(sc, sc[1:])):
        return "rows-not-in-non-increasing-score-order"
    qs = [Fraction(r["q"]) for r in rows]
    if any(a > b for a, b in zip(qs, qs[1:])):
        return "q-values-decrease-down-the-report"
    seen = set()
    for r in rows:
        for p in r["ids"].split(";"):
            if p in seen:
                return "protein-reported-in-two-rows"
            seen.add(p)
        if "OBSOLETE__" in r["ids"]:
            return "placeholder-reported"
        ids = r["ids"].split(";")
        d = [("REV__" in p or "rev_" in p) for p in ids]
        if any(d) and not all(d):
            return "mixed-target-decoy-group-reported"
    # C06: the per-protein peptide counts of a row are judged against the PEP cutoff of the FINAL grouping (rescue methods) - no
    # cutoff otherwise; the evidence of a row is the list its score was computed from (recorded call of the last pass)
    rec, mt = out.get("rec"), out.get("method_term", "")
    if rec and "m_shared := false" in mt and rec["scores"]:
        rescue = "GRescued" in mt
        cut = Fraction(rec["cutoffs"][-1][1]) if (rescue and rec["cutoffs"]) else None
        for r in rows:
            ids = r["ids"].split(";")
            # the evidence of a reported row: a scoring call of the LAST pass with the row's score and best peptide (with discarded
            # shared peptides a peptide is evidence of one group only, so the pair identifies the group)
            last = rec["scores"][(rec.get("pass_starts") or [0])[-1]:]
            cands = [inf for inf, v in last if Fraction(v) == Fraction(r["score"]) and any(i[1] == r["best"] for i in inf)]
            wants = {tuple(len({i[1] for i in inf if (cut is None or Fraction(i[0]) <= cut) and p in i[2]}) for p in ids) for inf in cands}
            if len(wants) == 1 and list(next(iter(wants))) != list(r["counts"]):
                return "peptide-counts-not-judged-against-the-cutoff-of-the-reported-grouping"
    return None
