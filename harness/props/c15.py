"""C15 — rescoring merge (update_evidence_from_pout, Andromeda-style identifiers) vs Model/Merge.v."""
import os

from .. import core, gens
from ..core import Suite, cnat, cstr, clist, cpair, cok, craise
from .merge_common import EV_COLS, gen_case, write_inputs, read_cells


def rrows(rows):
    return clist(clist(cstr(c) for c in r) for r in rows)


class MergeSuite(Suite):
    name = "update_evidence_from_pout"
    imports = "From PGF Require Import Base.Prelude Model.Ingest Model.Merge Harness.H15."
    case_type = "c15_in * res (list (list str))"
    chk = "chk15"
    runf = "run15"
    deterministic = False
    has_py_property = True
    rule = ("1-3 evidence files (0-8 rows each, raw-file names with underscores, (ox)/(ac) modifications, match-between-runs rows, "
            "cells containing tabs and quotes, header capitalisation varied) and 0-2 Percolator result files (any row order, "
            "duplicate PSM ids, raw files absent from the results); output compared cell by cell; non-trivial = a rewritten row, a "
            "dropped row and a match-between-runs row")

    def gen(self, rng, tier):
        for _ in range(core.tier_n(tier, 500, 8000)):
            yield gen_case(rng)

    def impl(self, case):
        from picked_group_fdr.pipeline import update_evidence_from_pout as u
        d = os.path.join(core.scratch(), "c15")
        evs, pouts = write_inputs(case, d)
        out = os.path.join(d, "merged.txt")
        for p in (out, out + ".tmp"):
            if os.path.exists(p):
                os.remove(p)
        argv = ["--mq_evidence"] + evs + ["--mq_evidence_out", out] + (["--perc_results"] + pouts if pouts else [])
        try:
            u.main(argv)
        except Exception as e:
            return {"raise": gens.exn_name(e), "msg": str(e)[:100]}
        return {"ok": read_cells(out)}

    def render_in(self, case):
        d = os.path.join(core.scratch(), "c15")
        evs, pouts = write_inputs(case, d)
        tab = {}
        pr = []
        for p in pouts:
            if p.endswith(".csv"):
                import csv as _csv
                with open(p, newline="") as fh:
                    cells = list(_csv.reader(fh, delimiter=","))
            else:
                cells = read_cells(p)
            h = [x.lower() for x in cells[0]]
            cols = (h.index("psmid"), h.index("peptide"), h.index("score"), h.index("posterior_error_prob"))
            for r in cells[1:]:
                for c in (r[cols[2]], r[cols[3]]):
                    tab[c] = repr(float(c))
            pr.append(cpair(cpair(*(cnat(c) for c in cols)), rrows(cells[1:])))
        files = []
        first = None
        for p in evs:
            cells = read_cells(p)
            if first is None:
                first = cells[0]
            h = [x.lower() for x in cells[0]]
            cols = (h.index("score"), h.index("pep"), h.index("raw file"), (h.index("ms/ms scan number") if "ms/ms scan number" in h else h.index("scan number")), h.index("modified sequence"))
            files.append(cpair(cpair(*(cnat(c) for c in cols)), rrows(cells[1:])))
        t = clist(cpair(cstr(k), cstr(v)) for k, v in tab.items())
        return cpair(t, clist(pr), clist(cstr(c) for c in first), clist(files))

    def render(self, case, out):
        o = craise(out["raise"]) if "raise" in out else cok(rrows(out["ok"]))
        return cpair(self.render_in(case), o)

    def nontrivial(self, case, out):
        if "ok" not in out or not case["pouts"]:
            return False
        n_in = sum(len(f["rows"]) for f in case["ev_files"])
        mbr = any(r[3] == "" for f in case["ev_files"] for r in f["rows"])
        return mbr and 1 < len(out["ok"]) < n_in + 1

    def describe(self, case, out):
        return {"ev_files": len(case["ev_files"]), "pouts": len(case["pouts"]), "outcome": out.get("raise", "ok"),
                "rows_out": min(len(out.get("ok", [])), 12)}

    def py_property(self, case, out):
        """C15 on the implementation's output, by an independent join"""
        if "ok" not in out:
            return "merge-raised-" + out.get("raise", "?")
        results = {}
        for f in case["pouts"]:
            for r in f["rows"]:
                parts = r[0].split("_")
                raw, scan = "_".join(parts[:-3]), int(parts[-3])
                pep = r[4][2:-2].replace("[42]", "(ac)").replace("M[16]", "M(ox)")
                results[(raw, scan, pep)] = (repr(float(r[1])), repr(float(r[3])))
        raws = {k[0] for k in results}
        from .merge_common import _case
        ident = list(range(len(EV_COLS)))
        p0 = case["ev_files"][0].get("perm") or ident
        names0 = ["Scan number" if (c == "MS/MS scan number" and case["ev_files"][0].get("msms_layout")) else c for c in EV_COLS]
        if case["ev_files"][0].get("labeling"):
            names0[-1] = "Labeling state"
        exp = [[_case(names0[k], case["ev_files"][0]["header_case"]) for k in p0]]
        where = []           # per expected data row: positions of score and PEP in that row's own layout
        for f in case["ev_files"]:
            perm = f.get("perm") or ident
            for r in f["rows"]:
                if not results or r[3] == "":
                    rr = list(r)
                elif r[2] not in raws:
                    continue
                else:
                    hit = results.get((r[2], int(r[3]), r[1][1:-1]))
                    if not hit:
                        continue
                    rr = list(r)
                    rr[4], rr[5] = hit
                exp.append([rr[k] for k in perm])
                where.append((perm.index(4), perm.index(5)))
        if exp != out["ok"]:
            if len(exp) != len(out["ok"]):
                return "wrong-set-of-rows-written"
            for n, (a, b) in enumerate(zip(exp, out["ok"])):
                if a != b:
                    diff = [i for i, (x, y) in enumerate(zip(a, b)) if x != y]
                    sp = where[n - 1] if n >= 1 else ()
                    return "field-other-than-score-and-pep-altered" if any(i not in sp for i in diff) else "wrong-score-or-pep-written"
        return None

    def shrink(self, case):
        for i, f in enumerate(case["ev_files"]):
            for j in range(len(f["rows"])):
                c = {"ev_files": [dict(x) for x in case["ev_files"]], "pouts": case["pouts"]}
                c["ev_files"][i]["rows"] = f["rows"][:j] + f["rows"][j + 1:]
                yield c
        for i, f in enumerate(case["pouts"]):
            for j in range(len(f["rows"])):
                c = {"ev_files": case["ev_files"], "pouts": [dict(x) for x in case["pouts"]]}
                c["pouts"][i]["rows"] = f["rows"][:j] + f["rows"][j + 1:]
                yield c


SUITES = [MergeSuite()]


def suite_by_name(name):
    return next(s for s in SUITES if s.name == name)


def run(r: core.Runner):
    r.assumptions += [
        "csv reading/writing is the runtime's (cells via csv.reader); repr(float(cell)) of the two rewritten cells is a tabulated oracle",
        "result files that are given but contain no PSM row behave like 'no result files' (the code tests len(results_dict) == 0)",
        "the Prosit/ProForma branch is not modelled (the property speaks about Andromeda-style identifiers)",
    ]
    s = SUITES[0]
    r.run_suite(s, max_report=2)
    n = 0
    for c in s.gen(r.rng, "quick"):
        n += 1
        if n > 200:
            break
        out = s.impl(c)
        v = s.py_property(c, out)
        if v:
            r.violation("property-failure", {"suite": s.name, "case": c, "impl_output": out, "signature": v}, True, f"{s.name}: {v}")
            break
    r.traces = n
