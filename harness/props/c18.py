"""C18 — every shipped method from the command line on generated input of the type it reads."""
import csv
import math
import os
import subprocess
import sys
import tempfile
from fractions import Fraction

from .. import core, filegen, gens
from .pipeline_common import PipelineSuite, shipped_methods, method_term, pipeline_property_violation

SUITES = [PipelineSuite()]


def suite_by_name(name):
    return next(s for s in SUITES if s.name == name)


CLI = [sys.executable, "-W", "ignore", "-c",
       "import sys, logging\nfrom picked_group_fdr import picked_group_fdr as pgf\npgf.main(sys.argv[1:])"]


def input_kind(desc):
    for k in ("Perc", "FragPipe", "Sage", "DIA-NN"):
        if k in desc:
            return k
    return "MaxQuant"


def remaps(desc):
    k = input_kind(desc)
    if k == "Perc":
        return "remap" in desc
    if k == "MaxQuant":
        return "no_remap" not in desc
    return False


def make_inputs(d, rng):
    """database + PSMs drawn from the real digest of that database (targets and decoys)"""
    from picked_group_fdr import digest
    from picked_group_fdr.digestion_params import DigestionParams
    prots = filegen.toy_database(rng, n_prot=rng.randint(3, 7))
    fasta = os.path.join(d, "db.fasta")
    filegen.write_fasta(fasta, prots)
    pmap = digest.get_peptide_to_protein_map_from_params([fasta], [DigestionParams()])
    peptides = sorted(pmap)
    psms = []
    for i in range(rng.randint(4, 25)):
        pep = rng.choice(peptides)
        prots_of = list(pmap[pep])
        if rng.random() < 0.25 and not all(q.startswith("REV__") for q in prots_of):
            # what a search engine lists for a target peptide that also matches a decoy: methods that take the proteins from the file
            # must drop the decoy (methods that remap ignore the column)
            t = rng.choice([q for q in prots_of if not q.startswith("REV__")])
            prots_of.insert(rng.randint(0, len(prots_of)), "REV__" + rng.choice([t, t + "x"]))
        p = rng.choice([1e-6, 1e-4, 0.003, 0.02, 0.2, 0.7]) * rng.choice([1.0, 0.5, 1.5])
        p = min(p, 0.99)
        psms.append({"peptide": pep, "mod": pep, "proteins": prots_of, "pep": p, "prob": 1.0 - p, "log10pep": math.log10(p),
                     "charge": rng.choice([2, 3]), "experiment": rng.choice(["E1", "E2"]), "raw": rng.choice(["raw1", "raw2"]),
                     "intensity": float(rng.randint(1, 1000)) * 1000.0, "id": i})
    files = {"fasta": fasta}
    files["MaxQuant"] = os.path.join(d, "evidence.txt")
    # MaxQuant evidence also has match-between-runs rows: an empty PEP cell, sometimes as the FIRST row of a peptide
    mq_psms = list(psms)
    for _ in range(rng.randint(0, 3)):
        q = dict(rng.choice(psms), pep=None)
        mq_psms.insert(rng.choice([0, 0, rng.randint(0, len(mq_psms))]), q)
    filegen.write_maxquant(files["MaxQuant"], mq_psms)
    files["Perc"] = os.path.join(d, "perc.tab")
    filegen.write_percolator(files["Perc"], psms)
    files["FragPipe"] = os.path.join(d, "psm.tsv")
    filegen.write_fragpipe(files["FragPipe"], psms)
    files["Sage"] = os.path.join(d, "results.sage.tsv")
    filegen.write_sage(files["Sage"], psms)
    files["DIA-NN"] = os.path.join(d, "report.tsv")
    filegen.write_diann(files["DIA-NN"], psms)
    # the same PSMs with their modifications spelled out (decimal mass shifts, signed shifts, an N-terminal modification): the
    # spelling of a modification must not change any table
    def decorate(pep):
        out = pep
        for aa, tag in (("M", rng.choice(["[15.9949]", "[+15.995]", "(ox)"])), ("C", rng.choice(["[57.0215]", "[+57.0215]"]))):
            if aa in out and rng.random() < 0.7:
                out = out.replace(aa, aa + tag, 1)
        if rng.random() < 0.3:
            out = rng.choice(["[42.0106]-", "[+42.0106]-"]) + out
        return out
    dec = []
    for q in psms:
        m = decorate(q["peptide"])
        dec.append(dict(q, mod=m, mod_fp=m if m != q["peptide"] else "", mod_sage=m, mod_diann=m))
    dd = os.path.join(d, "decorated")
    os.makedirs(dd, exist_ok=True)
    files["decorated"] = {"MaxQuant": os.path.join(dd, "evidence.txt"), "Perc": os.path.join(dd, "perc.tab"), "FragPipe": os.path.join(dd, "psm.tsv"),
                          "Sage": os.path.join(dd, "results.sage.tsv"), "DIA-NN": os.path.join(dd, "report.tsv")}
    # the same PSMs split over TWO files of every type (first half / second half): several evidence files of one type are a supported
    # input of every method, and the table must be the one of the concatenated file
    ds = os.path.join(d, "split")
    os.makedirs(ds, exist_ok=True)
    files["split"] = {}
    for kind_, writer, ext, rows_ in (("MaxQuant", filegen.write_maxquant, "txt", mq_psms), ("Perc", filegen.write_percolator, "tab", psms),
                                      ("FragPipe", filegen.write_fragpipe, "tsv", psms), ("Sage", filegen.write_sage, "sage.tsv", psms),
                                      ("DIA-NN", filegen.write_diann, "tsv", psms)):
        h = max(1, len(rows_) // 2)
        parts = []
        for j, part in enumerate((rows_[:h], rows_[h:])):
            pth = os.path.join(ds, f"{kind_.replace('-', '')}_{j}.{ext}")
            writer(pth, part)
            parts.append(pth)
        files["split"][kind_] = parts
    mq_dec = [dict(next(x for x in dec if x["id"] == q["id"]), pep=q["pep"]) for q in mq_psms]
    filegen.write_maxquant(files["decorated"]["MaxQuant"], mq_dec)
    filegen.write_percolator(files["decorated"]["Perc"], dec)
    filegen.write_fragpipe(files["decorated"]["FragPipe"], dec)
    filegen.write_sage(files["decorated"]["Sage"], dec)
    filegen.write_diann(files["decorated"]["DIA-NN"], dec)
    return files, psms


FLAG = {"MaxQuant": "--mq_evidence", "Perc": "--perc_evidence", "FragPipe": "--fragpipe_psm", "Sage": "--sage_results",
        "DIA-NN": "--diann_reports"}


def read_table(path):
    with open(path, newline="") as f:
        rows = list(csv.reader(f, delimiter="\t"))
    return rows[0], rows[1:]


def table_violation(header, rows):
    need = ["Protein IDs", "Majority protein IDs", "Peptide counts (unique)", "Best peptide", "Number of proteins", "Q-value",
            "Score", "Reverse", "Potential contaminant"]
    if header[:len(need)] != need:
        return "base-headers-changed"
    if len(set(header)) != len(header):
        return "duplicate-headers"
    if any(len(r) != len(header) for r in rows):
        return "row-length-differs-from-header"
    import math
    if any(not math.isfinite(float(r[5])) or not math.isfinite(float(r[6])) for r in rows):
        return "non-finite-score-or-q-value-in-the-table"
    out = {"ok": [{"ids": r[0], "n": int(r[4]), "q": str(Fraction(float(r[5])).limit_denominator(10**9)),
                   "score": str(Fraction(float(r[6])).limit_denominator(10**12)), "rev": r[7] == "+"} for r in rows]}
    return pipeline_property_violation({}, out)


def run_cli(args, env, cwd=None):
    p = subprocess.run(CLI + args, env=env, stdout=subprocess.PIPE, stderr=subprocess.PIPE, text=True, timeout=600,
                       cwd=cwd or core.scratch())
    return p.returncode, p.stderr


def cli_sweep(r, n_inputs):
    from picked_group_fdr import methods as pgm
    env = dict(os.environ)
    names = shipped_methods()
    jobs = []
    import concurrent.futures
    for k in range(n_inputs):
        d = tempfile.mkdtemp(prefix="c18_", dir=core.scratch())
        files, psms = make_inputs(d, r.rng)
        for m in names:
            mc = pgm.parse_method_toml(m, False)
            desc = mc.score_type.long_description()
            kind = {"p": "Perc", "m": "MaxQuant", "f": "FragPipe", "s": "Sage", "d": "DIA-NN"}[mc.score_type.score_origin.short_description()]
            rem = mc.score_type.remaps_peptides_to_proteins() or mc.grouping_strategy.needs_peptide_to_protein_map()
            jobs.append((m, kind, rem, files, d, k, mc.score_type.can_do_quantification()))
    stats = {"completed": 0, "refused_without_fasta": 0, "skipped_wrong_input": 0}

    def one(job):
        m, kind, rem, files, d, k, can_quant = job
        res = []
        out = os.path.join(d, f"out_{m}.txt")
        args = [FLAG[kind], files[kind], "--methods", m, "--protein_groups_out", out]
        if rem:
            args += ["--fasta", files["fasta"]]
        rc, err = run_cli(args, env)
        if rc != 0 or not os.path.exists(out):
            if "not enough values to unpack" in err or "too many indices" in err:
                res.append(("excluded", m, "no group has evidence"))
            else:
                res.append(("fail", m, f"valid {kind} input: exit {rc}: {err[-400:]}"))
        else:
            h, rows = read_table(out)
            v = table_violation(h, rows)
            res.append(("fail", m, f"output table: {v}") if v else ("completed", m, len(rows)))
        if k == 0 and os.path.exists(out):
            # modification spelling: the same PSMs with decimal / signed mass shifts and N-terminal modifications give the same table
            outd = os.path.join(d, f"out_decorated_{m}.txt")
            rc, err = run_cli([FLAG[kind], files["decorated"][kind], "--methods", m, "--protein_groups_out", outd] +
                              (["--fasta", files["fasta"]] if rem else []), env)
            a = open(out, "rb").read()
            b = open(outd, "rb").read() if os.path.exists(outd) else None
            if a != b:
                res.append(("fail", m, f"the table changes when the modifications of the same PSMs are spelled out ({kind} input): "
                                      f"{len(a.splitlines())} lines versus {None if b is None else len(b.splitlines())} (exit {rc}: {err[-200:]})"))
        if k == 0 and os.path.exists(out) and not can_quant:
            # --do_quant with a method whose input carries no quantities: quantification is skipped, the table is the same
            outq = os.path.join(d, f"out_doquant_{m}.txt")
            rc, err = run_cli([FLAG[kind], files[kind], "--methods", m, "--protein_groups_out", outq, "--do_quant"] +
                              (["--fasta", files["fasta"]] if rem else []), env)
            b = open(outq, "rb").read() if os.path.exists(outq) else None
            if rc != 0 or b != open(out, "rb").read():
                res.append(("fail", m, f"--do_quant with {kind} input (no quantities): expected the table of the run without it, got exit {rc}: {err[-300:]}"))
        if k == 0 and os.path.exists(out) and all(os.path.getsize(f) > 0 for f in files["split"][kind]):
            # (the table is asked for in a result directory that does not exist yet, two levels deep: the tool creates it)
            outs_ = os.path.join(d, f"results_{m}", "split_run", "proteinGroups.txt")
            rc, err = run_cli([FLAG[kind]] + files["split"][kind] + ["--methods", m, "--protein_groups_out", outs_] +
                              (["--fasta", files["fasta"]] if rem else []), env)
            a = open(out, "rb").read()
            b = open(outs_, "rb").read() if os.path.exists(outs_) else None
            if a != b:
                res.append(("fail", m, f"the table of two {kind} files differs from the table of the same PSMs in one file: "
                                      f"{len(a.splitlines())} lines versus {None if b is None else len(b.splitlines())} (exit {rc}: {err[-200:]})"))
        if rem and k == 0:
            out2 = os.path.join(d, f"out_nofasta_{m}.txt")
            rc, err = run_cli([FLAG[kind], files[kind], "--methods", m, "--protein_groups_out", out2], env)
            if "No fasta or peptide to protein mapping file detected" in err and not os.path.exists(out2):
                res.append(("refused", m, ""))
            else:
                res.append(("fail", m, f"without --fasta: expected the tool's own refusal, got exit {rc}: {err[-300:]}"))
        if k == 0:
            other = "Sage" if kind != "Sage" else "MaxQuant"
            out3 = os.path.join(d, f"out_wrong_{m}.txt")
            args = [FLAG[other], files[other], "--methods", m, "--protein_groups_out", out3] + (["--fasta", files["fasta"]] if rem else [])
            rc, err = run_cli(args, env)
            if rc == 0 and not os.path.exists(out3):
                res.append(("skipped", m, ""))
            else:
                res.append(("fail", m, f"input of another type: expected 'No evidence input file found' and exit 0, got exit {rc}: {err[-300:]}"))
        return res

    with concurrent.futures.ThreadPoolExecutor(max_workers=16) as ex:
        for res in ex.map(one, jobs):
            for kind_, m, info in res:
                if kind_ == "completed":
                    stats["completed"] += 1
                elif kind_ == "refused":
                    stats["refused_without_fasta"] += 1
                elif kind_ == "skipped":
                    stats["skipped_wrong_input"] += 1
                elif kind_ == "excluded":
                    stats["excluded_no_ranking"] = stats.get("excluded_no_ranking", 0) + 1
                elif not stats.get("reported"):
                    stats["reported"] = True
                    r.violation("property-failure", {"suite": "cli_sweep", "method": m, "detail": info}, found_input=True,
                                what=f"method {m} from the command line: {info}"[:400])
    # several methods at once, in both orders, mixing methods that remap peptides (need the FASTA map) with ones that do not
    pairs = [("Perc", "savitski_no_remap,picked_protein_group"), ("Perc", "picked_protein_group,savitski_no_remap"),
             ("Perc", "maxquant_perc_best,savitski,classic_no_grouping_no_remap"),
             ("MaxQuant", "picked_protein_group_mq_input_no_remap,picked_protein_group_mq_input"),
             ("MaxQuant", "picked_protein_group_mq_input,picked_protein_group_mq_input_no_remap"),
             ("MaxQuant", "maxquant,savitski_mq_mult")]
    names_all = set(names)
    dm = tempfile.mkdtemp(prefix="c18m_", dir=core.scratch())
    filesm, _ = make_inputs(dm, r.rng)
    stats["multi_method_runs"] = 0
    for kind, ms in pairs:
        if not all(m in names_all for m in ms.split(",")):
            continue
        sub = tempfile.mkdtemp(prefix="pair_", dir=dm)
        outp = os.path.join(sub, "pg.txt")
        rc, err = run_cli([FLAG[kind], filesm[kind], "--fasta", filesm["fasta"], "--methods", ms, "--protein_groups_out", outp], env, cwd=sub)
        outs = [f for f in os.listdir(sub) if f.startswith("pg_")]
        stats["multi_method_runs"] += 1
        if "not enough values to unpack" in err or "too many indices" in err:
            continue
        bad = None
        labels = {pgm.parse_method_toml(m, False).label for m in ms.split(",")}   # methods sharing a label share an output file
        if rc != 0 or len(outs) != len(labels):
            bad = f"exit {rc}, {len(outs)} tables for {ms}: {err[-300:]}"
        else:
            for f in outs:
                h, rows = read_table(os.path.join(sub, f))
                v = table_violation(h, rows)
                if v:
                    bad = f"{f}: {v}"
        if bad and not stats.get("reported"):
            stats["reported"] = True
            r.violation("property-failure", {"suite": "cli_sweep", "methods": ms, "detail": bad}, found_input=True,
                        what=f"methods given at once ({ms}): {bad}"[:400])
    # several methods of DIFFERENT input types while only one input type is supplied: the methods without input are skipped (the tool's
    # own warning), every method whose input is there still writes its table - in either order
    def kind_of(m):
        mc = pgm.parse_method_toml(m, False)
        return {"p": "Perc", "m": "MaxQuant", "f": "FragPipe", "s": "Sage", "d": "DIA-NN"}[mc.score_type.score_origin.short_description()]
    mixed = [("Perc", "picked_protein_group_mq_input_no_remap,savitski_no_remap"), ("Perc", "savitski_no_remap,picked_protein_group_mq_input_no_remap"),
             ("MaxQuant", "savitski_no_remap,picked_protein_group_mq_input_no_remap,sage"),
             ("MaxQuant", "sage,picked_protein_group_mq_input_no_remap")]
    stats["mixed_input_type_runs"] = 0
    for kind, ms in mixed:
        mlist = ms.split(",")
        if not all(m in names_all for m in mlist):
            continue
        sub = tempfile.mkdtemp(prefix="mixed_", dir=dm)
        outp = os.path.join(sub, "pg.txt")
        rc, err = run_cli([FLAG[kind], filesm[kind], "--fasta", filesm["fasta"], "--methods", ms, "--protein_groups_out", outp], env, cwd=sub)
        stats["mixed_input_type_runs"] += 1
        if "not enough values to unpack" in err or "too many indices" in err:
            continue
        want = {pgm.parse_method_toml(m, False).label for m in mlist if kind_of(m) == kind}
        outs = [f for f in os.listdir(sub) if f.startswith("pg")]
        bad = None
        if rc != 0 or len(outs) != len(want):
            bad = f"exit {rc}; tables {sorted(outs)} but {len(want)} of the methods have their input ({kind}): {err[-300:]}"
        else:
            for f in outs:
                h, rows = read_table(os.path.join(sub, f))
                v = table_violation(h, rows)
                if v:
                    bad = f"{f}: {v}"
        if bad and not stats.get("reported"):
            stats["reported"] = True
            r.violation("property-failure", {"suite": "cli_sweep", "methods": ms, "supplied": kind, "detail": bad}, found_input=True,
                        what=f"methods of several input types given at once ({ms}) with only {kind} input: {bad}"[:400])
    # BOTH input types supplied, several files of each and not equally many (2 MaxQuant evidence files, 3 Percolator files), one
    # remapping method per type in one command: every method must report the protein groups it reports when it is given alone with
    # the same files (rows compared by their identifiers without decoy prefix: the tie order depends on the shared random stream)
    if "split" in filesm and {"savitski_mq_best", "savitski"} <= names_all:
        mq = filesm["split"]["MaxQuant"]
        pc = filesm["split"]["Perc"]
        pc3 = [pc[0], pc[0], pc[1]]
        base_args = ["--mq_evidence"] + mq + ["--perc_evidence"] + pc3 + ["--fasta", filesm["fasta"]]

        def ident_sets(sub):
            out_ = {}
            for f in sorted(os.listdir(sub)):
                if f.startswith("pg"):
                    h, rows = read_table(os.path.join(sub, f))
                    out_[f] = sorted(";".join(sorted(x.replace("REV__", "") for x in row[0].split(";"))) for row in rows)
            return out_
        sub = tempfile.mkdtemp(prefix="both_", dir=dm)
        rc, err = run_cli(base_args + ["--methods", "savitski_mq_best,savitski", "--protein_groups_out", os.path.join(sub, "pg.txt")], env, cwd=sub)
        together = ident_sets(sub)
        alone = {}
        for m in ("savitski_mq_best", "savitski"):
            sub1 = tempfile.mkdtemp(prefix="alone_", dir=dm)
            rc1, err1 = run_cli(base_args + ["--methods", m, "--protein_groups_out", os.path.join(sub1, "pg.txt")], env, cwd=sub1)
            got = ident_sets(sub1)
            alone[m] = next(iter(got.values())) if got else None
        stats["both_input_types_runs"] = 1
        if "not enough values to unpack" not in err and not stats.get("reported"):
            if rc != 0 or len(together) != 2 or sorted(map(str, together.values())) != sorted(map(str, alone.values())):
                stats["reported"] = True
                r.violation("property-failure", {"suite": "cli_sweep", "args": base_args, "together": {k: len(v) for k, v in together.items()},
                                                 "alone": {k: (None if v is None else len(v)) for k, v in alone.items()}, "stderr": err[-300:]},
                            found_input=True,
                            what=f"2 MaxQuant + 3 Percolator files with savitski_mq_best,savitski in one command (exit {rc}): the tables list "
                                 f"{ {k: len(v) for k, v in together.items()} } groups, the methods given alone "
                                 f"{ {k: (None if v is None else len(v)) for k, v in alone.items()} }"[:400])
    # two methods at once
    d = tempfile.mkdtemp(prefix="c18b_", dir=core.scratch())
    files, _ = make_inputs(d, r.rng)
    out = os.path.join(d, "multi.txt")
    rc, err = run_cli(["--mq_evidence", files["MaxQuant"], "--fasta", files["fasta"], "--methods",
                       "picked_protein_group_mq_input,savitski_mq_best", "--protein_groups_out", out], env, cwd=d)
    # NB: with several methods the tool drops the directory of --protein_groups_out and writes <stem>_<label><suffix>
    # into the current working directory (observed, recorded in DESIGN.md; not part of C18 as stated)
    outs = [f for f in os.listdir(d) if f.startswith("multi")]
    if rc != 0 or len(outs) != 2:
        if "not enough values to unpack" not in err:
            r.violation("property-failure", {"suite": "cli_sweep", "detail": err[-400:], "files": outs}, found_input=True,
                        what="two methods given at once did not produce two tables")
    stats["two_methods_outputs"] = outs
    return stats


def glue_differential(r, n_inputs):
    """the command-line layer above the modelled functions: for every shipped method and randomly drawn options (keep-all, the two FDR
    options, digestion parameters, identifier rule flags, warning suppression, with / without FASTA) the table the CLI writes must be
    byte-identical to the table obtained by composing - in the harness, with the options placed by hand - the functions the models are
    tied to: get_protein_annotations (C19), the digest map (C09), parse_evidence_files (C10), get_protein_group_results (Model/Pipeline.v)
    and the minimal writer (C13). An option that reaches the wrong callee, is dropped, or is applied on one side of the glue only shows
    up as a difference."""
    import numpy as np
    from picked_group_fdr import picked_group_fdr as pgf, methods as pgm, digest, entrapment, protein_annotation, writers
    from picked_group_fdr.digestion_params import DigestionParams
    from picked_group_fdr.parsers import evidence
    rng = r.rng
    names = shipped_methods()

    def reference(files, kind, m, o, out):
        np.random.seed(1)
        fasta = [files["fasta"]] if o["fasta"] else None
        ann, pseudo = protein_annotation.get_protein_annotations(fasta, o["decoys"], o["gene_level"], o["uniprot"])
        mc = pgm.parse_method_toml(m, pseudo)
        maps = [None]
        if mc.grouping_strategy.needs_peptide_to_protein_map() or mc.score_type.remaps_peptides_to_proteins():
            if not fasta:
                raise ValueError("No fasta")
            parse_id = digest.parse_until_first_space
            if o["gene_level"] and not pseudo:
                parse_id = protein_annotation.parse_gene_name_func
            elif o["uniprot"]:
                parse_id = protein_annotation.parse_uniprot_id
            maps = []
            for enzyme in o["enzymes"]:
                maps.append(digest.get_peptide_to_protein_map_from_params(
                    fasta, [DigestionParams(enzyme, "full", o["minl"], o["maxl"], o["cleav"], o["special"], o["decoys"])], parse_id=parse_id))
                entrapment.mark_entrapment_proteins(maps[-1], None)
        evs = [files[kind]] * len(o["enzymes"]) if len(o["enzymes"]) > 1 else [files[kind]]
        pil = evidence.parse_evidence_files(evs, maps, mc.score_type, o["suppress"])
        res = pgf.get_protein_group_results(pil, None, mc, None, o["keep_all"], o["thr"], o["psm"])
        w = writers.MinimalProteinGroupsWriter(ann)
        w.append_quant_columns(res, None, o["psm"])
        w.write(res, out)

    n = 0
    for k in range(n_inputs):
        d = tempfile.mkdtemp(prefix="c18g_", dir=core.scratch())
        files, psms = make_inputs(d, rng)
        if rng.random() < 0.6:
            # records without a gene name: none, about half (pseudo-genes when more than half lack one) or most of them
            share = rng.choice([0.0, 0.5, 0.8])
            import re
            lines = open(files["fasta"]).read().split("\n")
            lines = [re.sub(r" GN=\S+", "", ln) if ln.startswith(">") and rng.random() < share else ln for ln in lines]
            open(files["fasta"], "w").write("\n".join(lines))
        for m in names:
            mc = pgm.parse_method_toml(m, False)
            kind = {"p": "Perc", "m": "MaxQuant", "f": "FragPipe", "s": "Sage", "d": "DIA-NN"}[mc.score_type.score_origin.short_description()]
            rem = mc.grouping_strategy.needs_peptide_to_protein_map() or mc.score_type.remaps_peptides_to_proteins()
            o = {"keep_all": rng.random() < 0.4, "thr": rng.choice([0.01, 0.3, 1.0]), "psm": rng.choice([0.01, 0.1, 0.5]),
                 "enzymes": rng.choice([["trypsin"], ["trypsin"], ["trypsinp"], ["lys-c"], ["trypsin", "lys-c"]]),
                 "cleav": rng.choice([2, 1, 0]), "minl": rng.choice([7, 6, 9]), "maxl": rng.choice([60, 40, 25]),
                 "special": rng.choice(["KR", "none", "K"]), "suppress": rng.random() < 0.5, "fasta": rem or rng.random() < 0.5,
                 "decoys": rng.random() < 0.2, "gene_level": rng.random() < 0.25, "uniprot": rng.random() < 0.3}
            out, ref = os.path.join(d, f"cli_{m}.txt"), os.path.join(d, f"ref_{m}.txt")
            evs = [files[kind]] * len(o["enzymes"])
            argv = [FLAG[kind]] + evs + ["--methods", m, "--protein_groups_out", out, "--protein_group_fdr_threshold", str(o["thr"]),
                                         "--psm_fdr_cutoff", str(o["psm"]), "--enzyme"] + o["enzymes"] + \
                   ["--cleavages", str(o["cleav"]), "--min-length", str(o["minl"]), "--max-length", str(o["maxl"]), "--special-aas", o["special"]]
            for flag, key in (("--keep_all_proteins", "keep_all"), ("--suppress_missing_peptide_warning", "suppress"),
                              ("--fasta_contains_decoys", "decoys"), ("--gene_level", "gene_level"), ("--fasta_use_uniprot_id", "uniprot")):
                if o[key]:
                    argv.append(flag)
            if o["fasta"]:
                argv += ["--fasta", files["fasta"]]
            e1 = e2 = None
            try:
                pgf.main(argv)
            except BaseException as e:  # noqa
                e1 = type(e).__name__
            try:
                reference(files, kind, m, o, ref)
            except BaseException as e:  # noqa
                e2 = type(e).__name__
            n += 1
            a = open(out, "rb").read() if os.path.exists(out) else None
            b = open(ref, "rb").read() if os.path.exists(ref) else None
            if a != b or e1 != e2:
                r.violation("property-failure",
                            {"suite": "glue_differential", "method": m, "options": o, "argv": argv, "fasta": open(files["fasta"]).read(),
                             "evidence": open(files[kind]).read()[:4000], "cli_error": e1, "composition_error": e2,
                             "cli_table": None if a is None else a.decode(errors="replace")[:3000],
                             "composition_table": None if b is None else b.decode(errors="replace")[:3000]}, True,
                            f"glue_differential: method {m} with options {o}: the table written by the command line differs from the "
                            f"composition of the modelled functions (errors: {e1} / {e2})"[:600])
                return n
    return n


def gen_table_matches(r):
    """the regenerated Coq table (Gen/Methods_gen.v) agrees with the objects the real parser builds"""
    from picked_group_fdr import methods as pgm
    gen = open(os.path.join(core.THEORIES, "Gen", "Methods_gen.v")).read()
    for m in shipped_methods():
        term = method_term(pgm.parse_method_toml(m, False))
        if f'((s2l "{m}"), {term},' not in gen:
            r.violation("correspondence", {"suite": "gen_methods", "method": m, "real": term}, found_input=False,
                        what=f"regenerated method table disagrees with parse_method_toml for {m}")
            return False
    return True


def run(r: core.Runner):
    r.assumptions += [
        "input with no group having any evidence peptide (tool dies in zip/array indexing) is outside the property's domain",
        "the in-process inference of every shipped method is tied to Model/Pipeline.v (oracles recorded); the CLI layer "
        "(argument handling, parsing, writing) is exercised by subprocess runs and checked with the row-level monitor, and compared "
        "byte for byte with the hand-placed composition of the modelled functions under randomly drawn options (glue_differential)",
    ]
    gen_table_matches(r)
    s = SUITES[0]
    orig = r.violation

    def violation(kind, data, found_input, what):
        if data.get("suite") == s.name and "case" in data:
            v = pipeline_property_violation(data["case"], s.impl(data["case"]))
            if v:
                kind, found_input, what = "property-failure", True, f"{s.name}: {v}"
        orig(kind, data, found_input, what)
    r.violation = violation
    r.run_suite(s)
    stats = cli_sweep(r, core.tier_n(r.tier, 2, 20))
    r.extra["cli_sweep"] = stats
    stats["glue_differential_runs"] = glue_differential(r, core.tier_n(r.tier, 6, 60))
    r.traces = stats["completed"] + stats["refused_without_fasta"] + stats["skipped_wrong_input"] + stats["glue_differential_runs"]
