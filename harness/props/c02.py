"""C02 — picked competition vs Model/Competition.v."""
from .. import core, gens
from .competition_common import CompetitionSuite, property_violation

SUITES = [CompetitionSuite()]


def suite_by_name(name):
    return next(s for s in SUITES if s.name == name)


def install_classifier(r, s):
    orig = r.violation

    def violation(kind, data, found_input, what):
        if data.get("suite") == s.name and "case" in data:
            out = s.impl(data["case"])
            v = property_violation(data["case"], out)
            if v:
                kind, found_input = "property-failure", True
                what = f"{s.name}: {v}"
        orig(kind, data, found_input, what)
    r.violation = violation


def many_peptides(r, n_cases):
    """groups whose members have HUNDREDS of peptides (isoform groups of abundant proteins; far more terms than the in-Coq evaluation
    takes): several members tied at the highest peptide count, and lower-scoring groups carrying the twins of the tied members -
    the property monitor decides (monitor only)"""
    from .competition_common import run_competition, property_violation
    n = 0
    for k in range(n_cases):
        rng = r.rng
        npep = rng.choice([200, 256, 257, 300, 1000])
        members = ["A", "B", "C"][:rng.choice([2, 3])]
        decoy_first = rng.random() < 0.5
        top = [("REV__" + m) if decoy_first else m for m in members]
        infos_top = [[gens.fr(rng.choice([0.001, 0.01, 0.002])), f"PEP{i}K", list(top)] for i in range(npep)]
        if rng.random() < 0.5:
            infos_top.append([gens.fr(0.02), "ONLYFIRSTK", [top[0]]])         # the first member alone at the top count
        groups, infos, scores = [top], [infos_top], [gens.fr(4.0)]
        for m in members:
            twin = m if decoy_first else "REV__" + m
            groups.append([twin])
            infos.append([[gens.fr(0.01), f"TW{m}K", [twin]]])
            scores.append(gens.fr(rng.choice([2.0, 3.0])))
        order = list(range(len(groups)))
        rng.shuffle(order)
        case = {"strategy": rng.choice(["picked_group", "picked_group", "picked"]), "groups": [groups[i] for i in order],
                "infos": [infos[i] for i in order], "scores": [scores[i] for i in order], "seed": rng.randint(0, 2 ** 31 - 1)}
        out = run_competition(case["strategy"], case["groups"], case["infos"], case["scores"], case["seed"])
        n += 1
        v = "raised-" + out["raise"] if "raise" in out else property_violation(case, out)
        if v:
            small = dict(case, infos=[inf if len(inf) < 10 else inf[:3] + [f"... {len(inf)} peptides of this form in all"] for inf in case["infos"]])
            r.violation("property-failure", {"suite": "many_peptides", "peptides_per_member": npep, "case": small,
                                             "survivors": [g for g, _, _ in out.get("ok", [])], "problem": v}, True,
                        f"many_peptides: {len(members)} members with {npep} shared peptides each, strategy {case['strategy']}: {v}; "
                        f"survivors {[g for g, _, _ in out.get('ok', [])]}"[:400])
            return n
    return n


def run(r: core.Runner):
    r.traces = (r.traces or 0) + many_peptides(r, core.tier_n(r.tier, 30, 300))
    r.assumptions += [
        "Python's sorted is stable, also with reverse=True (language guarantee)",
        "np.random.shuffle applies one permutation using len-1 draws whatever the element type, so shuffling an "
        "index list under the same RNG state records exactly the permutation applied to the data",
        "scores are supplied by a stub scorer (the real scores are C05's subject)",
    ]
    s = SUITES[0]
    install_classifier(r, s)
    r.run_suite(s)
