"""C02 — picked competition vs Model/Competition.v."""
from .. import core
from .competition_common import CompetitionSuite, property_violation

SUITES = [CompetitionSuite()]


def suite_by_name(name):
    return next(s for s in SUITES if s.name == name)


def install_classifier(r, s):
    orig = r.violation

    def violation(kind, data, found_input, what):
        if data.get("suite") == s.name and "case" in data:
            out = s.impl(data["case"])
            v = property_violation(data["case"], out)
            if v:
                kind, found_input = "property-failure", True
                what = f"{s.name}: {v}"
        orig(kind, data, found_input, what)
    r.violation = violation


def run(r: core.Runner):
    r.assumptions += [
        "Python's sorted is stable, also with reverse=True (language guarantee)",
        "np.random.shuffle applies one permutation using len-1 draws whatever the element type, so shuffling an "
        "index list under the same RNG state records exactly the permutation applied to the data",
        "scores are supplied by a stub scorer (the real scores are C05's subject)",
    ]
    s = SUITES[0]
    install_classifier(r, s)
    r.run_suite(s)
