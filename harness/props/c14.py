"""C14 — tie breaking: do_competition with recorded shuffles vs Model/Competition.v, plus a statistical
frequency test used as supporting evidence / failing-input search (never as the proof)."""
import math

from .. import core
from .competition_common import CompetitionSuite, property_violation, run_competition
from .c02 import install_classifier


class TieSuite(CompetitionSuite):
    name = "do_competition_ties"
    rule = ("as C02's generator but with scores drawn from a 2-value set so that nearly every case has target/decoy "
            "ties, groups arriving targets-first / decoys-first / interleaved; the permutations numpy applied are "
            "recorded and replayed in the model; non-trivial = a tie class containing both a target and a decoy")

    def gen(self, rng, tier):
        from .competition_common import gen_case
        from .. import gens
        for _ in range(core.tier_n(tier, 1500, 30000)):
            c = gen_case(rng)
            c["scores"] = [gens.fr(rng.choice([1.0, 2.0])) for _ in c["scores"]]
            order = rng.choice(["targets_first", "decoys_first", "as_is"])
            if order != "as_is":
                idx = sorted(range(len(c["groups"])),
                             key=lambda i: (all("REV__" in p or "rev_" in p for p in c["groups"][i]) == (order == "targets_first")))
                for k in ("groups", "infos", "scores"):
                    c[k] = [c[k][i] for i in idx]
            yield c

    def nontrivial(self, case, out):
        if "ok" not in out:
            return False
        by = {}
        for g, _, s in out["ok"]:
            d = all("REV__" in p or "rev_" in p for p in g)
            by.setdefault(s, set()).add(d)
        return any(len(v) == 2 for v in by.values())


SUITES = [TieSuite()]


def suite_by_name(name):
    return next(s for s in SUITES if s.name == name)


def frequency_test(r, n_seeds):
    """k tied target/decoy groups, targets listed first: P(first ranked group is a target) must be 1/2."""
    results = {}
    scenarios = {
        "targets_vs_decoys": [["T1"], ["T2"], ["T3"], ["REV__D1"], ["REV__D2"], ["REV__D3"]],
        # placeholder (OBSOLETE__) targets tie with regular decoys after the rescue step
        "placeholder_targets_vs_decoys": [["OBSOLETE__T1"], ["OBSOLETE__T2"], ["OBSOLETE__T3"], ["REV__D1"], ["REV__D2"], ["REV__D3"]],
        "decoys_listed_first": [["REV__D1"], ["REV__D2"], ["REV__D3"], ["T1"], ["T2"], ["T3"]],
    }
    # a target and its own decoy twin with equal scores: which of them survives the picked competition must be a coin flip,
    # whichever is listed first
    twins = {"twin_target_listed_first": [["T1"], ["REV__T1"], ["T2"], ["REV__T2"], ["T3"], ["REV__T3"]],
             "twin_decoy_listed_first": [["REV__T1"], ["T1"], ["REV__T2"], ["T2"], ["REV__T3"], ["T3"]]}
    for sname, groups in twins.items():
        infos = [[["1/1024", f"PEP{i}K", list(g)]] for i, g in enumerate(groups)]
        scores = ["2/1"] * 6
        for strat in ("picked_group", "picked"):
            wins, total = 0, 0
            for seed in range(n_seeds):
                out = run_competition(strat, groups, infos, scores, seed + 1000 * r.seed)
                if "ok" in out:
                    surv = [g[0][0] for g in out["ok"]]
                    total += 3
                    wins += sum(1 for x in surv if "REV__" not in x)
            z = (wins - total / 2) / math.sqrt(max(total, 1) / 4)
            results[f"{sname}/{strat}"] = {"seeds": n_seeds, "pairs": total, "target_survives": wins, "z": round(z, 2)}
            if abs(z) > 6 and not results.get("reported"):
                results["reported"] = True
                r.violation("property-failure",
                            {"suite": "frequency_test", "scenario": sname, "strategy": strat, "groups": groups, "scores": scores,
                             "seeds": [1000 * r.seed, 1000 * r.seed + n_seeds], "target_survives": wins, "pairs": total},
                            found_input=True,
                            what=f"tied twin competition is biased ({sname}, {strat}): the target survives in {wins}/{total} pairs (z={z:.1f})")
    for sname, groups in scenarios.items():
        infos = [[["1/1024", f"PEP{i}K", list(g)]] for i, g in enumerate(groups)]
        scores = ["2/1"] * 6
        for strat in ("picked_group", "classic", "picked"):
            first_target = 0
            for seed in range(n_seeds):
                out = run_competition(strat, groups, infos, scores, seed + 1000 * r.seed)
                if "ok" in out and "REV__" not in out["ok"][0][0][0]:
                    first_target += 1
            z = (first_target - n_seeds / 2) / math.sqrt(n_seeds / 4)
            results[f"{sname}/{strat}"] = {"seeds": n_seeds, "target_first": first_target, "z": round(z, 2)}
            if abs(z) > 6 and not results.get("reported"):
                results["reported"] = True
                r.violation("property-failure",
                            {"suite": "frequency_test", "scenario": sname, "strategy": strat, "groups": groups, "scores": scores,
                             "seeds": [1000 * r.seed, 1000 * r.seed + n_seeds], "target_first": first_target},
                            found_input=True,
                            what=f"tie order is biased ({sname}, {strat}): target ranked first in {first_target}/{n_seeds} runs (z={z:.1f})")
    r.extra["statistical_support"] = results


def run(r: core.Runner):
    r.assumptions += [
        "numpy's Fisher-Yates shuffle on MT19937 is uniform (trusted; the theorems show the code adds no bias of its own)",
        "np.random.shuffle applies one permutation using len-1 draws whatever the element type (recorded via an index list)",
    ]
    s = SUITES[0]
    install_classifier(r, s)
    r.run_suite(s)
    frequency_test(r, core.tier_n(r.tier, 300, 3000))
